// Driver `auth` (property C08): password login on the REAL code.
//
// Every history is one group description, generated as a structured record,
// rendered as JSON text and decoded by the real unmarshaller
// (json.Unmarshal into group.Description for `login`, a group file read by
// group.AddClient for `join`).  The Coq model receives the generator's view
// of the description (what the JSON text means), the credentials and, as
// data, the values of the hash functions it may need (PBKDF2-HMAC-SHA256 and
// bcrypt comparison, computed here with golang.org/x/crypto directly); which
// entry is consulted, shadowing, error handling, role expansion and flags
// are the model's.  Stream `tool` runs the real galenectl binary
// (hash-password) and checks the round trip through group.Password.Match.
//
// Stream `iso` (component authiso, Model/AuthHeap.v): several clients whose
// permission lists are created by the real webClient.Init and edited by the
// real remove/addnew; isolation of clients, role table and description.
//
// Monitors (independent of the model): accept_iff, shadow, empty_never,
// exact_permissions (table written by hand from the property text),
// refused_outside (group.AddClient with a recording client), hash_roundtrip,
// hash_roundtrip_long (lengths 0..200 with every hashing algorithm of the tool),
// hash_no_other (tested fact; the collisions inherent in bcrypt and in
// HMAC are the known findings F22/F23, reported under the tokens
// bcrypt-truncation and pbkdf2-hmac-padding).
package main

import (
	"bytes"
	"crypto/sha256"
	"encoding/base64"
	"encoding/hex"
	"encoding/json"
	"errors"
	"fmt"
	"io"
	"log"
	"net"
	"os"
	"os/exec"
	"path/filepath"
	"sort"
	"strings"
	"time"
	"unicode/utf8"

	"golang.org/x/crypto/bcrypt"
	"golang.org/x/crypto/pbkdf2"

	"github.com/jech/galene/conn"
	"github.com/jech/galene/group"
	"github.com/jech/galene/rtpconn"

	"verifharness/internal/sigdrv"
	"verifharness/internal/tr"
)

// ---------------------------------------------------------------- records

type pwRec struct {
	form string // absent | bare | null | object
	Type string
	Hash string
	Key  *string
	Salt string
	Iter int
	// generator knowledge: a password this record is meant to accept
	clear    string
	hasClear bool
	// object form only: emit zero-valued fields explicitly
	verbose bool
	// tool stream: the JSON text printed by galenectl, used verbatim
	rawJSON string
}

type permRec struct {
	form string // absent | null | name | raw
	name string
	raw  []string
}

type userRec struct {
	name string
	pw   pwRec
	perm permRec
}

type descRec struct {
	users     []userRec
	usersForm string // map | absent | null
	wild      *userRec
	ar, ut    bool
	verbose   bool
}

func q(s string) string {
	b, err := json.Marshal(s)
	if err != nil {
		panic(err)
	}
	return string(b)
}

func (p pwRec) json() (string, bool) {
	if p.rawJSON != "" {
		return p.rawJSON, true
	}
	switch p.form {
	case "absent":
		return "", false
	case "bare":
		return q(*p.Key), true
	case "null":
		return "null", true
	}
	var fs []string
	if p.Type != "" || p.verbose {
		fs = append(fs, `"type":`+q(p.Type))
	}
	if p.Hash != "" || p.verbose {
		fs = append(fs, `"hash":`+q(p.Hash))
	}
	if p.Key != nil {
		fs = append(fs, `"key":`+q(*p.Key))
	} else if p.verbose {
		fs = append(fs, `"key":null`)
	}
	if p.Salt != "" || p.verbose {
		fs = append(fs, `"salt":`+q(p.Salt))
	}
	if p.Iter != 0 || p.verbose {
		fs = append(fs, fmt.Sprintf(`"iterations":%d`, p.Iter))
	}
	return "{" + strings.Join(fs, ",") + "}", true
}

// view is what the JSON text means (the model's input).
func (p pwRec) view() pwRec {
	switch p.form {
	case "absent":
		return pwRec{}
	case "bare":
		return pwRec{Type: "plain", Key: p.Key}
	case "null":
		// Password.UnmarshalJSON accepts null as the empty string
		e := ""
		return pwRec{Type: "plain", Key: &e}
	}
	return pwRec{Type: p.Type, Hash: p.Hash, Key: p.Key, Salt: p.Salt, Iter: p.Iter}
}

func (p permRec) json() (string, bool) {
	switch p.form {
	case "absent":
		return "", false
	case "null":
		return "null", true
	case "name":
		return q(p.name), true
	}
	parts := make([]string, len(p.raw))
	for i, s := range p.raw {
		parts[i] = q(s)
	}
	return "[" + strings.Join(parts, ",") + "]", true
}

func (u userRec) json() string {
	var fs []string
	if s, ok := u.pw.json(); ok {
		fs = append(fs, `"password":`+s)
	}
	if s, ok := u.perm.json(); ok {
		fs = append(fs, `"permissions":`+s)
	}
	return "{" + strings.Join(fs, ",") + "}"
}

func (d descRec) json() string {
	var fs []string
	switch d.usersForm {
	case "map":
		var us []string
		for _, u := range d.users {
			us = append(us, q(u.name)+":"+u.json())
		}
		fs = append(fs, `"users":{`+strings.Join(us, ",")+"}")
	case "null":
		fs = append(fs, `"users":null`)
	}
	if d.wild != nil {
		fs = append(fs, `"wildcard-user":`+d.wild.json())
	}
	if d.ar || d.verbose {
		fs = append(fs, fmt.Sprintf(`"allow-recording":%v`, d.ar))
	}
	if d.ut || d.verbose {
		fs = append(fs, fmt.Sprintf(`"unrestricted-tokens":%v`, d.ut))
	}
	return "{" + strings.Join(fs, ",") + "}"
}

// trace tokens -------------------------------------------------------------

func hx(s string) string { return tr.Hex([]byte(s)) }

func permList(l []string) string {
	if len(l) == 0 {
		return "-"
	}
	parts := make([]string, len(l))
	for i, s := range l {
		parts[i] = "x" + hex.EncodeToString([]byte(s))
	}
	return strings.Join(parts, ",")
}

func sortedPerms(l []string) string {
	c := append([]string{}, l...)
	sort.Strings(c)
	return permList(c)
}

func (u userRec) token() string {
	p := u.pw.view()
	key := "~"
	if p.Key != nil {
		key = hx(*p.Key)
	}
	name, raw := "", []string(nil)
	switch u.perm.form {
	case "name":
		name = u.perm.name
	case "raw":
		raw = u.perm.raw
	}
	return strings.Join([]string{hx(u.name), hx(p.Type), hx(p.Hash), key, hx(p.Salt),
		fmt.Sprint(p.Iter), hx(name), permList(raw)}, "/")
}

func (d descRec) params() []interface{} {
	out := []interface{}{tr.B(d.ar), tr.B(d.ut)}
	if d.wild != nil {
		out = append(out, d.wild.token())
	} else {
		out = append(out, "~")
	}
	if d.usersForm == "map" {
		for _, u := range d.users {
			out = append(out, u.token())
		}
	}
	return out
}

func (d descRec) find(name string) *userRec {
	if d.usersForm != "map" {
		return nil
	}
	for i := range d.users {
		if d.users[i].name == name {
			return &d.users[i]
		}
	}
	return nil
}

// -------------------------------------------------- independent references

// bcryptOut classifies bcrypt.CompareHashAndPassword: m(atch), x (mismatch), e(rror).
func bcryptOut(hash, pw string) string {
	err := bcrypt.CompareHashAndPassword([]byte(hash), []byte(pw))
	if err == nil {
		return "m"
	}
	if errors.Is(err, bcrypt.ErrMismatchedHashAndPassword) {
		return "x"
	}
	return "e"
}

// myMatch: does the password match the record?  Written from the property
// text: plain = equality, wildcard = always, pbkdf2/bcrypt = the hash
// verifies; an empty or malformed record never matches.
func myMatch(p pwRec, pw string) bool {
	switch p.Type {
	case "plain":
		return p.Key != nil && *p.Key == pw
	case "wildcard":
		return true
	case "pbkdf2":
		if p.Key == nil || p.Hash != "sha-256" {
			return false
		}
		key, err1 := hex.DecodeString(*p.Key)
		salt, err2 := hex.DecodeString(p.Salt)
		if err1 != nil || err2 != nil {
			return false
		}
		return bytes.Equal(key, pbkdf2.Key([]byte(pw), salt, p.Iter, len(key), sha256.New))
	case "bcrypt":
		return p.Key != nil && bcryptOut(*p.Key, pw) == "m"
	}
	return false
}

// oracle lists the hash values the model may need for this record.
func oracle(p pwRec, pw string) []string {
	switch p.Type {
	case "pbkdf2":
		if p.Key == nil {
			return nil
		}
		key, err1 := hex.DecodeString(*p.Key)
		salt, err2 := hex.DecodeString(p.Salt)
		if err1 != nil || err2 != nil {
			return nil
		}
		res := pbkdf2.Key([]byte(pw), salt, p.Iter, len(key), sha256.New)
		return []string{fmt.Sprintf("p:%s:%s:%d:%d:%s", hx(pw), tr.Hex(salt), p.Iter, len(key), tr.Hex(res))}
	case "bcrypt":
		if p.Key == nil {
			return nil
		}
		return []string{fmt.Sprintf("b:%s:%s:%s", hx(*p.Key), hx(pw), bcryptOut(*p.Key, pw))}
	}
	return nil
}

// myValidUsername: empty, or a relative slash-separated path without
// backslash, empty components, "." or "..".
func myValidUsername(u string) bool {
	if u == "" {
		return true
	}
	if strings.Contains(u, "\\") {
		return false
	}
	for _, c := range strings.Split(u, "/") {
		if c == "" || c == "." || c == ".." {
			return false
		}
	}
	return true
}

// specTable is the role table, written by hand.
var specTable = map[string][]string{
	"op":      {"op", "present", "message", "caption", "token"},
	"present": {"present", "message"},
	"message": {"message"},
	"observe": {},
	"caption": {"caption"},
	"admin":   {"admin"},
}

func contains(l []string, s string) bool {
	for _, x := range l {
		if x == s {
			return true
		}
	}
	return false
}

// specPerms: the role's permissions, plus record for operators of groups
// that allow recording, plus token for presenters of unrestricted-token
// groups (operators have it by role); raw arrays verbatim.
func specPerms(p permRec, ar, ut bool) []string {
	switch p.form {
	case "raw":
		return p.raw
	case "name":
		out := append([]string{}, specTable[p.name]...)
		if ar && contains(out, "op") {
			out = append(out, "record")
		}
		if ut && contains(out, "present") && !contains(out, "token") {
			out = append(out, "token")
		}
		return out
	}
	return nil
}

func classify(err error) string {
	if err == nil {
		return "ok"
	}
	if err == group.ErrBadPassword {
		return "badpw"
	}
	if err == group.ErrNoSuchUsername {
		return "nouser"
	}
	var na *group.NotAuthorisedError
	if errors.As(err, &na) {
		if strings.Contains(err.Error(), "invalid username") {
			return "baduser"
		}
		return "notauth"
	}
	var ib hex.InvalidByteError
	if errors.As(err, &ib) || errors.Is(err, hex.ErrLength) {
		return "badhex"
	}
	var e1 bcrypt.HashVersionTooNewError
	var e2 bcrypt.InvalidHashPrefixError
	var e3 bcrypt.InvalidCostError
	var e4 base64.CorruptInputError
	if errors.Is(err, bcrypt.ErrHashTooShort) || errors.As(err, &e1) || errors.As(err, &e2) ||
		errors.As(err, &e3) || errors.As(err, &e4) {
		return "bcrypterr"
	}
	switch err.Error() {
	case "missing key":
		return "missingkey"
	case "unknown hash type":
		return "unkhash"
	case "unknown password type":
		return "unktype"
	case "neither username nor token provided":
		return "nocreds"
	case "username not provided":
		return "nousername"
	}
	return "other"
}

// ---------------------------------------------------------- recording client

type fakeClient struct {
	id       string
	username string
	perms    []string
	inits    int
	g        *group.Group
}

func (c *fakeClient) Group() *group.Group { return c.g }
func (c *fakeClient) Addr() net.Addr      { return nil }
func (c *fakeClient) Id() string          { return c.id }
func (c *fakeClient) Username() string    { return c.username }
func (c *fakeClient) Init(u string, p []string) {
	c.username = u
	c.perms = append([]string(nil), p...)
	c.inits++
}
func (c *fakeClient) Permissions() []string        { return c.perms }
func (c *fakeClient) Data() map[string]interface{} { return nil }
func (c *fakeClient) PushConn(g *group.Group, id string, up conn.Up, tracks []conn.UpTrack, replace string) error {
	return nil
}
func (c *fakeClient) RequestConns(target group.Client, g *group.Group, id string) error { return nil }
func (c *fakeClient) Joined(group, kind string) error                                   { return nil }
func (c *fakeClient) PushClient(group, kind, id, username string, perms []string, data map[string]interface{}) error {
	return nil
}
func (c *fakeClient) Kick(id string, user *string, message string) error { return nil }

// ------------------------------------------------------------------ history

type authHist struct {
	t      *tr.Trace
	r      *tr.Rand
	d      descRec
	js     string
	desc   group.Description
	gname  string
	nOK    int
	nRef   int
	nextID int
	// variants for the shadow monitor (decoded lazily)
	noWild, opWild *group.Description
}

var dir string
var histNo int

func newAuthHist(t *tr.Trace, r *tr.Rand, stream string, d descRec) *authHist {
	histNo++
	h := &authHist{t: t, r: r, d: d, js: d.json(), gname: fmt.Sprintf("h%d", histNo)}
	t.History("auth", stream, d.params()...)
	if err := json.Unmarshal([]byte(h.js), &h.desc); err != nil {
		// the generator only produces descriptions that decode
		t.Fail("C08", "harness", "generated description does not decode: "+err.Error()+" "+h.js)
	}
	if err := os.WriteFile(filepath.Join(dir, h.gname+".json"), []byte(h.js), 0600); err != nil {
		panic(err)
	}
	return h
}

// consulted returns the entry the property says is consulted.
func (h *authHist) consulted(username string) (*userRec, bool) {
	if u := h.d.find(username); u != nil {
		return u, true
	}
	return h.d.wild, false
}

func (h *authHist) oracleFor(username *string, pw string) string {
	var o []string
	if username != nil {
		if u := h.d.find(*username); u != nil {
			o = append(o, oracle(u.pw.view(), pw)...)
		}
	}
	if h.d.wild != nil {
		o = append(o, oracle(h.d.wild.pw.view(), pw)...)
	}
	if len(o) == 0 {
		return "-"
	}
	return strings.Join(o, ",")
}

func userTok(u *string) string {
	if u == nil {
		return "~"
	}
	return hx(*u)
}

func (h *authHist) variant(mod func(d *descRec)) *group.Description {
	d2 := h.d
	mod(&d2)
	var out group.Description
	if err := json.Unmarshal([]byte(d2.json()), &out); err != nil {
		panic(err)
	}
	return &out
}

func (h *authHist) monitors(username *string, pw string, class string, user string, perms []string) {
	t := h.t
	if username == nil {
		t.Checked("C08.accept_iff")
		if class == "ok" {
			t.Fail("C08", "accept_iff", "accepted without a username")
		}
		return
	}
	entry, named := h.consulted(*username)
	should := entry != nil && myMatch(entry.pw.view(), pw) && myValidUsername(*username)
	t.Checked("C08.accept_iff")
	if (class == "ok") != should {
		what := "the wildcard user"
		if named {
			what = "the entry of that name"
		} else if entry == nil {
			what = "nothing (no entry, no wildcard user)"
		}
		t.Fail("C08", "accept_iff", fmt.Sprintf("user %q password %q: result %s, but matching %s says accepted=%v",
			*username, pw, class, what, should))
	}
	if named {
		t.Checked("C08.empty_never")
		if entry.pw.view().Type == "" && class == "ok" {
			t.Fail("C08", "empty_never", fmt.Sprintf("user %q has an entry without password and was accepted with %q", *username, pw))
		}
		if h.r.Chance(1, 3) {
			// an entry shadows the wildcard user: the result must not depend on it
			if h.noWild == nil {
				h.noWild = h.variant(func(d *descRec) { d.wild = nil })
				h.opWild = h.variant(func(d *descRec) {
					d.wild = &userRec{pw: pwRec{form: "object", Type: "wildcard"},
						perm: permRec{form: "name", name: "op"}}
				})
			}
			for _, v := range []*group.Description{h.noWild, h.opWild} {
				t.Checked("C08.shadow")
				var u2 string
				var p2 []string
				var err2 error
				watched(t, fmt.Sprintf("GetPermission(%s, %q) (wildcard variant)", userTok(username), pw), func() {
					u2, p2, err2 = v.GetPermission(h.gname, group.ClientCredentials{Username: username, Password: pw})
				})
				if classify(err2) != class || u2 != user || sortedPerms(p2) != sortedPerms(perms) {
					t.Fail("C08", "shadow", fmt.Sprintf("user %q password %q: %s %v with the configured wildcard user, %s %v with another one",
						*username, pw, class, perms, classify(err2), p2))
				}
			}
		}
	}
	if class == "ok" && entry != nil { // entry == nil: already reported by accept_iff
		t.Checked("C08.exact_permissions")
		want := specPerms(entry.perm, h.d.ar, h.d.ut)
		if sortedPerms(want) != sortedPerms(perms) {
			t.Fail("C08", "exact_permissions", fmt.Sprintf("user %q (permissions %v %q %v, allow-recording=%v unrestricted-tokens=%v) was granted %v, expected %v",
				*username, entry.perm.form, entry.perm.name, entry.perm.raw, h.d.ar, h.d.ut, perms, want))
		}
		if user != *username {
			t.Fail("C08", "exact_permissions", fmt.Sprintf("logged in as %q, got username %q", *username, user))
		}
	}
}

// watched runs one call into the implementation under a watchdog: a login or
// join attempt must be answered.  One that does not return within 60 s (a
// leaked slot of the hashing semaphore, a lock never released) is a refusal
// of whatever was presented, the right password included; the goroutine is
// stuck, so the driver reports and stops.
func watched(t *tr.Trace, what string, f func()) {
	done := make(chan struct{})
	go func() { f(); close(done) }()
	t.Checked("C08.login_answered")
	select {
	case <-done:
	case <-time.After(60 * time.Second):
		t.Fail("C08", "login_answered", what+" did not return within 60 s: after the attempts made so far in this process a login, with the right password too, is never answered any more")
		t.Abort("a login attempt never returned")
	}
}

func (h *authHist) login(username *string, pw string) string {
	var user string
	var perms []string
	var err error
	watched(h.t, fmt.Sprintf("GetPermission(%s, %q) after %d accepted and %d refused attempts", userTok(username), pw, h.nOK, h.nRef), func() {
		user, perms, err = h.desc.GetPermission(h.gname, group.ClientCredentials{Username: username, Password: pw})
	})
	class := classify(err)
	obs := class
	if err == nil {
		obs = fmt.Sprintf("ok %s %s", hx(user), sortedPerms(perms))
		h.nOK++
	} else {
		h.nRef++
		if user != "" || perms != nil {
			h.t.Fail("C08", "accept_iff", fmt.Sprintf("error %v together with username %q permissions %v", err, user, perms))
		}
	}
	h.t.Note("result=" + class)
	h.t.Op(obs, "login", userTok(username), hx(pw), h.oracleFor(username, pw))
	h.monitors(username, pw, class, user, perms)
	return class
}

// join: the same attempt through group.AddClient (description read from the
// group file) with a recording client.
func (h *authHist) join(username *string, pw string) {
	h.nextID++
	c := &fakeClient{id: fmt.Sprintf("c%d", h.nextID)}
	var g *group.Group
	var err error
	watched(h.t, fmt.Sprintf("AddClient(%s, %q)", userTok(username), pw), func() {
		g, err = group.AddClient(h.gname, c, group.ClientCredentials{Username: username, Password: pw})
	})
	class := classify(err)
	member := false
	if gg := group.Get(h.gname); gg != nil {
		member = gg.GetClient(c.id) != nil
	}
	obs := fmt.Sprintf("%s %s %d %s %s", class, tr.B(member), c.inits, hx(c.username), sortedPerms(c.perms))
	h.t.Op(obs, "join", c.id, userTok(username), hx(pw), h.oracleFor(username, pw))
	h.t.Checked("C08.refused_outside")
	// the same attempt directly
	var u2 string
	var p2 []string
	var err2 error
	watched(h.t, fmt.Sprintf("GetPermission(%s, %q) after AddClient", userTok(username), pw), func() {
		u2, p2, err2 = h.desc.GetPermission(h.gname, group.ClientCredentials{Username: username, Password: pw})
	})
	if classify(err2) != class {
		h.t.Fail("C08", "refused_outside", fmt.Sprintf("AddClient: %s, GetPermission: %s", class, classify(err2)))
	}
	if err != nil {
		if member || g != nil || c.inits != 0 || c.perms != nil {
			h.t.Fail("C08", "refused_outside", fmt.Sprintf("refused join (%v) left member=%v init=%d permissions=%v", err, member, c.inits, c.perms))
		}
	} else {
		if !member || c.inits != 1 || c.username != u2 || sortedPerms(c.perms) != sortedPerms(p2) {
			h.t.Fail("C08", "refused_outside", fmt.Sprintf("accepted join: member=%v init=%d username=%q permissions=%v, GetPermission gave %q %v",
				member, c.inits, c.username, c.perms, u2, p2))
		}
		c.g = g
	}
	if username != nil {
		h.monitors(username, pw, class, c.username, c.perms)
	}
}

// --------------------------------------------------------------- generators

var namePool = []string{"alice", "bob", "carol", "dave", "jch@work", "Alice c/o Bob", "a/b", "x y",
	"Ünï", "日本", "a.b", ".a", "...", "A", "alice2", "alic"}
var badNames = []string{".", "..", "a//b", "a/", "/a", "a\\b", "a/../b", "a/./b", "\\", "../x", "a/..", "./a"}
var pwPool = []string{"", "secret", "secret2", "Secret", "topsecret", "pässwörd", "p w", "\x00nul",
	"a\"b\\c", "日本語", "x", "secre", "ab", "ab\x00ab", strings.Repeat("a", 72), strings.Repeat("b", 71),
	strings.Repeat("a", 73), "0", "null", "wildcard"}
var permWords = []string{"op", "present", "message", "caption", "token", "record", "admin", "system",
	"", "OP", "observe", "foo"}
var roleNames = []string{"op", "present", "message", "observe", "caption", "admin"}

func randText(r *tr.Rand, n int) string {
	alphabet := []rune("abcdefghijklmnopqrstuvwxyzABCDEFGHIJ0123456789 _-.@/é日\x00\"\\")
	var sb strings.Builder
	for i := 0; i < n; i++ {
		sb.WriteRune(alphabet[r.Intn(len(alphabet))])
	}
	return sb.String()
}

func genPassword(r *tr.Rand) string {
	if r.Chance(3, 4) {
		return pwPool[r.Intn(len(pwPool))]
	}
	return randText(r, r.Range(1, 20))
}

func sp(s string) *string { return &s }

// genPw generates one password record; kinds are the encodings named by
// the property: plain / pbkdf2 / bcrypt / wildcard / empty / malformed.
func genPw(t *tr.Trace, r *tr.Rand) pwRec {
	clear := genPassword(r)
	switch r.Pick(24, 18, 12, 10, 10, 26) {
	case 0: // plain
		t.Note("pw=plain")
		if r.Bool() {
			return pwRec{form: "bare", Key: sp(clear), clear: clear, hasClear: true}
		}
		return pwRec{form: "object", Type: "plain", Key: sp(clear), clear: clear, hasClear: true, verbose: r.Chance(1, 4)}
	case 1: // pbkdf2
		t.Note("pw=pbkdf2")
		salt := r.Bytes(r.Pick(1, 6, 2)*4 + r.Intn(4))
		iter := r.Range(1, 40)
		if r.Chance(1, 8) {
			iter = r.Range(-2, 0) // the library treats these as one round
		}
		klen := []int{1, 16, 20, 32, 33, 64}[r.Intn(6)]
		key := hex.EncodeToString(pbkdf2.Key([]byte(clear), salt, iter, klen, sha256.New))
		if r.Chance(1, 5) {
			key = strings.ToUpper(key)
		}
		return pwRec{form: "object", Type: "pbkdf2", Hash: "sha-256", Key: sp(key),
			Salt: hex.EncodeToString(salt), Iter: iter, clear: clear, hasClear: true}
	case 2: // bcrypt
		if len(clear) > 72 {
			clear = clear[:72]
		}
		t.Note("pw=bcrypt")
		hash, err := bcrypt.GenerateFromPassword([]byte(clear), bcrypt.MinCost+r.Pick(8, 1))
		if err != nil {
			panic(err)
		}
		return pwRec{form: "object", Type: "bcrypt", Key: sp(string(hash)), clear: clear, hasClear: true}
	case 3: // wildcard
		t.Note("pw=wildcard")
		p := pwRec{form: "object", Type: "wildcard", clear: clear, hasClear: true}
		if r.Chance(1, 4) {
			p.Key = sp(clear) // ignored
		}
		return p
	case 4: // empty
		t.Note("pw=empty")
		switch r.Pick(3, 2, 2) {
		case 0:
			return pwRec{form: "absent"}
		case 1:
			return pwRec{form: "object", verbose: r.Bool()}
		default: // no type, but a key
			return pwRec{form: "object", Key: sp(clear), Salt: "00", clear: clear}
		}
	}
	// malformed
	t.Note("pw=malformed")
	salt := hex.EncodeToString(r.Bytes(8))
	goodKey := hex.EncodeToString(pbkdf2.Key([]byte(clear), mustHex(salt), 10, 32, sha256.New))
	switch r.Intn(17) {
	case 0:
		return pwRec{form: "object", Type: "plain", clear: clear}
	case 1:
		return pwRec{form: "object", Type: "pbkdf2", Hash: "sha-256", Salt: salt, Iter: 10, clear: clear}
	case 2:
		return pwRec{form: "object", Type: "bcrypt", clear: clear}
	case 3: // odd-length key
		return pwRec{form: "object", Type: "pbkdf2", Hash: "sha-256", Key: sp(goodKey[:len(goodKey)-1]), Salt: salt, Iter: 10, clear: clear}
	case 4: // non-hex key
		return pwRec{form: "object", Type: "pbkdf2", Hash: "sha-256", Key: sp("zz" + goodKey[2:]), Salt: salt, Iter: 10, clear: clear}
	case 5: // bad salt
		return pwRec{form: "object", Type: "pbkdf2", Hash: "sha-256", Key: sp(goodKey), Salt: salt[:len(salt)-1] + "g", Iter: 10, clear: clear}
	case 6: // unknown hash (key and salt fine)
		return pwRec{form: "object", Type: "pbkdf2", Hash: []string{"", "sha-1", "sha256", "SHA-256", "sha-512"}[r.Intn(5)],
			Key: sp(goodKey), Salt: salt, Iter: 10, clear: clear}
	case 7: // unknown hash and bad hex: the hex error comes first
		return pwRec{form: "object", Type: "pbkdf2", Hash: "md5", Key: sp("xy"), Salt: salt, Iter: 10, clear: clear}
	case 8: // unknown type
		return pwRec{form: "object", Type: []string{"PLAIN", "Plain", "argon2", "pbkdf2 ", "bcrypt2", "sha-256", "wild", " "}[r.Intn(8)],
			Key: sp(clear), clear: clear}
	case 9: // bcrypt: garbage hashes
		return pwRec{form: "object", Type: "bcrypt", Key: sp([]string{"", "x", clear, "$2a$04$short",
			"$9a$04$aaaaaaaaaaaaaaaaaaaaaeaaaaaaaaaaaaaaaaaaaaaaaaaaaaaaaaa",
			"#2a$04$aaaaaaaaaaaaaaaaaaaaaeaaaaaaaaaaaaaaaaaaaaaaaaaaaaaaaaa",
			"$2a$99$aaaaaaaaaaaaaaaaaaaaaeaaaaaaaaaaaaaaaaaaaaaaaaaaaaaaaaa",
			"$2a$04$!!!!!!!!!!!!!!!!!!!!!!aaaaaaaaaaaaaaaaaaaaaaaaaaaaaaaa"}[r.Intn(8)]), clear: clear}
	case 10: // pbkdf2 with an empty key: every password matches
		t.Note("pw=pbkdf2-empty-key")
		return pwRec{form: "object", Type: "pbkdf2", Hash: "sha-256", Key: sp(""), Salt: salt, Iter: 10, clear: clear, hasClear: true}
	case 11: // JSON null password: decodes to plain with the empty key
		t.Note("pw=json-null")
		return pwRec{form: "null", clear: "", hasClear: true}
	case 12: // right hash, wrong iteration count
		return pwRec{form: "object", Type: "pbkdf2", Hash: "sha-256", Key: sp(goodKey), Salt: salt, Iter: 11, clear: clear}
	case 13: // right hash, truncated key (still valid hex)
		return pwRec{form: "object", Type: "pbkdf2", Hash: "sha-256", Key: sp(goodKey[:32]), Salt: salt, Iter: 10, clear: clear, hasClear: true}
	case 14: // plain with junk fields
		return pwRec{form: "object", Type: "plain", Hash: "sha-256", Key: sp(clear), Salt: "zz", Iter: 7, clear: clear, hasClear: true}
	case 15: // pbkdf2 without salt
		k := hex.EncodeToString(pbkdf2.Key([]byte(clear), nil, 3, 32, sha256.New))
		return pwRec{form: "object", Type: "pbkdf2", Hash: "sha-256", Key: sp(k), Iter: 3, clear: clear, hasClear: true}
	default: // bcrypt hash stored as a pbkdf2 key and vice versa
		if r.Bool() {
			return pwRec{form: "object", Type: "bcrypt", Key: sp(goodKey), Salt: salt, clear: clear}
		}
		return pwRec{form: "object", Type: "pbkdf2", Hash: "sha-256", Key: sp("$2a$04$abcdefghijklmnopqrstuu"), Salt: salt, Iter: 1, clear: clear}
	}
}

func mustHex(s string) []byte {
	b, err := hex.DecodeString(s)
	if err != nil {
		panic(err)
	}
	return b
}

func genPerm(t *tr.Trace, r *tr.Rand) permRec {
	switch r.Pick(60, 28, 6, 6) {
	case 0:
		n := roleNames[r.Pick(6, 5, 3, 2, 2, 2)]
		t.Note("perm=role:" + n)
		return permRec{form: "name", name: n}
	case 1:
		t.Note("perm=raw")
		k := r.Pick(2, 3, 3, 2, 1, 1)
		raw := []string{}
		for i := 0; i < k; i++ {
			if r.Chance(9, 10) {
				raw = append(raw, permWords[r.Intn(len(permWords))]) // duplicates allowed
			} else {
				raw = append(raw, randText(r, r.Range(1, 6)))
			}
		}
		return permRec{form: "raw", raw: raw}
	case 2:
		t.Note("perm=absent")
		return permRec{form: "absent"}
	default:
		t.Note("perm=null")
		return permRec{form: "null"}
	}
}

func genDesc(t *tr.Trace, r *tr.Rand) descRec {
	d := descRec{ar: r.Bool(), ut: r.Bool(), verbose: r.Chance(1, 4), usersForm: "map"}
	t.Note(fmt.Sprintf("flags=ar%s,ut%s", tr.B(d.ar), tr.B(d.ut)))
	switch r.Pick(1, 1, 12) {
	case 0:
		d.usersForm = "absent"
	case 1:
		d.usersForm = "null"
	}
	if d.usersForm == "map" {
		n := r.Pick(1, 3, 4, 4, 3, 2)
		seen := map[string]bool{}
		for i := 0; i < n; i++ {
			var name string
			switch r.Pick(10, 2, 1) {
			case 0:
				name = namePool[r.Intn(len(namePool))]
			case 1:
				name = badNames[r.Intn(len(badNames))]
			default:
				name = "" // the empty user name is a legal map key
			}
			if seen[name] {
				continue
			}
			seen[name] = true
			d.users = append(d.users, userRec{name: name, pw: genPw(t, r), perm: genPerm(t, r)})
		}
	}
	if r.Chance(3, 5) {
		w := userRec{pw: genPw(t, r), perm: genPerm(t, r)}
		d.wild = &w
		t.Note("wildcard-user=present")
	} else {
		t.Note("wildcard-user=absent")
	}
	return d
}

func mutate(r *tr.Rand, pw string) string {
	switch r.Intn(9) {
	case 0:
		return pw + "x"
	case 1:
		return pw + "\x00"
	case 2:
		if len(pw) > 0 {
			return pw[:len(pw)-1]
		}
		return " "
	case 3:
		if len(pw) > 0 {
			return string(pw[0]^0x20) + pw[1:]
		}
		return "\x00"
	case 4:
		return " " + pw
	case 5:
		return pw + pw + "y"
	case 6:
		if len(pw) > 1 {
			return pw[1:]
		}
		return "A"
	case 7:
		return string(r.Bytes(r.Range(1, 12))) // arbitrary bytes
	default:
		return strings.ToUpper(pw) + "1"
	}
}

// attempts runs the logins of one history.
func (h *authHist) attempts(n int) {
	r := h.r
	for i := 0; i < n; i++ {
		var username *string
		var entry *userRec
		switch r.Pick(60, 22, 6, 3, 9) {
		case 4:
			// a near miss of an existing name: it has no entry of its own
			base := namePool[r.Intn(len(namePool))]
			if len(h.d.users) > 0 && h.d.usersForm == "map" {
				base = h.d.users[r.Intn(len(h.d.users))].name
			}
			switch r.Intn(7) {
			case 0:
				base += " "
			case 1:
				base = " " + base
			case 2:
				base = strings.ToUpper(base)
			case 3:
				base += "\x00"
			case 4:
				base += "\n"
			case 5:
				base = strings.TrimSuffix(base, "e") + "é"
			default:
				base = "x/" + base
			}
			username = sp(base)
			entry = h.d.find(base)
			if entry == nil {
				entry = h.d.wild
			}
			h.t.Note("user=near-miss")
		case 0:
			if len(h.d.users) > 0 && h.d.usersForm == "map" {
				entry = &h.d.users[r.Intn(len(h.d.users))]
				username = sp(entry.name)
				h.t.Note("user=has-entry")
				break
			}
			fallthrough
		case 1:
			username = sp(namePool[r.Intn(len(namePool))])
			if h.d.find(*username) == nil {
				h.t.Note("user=no-entry")
				entry = h.d.wild
			} else {
				entry = h.d.find(*username)
				h.t.Note("user=has-entry")
			}
		case 2:
			username = sp(append(badNames, "")[r.Intn(len(badNames)+1)])
			entry = h.d.find(*username)
			if entry == nil {
				entry = h.d.wild
			}
			h.t.Note("user=invalid-or-empty-name")
		default:
			h.t.Note("user=nil")
		}
		var pw string
		k := r.Pick(45, 25, 22, 8)
		switch {
		case k == 0 && entry != nil && entry.pw.hasClear:
			pw = entry.pw.clear
			h.t.Note("password=intended")
		case k <= 1:
			// somebody else's password, or one from the pool
			if len(h.d.users) > 0 && r.Bool() {
				o := h.d.users[r.Intn(len(h.d.users))]
				pw = o.pw.clear
			} else if h.d.wild != nil && r.Bool() {
				pw = h.d.wild.pw.clear
			} else {
				pw = genPassword(r)
			}
			h.t.Note("password=other")
		case k == 2 && entry != nil:
			pw = mutate(r, entry.pw.clear)
			h.t.Note("password=mutated")
		default:
			pw = genPassword(r)
			h.t.Note("password=other")
		}
		if r.Chance(1, 5) {
			h.join(username, pw)
		} else {
			h.login(username, pw)
		}
	}
}

// corpus: fixed regression histories, run first.
func corpus(t *tr.Trace, r *tr.Rand) {
	wildOp := &userRec{pw: pwRec{form: "object", Type: "wildcard"}, perm: permRec{form: "name", name: "op"}}
	// 1. an entry shadows the wildcard user, an entry without password never matches
	d := descRec{usersForm: "map", ar: true, ut: true, wild: wildOp, users: []userRec{
		{name: "alice", pw: pwRec{form: "bare", Key: sp("secret")}, perm: permRec{form: "name", name: "present"}},
		{name: "bob", pw: pwRec{form: "absent"}, perm: permRec{form: "name", name: "op"}},
		{name: "carol", pw: pwRec{form: "object", Type: "plain"}, perm: permRec{form: "name", name: "op"}},
		{name: "a/../b", pw: pwRec{form: "bare", Key: sp("x")}, perm: permRec{form: "name", name: "message"}},
		{name: "raw", pw: pwRec{form: "bare", Key: sp("r")}, perm: permRec{form: "raw", raw: []string{"op", "record", "record"}}},
	}}
	h := newAuthHist(t, r, "corpus", d)
	for _, c := range [][2]string{{"alice", "secret"}, {"alice", "wrong"}, {"alice", ""}, {"bob", ""}, {"bob", "x"},
		{"carol", ""}, {"a/../b", "x"}, {"raw", "r"}, {"zoe", "anything"}, {"", ""}, {"..", "x"}} {
		h.login(sp(c[0]), c[1])
		h.join(sp(c[0]), c[1])
	}
	h.login(nil, "secret")
	h.join(nil, "secret")
	// 2. the four flag combinations on every role
	for _, ar := range []bool{false, true} {
		for _, ut := range []bool{false, true} {
			d := descRec{usersForm: "map", ar: ar, ut: ut}
			for _, n := range roleNames {
				d.users = append(d.users, userRec{name: n, pw: pwRec{form: "bare", Key: sp("p")}, perm: permRec{form: "name", name: n}})
			}
			h := newAuthHist(t, r, "corpus", d)
			for _, n := range roleNames {
				h.login(sp(n), "p")
			}
		}
	}
	// 3. a failing wildcard user is "user not found", whatever the failure
	for _, w := range []pwRec{{form: "object", Type: "plain"}, {form: "object", Type: "nonsense"},
		{form: "object", Type: "pbkdf2", Hash: "sha-256", Key: sp("abc")}, {form: "absent"}, {form: "bare", Key: sp("w")}} {
		d := descRec{usersForm: "map", wild: &userRec{pw: w, perm: permRec{form: "name", name: "message"}},
			users: []userRec{{name: "alice", pw: w, perm: permRec{form: "name", name: "op"}}}}
		h := newAuthHist(t, r, "corpus", d)
		h.login(sp("alice"), "w")
		h.login(sp("nobody"), "w")
		h.login(sp("nobody"), "v")
	}
}

// --------------------------------------------------------------- tool stream

var toolBin string

func buildTool() error {
	repo := os.Getenv("VERIF_REPO")
	if repo == "" {
		repo = "/repo"
	}
	toolBin = filepath.Join(dir, "galenectl")
	cmd := exec.Command("go", "build", "-o", toolBin, "./galenectl")
	cmd.Dir = repo
	out, err := cmd.CombinedOutput()
	if err != nil {
		return fmt.Errorf("building galenectl: %v: %s", err, out)
	}
	return nil
}

func runTool(args ...string) (string, error) {
	full := append([]string{"-config", filepath.Join(dir, "no-such-config.json"), "hash-password"}, args...)
	cmd := exec.Command(toolBin, full...)
	cmd.Env = append(os.Environ(), "HOME="+dir, "XDG_CONFIG_HOME="+dir)
	var stdout, stderr bytes.Buffer
	cmd.Stdout = &stdout
	cmd.Stderr = &stderr
	err := cmd.Run()
	if err != nil {
		return "", fmt.Errorf("%v: %s", err, stderr.String())
	}
	return strings.TrimSpace(stdout.String()), nil
}

// bcryptKey is the byte sequence bcrypt actually uses: password+NUL
// repeated to 72 bytes.
func bcryptKey(pw string) string {
	k := pw + "\x00"
	for len(k) < 72 {
		k += pw + "\x00"
	}
	return k[:72]
}

// hmacKey is the key HMAC-SHA256 actually uses: the password padded with
// zero bytes to the 64-byte block, or its SHA-256 if it is longer.
func hmacKey(pw string) string {
	k := []byte(pw)
	if len(k) > 64 {
		h := sha256.Sum256(k)
		k = h[:]
	}
	return string(append(k, make([]byte, 64-len(k))...))
}

func toolCase(t *tr.Trace, r *tr.Rand, alg int) {
	// passwords that can be given on a command line: no NUL, not empty
	var pw string
	for pw == "" || strings.Contains(pw, "\x00") || !utf8.ValidString(pw) {
		pw = genPassword(r)
	}
	if alg == 1 && len(pw) > 72 {
		pw = pw[:72]
	}
	args := []string{"-password=" + pw}
	iter, klen, slen, cost := 4096, 32, 8, 8
	algName := []string{"pbkdf2", "bcrypt", "wildcard"}[alg]
	explicit := r.Chance(4, 5)
	switch alg {
	case 0:
		args = append(args, "-type", "pbkdf2")
		if explicit {
			iter, klen, slen = r.Range(1, 3000), r.Range(1, 70), r.Range(0, 20)
			args = append(args, fmt.Sprintf("-iterations=%d", iter), fmt.Sprintf("-key=%d", klen), fmt.Sprintf("-salt=%d", slen))
		}
	case 1:
		if explicit {
			cost = r.Range(4, 6)
			args = append(args, "-type", "bcrypt", fmt.Sprintf("-cost=%d", cost))
		} // bcrypt is the default type
	case 2:
		args = []string{"-type", "wildcard"}
		pw = ""
	}
	t.Note("tool=" + algName)
	out, err := runTool(args...)
	if err != nil {
		t.Fail("C08", "hash_roundtrip", fmt.Sprintf("galenectl hash-password %v failed: %v", args, err))
		return
	}
	var m struct {
		Type       string  `json:"type"`
		Hash       string  `json:"hash"`
		Key        *string `json:"key"`
		Salt       string  `json:"salt"`
		Iterations int     `json:"iterations"`
	}
	dec := json.NewDecoder(strings.NewReader(out))
	dec.DisallowUnknownFields()
	if err := dec.Decode(&m); err != nil {
		t.Fail("C08", "hash_roundtrip", fmt.Sprintf("galenectl printed %q: %v", out, err))
		return
	}
	rec := pwRec{form: "object", Type: m.Type, Hash: m.Hash, Key: m.Key, Salt: m.Salt, Iter: m.Iterations,
		clear: pw, hasClear: true, rawJSON: out}
	perm := genPerm(t, r)
	d := descRec{usersForm: "map", ar: r.Bool(), ut: r.Bool(),
		users: []userRec{{name: "tool", pw: rec, perm: perm}}}
	h := newAuthHist(t, r, "tool", d)
	// makePassword against the model: same salt, same parameters
	if !explicit && alg == 0 && m.Key != nil {
		iter, klen = m.Iterations, len(*m.Key)/2
	}
	salt, _ := hex.DecodeString(m.Salt)
	recTok := userRec{pw: rec}.token()
	switch alg {
	case 0:
		res := pbkdf2.Key([]byte(pw), salt, iter, klen, sha256.New)
		h.t.Op(recTok, "mkpw", "pbkdf2", hx(pw), tr.Hex(salt), iter, klen, 0,
			fmt.Sprintf("p:%s:%s:%d:%d:%s", hx(pw), tr.Hex(salt), iter, klen, tr.Hex(res)))
		if explicit && len(salt) != slen {
			t.Fail("C08", "hash_roundtrip", fmt.Sprintf("asked for a %d-byte salt, got %d", slen, len(salt)))
		}
	case 1:
		key := ""
		if m.Key != nil {
			key = *m.Key
		}
		h.t.Op(recTok, "mkpw", "bcrypt", hx(pw), "-", 0, 0, cost, fmt.Sprintf("g:%s:%d:%s", hx(pw), cost, hx(key)))
	case 2:
		h.t.Op(recTok, "mkpw", "wildcard", "-", "-", 0, 0, 0, "-")
	}
	// round trip: the password verifies
	t.Checked("C08.hash_roundtrip")
	if c := h.login(sp("tool"), pw); c != "ok" {
		t.Fail("C08", "hash_roundtrip", fmt.Sprintf("galenectl %v printed %s, which does not verify for %q: %s", args, out, pw, c))
	}
	if alg == 2 {
		h.login(sp("tool"), genPassword(r))
		return
	}
	// ... and no other does (tested only).  With a derived key of a few bytes
	// (the tool accepts any -key length) another password verifies by chance
	// (1 in 256 for one byte): that is arithmetic, not a defect
	if alg == 0 && klen < 8 {
		t.Note("hash_no_other-skipped-short-key")
		return
	}
	for i := 0; i < 6; i++ {
		other := mutate(r, pw)
		if i == 0 {
			other = genPassword(r)
		}
		if other == pw {
			continue
		}
		if alg == 1 && bcryptKey(other) == bcryptKey(pw) {
			// known finding F22: bcrypt sees only 72 bytes of password+NUL repeated
			t.Checked("C08.hash_no_other")
			if h.login(sp("tool"), other) == "ok" {
				t.Fail("C08", "hash_no_other", fmt.Sprintf("bcrypt-truncation: hash %s of %q also verifies for %q", out, pw, other))
			}
			continue
		}
		if alg == 0 && hmacKey(other) == hmacKey(pw) {
			// known finding F23: HMAC zero-pads the key to its block size
			t.Checked("C08.hash_no_other")
			if h.login(sp("tool"), other) == "ok" {
				t.Fail("C08", "hash_no_other", fmt.Sprintf("pbkdf2-hmac-padding: hash %s of %q also verifies for %q", out, pw, other))
			}
			continue
		}
		t.Checked("C08.hash_no_other")
		if c := h.login(sp("tool"), other); c == "ok" {
			t.Fail("C08", "hash_no_other", fmt.Sprintf("hash %s of %q also verifies for %q", out, pw, other))
		}
	}
}

// collisionProbe: the known limitations of the hash algorithms
// (KNOWN_FINDINGS F22, F23), as a small separate stream on every run: the
// tool hashes a password, a different password that is the same key for the
// algorithm verifies.
func collisionProbe(t *tr.Trace, r *tr.Rand) {
	sum := sha256.Sum256([]byte(strings.Repeat("c", 65)))
	for _, c := range [][4]string{
		{"bcrypt", strings.Repeat("a", 72), strings.Repeat("a", 73), "bcrypt-truncation"},
		{"bcrypt", "ab", "ab\x00ab", "bcrypt-truncation"},
		{"pbkdf2", "ab", "ab\x00", "pbkdf2-hmac-padding"},
		{"pbkdf2", strings.Repeat("c", 65), string(sum[:]), "pbkdf2-hmac-padding"},
	} {
		alg, pw, other, token := c[0], c[1], c[2], c[3]
		args := []string{"-password=" + pw, "-type", alg, "-cost=4", "-iterations=20"}
		out, err := runTool(args...)
		if err != nil {
			t.Fail("C08", "hash_roundtrip", "galenectl: "+err.Error())
			return
		}
		var m struct {
			Type       string  `json:"type"`
			Hash       string  `json:"hash"`
			Key        *string `json:"key"`
			Salt       string  `json:"salt"`
			Iterations int     `json:"iterations"`
		}
		if err := json.Unmarshal([]byte(out), &m); err != nil || m.Key == nil {
			t.Fail("C08", "hash_roundtrip", fmt.Sprintf("galenectl printed %q", out))
			return
		}
		rec := pwRec{form: "object", Type: m.Type, Hash: m.Hash, Key: m.Key, Salt: m.Salt, Iter: m.Iterations,
			clear: pw, hasClear: true, rawJSON: out}
		d := descRec{usersForm: "map", users: []userRec{{name: "tool", pw: rec, perm: permRec{form: "name", name: "message"}}}}
		h := newAuthHist(t, r, "collision", d)
		t.Checked("C08.hash_roundtrip")
		if cl := h.login(sp("tool"), pw); cl != "ok" {
			t.Fail("C08", "hash_roundtrip", fmt.Sprintf("hash %s does not verify for %q: %s", out, pw, cl))
		}
		t.Checked("C08.hash_no_other")
		if cl := h.login(sp("tool"), other); cl == "ok" {
			t.Fail("C08", "hash_no_other", fmt.Sprintf("%s: hash %s of %q also verifies for %q", token, out, pw, other))
		}
	}
}

// ------------------------------------------------------------- long stream

func randASCII(r *tr.Rand, n int) string {
	const alphabet = "abcdefghijklmnopqrstuvwxyzABCDEFGHIJKLMNOPQRSTUVWXYZ0123456789 _.,:;!?+*#@"
	b := make([]byte, n)
	for i := range b {
		b[i] = alphabet[r.Intn(len(alphabet))]
	}
	return string(b)
}

// longCase: the round trip for a password of exactly n bytes.  The tool may
// refuse a password (it cannot read an empty one without a terminal; bcrypt
// refuses more than 72 bytes); if it prints a hash, the password verifies
// and no DIFFERENT password does -- in particular none that shares only a
// prefix with it.  Collisions of passwords that are the same key for the
// algorithm (F22 for at most 72 bytes, F23) keep their own tokens.
func longCase(t *tr.Trace, r *tr.Rand, alg string, n int) {
	pw := randASCII(r, n)
	cost, iter, klen := 4, r.Range(1, 50), 32
	args := []string{"-password=" + pw, "-type", alg}
	if alg == "bcrypt" {
		args = append(args, fmt.Sprintf("-cost=%d", cost))
	} else {
		args = append(args, fmt.Sprintf("-iterations=%d", iter), fmt.Sprintf("-key=%d", klen))
	}
	t.Note(fmt.Sprintf("long=%s/%d", alg, n))
	// what the library itself says about this password
	libRefuses := false
	if alg == "bcrypt" {
		_, err := bcrypt.GenerateFromPassword([]byte(pw), cost)
		libRefuses = err != nil
	}
	out, err := runTool(args...)
	if err != nil {
		switch {
		case n == 0:
			t.Note("long=tool-cannot-read-empty-password")
		case libRefuses:
			h := newAuthHist(t, r, "long", descRec{usersForm: "map"})
			h.t.Op("refused", "mkpw", "bcrypt", hx(pw), "-", 0, 0, cost, fmt.Sprintf("g:%s:%d:!", hx(pw), cost))
			t.Note("long=tool-refused-with-the-library")
		default:
			t.Fail("C08", "hash_roundtrip", fmt.Sprintf("galenectl hash-password -type %s failed on a %d-byte password: %v", alg, n, err))
		}
		return
	}
	var m struct {
		Type       string  `json:"type"`
		Hash       string  `json:"hash"`
		Key        *string `json:"key"`
		Salt       string  `json:"salt"`
		Iterations int     `json:"iterations"`
	}
	if err := json.Unmarshal([]byte(out), &m); err != nil || m.Key == nil {
		t.Fail("C08", "hash_roundtrip", fmt.Sprintf("galenectl printed %q", out))
		return
	}
	rec := pwRec{form: "object", Type: m.Type, Hash: m.Hash, Key: m.Key, Salt: m.Salt, Iter: m.Iterations,
		clear: pw, hasClear: true, rawJSON: out}
	d := descRec{usersForm: "map", users: []userRec{{name: "tool", pw: rec, perm: permRec{form: "name", name: "op"}}}}
	h := newAuthHist(t, r, "long", d)
	recTok := userRec{pw: rec}.token()
	if alg == "bcrypt" {
		lib := hx(*m.Key)
		if libRefuses {
			lib = "!"
		}
		h.t.Op(recTok, "mkpw", "bcrypt", hx(pw), "-", 0, 0, cost, fmt.Sprintf("g:%s:%d:%s", hx(pw), cost, lib))
	} else {
		salt, _ := hex.DecodeString(m.Salt)
		res := pbkdf2.Key([]byte(pw), salt, iter, klen, sha256.New)
		h.t.Op(recTok, "mkpw", "pbkdf2", hx(pw), tr.Hex(salt), iter, klen, 0,
			fmt.Sprintf("p:%s:%s:%d:%d:%s", hx(pw), tr.Hex(salt), iter, klen, tr.Hex(res)))
	}
	t.Checked("C08.hash_roundtrip")
	if c := h.login(sp("tool"), pw); c != "ok" {
		t.Fail("C08", "hash_roundtrip", fmt.Sprintf("galenectl %s hash of a %d-byte password does not verify for it: %s", alg, n, c))
	}
	// different passwords, in particular ones that agree on a prefix
	others := []string{pw + "x", pw + pw}
	if n > 0 {
		flip := []byte(pw)
		flip[n-1] ^= 1
		others = append(others, string(flip), pw[:n-1], pw[:n/2], pw[:n-1]+"-hunter2")
	}
	if n > 72 {
		others = append(others, pw[:72], pw[:72]+"x", pw[:72]+randASCII(r, n-72), pw[:73])
	}
	if n > 64 {
		others = append(others, pw[:64], pw[:64]+randASCII(r, n-64))
	}
	for _, other := range others {
		if other == pw {
			continue
		}
		c := h.login(sp("tool"), other)
		known := ""
		if alg == "bcrypt" && n <= 72 && bcryptKey(other) == bcryptKey(pw) {
			known = "bcrypt-truncation"
		}
		if alg == "pbkdf2" && hmacKey(other) == hmacKey(pw) {
			known = "pbkdf2-hmac-padding"
		}
		if known != "" {
			t.Checked("C08.hash_no_other")
			if c == "ok" {
				t.Fail("C08", "hash_no_other", fmt.Sprintf("%s: hash %s of %q also verifies for %q", known, out, pw, other))
			}
			continue
		}
		t.Checked("C08.hash_roundtrip_long")
		if c == "ok" {
			t.Fail("C08", "hash_roundtrip_long", fmt.Sprintf("galenectl hashed a %d-byte password with %s (%s); the hash also verifies for the DIFFERENT %d-byte password %q (configured: %q)",
				n, alg, out, len(other), other, pw))
		}
	}
}

func longStream(t *tr.Trace, r *tr.Rand) {
	for _, alg := range []string{"pbkdf2", "bcrypt"} {
		for _, n := range []int{0, 1, 71, 72, 73, 80, 100, 200} {
			longCase(t, r, alg, n)
		}
	}
}

// ---------------------------------------------------------- isolation stream

// isoHist: several clients of one group on the real code: permissions come
// from the real GetPermission, are stored by the real webClient.Init and
// edited by the real remove/addnew (rtpconn/verif_export_auth.go) in the
// order of changePermissionsAction.  After every operation the permissions
// of ALL clients, the role table as the next login reads it and the raw
// arrays of the description are printed and compared with Model/AuthHeap.v
// (Init copying); the monitor checks that nothing but the acting client's
// list changed.
type isoHist struct {
	t       *tr.Trace
	d       descRec
	desc    group.Description
	raws    []string // user names of the raw-array users, in H order
	clients map[int][]string
}

func newIsoHist(t *tr.Trace, stream string, d descRec) *isoHist {
	h := &isoHist{t: t, d: d, clients: map[int][]string{}}
	if err := json.Unmarshal([]byte(d.json()), &h.desc); err != nil {
		panic(err)
	}
	var params []interface{}
	for _, u := range d.users {
		if u.perm.form == "raw" {
			h.raws = append(h.raws, u.name)
			params = append(params, permList(u.perm.raw))
		}
	}
	t.History("authiso", stream, params...)
	return h
}

func (h *isoHist) roleTable() []string {
	names := append([]string{}, roleNames...)
	sort.Strings(names)
	var out []string
	for _, n := range names {
		p, err := group.NewPermissions(n)
		if err != nil {
			out = append(out, hx(n)+"=!")
			continue
		}
		out = append(out, hx(n)+"="+permList(p.Permissions(nil)))
	}
	return out
}

func (h *isoHist) rawArrays() []string {
	out := []string{}
	for _, n := range h.raws {
		out = append(out, permList(h.desc.Users[n].Permissions.Permissions(&h.desc)))
	}
	return out
}

func (h *isoHist) clientStates() ([]int, []string) {
	var ids []int
	for id := range h.clients {
		ids = append(ids, id)
	}
	sort.Ints(ids)
	var out []string
	for _, id := range ids {
		out = append(out, fmt.Sprintf("c%d=%s", id, permList(h.clients[id])))
	}
	return ids, out
}

func orDash(l []string, sep string) string {
	if len(l) == 0 {
		return "-"
	}
	return strings.Join(l, sep)
}

func (h *isoHist) state() string {
	_, cs := h.clientStates()
	return orDash(cs, ";") + "|" + orDash(h.roleTable(), ";") + "|" + orDash(h.rawArrays(), ";")
}

// snapshot of everything an operation of client `except` must not change
func (h *isoHist) snapshot(except int) string {
	ids, cs := h.clientStates()
	var others []string
	for i, id := range ids {
		if id != except {
			others = append(others, cs[i])
		}
	}
	return orDash(others, ";") + "|" + orDash(h.roleTable(), ";") + "|" + orDash(h.rawArrays(), ";")
}

func (h *isoHist) check(before string, cid int, what string) {
	h.t.Checked("C08.isolation")
	if after := h.snapshot(cid); after != before {
		h.t.Fail("C08", "isolation", fmt.Sprintf("%s of client %d changed other clients' permissions, the role table or the description: before %s after %s",
			what, cid, before, after))
	}
}

func (h *isoHist) login(cid int, u userRec) {
	before := h.snapshot(cid)
	var name string
	var perms []string
	var err error
	watched(h.t, fmt.Sprintf("GetPermission(%q) (isolation stream)", u.name), func() {
		name, perms, err = h.desc.GetPermission("g", group.ClientCredentials{Username: sp(u.name), Password: u.pw.clear})
	})
	if err != nil {
		h.t.Fail("C08", "harness", "isolation stream: login failed: "+err.Error())
		return
	}
	want := append([]string{}, perms...)
	h.clients[cid] = rtpconn.VerifAuthInit(name, perms)
	src := ""
	if u.perm.form == "raw" {
		for k, n := range h.raws {
			if n == u.name {
				src = fmt.Sprintf("w:%d", k)
			}
		}
	} else {
		src = fmt.Sprintf("r:%s:%s:%s", hx(u.perm.name), tr.B(h.d.ar), tr.B(h.d.ut))
	}
	h.t.Op(h.state(), "ilogin", cid, src)
	h.check(before, cid, "login")
	h.t.Checked("C08.isolation")
	if permList(h.clients[cid]) != permList(want) {
		h.t.Fail("C08", "isolation", fmt.Sprintf("client %d was granted %v but holds %v", cid, want, h.clients[cid]))
	}
}

var actionKinds = []string{"op", "unop", "present", "unpresent", "shutup", "unshutup"}

func (h *isoHist) act(cid int, kind string) {
	l, ok := h.clients[cid]
	if !ok {
		return
	}
	before := h.snapshot(cid)
	// changePermissionsAction (rtpconn/webclient.go)
	switch kind {
	case "op":
		l = rtpconn.VerifAuthAddnew("op", l)
		if h.desc.AllowRecording {
			l = rtpconn.VerifAuthAddnew("record", l)
		}
	case "unop":
		l = rtpconn.VerifAuthRemove("op", l)
		l = rtpconn.VerifAuthRemove("record", l)
	case "present":
		l = rtpconn.VerifAuthAddnew("present", l)
	case "unpresent":
		l = rtpconn.VerifAuthRemove("present", l)
	case "shutup":
		l = rtpconn.VerifAuthRemove("message", l)
	case "unshutup":
		l = rtpconn.VerifAuthAddnew("message", l)
	}
	h.clients[cid] = l
	h.t.Op(h.state(), "iact", cid, kind, h.desc.AllowRecording)
	h.check(before, cid, kind)
	// a revoked permission is gone, however often it was listed
	revoked := map[string][]string{"unop": {"op", "record"}, "unpresent": {"present"}, "shutup": {"message"}}[kind]
	for _, p := range revoked {
		h.t.Checked("C08.revoked_gone")
		if contains(l, p) {
			h.t.Fail("C08", "revoked_gone", fmt.Sprintf("%s of client %d: the list still contains %q: %v", kind, cid, p, l))
		}
	}
}

func (h *isoHist) leave(cid int) {
	if _, ok := h.clients[cid]; !ok {
		return
	}
	before := h.snapshot(cid)
	delete(h.clients, cid) // leaveGroup: c.permissions = nil
	h.t.Op(h.state(), "ileave", cid)
	h.check(before, cid, "leave")
}

func isoDesc(r *tr.Rand, nusers int) descRec {
	d := descRec{usersForm: "map", ar: r.Bool(), ut: r.Bool()}
	for i := 0; i < nusers; i++ {
		u := userRec{name: fmt.Sprintf("u%d", i), pw: pwRec{form: "bare", Key: sp("p"), clear: "p", hasClear: true}}
		if r.Chance(2, 3) {
			u.perm = permRec{form: "name", name: roleNames[r.Pick(6, 4, 2, 1, 1, 1)]}
		} else {
			k := r.Range(0, 5)
			raw := []string{}
			for j := 0; j < k; j++ {
				raw = append(raw, permWords[r.Intn(7)])
			}
			u.perm = permRec{form: "raw", raw: raw}
		}
		d.users = append(d.users, u)
	}
	return d
}

func isoCorpus(t *tr.Trace) {
	// F10: two operators, one is demoted
	d := descRec{usersForm: "map", users: []userRec{
		{name: "u0", pw: pwRec{form: "bare", Key: sp("p"), clear: "p"}, perm: permRec{form: "name", name: "op"}},
		{name: "u1", pw: pwRec{form: "bare", Key: sp("p"), clear: "p"}, perm: permRec{form: "raw", raw: []string{"op", "message", "record"}}},
	}}
	h := newIsoHist(t, "iso-corpus", d)
	h.login(1, d.users[0])
	h.login(2, d.users[0])
	h.act(1, "unop")
	h.login(3, d.users[0])
	h.login(4, d.users[1])
	h.act(4, "shutup")
	h.login(5, d.users[1])
	h.act(2, "shutup")
	h.act(2, "unshutup")
	h.act(2, "unpresent")
	h.leave(1)
	h.login(1, d.users[0])
}

// isoCorpusDup: a raw array that lists permissions twice; revoking removes
// every occurrence (b21f80e), and the description's own array stays intact.
func isoCorpusDup(t *tr.Trace) {
	pw := pwRec{form: "bare", Key: sp("p"), clear: "p"}
	d := descRec{usersForm: "map", users: []userRec{
		{name: "u0", pw: pw, perm: permRec{form: "raw", raw: []string{"present", "present", "message", "message"}}},
		{name: "u1", pw: pw, perm: permRec{form: "raw", raw: []string{"op", "record", "op", "message", "record", "op"}}},
	}}
	h := newIsoHist(t, "iso-corpus", d)
	h.login(1, d.users[0])
	h.login(2, d.users[0])
	h.act(1, "unpresent")
	h.act(1, "shutup")
	if len(h.clients[1]) != 0 {
		t.Fail("C08", "revoked_gone", fmt.Sprintf("[present present message message] after unpresent and shutup: %v", h.clients[1]))
	}
	h.login(3, d.users[1])
	h.login(4, d.users[1])
	h.act(3, "unop")
	h.act(3, "unshutup")
	h.act(4, "shutup")
	h.act(2, "unpresent")
	h.login(1, d.users[0])
}

func isoCase(t *tr.Trace, r *tr.Rand) {
	d := isoDesc(r, r.Range(1, 4))
	h := newIsoHist(t, "iso", d)
	nclients := r.Range(2, 5)
	n := r.Range(6, 24)
	for i := 0; i < n; i++ {
		cid := r.Range(1, nclients)
		_, joined := h.clients[cid]
		switch {
		case !joined || r.Chance(1, 8):
			h.login(cid, d.users[r.Intn(len(d.users))])
		case r.Chance(1, 10):
			h.leave(cid)
		default:
			h.act(cid, actionKinds[r.Intn(len(actionKinds))])
		}
	}
	if len(h.clients) >= 2 {
		t.Nontrivial(fmt.Sprintf("iso/%d/%d/%v%v", len(d.users), n, d.ar, d.ut))
	}
}

// wsJoinExact: the username of a join is matched EXACTLY, also on the way
// through the signalling handler (the path a browser takes): a name that has
// no entry - "jch" padded with blanks, in another case, with a trailing NUL -
// is not the user jch.  It is refused where there is no wildcard user and gets
// the wildcard user's rights (not jch's) where there is one.  Monitors only.
func wsJoinExact(t *tr.Trace) {
	t.History("authws", "ws-join-exact")
	saveDir, saveData := group.Directory, group.DataDirectory
	defer func() { group.Directory, group.DataDirectory = saveDir, saveData }()
	sigdrv.Quiet()
	w, err := sigdrv.NewWorld()
	if err != nil {
		t.Fail("C08", "harness", err.Error())
		return
	}
	defer w.Close()
	w.AddGroup(sigdrv.GroupSpec{Name: "nw", Users: []sigdrv.User{{Name: "jch", Password: "pwj", Permissions: []string{"op", "present", "message"}}}})
	w.AddGroup(sigdrv.GroupSpec{Name: "ww", Users: []sigdrv.User{{Name: "jch", Password: "pwj", Permissions: []string{"op", "present", "message"}}},
		WildcardUser: &sigdrv.User{Password: "pwj", Permissions: []string{"message"}}})
	for i, name := range []string{"jch", " jch", "jch ", "\tjch\n", "Jch", "JCH", "jch\x00", "j ch", "jch\u00a0", "\u200bjch"} {
		for _, g := range []string{"nw", "ww"} {
			c := w.NewClient(fmt.Sprintf("x%d%s", i, g))
			c.Send(sigdrv.M{"type": "join", "kind": "join", "group": g, "username": name, "password": "pwj"})
			perms := c.Permissions()
			joined := c.HasGroup()
			t.Checked("C08.ws_join_username_exact")
			switch {
			case name == "jch":
				if !joined || !contains(perms, "op") {
					t.Fail("C08", "ws_join_username_exact", fmt.Sprintf("jch with the right password was not admitted as configured in %s: joined=%v %v", g, joined, perms))
				}
			case g == "nw":
				if joined {
					t.Fail("C08", "ws_join_username_exact", fmt.Sprintf("username %q has no entry in a group without wildcard user, and was admitted with %v (as %q)", name, perms, c.Username()))
				}
			default:
				if joined && (contains(perms, "op") || contains(perms, "present")) {
					t.Fail("C08", "ws_join_username_exact", fmt.Sprintf("username %q has no entry: it may get the wildcard user's rights [message], it got %v", name, perms))
				}
			}
			c.Disconnect()
		}
	}
	t.Nontrivial("ws-join-exact")
}

func runAuth(t *tr.Trace, r *tr.Rand, n int) {
	log.SetOutput(io.Discard)
	var err error
	dir, err = os.MkdirTemp("", "verif-auth-")
	if err != nil {
		panic(err)
	}
	defer os.RemoveAll(dir)
	group.Directory = filepath.Join(dir, "groups")
	if err := os.MkdirAll(group.Directory, 0700); err != nil {
		panic(err)
	}
	dir = group.Directory
	if err := buildTool(); err != nil {
		fmt.Fprintln(os.Stderr, err)
		os.RemoveAll(filepath.Dir(dir))
		os.Exit(3)
	}

	corpus(t, r)
	wsJoinExact(t)
	isoCorpus(t)
	isoCorpusDup(t)
	collisionProbe(t, r)
	longStream(t, r)
	for i := 0; i < n; i++ {
		if i%10 == 9 {
			toolCase(t, r, r.Pick(5, 4, 1))
			continue
		}
		if i%10 == 4 {
			isoCase(t, r)
			continue
		}
		d := genDesc(t, r)
		h := newAuthHist(t, r, "random", d)
		h.attempts(r.Range(4, 12))
		if h.nOK > 0 && h.nRef > 0 {
			t.Nontrivial(fmt.Sprintf("auth/%d/%v/%v%v/%d/%d", len(d.users), d.wild != nil, d.ar, d.ut, h.nOK, h.nRef))
		}
	}
	os.RemoveAll(filepath.Dir(dir))
}

func main() { tr.Main(runAuth) }

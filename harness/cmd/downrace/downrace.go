// downrace: several real rtpDownTracks (each with its own packet map and
// sink) forwarding concurrently from separate goroutines, every packet on the
// rewrite path (C02: what each receiver is sent is its own packet with only
// seqno, marker and picture id changed - also while other receivers are being
// served; the rewrite buffers come from a pool shared by all down tracks).
// Monitors only; built with the race detector.
package main

import (
	"bytes"
	"fmt"
	"sync"

	"github.com/jech/galene/rtpconn"

	"verifharness/internal/tr"
)

// a VP9 packet that ends a frame without the RTP marker: Write sets the
// marker, so the packet is copied into a pooled buffer and rewritten
func vp9End(seq uint16, track byte, k int) []byte {
	n := 20 + (k%37)*23
	p := make([]byte, 12, 12+2+n)
	p[0] = 0x80
	p[1] = 96
	p[2] = byte(seq >> 8)
	p[3] = byte(seq)
	p[8], p[9], p[10], p[11] = 0, 0, 0x12, 0x34
	p = append(p, 0x0C) // B and E
	for i := 0; i < n; i++ {
		p = append(p, track^byte(seq)^byte(i*11))
	}
	p[13] = 0x82 // VP9 key frame header, profile 0
	return p
}

func runDownRace(t *tr.Trace, r *tr.Rand, n int) {
	for hi := 0; hi < n; hi++ {
		tracks := r.Range(3, 8)
		per := r.Range(1500, 4000)
		t.History("downrace", fmt.Sprintf("tracks%d", tracks), tracks)
		var wg sync.WaitGroup
		bad := make([]string, tracks)
		total := make([]int, tracks)
		for ti := 0; ti < tracks; ti++ {
			v, err := rtpconn.NewVerifTrack("video/VP9", 16)
			if err != nil {
				panic(err)
			}
			start := uint16(r.U64())
			wg.Add(1)
			go func(ti int, v *rtpconn.VerifTrack, start uint16) {
				defer wg.Done()
				for k := 0; k < per; k++ {
					in := vp9End(start+uint16(k), byte(ti*29+1), k)
					orig := append([]byte{}, in...)
					out, _, err := v.Write(in)
					if err != nil || len(out) != 1 {
						if bad[ti] == "" {
							bad[ti] = fmt.Sprintf("packet %d of receiver %d: %d packets sent, error %v", k, ti, len(out), err)
						}
						continue
					}
					total[ti]++
					o := out[0]
					// header: marker set, everything else as sent; payload identical
					want := append([]byte{}, orig...)
					want[1] |= 0x80
					if !bytes.Equal(o, want) && bad[ti] == "" {
						bad[ti] = fmt.Sprintf("receiver %d was sent %d bytes for its packet %d that are not that packet with the marker set (first difference at byte %d): another receiver's packet or a mixture", ti, len(o), k, firstDiff(o, want))
					}
				}
			}(ti, v, start)
		}
		wg.Wait()
		nbad := 0
		sent := 0
		for ti := range bad {
			sent += total[ti]
			t.Checked("C02.concurrent_receivers")
			if bad[ti] != "" {
				nbad++
				t.Fail("C02", "concurrent_receivers", bad[ti])
			}
		}
		t.Op(fmt.Sprint(nbad), "receivers", tracks, per)
		if sent > 0 {
			t.Nontrivial(fmt.Sprintf("downrace/%d/%d", tracks, per))
		}
	}
}

func firstDiff(a, b []byte) int {
	for i := 0; i < len(a) && i < len(b); i++ {
		if a[i] != b[i] {
			return i
		}
	}
	if len(a) != len(b) {
		return min(len(a), len(b))
	}
	return -1
}

func main() { tr.Main(runDownRace) }

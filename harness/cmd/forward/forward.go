// forward: drives a real rtpDownTrack (Write, gotNACK, adjustLayer,
// updateRate, the layer update of replaceTracks) through the verif hook
// rtpconn.VerifTrack, compares what is sent with Model/Forward.v and checks
// the C01-C04 monitors on the implementation's own behaviour.
package main

import (
	"bytes"
	"fmt"
	"sort"
	"strings"

	pcodecs "github.com/pion/rtp/codecs"

	"github.com/jech/galene/codecs"
	"github.com/jech/galene/rtpconn"

	"verifharness/internal/tr"
)

const staleMax = "18446744073709551615"

// ---------- packet construction ----------

type pktSpec struct {
	seq    uint16
	ts     uint32
	marker bool
	csrc   int
	ext    bool // RTP header extension (not stripped: Write must cope)
	vp8    bool
	// VP8
	x, i, m15, l, t, k bool
	s                  bool
	partID             int
	pid                uint16
	tid                uint8
	y                  bool
	keyframe           bool
	// VP9
	p, b, e bool
	sid     uint8
	u       bool
	payload []byte
}

func rtpHeader(sp *pktSpec) []byte {
	b0 := byte(0x80) | byte(sp.csrc&0xF)
	if sp.ext {
		b0 |= 0x10
	}
	b1 := byte(96)
	if sp.marker {
		b1 |= 0x80
	}
	h := []byte{b0, b1, byte(sp.seq >> 8), byte(sp.seq),
		byte(sp.ts >> 24), byte(sp.ts >> 16), byte(sp.ts >> 8), byte(sp.ts),
		0, 0, 0x12, 0x34}
	for c := 0; c < sp.csrc; c++ {
		h = append(h, 0xC0, byte(c), 0x5C, 0x01)
	}
	if sp.ext {
		h = append(h, 0xBE, 0xDE, 0, 1, 0x10, 0x7F, 0, 0)
	}
	return h
}

func buildVP8(sp *pktSpec) []byte {
	h := rtpHeader(sp)
	d0 := byte(sp.partID & 7)
	if sp.x {
		d0 |= 0x80
	}
	if sp.s {
		d0 |= 0x10
	}
	d := []byte{d0}
	if sp.x {
		var xb byte
		if sp.i {
			xb |= 0x80
		}
		if sp.l {
			xb |= 0x40
		}
		if sp.t {
			xb |= 0x20
		}
		if sp.k {
			xb |= 0x10
		}
		d = append(d, xb)
		if sp.i {
			if sp.m15 {
				d = append(d, 0x80|byte(sp.pid>>8)&0x7F, byte(sp.pid))
			} else {
				d = append(d, byte(sp.pid)&0x7F)
			}
		}
		if sp.l {
			d = append(d, 0x55)
		}
		if sp.t || sp.k {
			tk := sp.tid << 6
			if sp.y {
				tk |= 0x20
			}
			d = append(d, tk|0x03)
		}
	}
	pl := append([]byte{}, sp.payload...)
	if len(pl) > 0 {
		if sp.keyframe {
			pl[0] &^= 1
		} else {
			pl[0] |= 1
		}
	}
	return append(append(h, d...), pl...)
}

func buildVP9(sp *pktSpec) []byte {
	h := rtpHeader(sp)
	var d0 byte = 0x80 | 0x20 // I, L
	if sp.p {
		d0 |= 0x40
	}
	if sp.b {
		d0 |= 0x08
	}
	if sp.e {
		d0 |= 0x04
	}
	d := []byte{d0}
	if sp.m15 {
		d = append(d, 0x80|byte(sp.pid>>8)&0x7F, byte(sp.pid))
	} else {
		d = append(d, byte(sp.pid)&0x7F)
	}
	lb := sp.tid<<5 | sp.sid<<1
	if sp.u {
		lb |= 0x10
	}
	d = append(d, lb, 0x07) // layer indices, TL0PICIDX (non-flexible mode)
	pl := append([]byte{}, sp.payload...)
	if len(pl) > 0 {
		if sp.keyframe {
			pl[0] = 0x82 // frame marker, profile 0, key frame
		} else {
			pl[0] = 0x86 // inter frame
		}
	}
	return append(append(h, d...), pl...)
}

func flagsStr(f codecs.Flags) string {
	return fmt.Sprintf("%s %s %s %d %d %d %s %s %s %s %d",
		tr.B(f.Start), tr.B(f.End), tr.B(f.Keyframe), f.Pid, f.Tid, f.Sid,
		tr.B(f.TidUpSync), tr.B(f.SidUpSync), tr.B(f.SidNonReference), tr.B(f.Marker), f.Seqno)
}

// ---------- layer word ----------

type lword struct {
	sid, wantedSid, maxSid, tid, wantedTid, maxTid int
	limit                                          bool
}

func unpackLayer(w uint32) lword {
	return lword{int(w & 15), int(w >> 4 & 15), int(w >> 8 & 15),
		int(w >> 16 & 15), int(w >> 20 & 15), int(w >> 24 & 15), w>>12&1 != 0}
}

// ---------- history ----------

type sentRec struct {
	src  uint16
	data []byte
}

type fwdHist struct {
	pairIds, pairBitmaps []uint16 // set while a NACK is sent as id/bitmap pairs
	t                    *tr.Trace
	r                    *tr.Rand
	v                    *rtpconn.VerifTrack
	vp8                  bool
	mime                 string
	// reference (C01): withheld in-order arrivals
	started  bool
	next     int64
	withheld []int64
	sent     map[uint16]sentRec   // outgoing number -> last packet sent under it (since the last re-synchronisation)
	sentOld  map[uint16][]sentRec // what was sent under a number before earlier re-synchronisations
	tsNow    map[uint32]bool      // RTP timestamps of packets stored since the last re-synchronisation
	tsOld    map[uint32]bool      // ... and before it (the cache may still hold them under reused numbers)
	stored   map[uint16][]byte    // source number -> bytes in the cache
	flags    map[uint16]codecs.Flags
	// C02 pid bookkeeping: source pid -> forwarded pid of in-order frames
	lastFwdPid     int
	lastSrcPid     int
	haveFwdPid     bool
	droppedFrames  int
	lastInOrderPid int
	haveLastPid    bool
	pidBits        int
	sidChanged     bool
	kfCount        int
	// state shifts (VerifShift): all deltas moved by shiftK; numbers sent
	// before a shift are no longer tracked
	shiftK  uint16
	shifted bool
}

func newFwdHist(t *tr.Trace, r *tr.Rand, stream string, vp8 bool, cacheCap int) *fwdHist {
	mime := "video/VP9"
	if vp8 {
		mime = "video/VP8"
	}
	t.History("forward", stream, tr.B(vp8), cacheCap)
	v, err := rtpconn.NewVerifTrack(mime, cacheCap)
	if err != nil {
		panic(err)
	}
	return &fwdHist{t: t, r: r, v: v, vp8: vp8, mime: mime,
		sent: map[uint16]sentRec{}, sentOld: map[uint16][]sentRec{}, tsNow: map[uint32]bool{}, tsOld: map[uint32]bool{}, stored: map[uint16][]byte{}, flags: map[uint16]codecs.Flags{}}
}

func (h *fwdHist) before(r int64) int64 {
	return int64(sort.Search(len(h.withheld), func(i int) bool { return h.withheld[i] >= r }))
}
func (h *fwdHist) isWithheld(r int64) bool {
	i := sort.Search(len(h.withheld), func(i int) bool { return h.withheld[i] >= r })
	return i < len(h.withheld) && h.withheld[i] == r
}

func (h *fwdHist) rates(rate uint32, lossmax string, lossmaxV uint64, stale bool, remb uint64) {
	h.v.SetRates(rate, lossmaxV, remb)
	if stale {
		h.v.SetMaxBitrate(lossmaxV, 31*24576000)
	}
	h.t.Op("-", "rates", rate, lossmax, remb)
}

func (h *fwdHist) cstore(buf []byte, kf bool) {
	f, err := codecs.PacketFlags(h.mime, buf)
	if err != nil {
		return
	}
	ts := uint32(buf[4])<<24 | uint32(buf[5])<<16 | uint32(buf[6])<<8 | uint32(buf[7])
	h.v.Store(f.Seqno, ts, kf, f.Marker, buf)
	h.tsNow[ts] = true
	h.stored[f.Seqno] = append([]byte{}, buf...)
	h.flags[f.Seqno] = f
	h.t.Op("-", "cstore", f.Seqno, ts, kf, f.Marker, flagsStr(f), buf)
}

func sentStr(ps [][]byte, err error) string {
	if err != nil {
		return "err"
	}
	if len(ps) == 0 {
		return "-"
	}
	s := make([]string, len(ps))
	for i, p := range ps {
		s[i] = tr.Hex(p)
	}
	return strings.Join(s, ",")
}

// checkRewrite: C02 on one forwarded packet against its source packet.
func (h *fwdHist) checkRewrite(src, out []byte, f codecs.Flags, layerSid int) {
	h.t.Checked("C02.only_seq_marker_pid")
	if len(src) != len(out) {
		h.t.Fail("C02", "only_seq_marker_pid", fmt.Sprintf("length changed %d -> %d", len(src), len(out)))
		return
	}
	// marker only ever set, and only on the end of a frame of the current spatial layer
	sm, om := src[1]&0x80 != 0, out[1]&0x80 != 0
	if sm && !om {
		h.t.Fail("C02", "marker_only_set", "marker bit cleared")
	}
	if !sm && om && !(f.End && int(f.Sid) == layerSid) {
		h.t.Fail("C02", "marker_condition", fmt.Sprintf("marker set on a packet with End=%v Sid=%d while the forwarded spatial layer is %d", f.End, f.Sid, layerSid))
	}
	if src[1]&0x7F != out[1]&0x7F || src[0] != out[0] {
		h.t.Fail("C02", "only_seq_marker_pid", "first header bytes changed")
	}
	// everything from the timestamp on is unchanged, except the VP8 picture id
	diff := []int{}
	for i := 4; i < len(src); i++ {
		if src[i] != out[i] {
			diff = append(diff, i)
		}
	}
	if len(diff) == 0 {
		return
	}
	if !h.vp8 {
		h.t.Fail("C02", "only_seq_marker_pid", fmt.Sprintf("non-VP8 packet changed at offsets %v", diff))
		return
	}
	// independent check with pion's depacketiser: only PictureID may differ
	hl := 12 + int(src[0]&0xF)*4
	if src[0]&0x10 != 0 {
		hl += 4 + (int(src[hl+2])<<8|int(src[hl+3]))*4
	}
	var a, b pcodecs.VP8Packet
	pa, ea := a.Unmarshal(src[hl:])
	pb, eb := b.Unmarshal(out[hl:])
	if ea != nil || eb != nil {
		h.t.Fail("C02", "only_seq_marker_pid", "rewritten packet no longer parses")
		return
	}
	a.PictureID, b.PictureID = 0, 0
	a.Payload, b.Payload = nil, nil
	if fmt.Sprint(a) != fmt.Sprint(b) || !bytes.Equal(pa, pb) {
		h.t.Fail("C02", "only_seq_marker_pid", fmt.Sprintf("bytes other than the picture id changed (offsets %v)", diff))
	}
	for _, d := range diff {
		if d < hl || d > hl+3 {
			h.t.Fail("C02", "only_seq_marker_pid", fmt.Sprintf("byte %d outside the payload descriptor changed", d))
		}
	}
}

// write feeds one packet to Write, as readLoop/rtpWriter would.
func (h *fwdHist) write(buf []byte, inCache bool, kf bool) {
	f, ferr := codecs.PacketFlags(h.mime, buf)
	if ferr != nil {
		// Write returns the error before touching any state
		ps, _, err := h.v.Write(buf)
		h.t.Checked("C01.unparsable_not_forwarded")
		if err == nil || len(ps) != 0 {
			h.t.Fail("C02", "flags_error", "Write forwarded a packet whose flags cannot be parsed")
			h.t.Fail("C01", "unparsable_not_forwarded", fmt.Sprintf("a packet whose payload cannot be parsed (%s) was forwarded without passing through the sequence-number map: after %d withheld packets it goes out under a number that belongs to another packet", tr.Hex(buf), len(h.withheld)))
		}
		h.t.Note("unparsable-packet")
		return
	}
	if inCache {
		h.cstore(buf, kf)
	}
	before := unpackLayer(h.v.Layer())
	kf0 := h.v.Keyframes()
	orig := append([]byte{}, buf...)
	ps, _, err := h.v.Write(buf)
	// the writer loop hands the same buffer to every receiver of the stream:
	// Write must leave it as it found it
	h.t.Checked("C01.shared_buffer_untouched")
	if !bytes.Equal(orig, buf) {
		h.t.Fail("C01", "shared_buffer_untouched", fmt.Sprintf("Write modified the caller's buffer (packet %d): the next receiver of the same packet would be handed %s instead of %s", f.Seqno, tr.Hex(buf), tr.Hex(orig)))
		h.t.Fail("C02", "shared_buffer_untouched", fmt.Sprintf("Write modified the caller's buffer (packet %d)", f.Seqno))
		copy(buf, orig)
	}
	after := unpackLayer(h.v.Layer())
	kfreq := h.v.Keyframes() > kf0
	h.t.Op(fmt.Sprintf("%s %d %s", sentStr(ps, err), h.v.Layer(), tr.B(kfreq)), "write", flagsStr(f), buf)
	h.checkLayer(before, after, f, true)
	if err != nil {
		return
	}
	// unwrapped arrival number
	s := f.Seqno
	var r int64
	if !h.started {
		r = 1<<20 + int64(s)
	} else {
		r = h.next + int64(int16(s-uint16(h.next)))
	}
	resync := !h.started || r-h.next > 8192 || h.next-r > 8192
	forwarded := len(ps) == 1
	if len(ps) > 1 {
		h.t.Fail("C01", "number", "more than one packet sent for one input packet")
	}
	if resync {
		h.withheld = nil
		h.shiftK = 0 // the map starts afresh: delta 0
		// the numbering restarts, but what was sent before may still be in the
		// cache and may still be asked for: keep it as "sent under that
		// number in an earlier numbering"
		for o, rec := range h.sent {
			l := append(h.sentOld[o], rec)
			if len(l) > 4 {
				l = l[len(l)-4:]
			}
			h.sentOld[o] = l
		}
		h.sent = map[uint16]sentRec{}
		for ts := range h.tsNow {
			h.tsOld[ts] = true
		}
		h.tsNow = map[uint32]bool{}
		h.haveFwdPid = false
		h.droppedFrames = 0
		h.haveLastPid = false
		h.next = r + 1
		h.started = true
	}
	inOrder := r >= h.next || resync
	exactNext := r == h.next && !resync
	aboveLayer := int(f.Tid) > after.tid || int(f.Sid) > after.sid ||
		(int(f.Sid) < after.sid && f.SidNonReference)
	if forwarded {
		out := ps[0]
		o := uint16(out[2])<<8 | uint16(out[3])
		h.t.Checked("C01.number")
		if h.isWithheld(r) {
			h.t.Fail("C01", "withheld_never_forwarded", fmt.Sprintf("withheld packet %d forwarded later as %d", r, o))
		} else if o != uint16(r-h.before(r))+h.shiftK {
			h.t.Fail("C01", "number", fmt.Sprintf("packet %d forwarded as %d, expected %d", r, o, uint16(r-h.before(r))+h.shiftK))
		}
		if prev, ok := h.sent[o]; ok && prev.src != s {
			h.t.Fail("C01", "injective", fmt.Sprintf("packets %d and %d both forwarded as %d", prev.src, s, o))
		}
		h.sent[o] = sentRec{s, append([]byte{}, out...)}
		h.checkRewrite(buf, out, f, after.sid)
		h.checkPid(buf, out, f, inOrder)
	} else if inOrder && !resync {
		// an in-order packet that was not forwarded was withheld
		h.withheld = append(h.withheld, r)
		h.t.Checked("C04.withhold")
		if !aboveLayer {
			h.t.Fail("C04", "withhold", fmt.Sprintf("in-order packet %d (tid %d sid %d) within the selected layers (tid %d sid %d) was not forwarded", r, f.Tid, f.Sid, after.tid, after.sid))
		}
		if h.vp8 && (!h.haveLastPid || int(f.Pid) != h.lastInOrderPid) {
			h.droppedFrames++
		}
	}
	if inOrder {
		h.t.Checked("C04.withhold")
		if aboveLayer && forwarded && exactNext {
			h.t.Fail("C04", "withhold", fmt.Sprintf("in-order packet %d above the selected layer (tid %d>%d or sid %d>%d) was forwarded", r, f.Tid, after.tid, f.Sid, after.sid))
		}
		h.next = r + 1
		h.lastInOrderPid = int(f.Pid)
		h.haveLastPid = true
	}
}

// checkPid: C02, a forwarded in-order VP8 frame carries its source picture id
// minus the number of frames withheld before it, and all packets of one
// frame carry one id.
func (h *fwdHist) checkPid(src, out []byte, f codecs.Flags, inOrder bool) {
	if !h.vp8 || !inOrder || h.pidBits == 0 {
		return
	}
	hl := 12 + int(src[0]&0xF)*4
	if src[0]&0x10 != 0 {
		hl += 4 + (int(src[hl+2])<<8|int(src[hl+3]))*4
	}
	var b pcodecs.VP8Packet
	if _, err := b.Unmarshal(out[hl:]); err != nil || b.I == 0 {
		return
	}
	mask := 1<<uint(h.pidBits) - 1
	got := int(b.PictureID) & mask
	want := (int(f.Pid) - h.droppedFrames) & mask
	h.t.Checked("C02.pids_consecutive")
	if got != want {
		h.t.Fail("C02", "pids_consecutive", fmt.Sprintf("forwarded frame with source id %d carries id %d after %d withheld frames, expected %d", f.Pid, got, h.droppedFrames, want))
	}
	if h.haveFwdPid && int(f.Pid) == h.lastSrcPid && got != h.lastFwdPid {
		h.t.Fail("C02", "pids_consecutive", fmt.Sprintf("two packets of one frame carry picture ids %d and %d", h.lastFwdPid, got))
	}
	h.haveFwdPid = true
	h.lastFwdPid = got
	h.lastSrcPid = int(f.Pid)
}

// checkLayer: C04 legality of one transition of the layer word.
func (h *fwdHist) checkLayer(b, a lword, f codecs.Flags, isWrite bool) {
	h.t.Checked("C04.bounds")
	if a.sid > a.maxSid || a.tid > a.maxTid || a.wantedSid > a.maxSid || a.wantedTid > a.maxTid {
		h.t.Fail("C04", "bounds", fmt.Sprintf("selected layer above the highest seen: %+v", a))
	}
	if !isWrite {
		if a.sid != b.sid || a.tid != b.tid {
			h.t.Fail("C04", "switch_only_in_write", fmt.Sprintf("current layer changed outside Write: %+v -> %+v", b, a))
		}
		return
	}
	eagerT := int(f.Tid) > b.maxTid && b.tid == b.maxTid
	eagerS := int(f.Sid) > b.maxSid && b.sid == b.maxSid && !b.limit
	h.t.Checked("C04.sid_switch")
	if a.sid != b.sid {
		h.sidChanged = true
		if !(f.Start && f.Keyframe) && !eagerS {
			h.t.Fail("C04", "sid_switch", fmt.Sprintf("spatial layer %d -> %d on a packet that is not the start of a keyframe (start=%v kf=%v)", b.sid, a.sid, f.Start, f.Keyframe))
		}
	}
	h.t.Checked("C04.tid_switch")
	if a.tid < b.tid && !f.Start {
		h.t.Fail("C04", "tid_switch", fmt.Sprintf("temporal layer fell %d -> %d in the middle of a frame", b.tid, a.tid))
	}
	if a.tid > b.tid && !eagerT {
		if !(f.Start && (f.Keyframe || (f.TidUpSync && a.tid <= a.wantedTid))) {
			h.t.Fail("C04", "tid_switch", fmt.Sprintf("temporal layer rose %d -> %d without a keyframe or an up-switch point", b.tid, a.tid))
		}
	}
	if a.limit && a.wantedSid != 0 {
		h.t.Fail("C04", "limit", "limitSid set but wantedSid != 0")
	}
}

// nackPairs: the same feedback as RTCP carries it, a packet id and the bitmap
// of the 16 numbers that follow; gotNACK serves the id, then the set bits in
// ascending order - each number through Reverse on its own.
func (h *fwdHist) nackPairs(ids, bitmaps []uint16) {
	var os []uint16
	for i, id := range ids {
		os = append(os, id)
		for b := 0; b < 16; b++ {
			if bitmaps[i]&(1<<uint(b)) != 0 {
				os = append(os, id+uint16(b)+1)
			}
		}
	}
	h.pairIds, h.pairBitmaps = ids, bitmaps
	h.t.Note("nack-with-bitmap")
	h.nack(os)
	h.pairIds, h.pairBitmaps = nil, nil
}

func (h *fwdHist) nack(os []uint16) {
	before := unpackLayer(h.v.Layer())
	var ps [][]byte
	if h.pairIds != nil {
		ps = h.v.NACKPairs(h.pairIds, h.pairBitmaps)
	} else {
		ps = h.v.NACK(os)
	}
	after := unpackLayer(h.v.Layer())
	strs := make([]string, len(os))
	for i, o := range os {
		strs[i] = fmt.Sprint(o)
	}
	h.t.Op(fmt.Sprintf("%s %d", sentStr(ps, nil), h.v.Layer()), "nack", strings.Join(strs, ","))
	if before != after {
		// a retransmission goes through Write and may legally move the layer
		// only as Write may; checked by the model correspondence
	}
	for _, p := range ps {
		o := uint16(p[2])<<8 | uint16(p[3])
		h.t.Checked("C03.same_or_nothing")
		want := false
		for _, x := range os {
			if x == o {
				want = true
			}
		}
		if !want {
			h.t.Fail("C03", "same_or_nothing", fmt.Sprintf("NACK %v answered with a packet numbered %d", os, o))
			continue
		}
		if len(p) >= 8 {
			ts := uint32(p[4])<<24 | uint32(p[5])<<16 | uint32(p[6])<<8 | uint32(p[7])
			if h.tsOld[ts] && !h.tsNow[ts] {
				// a packet of the sequence before a restart whose number the new
				// sequence happens to reuse while the cache still holds it: a
				// publisher restart with number reuse is outside the histories
				// the property quantifies over
				h.t.Note("nack-hit-packet-of-earlier-sequence")
				continue
			}
		}
		prev, ok := h.sent[o]
		if !ok && h.shifted {
			continue // sent before a state shift: only the model comparison applies
		}
		if olds := h.sentOld[o]; len(olds) > 0 {
			// the number was (also) used before a re-synchronisation: the
			// answer may be any packet that was sent under it
			match := ok && bytes.Equal(prev.data, p)
			for _, r := range olds {
				if bytes.Equal(r.data, p) {
					match = true
				}
			}
			if match {
				continue
			}
			if !ok {
				prev, ok = olds[len(olds)-1], true
			}
		}
		if !ok {
			h.t.Fail("C03", "same_or_nothing", fmt.Sprintf("NACK of %d answered although nothing was sent under that number", o))
			continue
		}
		if !bytes.Equal(prev.data, p) {
			q := append([]byte{}, p...)
			q[1] = q[1]&0x7F | prev.data[1]&0x80
			if bytes.Equal(prev.data, q) && h.sidChanged {
				h.t.Fail("C03", "marker_after_sid_change", fmt.Sprintf("retransmission of %d differs from the original in the marker bit only, after a spatial layer change", o))
			} else {
				h.t.Fail("C03", "same_or_nothing", fmt.Sprintf("retransmission of %d differs from the packet originally sent under that number", o))
			}
		}
	}
}

// shift moves every delta of the packet map (hook VerifShift), as if dk fewer
// packets in dpid more frames had been withheld long ago: reaches deltas
// around the 16-bit wrap, which real histories reach only after tens of
// thousands of withheld packets.
func (h *fwdHist) shift(dk, dpid uint16) {
	ok := h.v.MapShift(dk, dpid)
	h.t.Op(tr.B(ok), "shift", dk, dpid)
	if !ok {
		return
	}
	h.shiftK += dk
	h.shifted = true
	h.sent = map[uint16]sentRec{}
	h.droppedFrames += int(dpid)
	h.haveFwdPid = false
	h.t.Note("state-shift")
}

// currentDelta is the map's sequence-number delta according to the reference.
func (h *fwdHist) currentDelta() uint16 { return h.shiftK - uint16(len(h.withheld)) }

func (h *fwdHist) adjust() {
	b := unpackLayer(h.v.Layer())
	h.v.AdjustLayer()
	a := unpackLayer(h.v.Layer())
	h.t.Op(fmt.Sprint(h.v.Layer()), "adjust")
	h.checkLayer(b, a, codecs.Flags{}, false)
}

func (h *fwdHist) limit(on bool) {
	b := unpackLayer(h.v.Layer())
	h.v.SetLimitSid(on)
	a := unpackLayer(h.v.Layer())
	h.t.Op(fmt.Sprint(h.v.Layer()), "limit", on)
	h.checkLayer(b, a, codecs.Flags{}, false)
}

func (h *fwdHist) updrate(rate0 uint64, stale bool, loss uint8, rate uint32) {
	if stale {
		h.v.SetMaxBitrate(rate0, 31*24576000)
	} else {
		h.v.SetMaxBitrate(rate0, 0)
	}
	h.v.SetRates2(rate)
	got := h.v.UpdateRate(loss)
	r0 := fmt.Sprint(rate0)
	if stale {
		r0 = staleMax
	}
	h.t.Op(fmt.Sprint(got), "updrate", r0, loss, uint64(rate)*8)
	h.t.Checked("C04.rate_bounds")
	if got < 9600 || got > 1<<30 {
		h.t.Fail("C04", "rate_bounds", fmt.Sprintf("loss-based bitrate ceiling %d outside [9600, 2^30]", got))
	}
}

func (h *fwdHist) dump() {
	h.t.Op(fmt.Sprintf("%s | %d", h.v.MapDump(), h.v.Layer()), "dump")
}

// ---------- generators ----------

type frameGen struct {
	seq     uint16
	ts      uint32
	pid     uint16
	frame   int
	m15     bool
	tlayers int
	slayers int
	kfEvery int
	extHdr  bool
	csrc    int
}

// packets of the next frame (or VP9 superframe: one frame per spatial layer)
func (g *frameGen) next(h *fwdHist, r *tr.Rand) [][]byte {
	kf := g.frame%g.kfEvery == 0
	tid := uint8(0)
	if !kf && g.tlayers > 1 {
		switch g.frame % 4 {
		case 1, 3:
			tid = uint8(g.tlayers - 1)
		case 2:
			tid = uint8((g.tlayers - 1) / 2)
			if g.tlayers == 2 {
				tid = 0
			}
		}
	}
	var out [][]byte
	mask := uint16(0x7F)
	if g.m15 {
		mask = 0x7FFF
	}
	if h.vp8 {
		n := r.Range(1, 4)
		for i := 0; i < n; i++ {
			sp := &pktSpec{seq: g.seq, ts: g.ts, marker: i == n-1, csrc: g.csrc, ext: g.extHdr,
				x: true, i: true, m15: g.m15, t: true, l: r.Chance(1, 3), k: r.Chance(1, 5),
				s: i == 0, pid: g.pid & mask, tid: tid, y: r.Chance(1, 3), keyframe: kf,
				payload: r.Bytes(r.Range(1, 30))}
			if i > 0 {
				sp.partID = r.Range(0, 3)
			}
			out = append(out, buildVP8(sp))
			g.seq++
		}
	} else {
		for sid := 0; sid < g.slayers; sid++ {
			n := r.Range(1, 3)
			for i := 0; i < n; i++ {
				sp := &pktSpec{seq: g.seq, ts: g.ts, marker: i == n-1 && sid == g.slayers-1,
					csrc: g.csrc, ext: g.extHdr, m15: g.m15, pid: g.pid & mask, tid: tid,
					sid: uint8(sid), b: i == 0, e: i == n-1, p: !kf, u: r.Chance(1, 3),
					keyframe: kf && sid == 0, payload: r.Bytes(r.Range(1, 30))}
				out = append(out, buildVP9(sp))
				g.seq++
			}
		}
	}
	// packets at and just below the largest size a cache slot holds (BufSize =
	// 1504): every buffer on the way (the cache slot, gotNACK's scratch buffer,
	// the rewrite buffer) must take them whole
	if r.Chance(1, 30) && len(out) > 0 {
		i := r.Intn(len(out))
		want := []int{1500, 1501, 1503, 1504}[r.Intn(4)]
		if n := want - len(out[i]); n > 0 {
			out[i] = append(out[i], r.Bytes(n)...)
			h.t.Note("packet-of-maximal-size")
		}
	}
	g.frame++
	g.pid++
	g.ts += 3000
	return out
}

func runForward(t *tr.Trace, r *tr.Rand, n int) {
	fwdCorpus(t, r)
	for hi := 0; hi < n; hi++ {
		vp8 := r.Chance(3, 5)
		stream := []string{"steady", "lossy", "events"}[r.Pick(3, 3, 4)]
		h := newFwdHist(t, r, stream, vp8, r.Range(8, 200))
		g := &frameGen{m15: r.Bool(), tlayers: r.Range(1, 3), slayers: 1, kfEvery: r.Range(8, 40)}
		if !vp8 {
			g.slayers = r.Range(1, 3)
		}
		if r.Chance(1, 6) {
			g.csrc = r.Range(1, 3)
		}
		if r.Chance(1, 8) {
			g.extHdr = true
		}
		h.pidBits = 7
		if g.m15 {
			h.pidBits = 15
		}
		switch r.Pick(2, 2, 2, 2) {
		case 0:
			g.seq = 0
		case 1:
			g.seq = uint16(65536 - r.Range(1, 60))
		case 2:
			g.seq = uint16(57344 + r.Intn(8191))
		default:
			g.seq = uint16(r.U64())
		}
		g.pid = uint16(r.Intn(32768))
		if r.Chance(1, 3) {
			g.pid = uint16(0x7F - r.Intn(5)) // near the 7-bit wrap
		}
		g.ts = uint32(r.U64())
		// initial bandwidth situation
		h.rates(uint32(r.Range(0, 200000)), "524288", 524288, false, 0)
		nframes := r.Range(10, 120)
		var recent [][]byte
		for fi := 0; fi < nframes; fi++ {
			if stream != "steady" && g.tlayers < 4 && r.Chance(1, 18) {
				// the publisher starts a further temporal layer in mid-stream (or its
				// first frames were lost): the receiver sees a new top layer while its
				// own selection may be below the old top, with a step up pending
				g.tlayers++
				h.t.Note("temporal-layer-added")
			}
			pkts := g.next(h, r)
			// arrival order: loss, duplicates, reordering (whole-packet)
			for pi := 0; pi < len(pkts); pi++ {
				p := pkts[pi]
				if stream != "steady" && r.Chance(1, 25) {
					continue // lost upstream
				}
				if stream != "steady" && r.Chance(1, 30) && len(recent) > 0 {
					h.write(recent[r.Intn(len(recent))], false, false) // late duplicate
				}
				if stream != "steady" && r.Chance(1, 35) {
					// a packet the codec parser rejects (bandwidth probing: padding
					// only, no payload; or a payload cut inside its descriptor)
					q := append([]byte{}, p[:12]...)
					q[2], q[3] = byte((g.seq+uint16(r.Range(0, 3)))>>8), byte(g.seq+uint16(r.Range(0, 3)))
					if r.Bool() && len(p) > 13 {
						q = append(q, p[12])
					}
					h.write(q, false, false)
				}
				h.write(p, true, false)
				recent = append(recent, p)
				if len(recent) > 40 {
					recent = recent[1:]
				}
			}
			if stream == "events" || r.Chance(1, 6) {
				switch r.Pick(4, 3, 2, 3, 2, 1) {
				case 0: // feedback says there is room / congestion
					switch r.Pick(2, 2, 2, 1) {
					case 3:
						// exactly at, just below and just above the two thresholds
						// of adjustLayer: rate*8 against max*7/8 and max*3/2
						m := uint64(r.Range(1, 6000)) * 64
						rate := m * 7 / 64
						if r.Bool() {
							rate = m * 3 / 16
						}
						rate += uint64(r.Range(0, 2))
						if rate > 0 {
							rate--
						}
						h.rates(uint32(rate), "524288", 524288, false, m)
					case 0:
						h.rates(uint32(r.Range(0, 1000)), "524288", 524288, false, uint64(r.Range(100000, 10000000)))
					case 1:
						h.rates(uint32(r.Range(100000, 400000)), "524288", 524288, false, uint64(r.Range(1, 200000)))
					default:
						h.rates(uint32(r.Range(0, 400000)), staleMax, 7, true, uint64(r.Intn(2)*r.Range(1, 4000000)))
					}
					h.adjust()
				case 1:
					h.adjust()
				case 2:
					h.limit(r.Bool())
				case 3: // NACKs: sent numbers, neighbours, random
					var os []uint16
					keys := make([]int, 0, len(h.sent))
					for o := range h.sent {
						keys = append(keys, int(o))
					}
					sort.Ints(keys)
					for k := 0; k < r.Range(1, 4); k++ {
						switch r.Pick(5, 2, 1) {
						case 0:
							if len(keys) > 0 {
								os = append(os, uint16(keys[len(keys)-1-r.Intn(min(len(keys), 30))]))
							}
						case 1:
							if len(keys) > 0 {
								os = append(os, uint16(keys[len(keys)-1])+uint16(r.Range(1, 3)))
							}
						default:
							os = append(os, uint16(r.U64()))
						}
					}
					if len(os) > 0 && r.Bool() {
						// as pairs: each chosen number with a sparse bitmap of its successors
						var bms []uint16
						for range os {
							bm := uint16(0)
							for b := 0; b < 16; b++ {
								if r.Chance(1, 4) {
									bm |= 1 << uint(b)
								}
							}
							bms = append(bms, bm)
						}
						h.nackPairs(os, bms)
					} else if len(os) > 0 {
						h.nack(os)
					}
				case 4:
					// previous ceiling: anywhere, and at and around the bounds (a fresh
					// track holds 0 with a fresh timestamp during the first 30 s)
					rate0 := uint64(r.Range(0, 3000000))
					switch r.Pick(3, 2, 2, 1) {
					case 1:
						rate0 = []uint64{0, 1, 9599, 9600, 9601}[r.Intn(5)]
					case 2:
						rate0 = []uint64{1<<30 - 1, 1 << 30, 1<<30 + 1, 1 << 40, (1 << 30) * 256 / 269, (1<<30)*256/269 + 1, 1<<30 - uint64(r.Range(2, 50000000))}[r.Intn(7)]
					case 3:
						rate0 = uint64(r.Range(0, 9600))
					}
					loss := uint8(r.Intn(256))
					if r.Chance(1, 3) {
						loss = []uint8{0, 4, 5, 6, 25, 26, 27, 255}[r.Intn(8)]
					}
					est := uint32(r.Range(0, 400000))
					if r.Bool() {
						// the sender really uses the ceiling (actual >= 3/4 of it): the
						// branch that RAISES the ceiling, also right below its maximum
						if want := rate0*3/32 + uint64(r.Range(0, 2000)); want < 1<<32 {
							est = uint32(want)
						}
						if r.Bool() {
							loss = uint8(r.Intn(5))
						}
					}
					h.updrate(rate0, r.Chance(1, 5), loss, est)
					// updateRate moved the loss-based maximum and the driver moved
					// the estimator: fix the inputs of adjustLayer again
					h.rates(uint32(r.Range(0, 300000)), "524288", 524288, false, uint64(r.Intn(2)*r.Range(1, 4000000)))
				default:
					h.dump()
				}
			}
			if stream != "steady" && r.Chance(1, 60) {
				// the publisher's numbering jumps beyond the window (a restart or a
				// long outage): the map re-synchronises, and nothing of the old
				// numbering (deltas, withheld-frame count) may survive
				// displacement beyond the window in BOTH directions: a number of
				// the old sequence must not look like a late copy in the new one
				// (a publisher does not reuse recent numbers for other packets)
				g.seq += uint16(r.Range(8193, 57343))
				recent = nil
				h.t.Note("seqno-jump")
			}
			if r.Chance(1, 40) && len(h.withheld) > 0 {
				// move the deltas: to zero (seqno delta wrapped all the way round
				// while frames were withheld), next to zero, or anywhere
				d := h.currentDelta()
				var dk uint16
				switch r.Pick(3, 2, 2) {
				case 0:
					dk = -d
				case 1:
					dk = -d + uint16(r.Range(1, 3)) - 2
				default:
					dk = uint16(r.U64())
				}
				dpid := uint16(r.Intn(3) * r.Intn(32768))
				if r.Chance(1, 3) {
					dpid = uint16(-h.droppedFrames) // picture-id delta back to zero
				}
				h.shift(dk, dpid)
			}
		}
		h.dump()
		t.Nontrivial(fmt.Sprintf("forward/%s/%v/%d/%d/%d", stream, vp8, g.seq, len(h.withheld), len(h.sent)))
	}
}

// fwdCorpus: regression histories (F1 picture ids after a withheld frame,
// F9 start numbers, loss just before a packet of an unwanted layer).
func fwdCorpus(t *tr.Trace, r *tr.Rand) {
	for _, start := range []uint16{60000, 65530, 0} {
		for _, m15 := range []bool{false, true} {
			h := newFwdHist(t, r, "corpus-two-temporal-layers", true, 64)
			h.pidBits = 7
			if m15 {
				h.pidBits = 15
			}
			g := &frameGen{seq: start, pid: 100, m15: m15, tlayers: 2, slayers: 1, kfEvery: 1000, ts: 1000}
			h.rates(400000, "524288", 524288, false, 1) // congested: go down to tid 0
			var all [][]byte
			for fi := 0; fi < 30; fi++ {
				pkts := g.next(h, r)
				for pi, p := range pkts {
					all = append(all, p)
					if fi == 12 && pi == len(pkts)-1 {
						continue // lost upstream just before the next (unwanted-layer) frame
					}
					h.write(p, true, false)
				}
				if fi == 3 {
					h.adjust()
				}
				if fi == 14 {
					h.write(all[len(all)-4], false, false) // the lost packet, late
				}
			}
			h.dump()
		}
	}
	// duplicates of every packet, withheld ones included, with the withheld
	// packets falling on every number around the 16-bit wrap (0 and 65535 in
	// particular: Map answers a packet it does not forward with (false, 0, 0))
	for start := 65516; start < 65536; start++ {
		h := newFwdHist(t, r, "corpus-duplicates-around-wrap", true, 256)
		h.pidBits = 15
		g := &frameGen{seq: uint16(start), pid: 100, m15: true, tlayers: 2, slayers: 1, kfEvery: 1000, ts: 1000}
		h.rates(400000, "524288", 524288, false, 1) // congested: go down to tid 0
		var all [][]byte
		for fi := 0; fi < 24; fi++ {
			for _, p := range g.next(h, r) {
				all = append(all, p)
				h.write(p, true, false)
			}
			if fi == 3 {
				h.adjust()
			}
			if fi == 12 || fi == 23 {
				for _, p := range all {
					h.write(p, false, false)
				}
			}
		}
	}
	// F31: two long loss bursts, each inside the window, so that a packet
	// sent 10000 numbers ago is still covered by the map and still in the
	// cache (few packets arrived since); the receiver NACKs it.  The
	// retransmission goes through Write again and must not restart the map:
	// the packets that follow keep their numbers and what was withheld stays
	// withheld.
	for _, start := range []uint16{1000, 60000} {
		h := newFwdHist(t, r, "corpus-nack-of-old-packet", true, 512)
		h.pidBits = 15
		g := &frameGen{seq: start, pid: 100, m15: true, tlayers: 2, slayers: 1, kfEvery: 1000, ts: 1000}
		h.rates(400000, "524288", 524288, false, 1)
		var early []uint16
		for fi := 0; fi < 60; fi++ {
			for _, p := range g.next(h, r) {
				h.write(p, true, false)
			}
			if fi == 3 {
				h.adjust()
			}
			if fi == 20 {
				for o := range h.sent {
					early = append(early, o)
				}
				sort.Slice(early, func(i, j int) bool { return early[i] < early[j] })
			}
			if fi == 25 || fi == 35 {
				g.seq += 5000 // 5000 packets lost upstream
			}
		}
		if len(early) > 6 {
			h.nack(early[len(early)-6:])
		}
		for fi := 0; fi < 20; fi++ {
			for _, p := range g.next(h, r) {
				h.write(p, true, false)
			}
		}
		h.dump()
	}
}

func main() { tr.Main(runForward) }

// nackrace: one real rtpDownTrack; the forwarding goroutine (the writer loop's
// role: store in the publisher's cache, then Write) runs concurrently with the
// RTCP listener's role (gotNACK for recently sent numbers: Reverse, the cache,
// Write again).  Every packet on the rewrite path.  C03: whatever leaves the
// track under an outgoing number - first transmission or retransmission - is
// the packet that belongs to that number, never another packet's bytes or a
// mixture, also while the two goroutines overlap.  Monitors only; built with
// the race detector (a report ends the process: violation).
package main

import (
	"bytes"
	"fmt"
	"sync"
	"sync/atomic"

	"github.com/jech/galene/rtpconn"

	"verifharness/internal/tr"
)

// a VP9 packet that ends a frame without the RTP marker: Write sets the
// marker, so the packet is copied into a buffer and rewritten
func vp9End(seq uint16, salt byte) []byte {
	n := 20 + int(seq%37)*23
	p := make([]byte, 12, 12+2+n)
	p[0] = 0x80
	p[1] = 96
	p[2] = byte(seq >> 8)
	p[3] = byte(seq)
	p[4], p[5], p[6], p[7] = 0, byte(seq>>8), byte(seq), salt
	p[8], p[9], p[10], p[11] = 0, 0, 0x12, 0x34
	p = append(p, 0x0C) // B and E
	for i := 0; i < n; i++ {
		p = append(p, salt^byte(seq)^byte(i*11))
	}
	p[13] = 0x82
	return p
}

func runNackRace(t *tr.Trace, r *tr.Rand, n int) {
	for hi := 0; hi < n; hi++ {
		per := r.Range(3000, 6000)
		nackers := r.Range(1, 2)
		t.History("nackrace", fmt.Sprintf("nackers%d", nackers), per)
		v, err := rtpconn.NewVerifTrack("video/VP9", 256)
		if err != nil {
			panic(err)
		}
		start := uint16(r.U64())
		salt := byte(r.Intn(256))
		var sent atomic.Int64 // number of packets forwarded so far
		var mu sync.Mutex
		var emitted [][]byte
		collect := func(ps [][]byte) {
			mu.Lock()
			emitted = append(emitted, ps...)
			mu.Unlock()
		}
		var wg sync.WaitGroup
		wg.Add(1)
		go func() {
			defer wg.Done()
			for k := 0; k < per; k++ {
				s := start + uint16(k)
				in := vp9End(s, salt)
				v.Store(s, uint32(k)*3000, false, false, in)
				out, _, _ := v.Write(in)
				collect(out)
				sent.Add(1)
			}
		}()
		retrans := make([]int, nackers)
		for ni := 0; ni < nackers; ni++ {
			wg.Add(1)
			seed := r.U64()
			go func(ni int) {
				defer wg.Done()
				rr := tr.NewRand(seed)
				for sent.Load() < int64(per) {
					k := sent.Load()
					if k < 4 {
						continue
					}
					var os []uint16
					for j := 0; j < rr.Range(1, 4); j++ {
						os = append(os, start+uint16(k-1-int64(rr.Intn(int(min(k, 40))))))
					}
					out := v.NACK(os)
					retrans[ni] += len(out)
					collect(out)
				}
			}(ni)
		}
		wg.Wait()
		bad := ""
		for _, o := range emitted {
			if len(o) < 12 {
				bad = fmt.Sprintf("a packet of %d bytes was sent", len(o))
				break
			}
			s := uint16(o[2])<<8 | uint16(o[3])
			want := vp9End(s, salt)
			want[1] |= 0x80
			if !bytes.Equal(o, want) {
				bad = fmt.Sprintf("a packet sent under number %d (%d bytes) is not the packet that belongs to that number with the marker set (first difference at byte %d, %d bytes expected): another packet's bytes or a mixture; %d packets forwarded, retransmissions overlapping",
					s, len(o), firstDiff(o, want), len(want), per)
				break
			}
		}
		t.Checked("C03.concurrent_retransmission")
		if bad != "" {
			t.Fail("C03", "concurrent_retransmission", bad)
		}
		nr := 0
		for _, x := range retrans {
			nr += x
		}
		t.Op(tr.B(bad == ""), "overlap", per, nackers)
		if nr > 0 {
			t.Note("retransmissions-during-forwarding")
			t.Nontrivial(fmt.Sprintf("nackrace/%d/%d", per, nackers))
		}
	}
}

func firstDiff(a, b []byte) int {
	for i := 0; i < len(a) && i < len(b); i++ {
		if a[i] != b[i] {
			return i
		}
	}
	if len(a) != len(b) {
		return min(len(a), len(b))
	}
	return -1
}

func main() { tr.Main(runNackRace) }

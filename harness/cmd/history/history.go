// history: correspondence driver and monitors for the chat history of a
// group (C15, history part): group.AddToChatHistory, GetChatHistory,
// ClearChatHistory and maxHistoryAge on a REAL *group.Group created from a
// description file.
//
// Time.  GetChatHistory reads the real clock (time.Since), which cannot be
// moved.  Every history samples T0 = time.Now() once; entries are added with
// explicit times T0+off (AddToChatHistory takes the time as an argument) and
// the trace carries off (nanoseconds, any size).  The model is asked for
// `get 0`: it sees T0 as time 0.  The real calls happen at T0+e with
// 0 <= e < 30 s (checked), so the generator never places an entry within
// 60 s of the boundary of any age used in the history: the model's answer at
// 0 and the implementation's at T0+e are then the same by construction.
// The age is varied through the description file (max-history-age), the
// distance of the entries to the boundary through their times.
//
// The monitors do NOT use that tolerance: they sample the clock before and
// after the call and state what must hold for every reading in between.
package main

import (
	"fmt"
	"math/big"
	"os"
	"path/filepath"
	"strings"
	"time"

	"github.com/jech/galene/group"

	"verifharness/internal/tr"
)

const propMax = 50 // "a history that never exceeds 50 entries"

const (
	sec    = int64(time.Second)
	minute = int64(time.Minute)
	hourNs = int64(time.Hour)
	margin = 90 * sec // distance kept from every age boundary (60 s needed)
)

// offset is a time relative to T0 as a sum of two int64 (|each| <= 2^62) so
// that offsets beyond the range of a Duration (> 292 years) can be applied
// with two Time.Add calls and printed exactly.
type offset struct{ a, b int64 }

func (o offset) big() *big.Int {
	return new(big.Int).Add(big.NewInt(o.a), big.NewInt(o.b))
}
func (o offset) String() string { return o.big().String() }
func (o offset) apply(t time.Time) time.Time {
	return t.Add(time.Duration(o.a)).Add(time.Duration(o.b))
}
func (o offset) small() bool { return o.b == 0 }

type added struct {
	id, src string
	user    *string
	off     offset
	t       time.Time
	kind    string
	value   string
}

func sameEntry(e group.ChatHistoryEntry, a added) bool {
	if e.Id != a.id || e.Source != a.src || e.Kind != a.kind {
		return false
	}
	if (e.User == nil) != (a.user == nil) || (e.User != nil && *e.User != *a.user) {
		return false
	}
	if !e.Time.Equal(a.t) {
		return false
	}
	v, ok := e.Value.(string)
	return ok && v == a.value
}

func sameEntries(a, b []group.ChatHistoryEntry) bool {
	if len(a) != len(b) {
		return false
	}
	for i := range a {
		if !entryEq(a[i], b[i]) {
			return false
		}
	}
	return true
}

func entryEq(a, b group.ChatHistoryEntry) bool {
	if a.Id != b.Id || a.Source != b.Source || a.Kind != b.Kind || !a.Time.Equal(b.Time) {
		return false
	}
	if (a.User == nil) != (b.User == nil) || (a.User != nil && *a.User != *b.User) {
		return false
	}
	return a.Value == b.Value
}

func project(h []group.ChatHistoryEntry) string {
	if len(h) == 0 {
		return "-"
	}
	parts := make([]string, len(h))
	for i, e := range h {
		v, _ := e.Value.(string)
		parts[i] = tr.Hex([]byte(e.Id)) + "/" + tr.Hex([]byte(e.Source)) + "/" + tr.Hex([]byte(v))
	}
	return strings.Join(parts, ",")
}

func show(h []group.ChatHistoryEntry) string {
	parts := make([]string, len(h))
	for i, e := range h {
		parts[i] = fmt.Sprintf("(%q,%q,%v)", e.Id, e.Source, e.Value)
	}
	return "[" + strings.Join(parts, " ") + "]"
}

// effAge is the generator's idea of the effective age of a configuration
// (only used to keep entries away from the boundaries; checked against the
// implementation at every setage).  The default and the unit are probed
// from the implementation once (probeAges), so that the margins follow the
// code if it changes them.
var probedDefault, probedUnit = 4 * hourNs, sec

func effAge(n int64) int64 {
	if n != 0 {
		return n * probedUnit // wraps like the int64 multiplication of the code
	}
	return probedDefault
}

func probeAges() {
	for _, n := range []int64{0, 1} {
		writeDesc("probe", n, false)
		g, err := group.Add("probe", nil)
		if err != nil || g == nil {
			fatal(fmt.Sprint("group.Add(probe): ", err))
		}
		if n == 0 {
			probedDefault = g.VerifHistoryMaxAge()
		} else {
			probedUnit = g.VerifHistoryMaxAge()
		}
	}
	group.Delete("probe")
	os.Remove(filepath.Join(dir, "probe.json"))
}

var dir string
var fileStamp int64

type hist struct {
	t       *tr.Trace
	r       *tr.Rand
	g       *group.Group
	name    string
	t0      time.Time
	base    time.Time // t0, or t0 without its monotonic reading
	ages    []int64   // configurations this history may use
	age     int64     // current configuration
	log     []added
	serial  int
	ordered bool // all adds so far carry non-decreasing times
	lastOff *big.Int
	dead    bool
}

func writeDesc(name string, n int64, omit bool) {
	content := fmt.Sprintf("{\"max-history-age\": %d}\n", n)
	if n == 0 && omit {
		content = "{}\n"
	}
	path := filepath.Join(dir, name+".json")
	if err := os.WriteFile(path, []byte(content), 0600); err != nil {
		fatal(err)
	}
	// a distinct modification time per version, so that the group reloads
	fileStamp++
	mt := time.Unix(1700000000+fileStamp, 0)
	if err := os.Chtimes(path, mt, mt); err != nil {
		fatal(err)
	}
}

func fatal(err interface{}) {
	fmt.Fprintln(os.Stderr, "history driver:", err)
	os.Exit(2)
}

func newHist(t *tr.Trace, r *tr.Rand, idx int, stream string, ages []int64, wall bool) *hist {
	h := &hist{t: t, r: r, name: fmt.Sprintf("g%d", idx), ages: ages, age: ages[0], ordered: true}
	writeDesc(h.name, h.age, r.Bool())
	g, err := group.Add(h.name, nil)
	if err != nil || g == nil {
		fatal(fmt.Sprint("group.Add: ", err))
	}
	h.g = g
	h.t0 = time.Now()
	h.base = h.t0
	if wall {
		h.base = h.t0.Round(0)
		t.Note("wall-clock-times")
	}
	t.History("history", stream, h.age)
	return h
}

func (h *hist) close() {
	group.Delete(h.name)
	os.Remove(filepath.Join(dir, h.name+".json"))
}

func (h *hist) elapsedOK() bool {
	if time.Since(h.t0) > 30*time.Second {
		// the tolerance of the correspondence no longer holds: stop using
		// this history (harness condition, not a finding)
		h.t.Note("clock-tolerance-exceeded")
		h.dead = true
		return false
	}
	return true
}

// safe tells whether an entry at T0+off is at least `margin` away from the
// boundary of every age this history may use.
func (h *hist) safe(off int64) bool {
	since := -off
	for _, n := range h.ages {
		a := effAge(n)
		if a <= -(1<<61) || a >= 1<<61 {
			continue // centuries away from every non-saturating offset
		}
		d := since - a
		if d > -margin && d < margin {
			return false
		}
	}
	return true
}

func (h *hist) setAge(n int64) {
	writeDesc(h.name, n, h.r.Bool())
	g, err := group.Add(h.name, nil)
	if err != nil || g != h.g {
		fatal(fmt.Sprint("group.Add (reload): ", err))
	}
	h.age = n
	eff := h.g.VerifHistoryMaxAge()
	if eff != effAge(n) {
		// the generator's margins are computed from effAge: without this the
		// tolerance argument is void.  The model states the value too.
		h.t.Note("effective-age-differs-from-generator")
	}
	h.t.Op(fmt.Sprint(eff), "setage", n)
	// "nor the configured age": max-history-age is documented as seconds
	if n > 0 && n <= 9223372036 {
		h.t.Checked("C15.history_age_configured")
		if eff != n*sec {
			h.t.Fail("C15", "history_age_configured", fmt.Sprintf("max-history-age %d (seconds) gives an effective age of %v", n, time.Duration(eff)))
		}
	}
}

func userStr(u *string) string {
	if u == nil {
		return "~"
	}
	return tr.Hex([]byte(*u))
}

func (h *hist) add(id, src string, user *string, off offset, kind string) {
	if h.dead {
		return
	}
	h.serial++
	value := fmt.Sprintf("v%d", h.serial)
	a := added{id: id, src: src, user: user, off: off, t: off.apply(h.base), kind: kind, value: value}
	before := h.g.VerifHistoryRaw()
	h.g.AddToChatHistory(id, src, user, a.t, kind, value)
	after := h.g.VerifHistoryRaw()
	h.log = append(h.log, a)
	ob := off.big()
	if h.lastOff != nil && ob.Cmp(h.lastOff) < 0 {
		h.ordered = false
	}
	h.lastOff = ob
	h.t.Op(fmt.Sprint(len(after)), "add", []byte(id), []byte(src), userStr(user), off.String(), []byte(kind), []byte(value))

	h.t.Checked("C15.history_bound")
	if len(after) > propMax {
		h.t.Fail("C15", "history_bound", fmt.Sprintf("after %d adds the stored history has %d entries (> %d)", len(h.log), len(after), propMax))
	}
	// eviction removes exactly the oldest entry, and only when full
	h.t.Checked("C15.history_evicts_oldest")
	want := before
	if len(before) >= propMax {
		want = before[1:]
		h.t.Note("add-to-full-history")
	}
	ok := len(after) == len(want)+1 && sameEntries(after[:len(after)-1], want) && sameEntry(after[len(after)-1], a)
	if !ok {
		h.t.Fail("C15", "history_evicts_oldest", fmt.Sprintf("add of (%q,%q,%s) to a history of %d: expected the old history%s followed by the new entry, got %s (before: %s)",
			id, src, value, len(before), map[bool]string{true: " minus its first entry", false: ""}[len(before) >= propMax], show(after), show(before)))
	}
}

// checkFifo: l is an in-order subsequence of everything added so far.
func (h *hist) checkFifo(what string, l []group.ChatHistoryEntry) {
	h.t.Checked("C15.history_fifo")
	j := 0
	for i, e := range l {
		for j < len(h.log) && !sameEntry(e, h.log[j]) {
			j++
		}
		if j == len(h.log) {
			h.t.Fail("C15", "history_fifo", fmt.Sprintf("%s: entry %d (%q,%q,%v) is not an added entry in arrival order after the previous ones (reordered, duplicated, altered or invented): %s",
				what, i, e.Id, e.Source, e.Value, show(l)))
			return
		}
		j++
	}
}

func (h *hist) raw() {
	if h.dead {
		return
	}
	l := h.g.VerifHistoryRaw()
	h.t.Op(project(l), "raw")
	h.checkFifo("stored history", l)
	h.t.Checked("C15.history_bound")
	if len(l) > propMax {
		h.t.Fail("C15", "history_bound", fmt.Sprintf("the stored history has %d entries", len(l)))
	}
}

func (h *hist) get() {
	if h.dead || !h.elapsedOK() {
		return
	}
	before := h.g.VerifHistoryRaw()
	age := time.Duration(h.g.VerifHistoryMaxAge())
	now1 := time.Now()
	l := h.g.GetChatHistory()
	now2 := time.Now()
	after := h.g.VerifHistoryRaw()
	h.t.Op(project(l), "get", 0)

	h.t.Checked("C15.history_bound")
	if len(l) > propMax {
		h.t.Fail("C15", "history_bound", fmt.Sprintf("GetChatHistory returned %d entries (> %d)", len(l), propMax))
	}
	h.checkFifo("GetChatHistory", l)
	// what a joiner is sent is the stored history, in order
	h.t.Checked("C15.history_replay_in_order")
	if !sameEntries(l, after) {
		h.t.Fail("C15", "history_replay_in_order", fmt.Sprintf("GetChatHistory returned %s but the stored history is %s", show(l), show(after)))
	}
	// age, for time-ordered additions: nothing returned is older than the
	// configured age at the moment of the call
	if h.ordered {
		h.t.Checked("C15.history_age")
		for _, e := range l {
			if now1.Sub(e.Time) > age {
				h.t.Fail("C15", "history_age", fmt.Sprintf("time-ordered history, age %v: GetChatHistory returned (%q,%q,%v) which was already %v old before the call",
					age, e.Id, e.Source, e.Value, now1.Sub(e.Time)))
				break
			}
		}
	}
	// any times: the result is the stored history minus a prefix of
	// entries that were all obsolete; its head is not obsolete
	h.t.Checked("C15.history_age_prefix")
	k := len(before) - len(l)
	switch {
	case k > 0 && len(l) > 0:
		h.t.Note("get-cut-some")
	case k > 0:
		h.t.Note("get-cut-all")
	case len(l) > 0:
		h.t.Note("get-cut-none")
	}
	if k < 0 || !sameEntries(before[k:], l) {
		h.t.Fail("C15", "history_age_prefix", fmt.Sprintf("GetChatHistory did not return a suffix of the stored history: %s from %s", show(l), show(before)))
	} else {
		for _, e := range before[:k] {
			if now2.Sub(e.Time) <= age {
				h.t.Fail("C15", "history_age_prefix", fmt.Sprintf("age %v: (%q,%q,%v), only %v old after the call, was discarded", age, e.Id, e.Source, e.Value, now2.Sub(e.Time)))
				break
			}
		}
		if len(l) > 0 && now1.Sub(l[0].Time) > age {
			h.t.Fail("C15", "history_age_prefix", fmt.Sprintf("age %v: the first returned entry (%q,%q,%v) was already %v old before the call", age, l[0].Id, l[0].Source, l[0].Value, now1.Sub(l[0].Time)))
		}
	}
}

func (h *hist) clear(id, uid string) {
	if h.dead {
		return
	}
	before := h.g.VerifHistoryRaw()
	h.g.ClearChatHistory(id, uid)
	after := h.g.VerifHistoryRaw()
	h.t.Op(fmt.Sprint(len(after)), "clear", []byte(id), []byte(uid))
	var want []group.ChatHistoryEntry
	switch {
	case id == "" && uid == "":
		h.t.Checked("C15.history_clear_all")
		if len(after) != 0 {
			h.t.Fail("C15", "history_clear_all", fmt.Sprintf("after ClearChatHistory(\"\",\"\") the history is %s", show(after)))
		}
		if l := h.g.GetChatHistory(); len(l) != 0 {
			h.t.Fail("C15", "history_clear_all", fmt.Sprintf("after ClearChatHistory(\"\",\"\") GetChatHistory returns %s", show(l)))
		}
		return
	case id == "":
		h.t.Checked("C15.history_clear_user")
		for _, e := range before {
			if e.Source != uid {
				want = append(want, e)
			}
		}
		if !sameEntries(after, want) {
			h.t.Fail("C15", "history_clear_user", fmt.Sprintf("ClearChatHistory(\"\",%q) on %s left %s, expected exactly the entries of other users in order: %s", uid, show(before), show(after), show(want)))
		}
	default:
		h.t.Checked("C15.history_clear_one")
		for _, e := range before {
			if !(e.Source == uid && e.Id == id) {
				want = append(want, e)
			}
		}
		if !sameEntries(after, want) {
			h.t.Fail("C15", "history_clear_one", fmt.Sprintf("ClearChatHistory(%q,%q) on %s left %s, expected %s", id, uid, show(before), show(after), show(want)))
		}
	}
}

// ---- generators ----

var userPool = []string{"u1", "u2", "u3", "u4", "u5"}
var namePool = []string{"alice", "bob", "", "carol"}
var idPool = []string{"a", "b", "c", "a", ""}
var kindPool = []string{"", "", "me", "caption"}

// agePool: description values.  0 = default (4 h); negative and wrapping
// values are legal contents of the description file (no validation).
var agePool = []int64{0, 3600, 7200, 600, 86400, 14400, 120, 10, 1,
	-1, -3600,
	9223372037,  // * 1e9 wraps to about -292 years
	18446744074, // * 1e9 wraps to 0.29 s
	-9223372037, // * 1e9 wraps to about +292 years
}

// randomOffset draws a time for an unordered history.
func (h *hist) randomOffset() offset {
	r := h.r
	for tries := 0; tries < 100; tries++ {
		var off int64
		switch r.Pick(30, 25, 25, 10, 10) {
		case 0: // recent
			off = -int64(r.Intn(3600)) * sec
		case 1: // anywhere in the last two days
			off = -int64(r.Intn(48*3600)) * sec
		case 2: // near a boundary of one of the ages of this history
			a := effAge(h.ages[r.Intn(len(h.ages))])
			if a <= -(1<<61) || a >= 1<<61 {
				continue
			}
			d := margin + int64(r.Intn(600))*sec
			if r.Bool() {
				d = -d
			}
			off = -(a + d)
		case 3: // in the future (a client's clock cannot do that, a caller can)
			off = int64(r.Range(60, 36000)) * sec
		default: // sub-second detail
			off = -int64(r.Intn(7200))*sec - int64(r.Intn(1000000000))
		}
		if h.safe(off) {
			return offset{off, 0}
		}
	}
	return offset{-400 * 24 * hourNs, 0}
}

func (h *hist) pickUser() (string, *string) {
	r := h.r
	src := userPool[r.Intn(len(userPool))]
	if r.Chance(1, 12) {
		src = "" // a client may omit the source
		h.t.Note("empty-source")
	}
	var user *string
	if !r.Chance(1, 6) {
		u := namePool[r.Intn(len(namePool))]
		user = &u
	}
	return src, user
}

func (h *hist) pickId(dups bool) string {
	r := h.r
	if dups || r.Chance(1, 10) {
		h.t.Note("pooled-id")
		return idPool[r.Intn(len(idPool))]
	}
	return fmt.Sprintf("m%d", h.serial+1)
}

func (h *hist) randomClear() {
	r := h.r
	present := h.g.VerifHistoryRaw()
	switch r.Pick(2, 5, 8, 3, 3, 2, 2) {
	case 0:
		h.t.Note("clear-all")
		h.clear("", "")
	case 1:
		h.t.Note("clear-user")
		h.clear("", userPool[r.Intn(len(userPool))])
	case 2: // one present message
		if len(present) > 0 {
			e := present[r.Intn(len(present))]
			if e.Id != "" {
				h.t.Note("clear-one-present")
			}
			h.clear(e.Id, e.Source)
		} else {
			h.clear("a", "u1")
		}
	case 3: // right id, another user
		if len(present) > 0 {
			e := present[r.Intn(len(present))]
			h.t.Note("clear-one-wrong-user")
			h.clear(e.Id, userPool[r.Intn(len(userPool))])
		}
	case 4: // an id that is not there
		h.t.Note("clear-one-no-such-id")
		h.clear("nosuch", userPool[r.Intn(len(userPool))])
	case 5: // an unknown user
		h.t.Note("clear-user-unknown")
		h.clear("", "nobody")
	default: // id without user (the webclient refuses it, the group does not)
		h.t.Note("clear-id-only")
		if len(present) > 0 {
			h.clear(present[r.Intn(len(present))].Id, "")
		} else {
			h.clear("a", "")
		}
	}
}

func agesFor(r *tr.Rand, k int) []int64 {
	out := make([]int64, k)
	for i := range out {
		switch r.Pick(6, 3) {
		case 0:
			out[i] = agePool[r.Intn(9)]
		default:
			out[i] = agePool[r.Intn(len(agePool))]
		}
	}
	return out
}

var boundaryCounts = []int{0, 1, 2, 48, 49, 50, 51, 52, 99, 100, 101, 150, 199, 200}

func runHistory(t *tr.Trace, r *tr.Rand, n int) {
	var err error
	dir, err = os.MkdirTemp("", "verif-history-")
	if err != nil {
		fatal(err)
	}
	defer os.RemoveAll(dir)
	group.Directory = dir
	group.DataDirectory = dir
	probeAges()

	for hi := 0; hi < n; hi++ {
		wall := r.Chance(1, 4)
		switch {
		case hi < len(boundaryCounts) || r.Chance(1, 8):
			// exactly k time-ordered adds, observed after every add near the
			// bound, then get; the boundary cases 49/50/51
			k := boundaryCounts[hi%len(boundaryCounts)]
			h := newHist(t, r, hi, "boundary", []int64{0}, wall)
			step := int64(60)
			start := -int64(k+2) * step * sec // all within 4 h - margin
			for i := 0; i < k; i++ {
				src, user := h.pickUser()
				h.add(h.pickId(false), src, user, offset{start + int64(i)*step*sec, 0}, "")
				if i >= 47 && i <= 52 || r.Chance(1, 16) {
					h.raw()
				}
			}
			h.raw()
			h.get()
			if r.Bool() {
				h.randomClear()
				h.raw()
				h.get()
			}
			t.Nontrivial(fmt.Sprintf("boundary/%d", k))
			h.close()

		case r.Chance(1, 3):
			// time-ordered history crossing the age boundaries, ages changed
			// on the way: the history_age monitor is live throughout
			ages := agesFor(r, r.Range(1, 3))
			h := newHist(t, r, hi, "ordered", ages, wall)
			nadds := r.Range(0, 200)
			// start far enough in the past to cross every positive boundary
			cur := -int64(r.Range(1, 30)) * hourNs
			if r.Chance(1, 10) {
				// an entry older than the range of a Duration
				src, user := h.pickUser()
				h.add(h.pickId(false), src, user, offset{-(1 << 62), -(1 << 62) - int64(r.Intn(1000))}, "")
				t.Note("time-beyond-duration-range")
			}
			incMax := int(-cur / sec / int64(nadds+1) * 2)
			for i := 0; i < nadds; i++ {
				cur += int64(r.Intn(incMax+1)) * sec
				if cur > 10*hourNs {
					cur = 10 * hourNs
				}
				for !h.safe(cur) {
					cur += 30 * sec
				}
				src, user := h.pickUser()
				h.add(h.pickId(r.Chance(1, 5)), src, user, offset{cur, 0}, kindPool[r.Intn(len(kindPool))])
				switch r.Pick(30, 3, 2, 2, 1) {
				case 1:
					h.get()
				case 2:
					h.randomClear()
				case 3:
					h.setAge(ages[r.Intn(len(ages))])
				case 4:
					h.raw()
				}
			}
			for _, a := range ages {
				h.setAge(a)
				h.get()
			}
			h.raw()
			if h.ordered && nadds > 3 {
				t.Note("ordered-history")
			}
			if nadds > propMax {
				t.Note("more-than-50-adds")
			}
			t.Nontrivial(fmt.Sprintf("ordered/%d/%d/%d", nadds, ages[0], len(h.g.VerifHistoryRaw())))
			h.close()

		default:
			// everything interleaved: adds with arbitrary times, duplicate
			// ids, clears in all modes, gets, age changes
			ages := agesFor(r, r.Range(1, 3))
			stream := "mixed"
			dups := r.Chance(1, 3)
			if dups {
				stream = "dupids"
			}
			h := newHist(t, r, hi, stream, ages, wall)
			nadds := r.Range(0, 200)
			nclears := 0
			for i := 0; i < nadds; i++ {
				src, user := h.pickUser()
				off := h.randomOffset()
				if r.Chance(1, 60) {
					if r.Bool() {
						off = offset{-(1 << 62), -(1 << 62) - int64(r.Intn(1000))}
					} else {
						// at least 120 s beyond 2^63 ns: time.Since(T0+off) read at T0+e is
						// -(2^63+x)+e, which saturates at minDuration for every e < x.
						// (With x < 1 us it stopped saturating after x ns and crossed the
						// boundary of the wrapped age -2^63+0.145 s once e > 0.145 s.)
						off = offset{1 << 62, 1<<62 + int64(r.Range(120, 100000))*sec + int64(r.Intn(1000))}
					}
					t.Note("time-beyond-duration-range")
				}
				h.add(h.pickId(dups), src, user, off, kindPool[r.Intn(len(kindPool))])
				switch r.Pick(40, 4, 5, 2, 3) {
				case 1:
					h.get()
				case 2:
					h.randomClear()
					nclears++
				case 3:
					h.setAge(ages[r.Intn(len(ages))])
				case 4:
					h.raw()
				}
			}
			h.raw()
			h.get()
			h.randomClear()
			h.raw()
			h.get()
			if !h.ordered {
				t.Note("unordered-history")
			}
			if nadds > propMax {
				t.Note("more-than-50-adds")
			}
			if nadds > 3 {
				t.Nontrivial(fmt.Sprintf("%s/%d/%d/%d", stream, nadds, nclears, len(h.g.VerifHistoryRaw())))
			}
			h.close()
		}
	}
}

func main() { tr.Main(runHistory) }

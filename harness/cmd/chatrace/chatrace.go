// chatrace: a broadcast chat message racing a join (C15: "delivered ... if
// broadcast, to every member", and a later joiner is replayed the history).
// The REAL handleClientMessage of the sender runs in its own goroutine and
// blocks in the fan-out on a member whose write channel is full (a slow
// websocket); meanwhile another client joins and is replayed the chat history.
// Whoever joins after the fan-out's list of members was taken is not in that
// list: the message must already be in the history it is replayed - every
// member, old or new, gets the message exactly one way.  Monitors only.
package main

import (
	"fmt"
	"time"

	"github.com/jech/galene/rtpconn"

	"verifharness/internal/sigdrv"
	"verifharness/internal/tr"
)

func has(ms []sigdrv.Msg, typ, val string) int {
	n := 0
	for _, m := range ms {
		if m.Type == typ && m.ValueString() == val {
			n++
		}
	}
	return n
}

func runChatRace(t *tr.Trace, r *tr.Rand, n int) {
	sigdrv.Quiet()
	for hi := 0; hi < n; hi++ {
		t.History("chatrace", "join-during-fanout")
		w, err := sigdrv.NewWorld()
		if err != nil {
			panic(err)
		}
		w.AddGroup(sigdrv.GroupSpec{Name: "g", Users: []sigdrv.User{
			{Name: "a", Password: "pw", Permissions: []string{"present", "message"}},
			{Name: "s", Password: "pw", Permissions: []string{"present", "message"}},
			{Name: "j", Password: "pw", Permissions: []string{"present", "message"}},
			{Name: "b", Password: "pw", Permissions: []string{"present", "message"}}}})
		a := w.NewClient("ca")
		b := w.NewClient("cb")
		// the slow member: a write channel of a few entries that nobody drains
		slowCap := r.Range(6, 12)
		rtpconn.VerifWriteBuffer = slowCap
		s := w.NewClient("cs")
		rtpconn.VerifWriteBuffer = 1 << 12
		j := w.NewClient("cj")
		for _, c := range []*sigdrv.Client{a, b} {
			c.Send(sigdrv.M{"type": "join", "kind": "join", "group": "g", "username": c.ID[1:], "password": "pw"})
		}
		s.Send(sigdrv.M{"type": "join", "kind": "join", "group": "g", "username": "s", "password": "pw"})
		w.Quiesce(r)
		a.Out()
		b.Out()
		s.Out()
		// fill the slow member's channel: directed messages to it
		for i := 0; i < slowCap; i++ {
			b.Send(sigdrv.M{"type": "usermessage", "kind": "fill", "dest": "cs", "value": fmt.Sprintf("fill%d", i)})
		}
		text := fmt.Sprintf("hello-%d", hi)
		done := make(chan struct{})
		go func() {
			// blocks in broadcast() on the slow member until it is drained
			a.Send(sigdrv.M{"type": "chat", "kind": "", "source": "ca", "username": "a", "value": text})
			close(done)
		}()
		blocked := false
		select {
		case <-done:
		case <-time.After(time.Duration(r.Range(20, 60)) * time.Millisecond):
			blocked = true
		}
		// the newcomer joins while the fan-out is (normally) still in progress
		j.Send(sigdrv.M{"type": "join", "kind": "join", "group": "g", "username": "j", "password": "pw"})
		for k := 0; k < 4 && j.Pending(); k++ {
			j.Pump()
		}
		jm := j.Out()
		// release the sender
		sm := s.Out()
		select {
		case <-done:
		case <-time.After(10 * time.Second):
			t.Fail("C15", "harness", "the sender did not return after the slow member was drained")
		}
		w.Quiesce(r)
		jm = append(jm, j.Out()...)
		sm = append(sm, s.Out()...)
		bm := b.Out()
		if blocked {
			t.Note("join-while-sender-blocked-in-fanout")
			t.Nontrivial(fmt.Sprintf("blocked/%d", slowCap))
		}
		t.Checked("C15.broadcast_reaches_every_member")
		live, replay := has(jm, "chat", text), has(jm, "chathistory", text)
		if live+replay != 1 {
			t.Fail("C15", "broadcast_reaches_every_member", fmt.Sprintf("client j joined while a's broadcast %q was being fanned out (sender blocked on a slow member: %v): it received the message %d times live and %d times in the replayed history; a member gets a broadcast exactly one way", text, blocked, live, replay))
		}
		if has(bm, "chat", text) != 1 || has(sm, "chat", text) != 1 {
			t.Fail("C15", "broadcast_reaches_every_member", fmt.Sprintf("the members present before the message got it %d (b) and %d (slow member) times", has(bm, "chat", text), has(sm, "chat", text)))
		}
		t.Op(tr.B(live+replay == 1), "race", slowCap)
		// several broadcasts queued at a member before its writer takes any of
		// them: each is delivered as it was sent (what is queued is a value of its
		// own, not a view of a buffer that the next broadcast reuses)
		s.Disconnect() // the slow member would block the senders again
		w.Quiesce(r)
		a.Out()
		b.Out()
		j.Out()
		var texts []string
		for k := 0; k < r.Range(3, 8); k++ {
			x := fmt.Sprintf("burst-%d-%d-%s", hi, k, string(rune('a'+k)))
			if k%2 == 1 {
				x += "-with-a-much-longer-tail-so-that-lengths-differ-0123456789"
			}
			texts = append(texts, x)
			snd := a
			if k%3 == 2 {
				snd = j
			}
			snd.Send(sigdrv.M{"type": "chat", "kind": "", "value": x})
		}
		bm2 := b.Out()
		t.Checked("C15.queued_broadcasts_intact")
		var gotTexts []string
		for _, m := range bm2 {
			if m.Type == "chat" {
				gotTexts = append(gotTexts, m.ValueString())
			}
		}
		if fmt.Sprint(gotTexts) != fmt.Sprint(texts) {
			t.Fail("C15", "queued_broadcasts_intact", fmt.Sprintf("%d broadcasts were queued at member b before it read any: sent %q, b received %q", len(texts), texts, gotTexts))
		}
		w.Close()
	}
}

func main() { tr.Main(runChatRace) }

// Driver `group` (property C10): admission rules of group.AddClient /
// DelClient / SetLocked / Add on the REAL code, with fake group.Client
// implementations and group description files in a temporary directory.
//
// Sequential histories (component "group") are compared op by op with the
// extracted model Model/Admission.v; concurrent batches (component
// "groupconc", run in a child process so that a runtime abort such as
// "concurrent map iteration and map write" is reported as a finding and not
// as a broken harness) are checked by monitors only.
package main

import (
	"bufio"
	"encoding/json"
	"errors"
	"fmt"
	"io"
	"log"
	"net"
	"os"
	"os/exec"
	"path/filepath"
	"runtime"
	"sort"
	"strconv"
	"strings"
	"sync"
	"sync/atomic"
	"syscall"
	"time"

	"github.com/jech/galene/conn"
	"github.com/jech/galene/group"

	"verifharness/internal/tr"
)

// ---------------------------------------------------------------- fake clients

const (
	evJoined = iota
	evPush
	evKick
	evDelBegin // driver: about to call DelClient(c)
	evDelEnd   // driver: DelClient(c) returned
	evAddRet   // driver: AddClient(c) returned (ok = admitted)
)

type logEntry struct {
	kind  int
	c     *fc    // the client called back (target)
	what  string // Joined kind / PushClient kind
	about string // PushClient id
	ok    bool
}

// world collects every callback of every fake client in one total order.
type world struct {
	mu   sync.Mutex
	log  []logEntry
	conc bool // yield inside callbacks that the group code makes under its lock
}

// yield: in the concurrent batches every accessor that the group code calls
// on a client (mostly under Group.mu: AddClient, autoLockKick, DelClient)
// yields the processor, which widens every window that exists if the lock is
// not held where it should be; harmless otherwise
func (w *world) yield() {
	if w.conc {
		runtime.Gosched()
	}
}

func (w *world) add(e logEntry) {
	w.mu.Lock()
	w.log = append(w.log, e)
	w.mu.Unlock()
}

func (w *world) mark() int {
	w.mu.Lock()
	defer w.mu.Unlock()
	return len(w.log)
}

func (w *world) since(m int) []logEntry {
	w.mu.Lock()
	defer w.mu.Unlock()
	return append([]logEntry{}, w.log[m:]...)
}

// fc is a fake group.Client.
type fc struct {
	w      *world
	uid    int
	id     string
	sys    bool
	mu     sync.Mutex
	perms  []string
	user   string
	g      *group.Group
	kicked atomic.Int32
	kickCh chan struct{}
	op     bool // what the driver expects it to be (for the monitors only)
}

func (c *fc) Group() *group.Group { c.mu.Lock(); defer c.mu.Unlock(); return c.g }
func (c *fc) setGroup(g *group.Group) {
	c.mu.Lock()
	c.g = g
	c.mu.Unlock()
}
func (c *fc) Addr() net.Addr { return nil }
func (c *fc) Id() string {
	c.w.yield()
	return c.id
}
func (c *fc) Username() string {
	c.w.yield()
	c.mu.Lock()
	defer c.mu.Unlock()
	return c.user
}
func (c *fc) Init(username string, perms []string) {
	c.mu.Lock()
	c.user = username
	c.perms = append([]string{}, perms...)
	c.mu.Unlock()
}
func (c *fc) Permissions() []string {
	c.w.yield()
	c.mu.Lock()
	defer c.mu.Unlock()
	return c.perms
}
func (c *fc) Data() map[string]interface{} { return nil }
func (c *fc) PushConn(g *group.Group, id string, up conn.Up, tracks []conn.UpTrack, replace string) error {
	return nil
}
func (c *fc) RequestConns(target group.Client, g *group.Group, id string) error { return nil }
func (c *fc) Joined(g, kind string) error {
	c.w.add(logEntry{kind: evJoined, c: c, what: kind})
	return nil
}
func (c *fc) PushClient(g, kind, id, username string, perms []string, data map[string]interface{}) error {
	c.w.add(logEntry{kind: evPush, c: c, what: kind, about: id})
	return nil
}
func (c *fc) Kick(id string, user *string, message string) error {
	c.w.add(logEntry{kind: evKick, c: c})
	if c.kicked.Add(1) == 1 && c.kickCh != nil {
		close(c.kickCh)
	}
	return nil
}

func hasPerm(c *fc, p string) bool {
	c.mu.Lock()
	defer c.mu.Unlock()
	for _, x := range c.perms {
		if x == p {
			return true
		}
	}
	return false
}

// ---------------------------------------------------------------- descriptions

type cred struct {
	user *string
	pw   string
}

func sp(s string) *string { return &s }

// the fixed credential table; the index is the credential code of the model
var creds = []cred{
	{sp("op1"), "pw-op1"}, // 0
	{sp("op2"), "pw-op2"}, // 1
	{sp("u1"), "pw-u1"},   // 2
	{sp("u2"), "pw-u2"},   // 3
	{sp("u1"), "wrong"},   // 4 bad password
	{sp("ghost"), "x"},    // 5 unknown user
	{nil, ""},             // 6 neither username nor token
	{sp("op1"), "pw-op2"}, // 7 bad password for an operator
}

// descCfg is what the driver writes into the group file.
type descCfg struct {
	max      int
	autolock bool
	autokick bool
	nb, exp  *int              // offsets in seconds from the driver's start time
	users    map[string]string // username -> role ("op", "present", "observe")
}

var t0 = time.Now()

var passwords = map[string]string{"op1": "pw-op1", "op2": "pw-op2", "u1": "pw-u1", "u2": "pw-u2"}

func (d descCfg) json() []byte {
	m := map[string]interface{}{}
	if d.max != 0 {
		m["max-clients"] = d.max
	}
	if d.autolock {
		m["autolock"] = true
	}
	if d.autokick {
		m["autokick"] = true
	}
	if d.nb != nil {
		m["not-before"] = t0.Add(time.Duration(*d.nb) * time.Second).Format(time.RFC3339)
	}
	if d.exp != nil {
		m["expires"] = t0.Add(time.Duration(*d.exp) * time.Second).Format(time.RFC3339)
	}
	us := map[string]interface{}{}
	for u, role := range d.users {
		us[u] = map[string]interface{}{"password": passwords[u], "permissions": role}
	}
	m["users"] = us
	b, _ := json.Marshal(m)
	return b
}

// expect is the driver's own reading of the description: which credentials
// are valid and whether they give "op".
func (d descCfg) expect(code int) (ok, op bool) {
	c := creds[code]
	if c.user == nil {
		return false, false
	}
	role, found := d.users[*c.user]
	if !found || passwords[*c.user] != c.pw {
		return false, false
	}
	return true, role == "op"
}

// auth is the table handed to the model: "code:isop,..." for valid credentials
func (d descCfg) auth() string {
	var parts []string
	for i := range creds {
		if ok, op := d.expect(i); ok {
			parts = append(parts, fmt.Sprintf("%d:%s", i, tr.B(op)))
		}
	}
	if len(parts) == 0 {
		return "-"
	}
	return strings.Join(parts, ",")
}

func optInt(p *int) string {
	if p == nil {
		return "-"
	}
	return strconv.Itoa(*p)
}

func hx(s string) string { return tr.Hex([]byte(s)) }

var fileSeq int64

// writeDesc replaces the group file; the modification time is forced to a
// new value so that the group code sees the change whatever the clock
// resolution of the file system.
func writeDesc(dir, name string, d descCfg) error {
	fn := filepath.Join(dir, name+".json")
	tmp := fn + ".tmp"
	if err := os.WriteFile(tmp, d.json(), 0600); err != nil {
		return err
	}
	n := atomic.AddInt64(&fileSeq, 1)
	mt := t0.Add(-1000 * time.Hour).Add(time.Duration(n) * time.Second)
	if err := os.Chtimes(tmp, mt, mt); err != nil {
		return err
	}
	return os.Rename(tmp, fn)
}

// ---------------------------------------------------------------- observables

func classify(err error) string {
	if err == nil {
		return "admitted"
	}
	// Add failed: the description is missing or cannot be parsed
	var se *json.SyntaxError
	var te *json.UnmarshalTypeError
	if errors.Is(err, os.ErrNotExist) || errors.As(err, &se) || errors.As(err, &te) ||
		errors.Is(err, io.ErrUnexpectedEOF) || errors.Is(err, io.EOF) ||
		strings.HasPrefix(err.Error(), "json:") {
		return "adderr"
	}
	var na *group.NotAuthorisedError
	var ue group.UserError
	var pe group.ProtocolError
	switch {
	case errors.As(err, &ue):
		switch string(ue) {
		case "this group is not open yet":
			return "notopen"
		case "this group is closed":
			return "closed"
		case "there are no operators in this group":
			return "noops"
		case "too many users":
			return "toomany"
		}
		return "locked:" + hx(string(ue))
	case errors.As(err, &pe):
		if string(pe) == "duplicate client id" {
			return "dupid"
		}
		return "other:" + hx(err.Error())
	case errors.As(err, &na):
		return "auth"
	}
	switch err.Error() {
	case "client has empty id":
		return "emptyid"
	case "username not provided", "neither username nor token provided":
		return "auth"
	}
	return "other:" + hx(err.Error())
}

func evString(e logEntry) string {
	switch e.kind {
	case evJoined:
		return fmt.Sprintf("J%d.%s", e.c.uid, e.what)
	case evPush:
		return fmt.Sprintf("P%d.%s.%s", e.c.uid, e.what, hx(e.about))
	case evKick:
		return fmt.Sprintf("K%d", e.c.uid)
	}
	return ""
}

func canonEvents(es []logEntry) string {
	var ss []string
	for _, e := range es {
		if s := evString(e); s != "" {
			ss = append(ss, s)
		}
	}
	if len(ss) == 0 {
		return "-"
	}
	sort.Strings(ss)
	return strings.Join(ss, ",")
}

func countKicks(es []logEntry) int {
	n := 0
	for _, e := range es {
		if e.kind == evKick {
			n++
		}
	}
	return n
}

func members(g *group.Group) []*fc {
	var out []*fc
	if g == nil {
		return out
	}
	for _, c := range g.GetClients(nil) {
		out = append(out, c.(*fc))
	}
	sort.Slice(out, func(i, j int) bool { return hx(out[i].id) < hx(out[j].id) })
	return out
}

func anyOp(ms []*fc) bool {
	for _, c := range ms {
		if hasPerm(c, "op") {
			return true
		}
	}
	return false
}

func lockedOf(g *group.Group) (bool, string) {
	if g == nil {
		return false, ""
	}
	return g.Locked()
}

// stateString is the state of the group registered under a name: "absent"
// when there is none
func stateString(g *group.Group) string {
	if g == nil {
		return "absent"
	}
	ms := members(g)
	var ids []string
	for _, c := range ms {
		ids = append(ids, hx(c.id))
	}
	l, m := g.Locked()
	idl := "-"
	if len(ids) > 0 {
		idl = strings.Join(ids, ",")
	}
	return fmt.Sprintf("%s %s %s %d", idl, tr.B(l), hx(m), g.ClientCount())
}

// ---------------------------------------------------------------- sequential histories

// seqHist is the history of one group NAME: every observation goes through
// group.Get(name), as a client's does.
type seqHist struct {
	t       *tr.Trace
	r       *tr.Rand
	w       *world
	dir     string
	name    string
	g       *group.Group // the object registered under the name (nil: none)
	written descCfg      // the last readable description written
	fileOK  bool         // the file is currently readable
	loaded  descCfg      // the description the registered object holds
	uid     int
	objs    []*fc // every object ever created
	// clients that were accepted and have not left, with the object they entered
	live map[*fc]*group.Group
	// an explicit unlock without an operator present was made: the autolock
	// monitor is suspended until the group is locked again
	unguarded bool
}

var histSeq int

func newSeqHist(t *tr.Trace, r *tr.Rand, dir, stream string, d descCfg) *seqHist {
	histSeq++
	h := &seqHist{t: t, r: r, w: &world{}, dir: dir, name: fmt.Sprintf("g%d", histSeq),
		live: map[*fc]*group.Group{}}
	t.History("group", stream)
	h.desc(d)
	h.add()
	return h
}

// waitKicks waits (bounded) until `want` kicks have been delivered since mark
func (h *seqHist) waitKicks(mark, want int) {
	if want == 0 {
		return
	}
	deadline := time.Now().Add(20 * time.Second)
	for time.Now().Before(deadline) {
		if countKicks(h.w.since(mark)) >= want {
			return
		}
		runtime.Gosched()
		time.Sleep(20 * time.Microsecond)
	}
}

func (h *seqHist) desc(d descCfg) {
	if err := writeDesc(h.dir, h.name, d); err != nil {
		panic(err)
	}
	h.written = d
	h.fileOK = true
	h.t.Op("-", "desc", d.max, d.autolock, d.autokick, optInt(d.nb), optInt(d.exp), d.auth())
}

// corrupt makes the description unreadable: what a join or group.Update
// sees while the file is being replaced non-atomically, was removed, or was
// edited into something the parser refuses
func (h *seqHist) corrupt(mode int) {
	fn := filepath.Join(h.dir, h.name+".json")
	good := h.written.json()
	var content []byte
	switch mode {
	case 0: // half-written
		content = good[:len(good)/2]
	case 1: // removed
	case 2: // empty
		content = []byte{}
	case 3: // unknown field
		content = []byte(`{"max-clients":1,"no-such-field":true}`)
	default: // wrong type
		content = []byte(`{"max-clients":"many"}`)
	}
	if mode == 1 {
		os.Remove(fn)
	} else {
		if err := os.WriteFile(fn+".tmp", content, 0600); err != nil {
			panic(err)
		}
		n := atomic.AddInt64(&fileSeq, 1)
		mt := t0.Add(-1000 * time.Hour).Add(time.Duration(n) * time.Second)
		os.Chtimes(fn+".tmp", mt, mt)
		os.Rename(fn+".tmp", fn)
	}
	h.fileOK = false
	h.t.Op("-", "corrupt", mode)
	h.t.Note(fmt.Sprintf("corrupt:%d", mode))
}

// kicksAfterAdd: what autoLockKick schedules when it runs on `ms` under d
func kicksExpected(d descCfg, ms []*fc) int {
	if d.autokick && !anyOp(ms) {
		return len(ms)
	}
	return 0
}

// sync re-reads which object is registered under the name and evaluates the
// monitor "the registered group is never dropped or replaced while it has
// members": every client that was accepted and has not left must be a
// member of the group that a newcomer naming the group is evaluated against
func (h *seqHist) sync() {
	g := group.Get(h.name)
	if g != h.g {
		h.unguarded = false
		if g != nil {
			h.t.Note("group-recreated")
		} else {
			h.t.Note("group-dropped")
		}
	}
	h.g = g
	h.t.Checked("C10.registered_group_kept")
	for c, cg := range h.live {
		if g != cg {
			h.t.Fail("C10", "registered_group_kept", fmt.Sprintf(
				"client %q is a member (never left, never kicked) of an object that is no longer the group named %q: later joins are evaluated against another, %s",
				c.id, h.name, map[bool]string{true: "missing group", false: "new empty group"}[g == nil]))
			break
		}
		if g.GetClient(c.id) != group.Client(c) {
			h.t.Fail("C10", "registered_group_kept", fmt.Sprintf("accepted client %q is not a member of the group named %q", c.id, h.name))
			break
		}
	}
}

func (h *seqHist) add() {
	mark := h.w.mark()
	before := members(h.g)
	g, err := group.Add(h.name, nil)
	want := 0
	if err == nil {
		h.loaded = h.written
		want = kicksExpected(h.loaded, before)
	}
	h.waitKicks(mark, want)
	ev := h.w.since(mark)
	h.t.Checked("C10.add_result")
	if (err == nil) != h.fileOK {
		h.t.Fail("C10", "add_result", fmt.Sprintf("Add with readable description=%v returned %v", h.fileOK, err))
	}
	h.sync()
	if err == nil && g != h.g {
		h.t.Fail("C10", "registered_group_kept", "Add returned an object that is not the one registered under the name")
	}
	res := "ok"
	if err != nil {
		res = classify(err)
	}
	h.t.Op(res+" "+canonEvents(ev)+" | "+stateString(h.g), "add")
	h.afterStep(ev)
}

func (h *seqHist) newClient(id string, sys, sysop bool) *fc {
	h.uid++
	c := &fc{w: h.w, uid: h.uid, id: id, sys: sys}
	if sys {
		c.perms = []string{"system"}
		if sysop {
			c.perms = append(c.perms, "op")
		}
	}
	h.objs = append(h.objs, c)
	return c
}

func (h *seqHist) join(id string, sys, sysop bool, code int) *fc {
	c := h.newClient(id, sys, sysop)
	mark := h.w.mark()
	before := members(h.g)
	lockedBefore, msgBefore := lockedOf(h.g)
	d := h.written // AddClient reloads first
	g, err := group.AddClient(h.name, c, group.ClientCredentials{
		Username: creds[code].user, Password: creds[code].pw,
	})
	res := classify(err)
	want := 0
	if res != "adderr" {
		h.loaded = d
		want = kicksExpected(d, before)
	}
	if err == nil {
		c.setGroup(g)
		h.live[c] = g
	}
	h.waitKicks(mark, want)
	ev := h.w.since(mark)
	h.sync()
	h.t.Op(res+" "+canonEvents(ev)+" | "+stateString(h.g), "join", c.uid, hx(id), sys, sysop, code)
	h.t.Note("join:" + strings.SplitN(res, ":", 2)[0])

	// ---- monitors (driver's own reading of the rules; not the model)
	h.t.Checked("C10.add_result")
	if (res == "adderr") != !h.fileOK {
		h.t.Fail("C10", "add_result", fmt.Sprintf("join with readable description=%v returned %v", h.fileOK, err))
	}
	after := members(h.g)
	lockedAfter, msgAfter := lockedOf(h.g)
	valid, isop := d.expect(code)
	if sys {
		valid, isop = true, sysop
	}
	isMember := false
	for _, m := range after {
		if m == c {
			isMember = true
		}
	}
	joinedCB, toldAbout := false, 0
	for _, e := range ev {
		if e.kind == evJoined && e.c == c && e.what == "join" {
			joinedCB = true
		}
		if e.kind == evPush && e.what == "add" && e.about == id && e.c != c {
			toldAbout++
		}
	}
	// "before" for the rules: the members of the group of that name, which
	// include every client that was accepted and has not left
	idTaken := false
	for _, m := range before {
		if m.id == id {
			idTaken = true
		}
	}
	for m := range h.live {
		if m != c && m.id == id {
			idTaken = true
		}
	}
	held := len(h.live)
	if err == nil {
		held-- // c itself
	}
	if held < len(before) {
		held = len(before)
	}
	if err == nil {
		c.op = isop
		if !sys && valid && !isop {
			h.t.Checked("C10.admit_conditions")
			var why []string
			if lockedAfter {
				why = append(why, "group is locked")
			}
			if d.nb != nil && *d.nb > 0 {
				why = append(why, "before not-before")
			}
			if d.exp != nil && *d.exp < 0 {
				why = append(why, "after expires")
			}
			if d.autokick && !anyOp(before) {
				why = append(why, "autokick and no operator present")
			}
			if d.max > 0 && held >= d.max {
				why = append(why, fmt.Sprintf("group already holds %d >= max-clients %d", held, d.max))
			}
			if len(why) > 0 {
				h.t.Fail("C10", "admit_conditions", fmt.Sprintf("non-operator %q admitted although: %s", id, strings.Join(why, "; ")))
			}
			h.t.Checked("C10.autolock_admission")
			if d.autolock && !h.unguarded && !anyOp(before) {
				h.t.Fail("C10", "autolock_admission", fmt.Sprintf("autolock: non-operator %q admitted while no operator is a member", id))
			}
		}
		if !valid {
			h.t.Checked("C10.admit_conditions")
			h.t.Fail("C10", "admit_conditions", fmt.Sprintf("client %q admitted with invalid credentials %d", id, code))
		}
		h.t.Checked("C10.unique_ids")
		if idTaken || id == "" {
			h.t.Fail("C10", "unique_ids", fmt.Sprintf("client admitted under id %q which is empty or already a member's", id))
		}
		if !isMember || !joinedCB {
			h.t.Fail("C10", "admit_conditions", fmt.Sprintf("admitted client %q is not a member or was not told", id))
		}
	} else {
		if res != "adderr" {
			h.t.Checked("C10.ops_exempt")
			if valid && (isop || sys) && id != "" && !idTaken {
				h.t.Fail("C10", "ops_exempt", fmt.Sprintf("operator/system client %q with valid credentials and a fresh id rejected: %v", id, err))
			}
		}
		h.t.Checked("C10.reject_no_effect")
		same := len(before) == len(after)
		for i := 0; same && i < len(before); i++ {
			same = before[i] == after[i]
		}
		// the Add inside AddClient may have locked the group (autolock);
		// an empty group whose description is unreadable is dropped
		lockOK := lockedBefore == lockedAfter && msgBefore == msgAfter ||
			(!lockedBefore && lockedAfter && d.autolock && !anyOp(before)) ||
			(res == "adderr" && len(before) == 0)
		if !same || isMember || joinedCB || (toldAbout > 0 && !idTaken) || !lockOK {
			h.t.Fail("C10", "reject_no_effect", fmt.Sprintf(
				"rejected client %q (%s): members unchanged=%v member=%v joined-callback=%v announced-to=%d lock-unchanged=%v",
				id, res, same, isMember, joinedCB, toldAbout, lockOK))
		}
	}
	h.afterStep(ev)
	return c
}

// del calls DelClient(c); member says whether the driver expects c to be the
// member object registered under its id
func (h *seqHist) del(c *fc) {
	mark := h.w.mark()
	cg := c.Group()
	was := cg != nil && cg.GetClient(c.id) == group.Client(c)
	before := members(h.g)
	h.w.add(logEntry{kind: evDelBegin, c: c})
	group.DelClient(c)
	h.w.add(logEntry{kind: evDelEnd, c: c})
	after := members(h.g)
	if !was {
		// DelClient by an object that is not the member registered under
		// its id removes nobody and tells nobody
		h.t.Checked("C10.unique_ids")
		same := len(before) == len(after)
		for i := 0; same && i < len(before); i++ {
			same = before[i] == after[i]
		}
		if !same || canonEvents(h.w.since(mark)) != "-" {
			h.t.Fail("C10", "unique_ids", fmt.Sprintf("DelClient of a client object that is not the member %q changed the membership or called back", c.id))
		}
	}
	want := 0
	if was {
		want = kicksExpected(h.loaded, members(cg))
		delete(h.live, c)
	}
	h.waitKicks(mark, want)
	ev := h.w.since(mark)
	h.sync()
	h.t.Op(canonEvents(ev)+" | "+stateString(h.g), "del", c.uid, hx(c.id))
	if was {
		c.setGroup(nil)
		h.t.Checked("C10.autokick")
		if got := countKicks(ev); got != want {
			h.t.Fail("C10", "autokick", fmt.Sprintf("after %q left an autokick group without operator: %d members, %d kicks", c.id, len(after), got))
		}
	}
	h.afterStep(ev)
}

func (h *seqHist) lock(b bool, msg string) {
	if h.g == nil {
		return
	}
	mark := h.w.mark()
	if !b && !anyOp(members(h.g)) {
		h.unguarded = true
		h.t.Note("unguarded-unlock")
	}
	h.g.SetLocked(b, msg)
	ev := h.w.since(mark)
	h.sync()
	h.t.Op(canonEvents(ev)+" | "+stateString(h.g), "lock", b, hx(msg))
	h.afterStep(ev)
}

func (h *seqHist) shutdown(msg string) {
	if h.g == nil {
		return
	}
	mark := h.w.mark()
	group.Shutdown(msg)
	ev := h.w.since(mark)
	h.sync()
	h.t.Op(canonEvents(ev)+" | "+stateString(h.g), "shutdown", hx(msg))
	h.afterStep(nil) // kickall kicks operators too
}

// delete is group.Delete(name), what group.Update does to an expired group
func (h *seqHist) delete() {
	ok := group.Delete(h.name)
	h.t.Checked("C10.registered_group_kept")
	if ok && len(h.live) > 0 {
		h.t.Fail("C10", "registered_group_kept", "Delete dropped a group that has members")
	}
	h.sync()
	h.t.Op(tr.B(ok)+" | "+stateString(h.g), "delete")
	h.afterStep(nil)
}

// afterStep: state monitors after every operation
func (h *seqHist) afterStep(ev []logEntry) {
	if h.g == nil {
		return
	}
	ms := members(h.g)
	h.t.Checked("C10.unique_ids")
	seen := map[string]bool{}
	for _, m := range ms {
		if seen[m.id] || m.id == "" {
			h.t.Fail("C10", "unique_ids", fmt.Sprintf("two members with id %q (or an empty id)", m.id))
		}
		seen[m.id] = true
	}
	if h.g.ClientCount() != len(ms) {
		h.t.Fail("C10", "unique_ids", "ClientCount differs from GetClients")
	}
	locked, _ := h.g.Locked()
	if locked {
		h.unguarded = false
	}
	h.t.Checked("C10.autolock")
	if h.loaded.autolock && !h.unguarded && !anyOp(ms) && !locked {
		h.t.Fail("C10", "autolock", "autolock group without operator is not locked")
	}
	// only members are ever told anything, and nobody is told about a
	// client that is not being admitted / removed
	for _, e := range ev {
		if e.kind == evKick && hasPerm(e.c, "op") {
			h.t.Fail("C10", "autokick", fmt.Sprintf("operator %q kicked by autokick", e.c.id))
		}
	}
}

func (h *seqHist) finish() {
	// leave the table clean: remove every member (from the object it
	// entered) and delete the group
	for c := range h.live {
		group.DelClient(c)
	}
	for _, c := range members(group.Get(h.name)) {
		group.DelClient(c)
	}
	if g := group.Get(h.name); g != nil && g.ClientCount() != 0 {
		h.t.Fail("C10", "unique_ids", "members left after every member was removed")
	}
	group.Delete(h.name)
	os.Remove(filepath.Join(h.dir, h.name+".json"))
}

func ip(v int) *int { return &v }

func baseUsers() map[string]string {
	return map[string]string{"op1": "op", "op2": "op", "u1": "present", "u2": "observe"}
}

func randDesc(r *tr.Rand) descCfg {
	d := descCfg{users: baseUsers()}
	d.max = []int{0, 0, 1, 2, 3, 4}[r.Intn(6)]
	d.autolock = r.Chance(2, 5)
	d.autokick = r.Chance(1, 4)
	switch r.Pick(12, 2, 1) {
	case 1:
		d.nb = ip(-7200)
	case 2:
		d.nb = ip(7200)
	}
	switch r.Pick(12, 2, 1) {
	case 1:
		d.exp = ip(7200)
	case 2:
		d.exp = ip(-7200)
	}
	switch r.Pick(10, 1, 1, 1) {
	case 1:
		delete(d.users, "op2")
	case 2:
		d.users["op2"] = "present" // demoted
	case 3:
		delete(d.users, "u2")
	}
	return d
}

var lockMsgs = []string{"", "m1", "closed for lunch", "this group is locked"}

func randomOps(h *seqHist, nops int) {
	r := h.r
	idn := 0
	freshID := func() string { idn++; return fmt.Sprintf("c%d", idn) }
	if r.Chance(1, 2) { // an operator arrives first and opens the group
		h.join(freshID(), false, false, r.Intn(2))
		if l, _ := lockedOf(h.g); l && anyOp(members(h.g)) {
			h.lock(false, "")
		}
	}
	for i := 0; i < nops; i++ {
		ms := members(h.g)
		// fault stream: while the description is unreadable the history
		// goes on (joins, Adds, leaves, lock changes), and the file comes
		// back soon
		if !h.fileOK && r.Chance(2, 5) {
			if r.Chance(3, 4) {
				h.desc(h.written)
			} else {
				h.desc(randDesc(r))
			}
			continue
		}
		pick := r.Pick(40, 22, 8, 6, 6, 1, 3, 5, 1)
		if !h.fileOK && pick == 3 {
			pick = 4 // no second fault on top of the first: an Add instead
		}
		switch pick {
		case 7: // the description becomes unreadable
			if h.fileOK {
				h.corrupt(r.Intn(5))
			}
		case 8: // group.Update expiring the group
			h.delete()
		case 0: // join
			id := freshID()
			switch r.Pick(20, 3, 1) {
			case 1:
				if len(ms) > 0 {
					id = ms[r.Intn(len(ms))].id
					h.t.Note("dup-id")
				}
			case 2:
				id = ""
			}
			sys, sysop := false, false
			if r.Chance(1, 12) {
				sys = true
				sysop = r.Chance(1, 4)
				h.t.Note("system-client")
			}
			code := []int{0, 0, 1, 1, 2, 2, 2, 2, 2, 3, 3, 3, 3, 4, 5, 6, 7}[r.Intn(17)]
			h.join(id, sys, sysop, code)
		case 1: // a member leaves; prefer operators sometimes (last op leaving)
			if len(ms) == 0 {
				continue
			}
			c := ms[r.Intn(len(ms))]
			if r.Chance(1, 3) {
				for _, m := range ms {
					if hasPerm(m, "op") {
						c = m
					}
				}
			}
			h.del(c)
		case 2: // lock / unlock as the websocket layer allows: by a present operator
			if !anyOp(ms) {
				switch r.Pick(5, 1, 4) {
				case 0:
					h.lock(true, lockMsgs[r.Intn(len(lockMsgs))])
				case 1: // group.SetLocked itself has no guard
					h.lock(false, "")
				}
				continue
			}
			if l, _ := lockedOf(h.g); !l || r.Chance(1, 4) {
				h.lock(true, lockMsgs[r.Intn(len(lockMsgs))])
			} else {
				h.lock(false, "")
			}
		case 3: // description change (picked up by the next Add / join)
			d := randDesc(r)
			if r.Chance(1, 2) { // change one field only
				d2 := h.written
				d2.users = map[string]string{}
				for k, v := range h.written.users {
					d2.users[k] = v
				}
				switch r.Intn(4) {
				case 0:
					d2.max = d.max
				case 1:
					d2.autolock = d.autolock
				case 2:
					d2.autokick = d.autokick
				default:
					d2.nb, d2.exp = d.nb, d.exp
				}
				d = d2
			}
			h.desc(d)
		case 4: // Add without a join (group.Update, HTTP handlers)
			h.add()
		case 5:
			h.shutdown(lockMsgs[1+r.Intn(2)])
		case 6: // DelClient by an object that is not the member under that id
			if len(ms) == 0 {
				continue
			}
			m := ms[r.Intn(len(ms))]
			imp := h.newClient(m.id, false, false)
			imp.setGroup(h.g)
			h.t.Note("impostor-del")
			h.del(imp)
		}
	}
}

// scripted regression histories, run first
func scripted(t *tr.Trace, r *tr.Rand, dir string) {
	// 1. autolock: starts locked, operator unlocks by joining?  No: joining
	// does not unlock; the operator unlocks explicitly, leaves, group relocks
	// before the next join is evaluated (F4 regression, sequential part).
	{
		d := descCfg{autolock: true, users: baseUsers()}
		h := newSeqHist(t, r, dir, "scripted-autolock", d)
		h.join("u", false, false, 2)        // locked
		o := h.join("o", false, false, 0)   // operator enters a locked group
		h.join("u", false, false, 2)        // still locked (autolock message)
		h.lock(false, "")                   // operator unlocks
		u := h.join("u", false, false, 2)   // admitted
		h.del(o)                            // last operator leaves: locked again
		h.join("v", false, false, 3)        // rejected
		o2 := h.join("o2", false, false, 1) // operator
		h.lock(true, "m1")                  // custom message
		h.del(o2)                           // stays locked with m1
		h.join("w", false, false, 2)        // locked:m1
		h.del(u)
		h.t.Nontrivial("scripted-autolock")
		h.finish()
	}
	// 2. capacity: operators and system clients exceed max-clients
	{
		d := descCfg{max: 2, users: baseUsers()}
		h := newSeqHist(t, r, dir, "scripted-capacity", d)
		a := h.join("a", false, false, 2)
		h.join("b", false, false, 3)
		h.join("c", false, false, 2) // too many
		h.join("o", false, false, 0) // operator exempt: 3 members
		h.join("s", true, false, 6)  // system exempt: 4 members
		h.join("d", false, false, 2) // too many
		h.del(a)                     // 3 members, still >= 2
		h.join("e", false, false, 2) // too many
		d.max = 4
		h.desc(d)
		h.join("f", false, false, 2) // admitted (3 < 4)
		h.join("g", false, false, 2) // too many (4 >= 4)
		h.t.Nontrivial("scripted-capacity")
		h.finish()
	}
	// 3. autokick
	{
		d := descCfg{autokick: true, users: baseUsers()}
		h := newSeqHist(t, r, dir, "scripted-autokick", d)
		h.join("u", false, false, 2) // no operators
		o := h.join("o", false, false, 0)
		h.join("u", false, false, 2)
		h.join("v", false, false, 3)
		h.join("s", true, false, 6)
		h.del(o)                     // everybody kicked
		h.join("w", false, false, 2) // no operators; the Add kicks u, v, s again
		h.add()
		h.t.Nontrivial("scripted-autokick")
		h.finish()
	}
	// 4. time window, ids, credentials
	{
		d := descCfg{nb: ip(7200), users: baseUsers()}
		h := newSeqHist(t, r, dir, "scripted-window", d)
		h.join("u", false, false, 2) // not open yet
		h.join("o", false, false, 0) // operator exempt
		d.nb, d.exp = ip(-7200), ip(-3600)
		h.desc(d)
		h.join("u", false, false, 2) // closed
		d.exp = ip(7200)
		h.desc(d)
		h.join("u", false, false, 2) // admitted
		h.join("u", false, false, 3) // duplicate id
		h.join("o", false, false, 1) // duplicate id, operator
		h.join("", false, false, 0)  // empty id
		h.join("x", false, false, 4) // bad password
		h.join("x", false, false, 5) // unknown user
		h.join("x", false, false, 6) // no username
		h.lock(true, "")
		h.join("x", false, false, 2) // locked, default message
		h.shutdown("bye")
		h.join("x", false, false, 2) // locked:bye
		h.t.Nontrivial("scripted-window")
		h.finish()
	}
}

// scriptedFaults: the description is unreadable for a while (half-written,
// removed, unparsable) while the group has members; every later join must be
// evaluated against the members, the lock and the ids that are already there
func scriptedFaults(t *tr.Trace, r *tr.Rand, dir string) {
	for mode := 0; mode < 5; mode++ {
		d := descCfg{max: 3, users: baseUsers()}
		h := newSeqHist(t, r, dir, "scripted-fault", d)
		a := h.join("a", false, false, 2)
		o := h.join("o", false, false, 0)
		h.lock(true, "m1")
		h.corrupt(mode)
		h.join("x", false, false, 2) // Add fails
		h.add()                      // group.Update meanwhile
		h.join("y", false, false, 0) // operators cannot join either
		h.desc(d)
		h.join("b", false, false, 3) // still locked with m1
		h.lock(false, "")
		h.join("a", false, false, 3)      // id still taken
		b := h.join("b", false, false, 3) // third member
		h.join("c", false, false, 2)      // 3 members: too many
		h.del(o)
		h.corrupt((mode + 1) % 5)
		h.del(a)
		h.add()  // fails; the group still has a member and is kept
		h.del(b) // the last member leaves while the file is unreadable
		h.add()  // now the (empty) group is dropped
		h.join("c", false, false, 2)
		h.desc(d)
		h.join("c", false, false, 2) // a new group
		h.delete()                   // refused: it has a member
		h.t.Nontrivial(fmt.Sprintf("scripted-fault-%d", mode))
		h.finish()
	}
}

// subgroupOwnDescription: a group is governed by the definition that its NAME
// designates now.  An automatic subgroup (no file of its own, the parent's
// rules) that later gets its own file - a stricter capacity, a lock, a time
// window - obeys that file from then on: the parent's cached rules must not
// go on admitting people.  Monitors only.
func subgroupOwnDescription(t *tr.Trace, dir string) {
	t.History("groupconc", "subgroup-own-description")
	w := &world{}
	parent := fmt.Sprintf("par%d", atomic.AddInt64(&fileSeq, 1))
	users := map[string]interface{}{}
	for u, role := range baseUsers() {
		users[u] = map[string]interface{}{"password": passwords[u], "permissions": role}
	}
	write := func(name string, m map[string]interface{}) {
		m["users"] = users
		b, _ := json.Marshal(m)
		fn := filepath.Join(dir, name+".json")
		os.MkdirAll(filepath.Dir(fn), 0700)
		os.WriteFile(fn+".tmp", b, 0600)
		n := atomic.AddInt64(&fileSeq, 1)
		mt := t0.Add(-1000 * time.Hour).Add(time.Duration(n) * time.Second)
		os.Chtimes(fn+".tmp", mt, mt)
		os.Rename(fn+".tmp", fn)
	}
	write(parent, map[string]interface{}{"auto-subgroups": true, "max-clients": 5})
	kid := parent + "/kid"
	join := func(id string, code int) (*fc, error) {
		c := &fc{w: w, id: id, kickCh: make(chan struct{})}
		g, err := group.AddClient(kid, c, group.ClientCredentials{Username: creds[code].user, Password: creds[code].pw})
		if err == nil {
			c.setGroup(g)
		}
		return c, err
	}
	a, err := join("a", 2)
	if err != nil {
		t.Fail("C10", "harness", "cannot join the automatic subgroup: "+err.Error())
		return
	}
	// the subgroup gets a definition of its own: one client at most
	write(kid, map[string]interface{}{"max-clients": 1})
	t.Checked("C10.own_description_applies")
	if b, err := join("b", 3); err == nil {
		t.Fail("C10", "own_description_applies", fmt.Sprintf("group %s now has its own definition with max-clients 1 and already has a member, yet a second non-operator was admitted (the parent's cached max-clients 5 was applied)", kid))
		group.DelClient(b)
	}
	// ... and then a lock-out by time window
	write(kid, map[string]interface{}{"expires": t0.Add(-time.Hour).Format(time.RFC3339)})
	group.DelClient(a)
	t.Checked("C10.own_description_applies")
	if c, err := join("c", 2); err == nil {
		t.Fail("C10", "own_description_applies", fmt.Sprintf("group %s now has its own definition that expired an hour ago, yet a non-operator was admitted", kid))
		group.DelClient(c)
	}
	os.Remove(filepath.Join(dir, kid+".json"))
	group.Delete(kid)
	os.Remove(filepath.Join(dir, parent+".json"))
	group.Delete(parent)
	t.Nontrivial("subgroup-own-description")
}

func runGroup(t *tr.Trace, r *tr.Rand, n int) {
	log.SetOutput(io.Discard)
	dir, err := os.MkdirTemp("", "verif-group-")
	if err != nil {
		panic(err)
	}
	defer os.RemoveAll(dir)
	group.Directory = dir
	group.DataDirectory = dir

	scripted(t, r, dir)
	scriptedFaults(t, r, dir)
	subgroupOwnDescription(t, dir)
	for hi := 0; hi < n; hi++ {
		d := randDesc(r)
		stream := "mixed"
		switch {
		case hi%5 == 1:
			d.autolock = true
			stream = "autolock"
		case hi%5 == 2:
			d.autokick = true
			stream = "autokick"
		case hi%5 == 3:
			d.max = r.Range(1, 3)
			stream = "capacity"
		}
		h := newSeqHist(t, r, dir, stream, d)
		nops := r.Range(10, 60)
		randomOps(h, nops)
		st := stateString(h.g)
		if h.uid >= 4 {
			t.Nontrivial(fmt.Sprintf("%s/%d/%d/%s", stream, nops, h.uid, st))
		}
		h.finish()
	}

	// concurrent batches in a child process
	rounds := n
	if rounds < 30 {
		rounds = 30
	}
	runBatchesInChild(t, r.U64(), rounds)
}

// ---------------------------------------------------------------- concurrent batches

type batchResult struct {
	Round   int            `json:"round"`
	Config  string         `json:"config"`
	Checked map[string]int `json:"checked"`
	Fails   [][2]string    `json:"fails"` // monitor, message
	Notes   map[string]int `json:"notes"`
}

// Watchdogs.  A batch takes milliseconds; its internal bounded waits are a
// few seconds.  The watchdog is per batch (it is re-armed by every result
// line), not per child: a thorough run puts thousands of batches into one
// child and a loaded machine makes the sum arbitrary.  When it expires the
// child gets SIGQUIT (the Go runtime prints every goroutine's stack) and the
// SAME batch is run again alone with ten times the time; only a batch that
// hangs twice is reported, with the stacks.
var (
	batchTimeout      = 90 * time.Second
	batchRetryTimeout = 900 * time.Second
)

// self-test of the watchdog (not used by the check):
// VERIF_GROUP_TIMEOUT=<seconds> shortens the watchdog (retry = 10x);
// VERIF_GROUP_TESTHANG=<batch>[:<file>] makes the child block in that batch,
// every time, or only while <file> does not exist (it is created first).
func init() {
	if v, err := strconv.Atoi(os.Getenv("VERIF_GROUP_TIMEOUT")); err == nil && v > 0 {
		batchTimeout = time.Duration(v) * time.Second
		batchRetryTimeout = 10 * batchTimeout
	}
}

func testHang(round int) {
	v := os.Getenv("VERIF_GROUP_TESTHANG")
	if v == "" {
		return
	}
	parts := strings.SplitN(v, ":", 2)
	if n, err := strconv.Atoi(parts[0]); err != nil || n != round {
		return
	}
	if len(parts) == 2 {
		if _, err := os.Stat(parts[1]); err == nil {
			return
		}
		os.WriteFile(parts[1], nil, 0600)
	}
	var mu sync.Mutex
	mu.Lock()
	go func() { time.Sleep(time.Hour) }() // keep the deadlock detector quiet
	mu.Lock()
}

func runBatchesInChild(t *tr.Trace, seed uint64, rounds int) {
	// a batch that aborts the process is a finding; the remaining batches
	// are run in a fresh child (bounded number of restarts)
	from := 0
	for restarts := 0; from < rounds && restarts < 12; restarts++ {
		next, hung, _ := runChild(t, seed, from, rounds, batchTimeout)
		if hung >= 0 {
			// no runtime abort, no output for batchTimeout: slow or hung?
			_, hung2, dump := runChild(t, seed, hung, hung+1, batchRetryTimeout)
			if hung2 >= 0 {
				t.History("groupconc", "batch", seed, hung)
				t.Op("-", "batch", "hung")
				t.Checked("C10.atomic_steps")
				t.Fail("C10", "atomic_steps", fmt.Sprintf(
					"concurrent batch %d (seed %d) did not finish within %v and, run again alone, within %v; goroutines: %s",
					hung, seed, batchTimeout, batchRetryTimeout, dump))
			} else {
				t.Note("slow-batch-retried")
			}
			next = hung + 1
		}
		from = next
	}
}

// runChild runs the batches from..rounds-1 in one child process.  It returns
// the number of the first batch that has not been dealt with; hung >= 0 is
// the batch during which the watchdog expired (with the goroutine dump).
func runChild(t *tr.Trace, seed uint64, from, rounds int, perBatch time.Duration) (next int, hung int, dump string) {
	exe, err := os.Executable()
	if err != nil {
		panic(err)
	}
	// the parent owns the child's directory: an aborted child cannot clean up
	dir, err := os.MkdirTemp("", "verif-groupconc-")
	if err != nil {
		panic(err)
	}
	defer os.RemoveAll(dir)
	cmd := exec.Command(exe)
	cmd.Env = append(os.Environ(), "VERIF_GROUP_CHILD=1", "VERIF_GROUP_DIR="+dir,
		fmt.Sprintf("VERIF_GROUP_SEED=%d", seed), fmt.Sprintf("VERIF_GROUP_FROM=%d", from),
		fmt.Sprintf("VERIF_GROUP_ROUNDS=%d", rounds))
	stdout, _ := cmd.StdoutPipe()
	var stderr strings.Builder
	cmd.Stderr = &stderr
	if err := cmd.Start(); err != nil {
		panic(err)
	}
	var timedOut atomic.Bool
	timer := time.AfterFunc(perBatch, func() {
		timedOut.Store(true)
		cmd.Process.Signal(syscall.SIGQUIT) // goroutine dump on stderr, exit 2
		time.Sleep(10 * time.Second)
		cmd.Process.Kill()
	})
	defer timer.Stop()
	sc := bufio.NewScanner(stdout)
	sc.Buffer(make([]byte, 1<<20), 1<<24)
	last := from - 1
	for sc.Scan() {
		var br batchResult
		if json.Unmarshal(sc.Bytes(), &br) != nil {
			continue
		}
		if !timedOut.Load() {
			timer.Reset(perBatch)
		}
		last = br.Round
		t.History("groupconc", "batch", seed, br.Round)
		t.Op("-", "batch", br.Config)
		for k, v := range br.Checked {
			t.Monitors[k] += v
		}
		for k, v := range br.Notes {
			t.Notes[k] += v
		}
		if br.Notes["nonop-admitted"] > 0 && br.Notes["op-left"] > 0 {
			t.Nontrivial("batch/" + br.Config + "/" + fmt.Sprint(br.Notes["admitted"]))
		}
		for _, f := range br.Fails {
			t.Fail("C10", f[0], f[1])
			if f[0] == "registered_group_kept" || f[0] == "unique_ids" || f[0] == "membership_consistent" {
				// the same observation as a statement of C13: concurrent joins, leaves,
				// deletions and reloads left the membership state of the NAME corrupted
				// (a member of an object nobody can find, two objects for one name)
				t.Fail("C13", "membership_not_corrupted", f[0]+": "+f[1])
			}
		}
		t.Monitors["C13.membership_not_corrupted"] += br.Checked["C10.registered_group_kept"]
	}
	err = cmd.Wait()
	timer.Stop()
	if err == nil {
		return rounds, -1, ""
	}
	msg := stderr.String()
	aborted := strings.Contains(msg, "fatal error:") || strings.Contains(msg, "panic:")
	if timedOut.Load() && !aborted {
		// the stacks of the goroutines that are blocked, shortened
		return last + 1, last + 1, userStacks(msg)
	}
	// the real code aborted under a concurrent schedule
	first := msg
	if i := strings.Index(msg, "fatal error:"); i >= 0 {
		first = msg[i:]
	} else if i := strings.Index(msg, "panic:"); i >= 0 {
		first = msg[i:]
	}
	if i := strings.IndexByte(first, '\n'); i >= 0 {
		first = first[:i]
	}
	if len(first) > 300 {
		first = first[:300]
	}
	t.History("groupconc", "batch", seed, last+1)
	t.Op("-", "batch", "aborted")
	t.Checked("C10.atomic_steps")
	t.Fail("C10", "atomic_steps", fmt.Sprintf(
		"concurrent batch %d (seed %d) aborted the process: %v: %s", last+1, seed, err, first))
	return last + 2, -1, ""
}

// userStacks keeps, from a SIGQUIT dump, the goroutines that run code of
// galene or of this driver (the runtime's own goroutines are noise), each cut
// to its first frames.
func userStacks(dump string) string {
	var sb strings.Builder
	for _, blk := range strings.Split(dump, "\n\n") {
		if !strings.HasPrefix(blk, "goroutine ") ||
			!(strings.Contains(blk, "galene/") || strings.Contains(blk, "main.")) {
			continue
		}
		lines := strings.Split(blk, "\n")
		sb.WriteString(lines[0])
		kept := 0
		for k := 1; k+1 < len(lines) && kept < 6; k += 2 {
			fn := strings.TrimSpace(lines[k])
			if strings.HasPrefix(fn, "runtime.") || strings.HasPrefix(fn, "internal/") {
				continue
			}
			loc := strings.TrimSpace(lines[k+1])
			if i := strings.Index(loc, " +0x"); i >= 0 {
				loc = loc[:i]
			}
			if i := strings.LastIndexByte(fn, '('); i >= 0 {
				fn = fn[:i]
			}
			sb.WriteString(" < " + fn + " " + loc)
			kept++
		}
		sb.WriteString("\n")
		if sb.Len() > 3400 {
			break
		}
	}
	if sb.Len() == 0 {
		if len(dump) > 1500 {
			dump = dump[:1500]
		}
		return dump
	}
	return sb.String()
}

func childMain() {
	log.SetOutput(io.Discard)
	seed, _ := strconv.ParseUint(os.Getenv("VERIF_GROUP_SEED"), 10, 64)
	rounds, _ := strconv.Atoi(os.Getenv("VERIF_GROUP_ROUNDS"))
	dir := os.Getenv("VERIF_GROUP_DIR")
	if dir == "" {
		panic("VERIF_GROUP_DIR not set")
	}
	group.Directory = dir
	group.DataDirectory = dir
	from, _ := strconv.Atoi(os.Getenv("VERIF_GROUP_FROM"))
	out := bufio.NewWriter(os.Stdout)
	for i := from; i < rounds; i++ {
		// every batch has its own generator, so that a batch is
		// reproduced from (seed, number) alone
		r := tr.NewRand(seed + uint64(i)*0x9E3779B97F4A7C15)
		testHang(i)
		var br *batchResult
		if i%3 == 1 {
			br = runNameRace(r, dir, i)
		} else {
			br = runBatch(r, dir, i)
		}
		b, _ := json.Marshal(br)
		out.Write(b)
		out.WriteByte('\n')
		out.Flush()
	}
}

type batch struct {
	w      *world
	g      *group.Group
	name   string
	d      descCfg
	res    *batchResult
	mu     sync.Mutex
	uid    atomic.Int64
	all    []*fc
	allMu  sync.Mutex
	opsWG  sync.WaitGroup
	opsEnd chan struct{}
}

func (b *batch) fail(mon, msg string) {
	b.mu.Lock()
	b.res.Fails = append(b.res.Fails, [2]string{mon, fmt.Sprintf("round %d %s: %s", b.res.Round, b.res.Config, msg)})
	b.mu.Unlock()
}
func (b *batch) checked(mon string) {
	b.mu.Lock()
	b.res.Checked["C10."+mon]++
	b.mu.Unlock()
}
func (b *batch) note(k string) {
	b.mu.Lock()
	b.res.Notes[k]++
	b.mu.Unlock()
}

func (b *batch) client(id string, sys bool) *fc {
	c := &fc{w: b.w, uid: int(b.uid.Add(1)), id: id, sys: sys, kickCh: make(chan struct{})}
	if sys {
		c.perms = []string{"system"}
	}
	b.allMu.Lock()
	b.all = append(b.all, c)
	b.allMu.Unlock()
	return c
}

// join returns the client if admitted
func (b *batch) join(id string, sys bool, code int) *fc {
	c := b.client(id, sys)
	_, isop := b.d.expect(code)
	c.op = isop && !sys
	g, err := group.AddClient(b.name, c, group.ClientCredentials{
		Username: creds[code].user, Password: creds[code].pw})
	b.w.add(logEntry{kind: evAddRet, c: c, ok: err == nil, what: classify(err)})
	if err != nil {
		return nil
	}
	c.setGroup(g)
	return c
}

func (b *batch) leave(c *fc) {
	b.w.add(logEntry{kind: evDelBegin, c: c})
	group.DelClient(c)
	b.w.add(logEntry{kind: evDelEnd, c: c})
	c.setGroup(nil)
}

func yield(r *tr.Rand) {
	for k := r.Intn(4); k > 0; k-- {
		runtime.Gosched()
	}
}

func runBatch(r *tr.Rand, dir string, round int) *batchResult {
	d := descCfg{users: baseUsers()}
	d.max = []int{0, 0, 2, 3, 5}[r.Intn(5)]
	switch r.Pick(3, 2, 1, 1) {
	case 0:
		d.autolock = true
	case 1:
		d.autokick = true
	case 2:
		d.autolock, d.autokick = true, true
	}
	nOps := r.Range(1, 3)
	nUsers := r.Range(2, 5)
	nSticky := r.Range(1, 3)
	nDup := r.Range(0, 2) * 2
	// every third batch has the shape "the last operator leaves while
	// non-operators are joining": an unlocked autolock group, one operator
	// that comes, unlocks and goes, members that stay, users that keep
	// joining for as long as the operator is active
	lastop := round%3 == 2
	if lastop {
		d.max, d.autolock, d.autokick = 0, true, r.Chance(1, 4)
		nOps, nUsers, nSticky, nDup = 1, r.Range(4, 7), 2, 0
	}
	res := &batchResult{Round: round, Checked: map[string]int{}, Notes: map[string]int{}}
	res.Config = fmt.Sprintf("max=%d,autolock=%s,autokick=%s,ops=%d,users=%d,sticky=%d,dup=%d,lastop=%s",
		d.max, tr.B(d.autolock), tr.B(d.autokick), nOps, nUsers, nSticky, nDup, tr.B(lastop))
	b := &batch{w: &world{conc: true}, name: fmt.Sprintf("b%d", round), d: d, res: res,
		opsEnd: make(chan struct{})}
	if err := writeDesc(dir, b.name, d); err != nil {
		panic(err)
	}
	g, err := group.Add(b.name, nil)
	if err != nil {
		panic(err)
	}
	b.g = g

	start := make(chan struct{})
	var wg sync.WaitGroup
	spawn := func(f func(r *tr.Rand)) {
		rr := tr.NewRand(r.U64())
		wg.Add(1)
		go func() {
			defer wg.Done()
			<-start
			f(rr)
		}()
	}
	// operators: join, sometimes unlock / lock while a member, leave
	for i := 0; i < nOps; i++ {
		code := i % 2
		name := fmt.Sprintf("o%d", i)
		b.opsWG.Add(1)
		spawn(func(r *tr.Rand) {
			defer b.opsWG.Done()
			iters := r.Range(2, 5)
			if lastop {
				iters = r.Range(6, 10)
			}
			for k := iters; k > 0; k-- {
				yield(r)
				c := b.join(fmt.Sprintf("%s-%d", name, k), false, code)
				if c == nil {
					b.fail("ops_exempt", "operator with a fresh id rejected")
					continue
				}
				yield(r)
				what := r.Pick(3, 1, 2)
				if lastop {
					what = 0
				}
				switch what {
				case 0:
					g.SetLocked(false, "")
				case 1:
					g.SetLocked(true, "m1")
				}
				for k := r.Range(0, 30); k > 0; k-- {
					runtime.Gosched()
				}
				b.leave(c)
				b.note("op-left")
			}
		})
	}
	go func() { b.opsWG.Wait(); close(b.opsEnd) }()
	// users: join, leave
	for i := 0; i < nUsers; i++ {
		name := fmt.Sprintf("u%d", i)
		code := 2 + i%2
		spawn(func(r *tr.Rand) {
			iters := r.Range(3, 10)
			if lastop {
				iters = 150
			}
			for k := iters; k > 0; k-- {
				yield(r)
				c := b.join(fmt.Sprintf("%s-%d", name, k), false, code)
				if c != nil {
					yield(r)
					b.leave(c)
				}
				if lastop {
					select {
					case <-b.opsEnd:
						k = 0
					default:
					}
				}
			}
		})
	}
	// sticky users: stay until kicked (autokick) or until the operators are done
	for i := 0; i < nSticky; i++ {
		name := fmt.Sprintf("s%d", i)
		spawn(func(r *tr.Rand) {
			var c *fc
			for k := 0; k < 40 && c == nil; k++ {
				yield(r)
				c = b.join(fmt.Sprintf("%s-%d", name, k), false, 2)
				select {
				case <-b.opsEnd:
					k = 1000
				default:
				}
			}
			if c == nil {
				return
			}
			b.note("sticky-admitted")
			if d.autokick {
				// admitted => an operator was present; once all
				// operators have left this member must have been kicked
				select {
				case <-c.kickCh:
				case <-b.opsEnd:
					b.checked("autokick")
					select {
					case <-c.kickCh:
					case <-time.After(30 * time.Second):
						b.fail("autokick", fmt.Sprintf("member %q was not kicked after the last operator left", c.id))
					}
				}
			} else {
				<-b.opsEnd
			}
			b.leave(c)
		})
	}
	// pairs of clients racing for the same id
	for i := 0; i < nDup; i++ {
		id := fmt.Sprintf("dup%d", i/2)
		code := []int{2, 0}[i%2] // a user and an operator under the same id
		spawn(func(r *tr.Rand) {
			for k := r.Range(2, 6); k > 0; k-- {
				yield(r)
				c := b.join(id, false, code)
				if c != nil {
					yield(r)
					b.leave(c)
				}
			}
		})
	}
	// a system client (recorder)
	spawn(func(r *tr.Rand) {
		for k := r.Range(1, 3); k > 0; k-- {
			yield(r)
			c := b.join(fmt.Sprintf("sys-%d", k), true, 6)
			if c == nil {
				b.fail("ops_exempt", "system client with a fresh id rejected")
				continue
			}
			yield(r)
			b.leave(c)
		}
	})
	close(start)
	wg.Wait()
	b.analyse()
	// clean up
	for _, c := range g.GetClients(nil) {
		group.DelClient(c)
	}
	group.Delete(b.name)
	os.Remove(filepath.Join(dir, b.name+".json"))
	return res
}

// runNameRace: joiners and leavers race a goroutine that makes the
// description unreadable, calls Add (which drops the group if it is empty at
// that moment) and restores it, or calls Delete as group.Update does for an
// expired group.  The rules are stated for the group NAME, so:
//   - a client that was accepted and has not left is a member of the object
//     that group.Get(name) returns, at every moment (an object with members
//     is never dropped; an entry step never runs on a dropped object);
//   - the non-operators that are members at the same time never number more
//     than max-clients, whichever objects they are in;
//   - two live members never have the same id;
//   - while an operator who locked the group stays, no non-operator enters.
//
// All four are sound whatever the load: they only use program order of each
// goroutine and the callback order under Group.mu.
const evMark = 100

func runNameRace(r *tr.Rand, dir string, round int) *batchResult {
	d := descCfg{users: baseUsers(), max: r.Range(1, 2)}
	nJoin := r.Range(3, 6)
	nFaults := r.Range(15, 40)
	res := &batchResult{Round: round, Checked: map[string]int{}, Notes: map[string]int{}}
	res.Config = fmt.Sprintf("namerace,max=%d,joiners=%d,faults=%d", d.max, nJoin, nFaults)
	b := &batch{w: &world{conc: true}, name: fmt.Sprintf("n%d", round), d: d, res: res,
		opsEnd: make(chan struct{})}
	if err := writeDesc(dir, b.name, d); err != nil {
		panic(err)
	}
	fn := filepath.Join(dir, b.name+".json")
	good := d.json()

	var inside atomic.Int64
	var idMu sync.Mutex
	idCount := map[string]int{}
	start := make(chan struct{})
	faultTwoThirds := make(chan struct{})
	joinersDone := make(chan struct{})
	faultDone := make(chan struct{})
	var wg, jwg sync.WaitGroup
	spawn := func(w *sync.WaitGroup, f func(r *tr.Rand)) {
		rr := tr.NewRand(r.U64())
		wg.Add(1)
		if w != nil {
			w.Add(1)
		}
		go func() {
			defer wg.Done()
			if w != nil {
				defer w.Done()
			}
			<-start
			f(rr)
		}()
	}
	// accepted: the checks a live member makes about itself
	accepted := func(c *fc, r *tr.Rand) {
		plain := !c.op && !c.sys
		if plain {
			b.checked("capacity")
			if n := inside.Add(1); int(n) > d.max {
				b.fail("capacity", fmt.Sprintf("%d non-operators are members of the group named %q at the same time (max-clients %d); %q just entered", n, b.name, d.max, c.id))
			}
		}
		idMu.Lock()
		idCount[c.id]++
		dup := idCount[c.id] > 1
		idMu.Unlock()
		b.checked("unique_ids")
		if dup {
			b.fail("unique_ids", fmt.Sprintf("two live members of the group named %q have the id %q", b.name, c.id))
		}
		for k := 0; k < 3; k++ {
			b.checked("registered_group_kept")
			cur := group.Get(b.name)
			if cur != c.Group() {
				what := "a different object"
				if cur == nil {
					what = "no group"
				}
				b.fail("registered_group_kept", fmt.Sprintf("client %q was accepted and has not left, but the name %q now designates %s: later joins are not evaluated against it", c.id, b.name, what))
				b.note("orphan")
				break
			}
			if cur.GetClient(c.id) != group.Client(c) {
				b.fail("registered_group_kept", fmt.Sprintf("accepted client %q is not a member of the group named %q", c.id, b.name))
				break
			}
			yield(r)
		}
	}
	leaving := func(c *fc) {
		if !c.op && !c.sys {
			inside.Add(-1)
		}
		idMu.Lock()
		idCount[c.id]--
		idMu.Unlock()
		b.leave(c)
	}
	for i := 0; i < nJoin; i++ {
		name := fmt.Sprintf("j%d", i)
		code := 2 + i%2
		spawn(&jwg, func(r *tr.Rand) {
			for k := 400; k > 0; k-- {
				select {
				case <-faultDone:
					k = 0
					continue
				default:
				}
				yield(r)
				id := fmt.Sprintf("%s-%d", name, k)
				if r.Chance(1, 6) {
					id = "shared"
				}
				c := b.join(id, false, code)
				if c == nil {
					continue
				}
				b.note("nonop-admitted")
				accepted(c, r)
				leaving(c)
				b.note("op-left") // (counts as activity for the non-triviality key)
			}
		})
	}
	go func() { jwg.Wait(); close(joinersDone) }()
	// the fault goroutine
	spawn(nil, func(r *tr.Rand) {
		defer close(faultDone)
		for i := 0; i < nFaults; i++ {
			if i == nFaults*2/3 {
				close(faultTwoThirds)
			}
			switch r.Pick(3, 2, 4) {
			case 0: // half-written description, seen by an Add, then restored
				os.WriteFile(fn+".bad", good[:len(good)/2], 0600)
				n := atomic.AddInt64(&fileSeq, 1)
				mt := t0.Add(-1000 * time.Hour).Add(time.Duration(n) * time.Second)
				os.Chtimes(fn+".bad", mt, mt)
				os.Rename(fn+".bad", fn)
				yield(r)
				group.Add(b.name, nil)
				yield(r)
				writeDesc(dir, b.name, d)
				b.note("fault-unreadable")
			case 1: // removed and restored
				os.Remove(fn)
				yield(r)
				group.Add(b.name, nil)
				yield(r)
				writeDesc(dir, b.name, d)
				b.note("fault-removed")
			default: // expiry: what group.Update does to an idle group
				if group.Delete(b.name) {
					b.note("fault-deleted")
				}
			}
			yield(r)
		}
	})
	// an operator that arrives late, locks the group and stays
	var op *fc
	spawn(nil, func(r *tr.Rand) {
		<-faultTwoThirds
		for k := 0; k < 200 && op == nil; k++ {
			op = b.join("the-op", false, 0)
			yield(r)
		}
		if op == nil {
			return
		}
		accepted(op, r)
		op.Group().SetLocked(true, "m1")
		b.w.add(logEntry{kind: evMark, c: op, what: "locked"})
		<-joinersDone
	})
	close(start)
	wg.Wait()

	// quiescence: the operator (if it got in) is the only live member
	if op != nil {
		b.checked("registered_group_kept")
		cur := group.Get(b.name)
		if cur == nil || cur != op.Group() || cur.GetClient("the-op") != group.Client(op) || cur.ClientCount() != 1 {
			n := -1
			if cur != nil {
				n = cur.ClientCount()
			}
			b.fail("registered_group_kept", fmt.Sprintf("at quiescence the only live member %q is not the only member of the group named %q (registered: %v, members %d)", op.id, b.name, cur != nil, n))
		}
		// nobody entered between the lock and now
		lg := b.w.since(0)
		lockedAt := -1
		for i, e := range lg {
			if e.kind == evMark {
				lockedAt = i
			}
			if lockedAt >= 0 && e.kind == evJoined && e.what == "join" && e.c != op && !e.c.op {
				b.checked("admit_conditions")
				b.fail("admit_conditions", fmt.Sprintf("non-operator %q entered the group named %q after operator %q, still a member, had locked it", e.c.id, b.name, op.id))
			}
		}
		b.checked("admit_conditions")
		leaving(op)
	}
	b.checked("registered_group_kept")
	if g := group.Get(b.name); g != nil && g.ClientCount() != 0 {
		b.fail("registered_group_kept", fmt.Sprintf("%d members left in the group named %q after every client left", g.ClientCount(), b.name))
	}
	for _, c := range b.all {
		if g := c.Group(); g != nil {
			group.DelClient(c)
		}
	}
	group.Delete(b.name)
	os.Remove(fn)
	return res
}

// analyse evaluates the monitors on the totally ordered callback log.
//
// Joined("join") is called by AddClient inside its critical section, followed
// (same critical section, same goroutine) by PushClient("add") to the joiner
// for itself and for every member of the snapshot taken at the beginning of
// the critical section.  So the "add" announcements received by a joiner
// between its Joined("join") and the next Joined("join") of anybody are
// exactly the membership at its admission.
func (b *batch) analyse() {
	lg := b.w.since(0)
	d := b.d
	byID := map[string]*fc{} // id -> the object most recently admitted under it
	admitted := map[*fc]bool{}
	removed := map[*fc]bool{}
	delBegun := map[*fc]bool{}
	returned := map[*fc]bool{}
	announced := map[string]int{} // id -> number of "add" announcements to others
	admissions := map[string]int{}
	for i := 0; i < len(lg); i++ {
		e := lg[i]
		switch e.kind {
		case evPush:
			if e.what == "add" && e.c.id != e.about {
				announced[e.about]++
			}
		case evDelBegin:
			delBegun[e.c] = true
		case evDelEnd:
			removed[e.c] = true
		case evAddRet:
			returned[e.c] = true
			if e.ok != admitted[e.c] {
				b.fail("reject_no_effect", fmt.Sprintf("client %q: AddClient returned %s but Joined(join) callback=%v", e.c.id, e.what, admitted[e.c]))
			}
		case evJoined:
			if e.what != "join" {
				continue
			}
			x := e.c
			if admitted[x] {
				b.fail("unique_ids", fmt.Sprintf("client %q told twice that it joined", x.id))
			}
			// second, snapshot-independent reading of the log: the clients
			// whose Joined("join") came earlier and whose DelClient had not
			// even been called yet are certainly members now; an operator
			// whose DelClient has not returned yet is possibly one
			sure, sureSameID, opPossible := 0, false, false
			for y := range admitted {
				if !delBegun[y] {
					sure++
					if y.id == x.id {
						sureSameID = true
					}
				}
				if y.op && !removed[y] {
					opPossible = true
				}
			}
			plainX := !x.op && !x.sys
			b.checked("unique_ids")
			if sureSameID {
				b.fail("unique_ids", fmt.Sprintf("client admitted under id %q while another client with that id is a member", x.id))
			}
			if plainX && d.max > 0 {
				b.checked("capacity")
				if sure >= d.max {
					b.fail("capacity", fmt.Sprintf("non-operator %q admitted while at least %d clients are members (max-clients %d)", x.id, sure, d.max))
				}
			}
			if plainX && (d.autolock || d.autokick) {
				b.checked("autolock_admission")
				if !opPossible {
					b.fail("autolock_admission", fmt.Sprintf("autolock/autokick: non-operator %q admitted after every operator's DelClient had returned", x.id))
				}
			}
			admitted[x] = true
			admissions[x.id]++
			b.note("admitted")
			// the snapshot
			self := 0
			var snap []*fc
			unknown := 0
			for j := i + 1; j < len(lg); j++ {
				f := lg[j]
				if f.kind == evJoined && f.what == "join" {
					break
				}
				if f.kind == evPush && f.what == "add" && f.c == x {
					if f.about == x.id {
						self++
					} else if m := byID[f.about]; m != nil {
						snap = append(snap, m)
					} else {
						unknown++
					}
				}
			}
			b.checked("unique_ids")
			if self != 1 {
				b.fail("unique_ids", fmt.Sprintf("client admitted under id %q while a member has that id (%d announcements of that id to it)", x.id, self))
			}
			if unknown > 0 {
				b.fail("reject_no_effect", fmt.Sprintf("joiner %q was told about %d clients that were never admitted", x.id, unknown))
			}
			hasOp := false
			for _, m := range snap {
				if m.op {
					hasOp = true
				}
			}
			plain := !x.op && !x.sys
			if plain {
				b.note("nonop-admitted")
				b.checked("capacity")
				if d.max > 0 && len(snap) >= d.max {
					b.fail("capacity", fmt.Sprintf("non-operator %q admitted to a group that already holds %d members (max-clients %d)", x.id, len(snap), d.max))
				}
				if d.autolock {
					b.checked("autolock_admission")
					if !hasOp {
						b.fail("autolock_admission", fmt.Sprintf("autolock: non-operator %q admitted while no operator is a member (members at admission: %d)", x.id, len(snap)))
					}
				}
				if d.autokick {
					b.checked("autokick")
					if !hasOp {
						b.fail("autokick", fmt.Sprintf("autokick: non-operator %q admitted while no operator is a member", x.id))
					}
				}
			}
			byID[x.id] = x
		}
	}
	// rejected clients: not members, no callback, announced to no one
	final := map[*fc]bool{}
	ids := map[string]bool{}
	for _, c := range b.g.GetClients(nil) {
		x := c.(*fc)
		final[x] = true
		b.checked("unique_ids")
		if ids[x.id] {
			b.fail("unique_ids", fmt.Sprintf("two members with id %q", x.id))
		}
		ids[x.id] = true
	}
	for _, c := range b.all {
		if !returned[c] {
			continue
		}
		if !admitted[c] {
			b.checked("reject_no_effect")
			if final[c] {
				b.fail("reject_no_effect", fmt.Sprintf("rejected client %q is a member", c.id))
			}
			if admissions[c.id] == 0 && announced[c.id] > 0 {
				b.fail("reject_no_effect", fmt.Sprintf("rejected client %q was announced to %d members", c.id, announced[c.id]))
			}
			b.note("rejected")
		}
		if admitted[c] != (final[c] || removed[c]) {
			b.fail("reject_no_effect", fmt.Sprintf("client %q: admitted=%v member=%v removed=%v", c.id, admitted[c], final[c], removed[c]))
		}
		if final[c] && removed[c] {
			b.fail("reject_no_effect", fmt.Sprintf("client %q is still a member after DelClient returned", c.id))
		}
	}
	// every script removes its own clients: the group must be empty and,
	// with autolock, locked
	b.checked("autolock")
	if len(final) != 0 {
		b.fail("reject_no_effect", fmt.Sprintf("%d members left at quiescence", len(final)))
	}
	if locked, _ := b.g.Locked(); d.autolock && !locked && len(final) == 0 {
		b.fail("autolock", "autolock group is empty and not locked at quiescence")
	}
}

func main() {
	if os.Getenv("VERIF_GROUP_CHILD") != "" {
		childMain()
		return
	}
	tr.Main(runGroup)
}

// Driver joinrace (property C14, supporting run without a model): the REAL
// group.AddClient / group.DelClient under REAL concurrency.
//
// The `users` driver runs one client loop at a time, so the admission and the
// announcements of AddClient are atomic there by construction.  Here every
// connection is a goroutine, several of them join and leave one group at the
// same time, and the credential check inside AddClient is made to last:
// users have hashed (pbkdf2) passwords, and the semaphore that limits
// concurrent password hashing (group.hashSemaphore, through the verif hook
// group/verif_export_hash.go) is taken by the driver for a while, as a burst
// of logins would take it.  C14 needs the snapshot of the members, the
// insertion of the joiner and the announcements both ways to be ONE critical
// section of the group: a join or a departure that lands between the
// snapshot and the insertion is announced to nobody.
//
// A connection (type conn) is a group.Client that behaves as webClient does:
// PushClient and Joined only enqueue (from whatever goroutine calls them);
// the connection's own goroutine serves the queue in order, drops the user
// events that are not for the group it has recorded (the test of
// pushClientAction) and folds the rest exactly as static/protocol.js does.
//
// Streams
//
//	window  carol and dave are members; the hashing slots are all taken;
//	        alice starts to join with a hashed password (she waits inside the
//	        credential check); meanwhile bob joins with a plain password
//	        and/or dave leaves and/or eve joins with a hashed password; the
//	        slots are given back; everybody serves its queue.  Seeded delays
//	        and variants.
//	churn   3-7 connections with distinct ids, each 8-30 seeded steps of
//	        join (plain or hashed user) / leave / serve-queue on one or two
//	        groups, all at once, while a holder goroutine takes all the
//	        hashing slots for short periods.
//
// Monitors at quiescence (every goroutine has finished, every queue has been
// served; implementation only):
//
//	C14.membership_consistent  the group table holds exactly the connections
//	                           that joined and did not leave
//	C14.convergence            every member's folded list = the members of its
//	                           group with their usernames and permissions; a
//	                           connection in no group has an empty list
//	C14.join_symmetry          two members of one group have been told about
//	                           each other
//	C14.joinrace_completes     every operation returns (watchdog)
//
// Whatever the timing, the unchanged code satisfies all of them; the timing
// only decides how often an overlap really happens (noted as
// other-returned-before-the-hashed-join).
package main

import (
	"crypto/sha256"
	"encoding/hex"
	"encoding/json"
	"fmt"
	"io"
	"log"
	"net"
	"os"
	"path/filepath"
	"runtime"
	"sort"
	"strings"
	"sync"
	"sync/atomic"
	"time"

	"golang.org/x/crypto/pbkdf2"

	gconn "github.com/jech/galene/conn"
	"github.com/jech/galene/group"

	"verifharness/internal/tr"
)

const watchdog = 5 * time.Second

// ---------------------------------------------------------------- users

type udef struct {
	name, pw string
	hashed   bool
	perms    string // role
}

var udefs = []udef{
	{"alice", "pa", true, "present"},
	{"bob", "pb", false, "present"},
	{"carol", "pc", false, "op"},
	{"dave", "pd", false, "message"},
	{"eve", "pe", true, "op"},
	{"frank", "pf", true, "message"},
	{"grace", "pg", false, "observe"},
}

var rolePerms = map[string][]string{
	"op":      {"op", "present", "message", "caption", "token"},
	"present": {"present", "message"},
	"message": {"message"},
	"observe": {},
}

const iterations = 400

func writeGroup(dir, name string) {
	users := map[string]interface{}{}
	for _, u := range udefs {
		var pw interface{} = u.pw
		if u.hashed {
			salt := []byte("salt-" + u.name)
			key := pbkdf2.Key([]byte(u.pw), salt, iterations, 32, sha256.New)
			pw = map[string]interface{}{"type": "pbkdf2", "hash": "sha-256",
				"key": hex.EncodeToString(key), "salt": hex.EncodeToString(salt), "iterations": iterations}
		}
		users[u.name] = map[string]interface{}{"password": pw, "permissions": u.perms}
	}
	b, err := json.Marshal(map[string]interface{}{"users": users})
	if err != nil {
		panic(err)
	}
	if err := os.WriteFile(filepath.Join(dir, name+".json"), b, 0600); err != nil {
		panic(err)
	}
}

// ---------------------------------------------------------------- connections

type event struct {
	typ, kind, grp, id, user string
	perms                    []string
}

type uent struct {
	user  string
	perms []string
}

// conn is a webClient-like group.Client.
type conn struct {
	id string

	mu    sync.Mutex // server-side fields and the queue
	g     *group.Group
	user  string
	perms []string
	queue []event

	// client side and the loop's own record of its group: only touched by
	// the connection's goroutine (and by the main goroutine once it is done)
	cur   string
	users map[string]uent
	u     udef
}

func (c *conn) Group() *group.Group { c.mu.Lock(); defer c.mu.Unlock(); return c.g }
func (c *conn) Addr() net.Addr      { return nil }
func (c *conn) Id() string          { return c.id }
func (c *conn) Username() string    { c.mu.Lock(); defer c.mu.Unlock(); return c.user }
func (c *conn) Init(u string, p []string) {
	c.mu.Lock()
	c.user, c.perms = u, append([]string(nil), p...)
	c.mu.Unlock()
}
func (c *conn) Permissions() []string {
	c.mu.Lock()
	defer c.mu.Unlock()
	return append([]string{}, c.perms...)
}
func (c *conn) Data() map[string]interface{} { return nil }
func (c *conn) PushConn(g *group.Group, id string, up gconn.Up, tracks []gconn.UpTrack, replace string) error {
	return nil
}
func (c *conn) RequestConns(target group.Client, g *group.Group, id string) error { return nil }
func (c *conn) Kick(id string, user *string, message string) error               { return nil }
func (c *conn) Joined(grp, kind string) error {
	c.mu.Lock()
	c.queue = append(c.queue, event{typ: "joined", kind: kind, grp: grp})
	c.mu.Unlock()
	return nil
}
func (c *conn) PushClient(grp, kind, id, username string, perms []string, data map[string]interface{}) error {
	c.mu.Lock()
	c.queue = append(c.queue, event{typ: "user", kind: kind, grp: grp, id: id, user: username,
		perms: append([]string{}, perms...)})
	c.mu.Unlock()
	return nil
}

// serve is one iteration of `case <-c.actions.Ch`.
func (c *conn) serve() {
	c.mu.Lock()
	q := c.queue
	c.queue = nil
	c.mu.Unlock()
	for _, e := range q {
		switch e.typ {
		case "joined":
			if e.kind == "leave" || e.kind == "fail" {
				c.users = map[string]uent{}
			}
		case "user":
			if c.cur == "" || e.grp != c.cur {
				continue // pushClientAction: "got client for wrong group"
			}
			switch e.kind {
			case "add", "change":
				c.users[e.id] = uent{e.user, e.perms}
			case "delete":
				delete(c.users, e.id)
			}
		}
	}
}

// join is the "join" case of handleClientMessage, reduced to the group layer.
func (c *conn) join(grp string, u udef) error {
	name := u.name
	g, err := group.AddClient(grp, c, group.ClientCredentials{Username: &name, Password: u.pw})
	if err != nil {
		c.mu.Lock()
		c.perms = nil
		c.mu.Unlock()
		c.Joined(grp, "fail")
		return err
	}
	c.mu.Lock()
	c.g = g
	c.mu.Unlock()
	c.cur = grp
	c.u = u
	return nil
}

// leave is leaveGroup.
func (c *conn) leave() {
	if c.cur == "" {
		return
	}
	group.DelClient(c)
	c.mu.Lock()
	c.g = nil
	c.perms = nil
	c.mu.Unlock()
	c.cur = ""
}

// ---------------------------------------------------------------- history

type hist struct {
	t      *tr.Trace
	r      *tr.Rand
	dir    string
	groups []string
	conns  []*conn
	stuck  bool
}

var histCounter atomic.Int64

func newHist(t *tr.Trace, r *tr.Rand, stream string, ngroups int) *hist {
	dir, err := os.MkdirTemp("", "joinrace")
	if err != nil {
		panic(err)
	}
	group.Directory = dir
	group.DataDirectory = dir
	h := &hist{t: t, r: r, dir: dir}
	n := histCounter.Add(1)
	for i := 0; i < ngroups; i++ {
		g := fmt.Sprintf("jr%d-%d", n, i)
		writeGroup(dir, g)
		h.groups = append(h.groups, g)
	}
	t.History("joinrace", stream)
	return h
}

func (h *hist) conn(id string) *conn {
	c := &conn{id: id, users: map[string]uent{}}
	h.conns = append(h.conns, c)
	return c
}

// wait waits for the goroutines with the watchdog.
func (h *hist) wait(wg *sync.WaitGroup, what string) bool {
	done := make(chan struct{})
	go func() { wg.Wait(); close(done) }()
	select {
	case <-done:
		return true
	case <-time.After(watchdog):
		h.stuck = true
		h.t.Fail("C14", "joinrace_completes", what+": the joins and departures did not all return within the watchdog time")
		return false
	}
}

func holdAll() func() {
	n := group.VerifHashSlots()
	for i := 0; i < n; i++ {
		group.VerifHashAcquire()
	}
	return func() {
		for i := 0; i < n; i++ {
			group.VerifHashRelease()
		}
	}
}

func keys(m map[string]uent) []string {
	var out []string
	for k := range m {
		out = append(out, k)
	}
	sort.Strings(out)
	return out
}

func eqList(a, b []string) bool {
	if len(a) != len(b) {
		return false
	}
	for i := range a {
		if a[i] != b[i] {
			return false
		}
	}
	return true
}

// check: every goroutine is done; serve every queue, then compare.
func (h *hist) check() {
	t := h.t
	t.Checked("C14.joinrace_completes")
	if h.stuck {
		return
	}
	for _, c := range h.conns {
		c.serve()
	}
	byID := map[string]*conn{}
	for _, c := range h.conns {
		byID[c.id] = c
	}
	for _, g := range h.groups {
		var mine []string
		for _, c := range h.conns {
			if c.cur == g {
				mine = append(mine, c.id)
			}
		}
		sort.Strings(mine)
		var theirs []string
		if gr := group.Get(g); gr != nil {
			for _, cc := range gr.GetClients(nil) {
				theirs = append(theirs, cc.Id())
			}
		}
		sort.Strings(theirs)
		t.Checked("C14.membership_consistent")
		if !eqList(mine, theirs) {
			t.Fail("C14", "membership_consistent", fmt.Sprintf("group %q: the connections that joined and did not leave are %v, the group table holds %v", g, mine, theirs))
		}
		t.Op(fmt.Sprintf("members=%s", strings.Join(theirs, ",")), "quiescence", g)
		for _, c := range h.conns {
			if c.cur != g {
				continue
			}
			t.Checked("C14.convergence")
			if got := keys(c.users); !eqList(got, theirs) {
				t.Fail("C14", "convergence", fmt.Sprintf("connection %s (user %s) in %q: its user list holds %v, the group holds %v", c.id, c.u.name, g, got, theirs))
			}
			for _, id := range theirs {
				x := byID[id]
				e, ok := c.users[id]
				if x == nil {
					continue
				}
				// C14.join_symmetry: two members have been told about each other
				t.Checked("C14.join_symmetry")
				if !ok {
					_, back := x.users[c.id]
					t.Fail("C14", "join_symmetry", fmt.Sprintf("%s (user %s) and %s (user %s) are both members of %q, but %s has never been told about %s (and %s about %s: %v)",
						c.id, c.u.name, id, x.u.name, g, c.id, id, id, c.id, back))
					continue
				}
				if e.user != x.Username() || !eqList(e.perms, x.Permissions()) {
					t.Fail("C14", "convergence", fmt.Sprintf("connection %s in %q: its entry for %s is %q %v, the member is %q %v",
						c.id, g, id, e.user, e.perms, x.Username(), x.Permissions()))
				}
				if !eqList(x.Permissions(), rolePerms[x.u.perms]) {
					t.Fail("C14", "convergence", fmt.Sprintf("member %s (user %s) of %q holds %v, its description says %v", id, x.u.name, g, x.Permissions(), rolePerms[x.u.perms]))
				}
			}
		}
	}
	for _, c := range h.conns {
		if c.cur == "" {
			t.Checked("C14.convergence")
			if len(c.users) != 0 {
				t.Fail("C14", "convergence", fmt.Sprintf("connection %s is in no group but its user list still holds %v", c.id, keys(c.users)))
			}
		}
	}
}

func (h *hist) close() {
	if !h.stuck {
		for _, c := range h.conns {
			c.leave()
		}
		for _, g := range h.groups {
			group.Delete(g)
		}
	}
	os.RemoveAll(h.dir)
}

func udefOf(name string) udef {
	for _, u := range udefs {
		if u.name == name {
			return u
		}
	}
	panic(name)
}

func spin(d time.Duration) {
	end := time.Now().Add(d)
	for time.Now().Before(end) {
		runtime.Gosched()
	}
}

// ---------------------------------------------------------------- window

// window: a join whose credential check is made to last, and what happens to
// the group meanwhile.
func window(t *tr.Trace, r *tr.Rand, idx int) {
	h := newHist(t, r, "window", 1)
	defer h.close()
	g := h.groups[0]
	carol, dave, alice, bob, eve := h.conn("c-carol"), h.conn("c-dave"), h.conn("c-alice"), h.conn("c-bob"), h.conn("c-eve")
	if err := carol.join(g, udefOf("carol")); err != nil {
		panic(err)
	}
	if err := dave.join(g, udefOf("dave")); err != nil {
		panic(err)
	}
	variant := idx % 6
	bobJoins := variant == 0 || variant == 2 || variant == 4 || variant == 5
	daveLeaves := variant == 1 || variant == 2 || variant == 5
	eveJoins := variant == 3 || variant == 4 || variant == 5
	d1 := time.Duration(r.Range(100, 1500)) * time.Microsecond
	d2 := time.Duration(r.Range(500, 4000)) * time.Microsecond
	t.Op("-", "window", fmt.Sprintf("bob=%v dave-leaves=%v eve=%v", bobJoins, daveLeaves, eveJoins))

	release := holdAll()
	var wg sync.WaitGroup
	var aliceDone atomic.Bool
	overlapped := false
	wg.Add(1)
	go func() {
		defer wg.Done()
		alice.join(g, udefOf("alice"))
		aliceDone.Store(true)
	}()
	spin(d1) // alice reaches the credential check
	var wg2 sync.WaitGroup
	var others atomic.Int32
	if bobJoins {
		wg.Add(1)
		wg2.Add(1)
		go func() {
			defer wg.Done()
			defer wg2.Done()
			bob.join(g, udefOf("bob"))
			if !aliceDone.Load() {
				others.Add(1)
			}
		}()
	}
	if daveLeaves {
		wg.Add(1)
		wg2.Add(1)
		go func() {
			defer wg.Done()
			defer wg2.Done()
			dave.leave()
			if !aliceDone.Load() {
				others.Add(1)
			}
		}()
	}
	if eveJoins {
		wg.Add(1)
		go func() {
			defer wg.Done()
			eve.join(g, udefOf("eve"))
		}()
	}
	// give the others a chance to get in (they cannot while the group is
	// locked; then this simply times out)
	done2 := make(chan struct{})
	go func() { wg2.Wait(); close(done2) }()
	select {
	case <-done2:
	case <-time.After(d2):
	}
	if others.Load() > 0 {
		overlapped = true
	}
	release()
	if h.wait(&wg, "window") && overlapped {
		t.Note("other-returned-before-the-hashed-join")
	}
	h.check()
	t.Nontrivial(fmt.Sprintf("window/%d", idx))
}

// ---------------------------------------------------------------- churn

func churn(t *tr.Trace, r *tr.Rand, idx int) {
	ngroups := 1 + r.Intn(2)
	h := newHist(t, r, "churn", ngroups)
	defer h.close()
	n := r.Range(3, 7)
	t.Op("-", "churn", n, ngroups)
	var wg sync.WaitGroup
	var stop atomic.Bool
	// the holder: bursts of logins elsewhere take every hashing slot
	holderDone := make(chan struct{})
	bursts := r.Range(1, 4)
	burstLen := make([]time.Duration, bursts)
	gapLen := make([]time.Duration, bursts)
	for i := range burstLen {
		burstLen[i] = time.Duration(r.Range(100, 1200)) * time.Microsecond
		gapLen[i] = time.Duration(r.Range(50, 800)) * time.Microsecond
	}
	go func() {
		defer close(holderDone)
		for i := 0; i < bursts && !stop.Load(); i++ {
			spin(gapLen[i])
			release := holdAll()
			spin(burstLen[i])
			release()
		}
	}()
	joins := make([]atomic.Int32, 1)
	for i := 0; i < n; i++ {
		c := h.conn(fmt.Sprintf("k%d", i))
		// the steps of this connection, drawn now (the PRNG is not shared)
		type step struct {
			op int
			g  string
			u  udef
		}
		var steps []step
		for k, m := 0, r.Range(8, 30); k < m; k++ {
			steps = append(steps, step{op: r.Pick(5, 3, 3), g: h.groups[r.Intn(ngroups)], u: udefs[r.Intn(len(udefs))]})
		}
		wg.Add(1)
		go func() {
			defer wg.Done()
			for _, s := range steps {
				switch s.op {
				case 0:
					if c.cur == "" {
						if c.join(s.g, s.u) == nil {
							joins[0].Add(1)
						}
					} else {
						c.leave()
					}
				case 1:
					c.leave()
				case 2:
					c.serve()
				}
				runtime.Gosched()
			}
		}()
	}
	ok := h.wait(&wg, "churn")
	stop.Store(true)
	if ok {
		select {
		case <-holderDone:
		case <-time.After(watchdog):
		}
	}
	h.check()
	if joins[0].Load() >= 2 {
		t.Nontrivial(fmt.Sprintf("churn/%d/%d", idx, n))
	}
}

func runJoinrace(t *tr.Trace, r *tr.Rand, n int) {
	log.SetOutput(io.Discard)
	r = tr.NewRand(r.U64())
	for i := 0; i < n; i++ {
		window(t, r, i)
		if i%2 == 0 {
			churn(t, r, i)
		}
	}
}

func main() { tr.Main(runJoinrace) }

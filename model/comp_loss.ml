(* C06: loss accounting and NACK generation.  Components
     loss <capacity>   store / bitmapget / readloop / expect / getstats / nackwriter
                       on one cache (Model.Loss.lstep, Model.Loss.nack_writer)
     lossfn            pure: tobitmap (sendNACKs iteration), rrstats (sendUpRTCP) *)
open Util
open Registry

let pairs_s ps =
  if ps = [] then "-"
  else String.concat "," (List.map (fun (f, bm) -> zs f ^ ":" ^ zs bm) ps)

let comp_loss : Registry.comp = fun params ->
  let st = ref (Cache.new_cache (z (List.nth params 0))) in
  fun toks ->
    let open Loss in
    match toks with
    | ["nackwriter"; l] -> pairs_s (nack_writer !st (zlist l))
    | _ ->
    let op = match toks with
      | ["store"; s; kf] -> LStore (z s, b kf)
      | ["bitmapget"; n] -> LBitmapGet (z n)
      | ["readloop"; s; kf; rate; ok] -> LRead (z s, b kf, z rate, b ok)
      | ["expect"; n] -> LExpect (z n)
      | ["getstats"; r] -> LGetStats (b r)
      | _ -> failwith ("loss: bad op " ^ String.concat " " toks) in
    let (st', out) = lstep !st op in
    st := st';
    match out with
    | LOStore f -> zs f
    | LOBitmap (fd, f, bm) -> bs fd ^ " " ^ zs f ^ " " ^ zs bm
    | LONack None -> "-"
    | LONack (Some (f, bm)) -> zs f ^ ":" ^ zs bm
    | LOUnit -> "-"
    | LOStats s -> let open Cache in
       String.concat " " [zs s.s_received; zs s.s_totalReceived;
                          zs s.s_expected; zs s.s_totalExpected; zs s.s_eseqno]

let comp_lossfn : Registry.comp = fun _ ->
  fun toks ->
    match toks with
    | ["tobitmap"; l] -> pairs_s (Loss.nack_list_to_pairs (zlist l))
    | ["rrstats"; r; tr; e; te; es] ->
       let s = { Cache.s_received = z r; Cache.s_totalReceived = z tr;
                 Cache.s_expected = z e; Cache.s_totalExpected = z te;
                 Cache.s_eseqno = z es } in
       let ((fl, tl), es') = Loss.rr_stats s in
       zs fl ^ " " ^ zs tl ^ " " ^ zs es'
    | _ -> failwith "lossfn: bad op"

let init () = register "loss" comp_loss; register "lossfn" comp_lossfn

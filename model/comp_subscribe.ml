open Util
open Registry

(* C07: Model/Subscribe.v.

   component "reqtracks" (layer 1, the pure selection):
     rt <request> <kinds>      => <indices>/<limitSid>
       request: n (nil slice) | - (empty) | a+v+l+j ; kinds: - | o,a,v,...

   component "subscribe" (layer 2), parameters: <number of clients>
     join c g user pres op | leave c g | request c <map> | reqstream c id <request>
     offer c id label replace g|m|b | close c id | abort c id | answer c id ok
     kick c dest | perm c dest give | disc c            => ok | err | dead
     pump c      (one batch: as many actions as are queued now)   => ok | err | dead
     timer u     (the first pending delayed push of up object u)  => 1 | 0 | none
     track u <kinds>   (OnTrack, once per kind)                   => <number of tracks>
     obs         => state and offer/close/abort/answer messages since the last obs (sorted;
                    the error usermessages are not part of the property); obsx: without `close`
       map: - | label:request;label:request *)

let n = nat_of_int
let rec int_of_nat = function Datatypes.O -> 0 | Datatypes.S m -> 1 + int_of_nat m
let ni s = n (int_of_string s)
let si x = string_of_int (int_of_nat x)

let rk_of = function
  | "a" -> Subscribe.RAudio | "v" -> Subscribe.RVideo | "l" -> Subscribe.RVideoLow
  | "j" -> Subscribe.RJunk | s -> failwith ("bad request kind " ^ s)
let rk_s = function
  | Subscribe.RAudio -> "a" | Subscribe.RVideo -> "v" | Subscribe.RVideoLow -> "l" | Subscribe.RJunk -> "j"
let kind_of = function
  | "o" -> Subscribe.KOther | "a" -> Subscribe.KAudio | "v" -> Subscribe.KVideo
  | s -> failwith ("bad kind " ^ s)
let kinds_of s = if s = "-" then [] else List.map kind_of (String.split_on_char ',' s)
(* a request value: None = nil slice *)
let req_of s : Subscribe.rk list option =
  if s = "n" then None else if s = "-" then Some []
  else Some (List.map rk_of (String.split_on_char '+' s))
let req_s = function
  | None -> "n" | Some [] -> "-" | Some l -> String.concat "+" (List.map rk_s l)
let reqmap_of s =
  if s = "-" then [] else
  List.map (fun e -> match String.split_on_char ':' e with
    | [l; r] -> (ni l, (match req_of r with None -> [] | Some x -> x))
    | _ -> failwith ("bad request map " ^ s)) (String.split_on_char ';' s)

let comp_reqtracks : Registry.comp = fun _ ->
  fun toks -> match toks with
  | ["rt"; r; ks] ->
     let req = match req_of r with None -> [] | Some x -> x in
     let (sel, lim) = Subscribe.requested_tracks req (kinds_of ks) in
     (if sel = [] then "-" else String.concat "," (List.map si sel)) ^ "/" ^ bs lim
  | _ -> failwith ("reqtracks: bad op " ^ String.concat " " toks)

let outmsg_s = function
  | Subscribe.OOffer (id, label, replace, source, user) ->
     Printf.sprintf "offer/%s/%s/%s/%s/%s" (si id) (si label) (si replace) (si source) (si user)
  | Subscribe.OClose id -> "close/" ^ si id
  | Subscribe.OAbort id -> "abort/" ^ si id
  | Subscribe.OAnswer id -> "answer/" ^ si id
  | Subscribe.OError -> "err"

let is_close = function Subscribe.OClose _ -> true | _ -> false
let is_err = function Subscribe.OError -> true | _ -> false

let down_s (w : Subscribe.world) (d : Subscribe.down) =
  let r = w.Subscribe.w_up d.Subscribe.d_remote in
  let tr = List.sort compare (List.map (fun (u, i) ->
    if int_of_nat u = int_of_nat d.Subscribe.d_remote then si i else "x") d.Subscribe.d_tracks) in
  Printf.sprintf "%s/%s/%s/%s/%s/%s/%s%s" (si d.Subscribe.d_id) (si r.Subscribe.uo_owner)
    (si r.Subscribe.uo_id)
    (if tr = [] then "-" else String.concat "+" tr)
    (if tr <> [] && d.Subscribe.d_limit then "L" else "-")
    (req_s d.Subscribe.d_req)
    (bs d.Subscribe.d_havelocal)
    (if d.Subscribe.d_neg then "N" else "")

let obs (w : Subscribe.world) (with_close : bool) =
  let nn = int_of_nat w.Subscribe.w_n in
  let one h =
    let c = w.Subscribe.w_cl (n h) in
    let g = match c.Subscribe.c_group with None -> "-" | Some g -> si g in
    let ups = List.sort compare (List.map (fun (id, _) -> int_of_nat id) c.Subscribe.c_up) in
    let downs = List.sort compare (List.map (down_s w) c.Subscribe.c_down) in
    let outs = List.filter (fun m -> not (is_err m) && (with_close || not (is_close m))) c.Subscribe.c_out in
    let outs = List.sort compare (List.map outmsg_s outs) in
    Printf.sprintf "%d:g=%s:p=%s:dead=%s:up=%s:down=%s:out=%s" h g
      (bs c.Subscribe.c_present) (bs c.Subscribe.c_dead)
      (if ups = [] then "-" else String.concat "," (List.map string_of_int ups))
      (if downs = [] then "-" else String.concat ";" downs)
      (if outs = [] then "-" else String.concat "," outs) in
  String.concat " " (List.init nn one)

let comp_subscribe : Registry.comp = fun params ->
  let st = ref (Subscribe.init (ni (List.nth params 0))) in
  let status c =
    if (!st.Subscribe.w_cl (ni c)).Subscribe.c_dead then "err" else "ok" in
  let msg c m =
    if (!st.Subscribe.w_cl (ni c)).Subscribe.c_dead then "dead"
    else begin st := Subscribe.step !st (Subscribe.OpMsg (ni c, m)); status c end in
  fun toks ->
    let open Subscribe in
    match toks with
    | ["join"; c; g; u; p; o] -> msg c (MJoin (ni g, ni u, b p, b o))
    | ["leave"; c; g] -> msg c (MLeave (ni g))
    | ["request"; c; m] -> msg c (MRequest (reqmap_of m))
    | ["reqstream"; c; id; r] -> msg c (MRequestStream (ni id, req_of r))
    | ["offer"; c; id; l; r; s] ->
       let s = match s with "g" -> SGood | "m" -> SMin | "b" -> SBad | _ -> failwith "sdp" in
       let before = int_of_nat !st.w_nup in
       let res = msg c (MOffer (ni id, ni l, ni r, s)) in
       res ^ " new=" ^ (if int_of_nat !st.w_nup > before then string_of_int before else "-")
    | ["close"; c; id] -> msg c (MClose (ni id))
    | ["abort"; c; id] -> msg c (MAbort (ni id))
    | ["answer"; c; id; ok] -> msg c (MAnswer (ni id, b ok))
    | ["kick"; c; d] -> msg c (MKick (ni d))
    | ["perm"; c; d; give] -> msg c (MPerm (ni d, b give))
    | ["disc"; c] ->
       if (!st.w_cl (ni c)).c_dead then "dead"
       else begin st := step !st (OpDisconnect (ni c)); "ok" end
    | ["pump"; c] ->
       if (!st.w_cl (ni c)).c_dead then "dead" else begin
         let k = int_of_nat (queue_len !st (ni c)) in
         for _ = 1 to k do st := step !st (OpPump (ni c)) done;
         status c end
    | ["timer"; u] ->
       (match timer_index (ni u) !st.w_timers O with
        | None -> "none"
        | Some i ->
           let pushed = (!st.w_up (ni u)).uo_pushed in
           st := step !st (OpTimer i);
           bs (not pushed))
    | ["track"; u; ks] ->
       List.iter (fun k -> st := step !st (OpTrack (ni u, k))) (kinds_of ks);
       string_of_int (List.length (!st.w_up (ni u)).uo_tracks)
    | ["obs"] -> let s = obs !st true in st := clear_out !st; s
    | ["obsx"] -> let s = obs !st false in st := clear_out !st; s
    | ["quiescent"] -> bs (quiescentb !st)
    | _ -> failwith ("subscribe: bad op " ^ String.concat " " toks)

let init () =
  register "reqtracks" comp_reqtracks;
  register "subscribe" comp_subscribe

open Util
open Registry

(* component "unbounded": whole Put / non-blocking receive on Ch / Get called
   from one goroutine on a real unbounded.Channel[int]; the model runs the
   same steps (seq_put = LPutLock;LPutSend, seq_recv = LRecv if enabled,
   seq_get = LGet or LGetDirect).
     put <producer> <value> => <token in Ch afterwards>
     recv                   => <1 if a token was received>
     get                    => <items> *)
let comp_unbounded : Registry.comp = fun _params ->
  let st = ref Unbounded.init in
  fun toks ->
    match toks with
    | ["put"; p; v] ->
       let (s, tok) = Unbounded.seq_put !st (z p) (z v) in
       st := s; bs tok
    | ["recv"] ->
       let (s, ok) = Unbounded.seq_recv !st in
       st := s; bs ok
    | ["get"] ->
       let (s, items) = Unbounded.seq_get !st in
       st := s; zlist_s items
    | _ -> failwith ("unbounded: bad op " ^ String.concat " " toks)

let init () = register "unbounded" comp_unbounded

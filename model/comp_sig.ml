(* Glue for the `sig` component: the signalling model (Model/Signal.v).
   Trace protocol (see harness/cmd/sig/sig.go):

     mkgroup <name> <redirect|-> <allowrec> <maxclients> <user>...   => -
         user = name:pw:wild:perm+perm   (name * = the wildcard-user, pw - = empty)
     client <h> <id>                                                  => -
     msg <h> <type> <kind|-> k=v ...   => <auth> <errclass> g=.. u=.. p=..
     pump <h>                          => <errclass> g=.. u=.. p=..
     disc <h>                          => -
     quiesce                           => -
     drain <h>                         => projected outbox, sorted
     state <g>                         => locked=.. members=.. rec=.. tokens=..
     ups <h>                           => up ids
*)
open Util
open Registry

let rec cs_from (s : string) (i : int) : String0.string =
  if i >= String.length s then String0.EmptyString
  else
    let c = Char.code s.[i] in
    let b k = (c lsr k) land 1 = 1 in
    String0.String (Ascii.Ascii (b 0, b 1, b 2, b 3, b 4, b 5, b 6, b 7), cs_from s (i + 1))
let cs s = cs_from s 0
let sc (s : String0.string) : string =
  let buf = Buffer.create 16 in
  let rec go = function
    | String0.EmptyString -> ()
    | String0.String (Ascii.Ascii (b0, b1, b2, b3, b4, b5, b6, b7), r) ->
       let v x k = if x then 1 lsl k else 0 in
       Buffer.add_char buf (Char.chr (v b0 0 + v b1 1 + v b2 2 + v b3 3 + v b4 4 + v b5 5 + v b6 6 + v b7 7));
       go r in
  go s; Buffer.contents buf

let rec int_of_nat = function Datatypes.O -> 0 | Datatypes.S n -> 1 + int_of_nat n
let nat s = nat_of_int (int_of_string s)

let dash s = if s = "-" then "" else s
let undash s = if s = "" then "-" else s
let split c s = if s = "" then [] else String.split_on_char c s
let plus_list s = if s = "-" || s = "" then [] else String.split_on_char '+' s
let opt s = if s = "~" then None else Some (cs (dash s))
let zopt s = if s = "~" then None else Some (z s)

let parse_user tok =
  match String.split_on_char ':' tok with
  | [name; pw; wild; perms] ->
     { Signal.u_name = cs name; u_pw = cs (dash pw); u_wild = (wild = "1");
       u_perms = List.map cs (plus_list perms) }
  | _ -> failwith ("sig: bad user " ^ tok)

let kv tok =
  match String.index_opt tok '=' with
  | Some i -> (String.sub tok 0 i, String.sub tok (i + 1) (String.length tok - i - 1))
  | None -> failwith ("sig: bad key=value " ^ tok)

let parse_map body =   (* k=v;k=v, v ~ = null *)
  List.map (fun e ->
      let (k, v) = kv e in
      (cs k, if v = "~" then None else Some (cs (dash v)))) (split ';' body)

let parse_value v =
  if v = "n" then Signal.VNone
  else if v = "o" then Signal.VOther
  else if String.length v >= 2 && v.[1] = ':' then begin
    let body = String.sub v 2 (String.length v - 2) in
    match v.[0] with
    | 's' -> Signal.VStr (cs (dash body))
    | 'm' -> Signal.VMap (parse_map body)
    | 't' ->
       (match String.split_on_char '|' body with
        | [tok; user; grp; perms; exp; nb] ->
           Signal.VTok { Signal.ts_token = cs (dash tok); ts_user = opt user;
                         ts_group = cs (dash grp);
                         ts_perms = (if perms = "~" then None else Some (List.map cs (plus_list perms)));
                         ts_expires = zopt exp; ts_notbefore = zopt nb }
        | _ -> failwith ("sig: bad token spec " ^ body))
    | _ -> failwith ("sig: bad value " ^ v)
  end else failwith ("sig: bad value " ^ v)

let parse_req v =
  if v = "n" then Signal.RNone
  else if v = "b" then Signal.RBad
  else if String.length v >= 2 && v.[1] = ':' then begin
    let body = String.sub v 2 (String.length v - 2) in
    match v.[0] with
    | 'm' -> Signal.RMap (List.map (fun e -> let (k, l) = kv e in (cs (dash k), List.map cs (plus_list l)))
                            (split ';' body))
    | 'l' -> Signal.RList (List.map cs (plus_list body))
    | _ -> failwith ("sig: bad request " ^ v)
  end else failwith ("sig: bad request " ^ v)

let parse_msg typ kind args =
  let m = ref { Signal.m_type = cs typ; m_kind = cs (dash kind); m_id = cs ""; m_replace = cs "";
                m_source = cs ""; m_dest = cs ""; m_username = None; m_password = cs "";
                m_token = cs ""; m_group = cs ""; m_value = Signal.VNone; m_noecho = false;
                m_sdp = Signal.SdpBad; m_label = cs ""; m_request = Signal.RNone;
                m_candidate = false; m_data = [] } in
  List.iter (fun a ->
      let (k, v) = kv a in
      let r = !m in
      m := (match k with
            | "id" -> { r with Signal.m_id = cs v }
            | "replace" -> { r with Signal.m_replace = cs v }
            | "source" -> { r with Signal.m_source = cs v }
            | "dest" -> { r with Signal.m_dest = cs v }
            | "user" -> { r with Signal.m_username = Some (cs v) }
            | "pw" -> { r with Signal.m_password = cs v }
            | "token" -> { r with Signal.m_token = cs v }
            | "group" -> { r with Signal.m_group = cs v }
            | "value" -> { r with Signal.m_value = parse_value v }
            | "noecho" -> { r with Signal.m_noecho = (v = "1") }
            | "sdp" -> { r with Signal.m_sdp = (match v with
                                                | "good" -> Signal.SdpGood
                                                | "min" -> Signal.SdpRefused
                                                | _ -> Signal.SdpBad) }
            | "label" -> { r with Signal.m_label = cs v }
            | "req" -> { r with Signal.m_request = parse_req v }
            | "cand" -> { r with Signal.m_candidate = (v = "1") }
            | "data" -> { r with Signal.m_data =
                                   List.map (fun e -> let (k, v) = kv e in (cs k, cs v)) (split ';' v) }
            | _ -> failwith ("sig: unknown key " ^ k))) args;
  !m

let errclass = function
  | Signal.ENone -> "ok"
  | Signal.EProto _ -> "protocol"
  | Signal.EUser _ -> "user"
  | Signal.EKick _ -> "kick"
  | Signal.EInternal -> "internal"
  | Signal.EWsClose -> "wsclose"

let authclass = function
  | Signal.Passed -> "passed"
  | Signal.NotAuth -> "notauth"
  | Signal.JoinFirst -> "joinfirst"
  | Signal.Invalid -> "invalid"

let sani s =
  if s = "" then "-" else
    String.map (fun c -> if c = ' ' || c = '\t' || c = '\n' || c = '\r' then '_'
                         else if Char.code c < 0x20 || Char.code c > 0x7e then '?' else c) s

let perms_s l = if l = [] then "-" else String.concat "+" (List.map sc l)

let client_state w h =
  match Signal.get_client w h with
  | None -> "g=- u=- p=-"
  | Some c ->
     Printf.sprintf "g=%s u=%s p=%s"
       (match c.Signal.c_group with Some g -> sani (sc g) | None -> "-")
       (sani (sc c.Signal.c_username)) (perms_s c.Signal.c_perms)

let proj (o : Signal.outmsg) : string option =
  let t = sc o.Signal.o_type in
  if t = "close" || t = "ice" then None
  else
    let perms = if t = "user" then "-" else perms_s o.Signal.o_perms in
    Some (String.concat "|"
            [ t ^ "/" ^ sani (sc o.Signal.o_kind); sani (sc o.Signal.o_id); sani (sc o.Signal.o_source);
              sani (sc o.Signal.o_dest);
              (match o.Signal.o_user with None -> "~" | Some u -> sani (sc u));
              bs o.Signal.o_priv; perms; sani (sc o.Signal.o_group); sani (sc o.Signal.o_error);
              bs o.Signal.o_locked; sani (sc o.Signal.o_value) ])

let comp_sig : Registry.comp = fun _params ->
  let w = ref Signal.empty_world in
  let crashed = ref false in
  let apply op k =
    if !crashed then "CRASHED" else
      match Signal.step !w op with
      | Signal.Crashed -> crashed := true; "PANIC"
      | Signal.Running (w', r) -> w := w'; k r in
  fun toks ->
    match toks with
    | "mkgroup" :: name :: redirect :: allowrec :: maxc :: users ->
       let us = List.map parse_user users in
       let wild = List.filter (fun u -> sc u.Signal.u_name = "*") us in
       let named = List.filter (fun u -> sc u.Signal.u_name <> "*") us in
       let d = { Signal.d_users = named;
                 d_wildcard = (match wild with u :: _ -> Some u | [] -> None);
                 d_redirect = cs (dash redirect); d_allowrec = b allowrec; d_maxclients = z maxc } in
       apply (Signal.OpMkGroup (cs name, d)) (fun _ -> "-")
    | ["client"; _h; id] -> apply (Signal.OpClient (cs (dash id))) (fun _ -> "-")
    | "msg" :: h :: typ :: kind :: args ->
       let m = parse_msg typ kind args in
       apply (Signal.OpMsg (nat h, m)) (fun r ->
           match r with
           | Signal.RAuth (a, e) -> authclass a ^ " " ^ errclass e ^ " " ^ client_state !w (nat h)
           | Signal.RDead -> "dead"
           | _ -> "?")
    | ["pump"; h] ->
       apply (Signal.OpPump (nat h)) (fun r ->
           match r with
           | Signal.RPumped e -> errclass e ^ " " ^ client_state !w (nat h)
           | Signal.RDead -> "dead"
           | _ -> "?")
    | ["disc"; h] -> apply (Signal.OpDisconnect (nat h)) (fun _ -> "-")
    | ["quiesce"] -> apply Signal.OpQuiesce (fun _ -> "-")
    | ["drain"; h] ->
       apply (Signal.OpDrain (nat h)) (fun r ->
           match r with
           | Signal.ROut l ->
              let ps = List.sort compare (List.filter_map proj l) in
              if ps = [] then "-" else String.concat " " ps
           | _ -> "?")
    | ["state"; g] ->
       if !crashed then "CRASHED" else
       (match Signal.find_group !w (cs g) with
        | None -> "nogroup"
        | Some gr ->
           let ms = List.sort compare (List.map int_of_nat gr.Signal.g_members) in
           let toks = List.filter (fun t -> sc t.Signal.t_group = g) (!w).Signal.w_tokens in
           Printf.sprintf "locked=%s members=%s rec=%s tokens=%s"
             (bs (gr.Signal.g_locked <> None))
             (if ms = [] then "-" else String.concat "," (List.map string_of_int ms))
             (bs gr.Signal.g_recording)
             (if toks = [] then "-" else
                String.concat "," (List.map (fun t ->
                    sc t.Signal.t_name ^ ":" ^ perms_s t.Signal.t_perms ^ ":" ^
                      (match t.Signal.t_user with None -> "~" | Some u -> sani (sc u)) ^ ":" ^
                        (match t.Signal.t_expires with
                         | Some e -> if int_of_z e > 0 then "valid" else "expired"
                         | None -> "noexp")) toks)))
    | ["ups"; h] ->
       if !crashed then "CRASHED" else
       (match Signal.get_client !w (nat h) with
        | None -> "-"
        | Some c ->
           let ids = List.sort compare (List.map (fun u -> sc u.Signal.up_id) c.Signal.c_up) in
           if ids = [] then "-" else String.concat "," ids)
    | _ -> failwith ("sig: bad op " ^ String.concat " " toks)

let init () = register "sig" comp_sig

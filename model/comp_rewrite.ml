open Util
open Registry
let comp_rewrite : comp = fun _ ->
  fun toks ->
    match toks with
    | ["rewrite"; vp8; data; sm; seq; delta] ->
       (match Rewrite.rewrite (b vp8) (bytes_of_hex data) (b sm) (z seq) (z delta) with
        | Rewrite.ROk d -> hex_of_bytes d
        | Rewrite.RErr -> "err"
        | Rewrite.RPanic -> "PANIC")
    | _ -> failwith "rewrite: bad op"
let init () = register "rewrite" comp_rewrite

(* model <trace>: re-runs every history of the trace through the extracted
   Coq model and prints, for each op line, the same line with the model's
   observable after "=>". *)
open Util


let split_obs line =
  (* "op args => obs" *)
  let n = String.length line in
  let rec find i = if i + 4 > n then None
    else if String.sub line i 4 = " => " then Some i else find (i+1) in
  match find 0 with
  | Some i -> String.sub line 0 i
  | None -> if n >= 3 && String.sub line (n-3) 3 = " =>" then String.sub line 0 (n-3) else line

let () =
  All_components.init ();
  let ic = open_in Sys.argv.(1) in
  let oc = stdout in
  let cur : (string list -> string) ref = ref (fun _ -> failwith "no history") in
  (try
    while true do
      let line = input_line ic in
      if String.length line >= 2 && String.sub line 0 2 = "H " then begin
        (match String.split_on_char ' ' line with
         | "H" :: comp :: _id :: _stream :: params ->
            (match Registry.find comp with
             | Some c -> cur := c params
             | None -> failwith ("unknown component " ^ comp))
         | _ -> failwith "bad H line");
        output_string oc line; output_char oc '\n'
      end else begin
        let opstr = split_obs line in
        let toks = List.filter (fun s -> s <> "") (String.split_on_char ' ' opstr) in
        let obs = try !cur toks with Failure m -> "MODEL-ERROR " ^ m in
        output_string oc opstr; output_string oc " => "; output_string oc obs;
        output_char oc '\n'
      end
    done
  with End_of_file -> ());
  close_in ic

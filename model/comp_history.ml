open Util
open Registry

(* C15, history part: the chat history of a group (Model/History.v).
   Times are nanoseconds relative to the driver's T0 and may exceed the range
   of an OCaml int (entries older than 292 years), so they are converted from
   and to decimal strings digit by digit. *)

let z_of_dec (s : string) : BinNums.coq_Z =
  let neg = String.length s > 0 && s.[0] = '-' in
  let s = if neg then String.sub s 1 (String.length s - 1) else s in
  if s = "" then failwith "history: empty number";
  let d = Array.init (String.length s) (fun i ->
    let c = Char.code s.[i] - 48 in
    if c < 0 || c > 9 then failwith ("history: bad number " ^ s) else c) in
  let is_zero () = Array.for_all (fun x -> x = 0) d in
  let div2 () =
    let rem = ref 0 in
    Array.iteri (fun i x -> let v = !rem * 10 + x in d.(i) <- v / 2; rem := v mod 2) d;
    !rem in
  let bits = ref [] in                       (* most significant first *)
  while not (is_zero ()) do bits := div2 () :: !bits done;
  let p = List.fold_left (fun acc bit ->
    match acc with
    | None -> if bit = 1 then Some BinNums.Coq_xH else None
    | Some p -> Some (if bit = 1 then BinNums.Coq_xI p else BinNums.Coq_xO p)) None !bits in
  match p with
  | None -> BinNums.Z0
  | Some p -> if neg then BinNums.Zneg p else BinNums.Zpos p

let dec_of_pos (p : BinNums.positive) : string =
  let rec bits p acc = match p with        (* most significant first *)
    | BinNums.Coq_xH -> 1 :: acc
    | BinNums.Coq_xO q -> bits q (0 :: acc)
    | BinNums.Coq_xI q -> bits q (1 :: acc) in
  let d = ref [0] in                         (* least significant digit first *)
  List.iter (fun bit ->
    let carry = ref bit in
    d := List.map (fun x -> let v = 2 * x + !carry in carry := v / 10; v mod 10) !d;
    if !carry > 0 then d := !d @ [!carry]) (bits p []);
  String.concat "" (List.rev_map string_of_int !d)

let dec_of_z = function
  | BinNums.Z0 -> "0"
  | BinNums.Zpos p -> dec_of_pos p
  | BinNums.Zneg p -> "-" ^ dec_of_pos p

let project (h : History.entry list) : string =
  if h = [] then "-" else
  String.concat "," (List.map (fun (e : History.entry) ->
    hex_of_bytes e.History.e_id ^ "/" ^ hex_of_bytes e.History.e_source ^ "/" ^
    hex_of_bytes e.History.e_value) h)

let len l = string_of_int (List.length l)

let comp_history : Registry.comp = fun params ->
  let st = ref (History.init (z_of_dec (List.nth params 0))) in
  fun toks ->
    let open History in
    let op = match toks with
      | ["add"; id; src; user; time; kind; value] ->
         let u = if user = "~" then None else Some (bytes_of_hex user) in
         OAdd { e_id = bytes_of_hex id; e_source = bytes_of_hex src; e_user = u;
                e_time = z_of_dec time; e_kind = bytes_of_hex kind;
                e_value = bytes_of_hex value }
      | ["get"; now] -> OGet (z_of_dec now)
      | ["raw"] -> ORaw
      | ["clear"; id; uid] -> OClear (bytes_of_hex id, bytes_of_hex uid)
      | ["setage"; n] -> OSetAge (z_of_dec n)
      | _ -> failwith ("history: bad op " ^ String.concat " " toks) in
    let (st', out) = step !st op in
    st := st';
    match op, out with
    | _, RPanic -> "PANIC"
    | OSetAge n, _ -> dec_of_z (max_history_age n)
    | (OAdd _ | OClear _), _ -> len st'.st_hist
    | _, RHist h -> project h
    | _, RMsgs _ -> "msgs"
    | _, RUnit -> "-"

let init () = register "history" comp_history

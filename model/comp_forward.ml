(* glue for Model/Forward.v *)
open Util
open Registry

(* decimal strings to Z beyond the OCaml int range (uint64 values) *)
let z_of_dec (s : string) : BinNums.coq_Z =
  let ten = z_of_int 10 in
  let acc = ref BinNums.Z0 in
  String.iter (fun c -> acc := BinInt.Z.add (BinInt.Z.mul !acc ten) (z_of_int (Char.code c - 48))) s;
  !acc
let rec dec_of_z (x : BinNums.coq_Z) : string =
  match x with
  | BinNums.Z0 -> "0"
  | BinNums.Zneg _ -> "-" ^ dec_of_z (BinInt.Z.opp x)
  | _ ->
     let ten = z_of_int 10 in
     let rec go x acc =
       if x = BinNums.Z0 then acc
       else
         let q = BinInt.Z.div x ten and r = BinInt.Z.modulo x ten in
         go q (string_of_int (int_of_z r) ^ acc) in
     go x ""

(* flags: start end kf pid tid sid tus sus snr marker seqno *)
let flags_of = function
  | [st; en; kf; pid; tid; sid; tus; sus; snr; mk; seq] ->
     { Layers.f_seqno = z seq; f_marker = b mk; f_start = b st; f_end = b en; f_keyframe = b kf;
       f_pid = z pid; f_tid = z tid; f_sid = z sid; f_tidUpSync = b tus; f_sidUpSync = b sus;
       f_sidNonReference = b snr }
  | _ -> failwith "flags"

let wres_s = function
  | Forward.WNone -> "-"
  | Forward.WSent d -> hex_of_bytes d
  | Forward.WErr -> "err"
  | Forward.WPanic -> "PANIC"

let rec take n l = if n = 0 then [] else match l with [] -> [] | x :: t -> x :: take (n-1) t
let rec drop n l = if n = 0 then l else match l with [] -> [] | _ :: t -> drop (n-1) t

let dump_map (m : PacketMap.pmap) =
  let open PacketMap in
  let hd = String.concat " " [ (if m.m_started then "true" else "false"); zs m.m_next; zs m.m_nextPid;
                               zs m.m_delta; zs m.m_pidDelta; zs m.m_lastEntry ] in
  match m.m_entries with
  | None -> hd ^ " nil"
  | Some es ->
     List.fold_left (fun acc e -> acc ^ " " ^ zs e.e_first ^ ":" ^ zs e.e_count ^ ":" ^ zs e.e_delta ^ ":" ^ zs e.e_pidDelta) hd es

(* the flags are computed by the model of PacketFlags from the packet's bytes;
   the flags printed in the trace (what the real PacketFlags returned) are used
   only for packets outside that model (RTP header extension) *)
let model_flags vp8 data trace_flags =
  match Flags.packet_flags (if vp8 then Flags.CVP8 else Flags.CVP9) data with
  | Flags.FOk (f, _) -> f
  | _ -> trace_flags

let comp_forward : comp = fun params ->
  let vp8 = b (List.nth params 0) in
  let st = ref (Forward.f_init (z (List.nth params 1))) in
  fun toks ->
    let open Forward in
    if toks = ["dump"] then dump_map !st.fs_map ^ " | " ^ zs !st.fs_layer else
    match toks with
    | ["shift"; dk; dp] ->
       let (ok, st') = TestSupport.f_shift !st (z dk) (z dp) in st := st'; bs ok
    | _ ->
    let op = match toks with
      | ["rates"; r; lm; remb] -> ORates (z_of_dec r, z_of_dec lm, z_of_dec remb)
      | "cstore" :: s :: ts :: kf :: m :: rest ->
         let fl = flags_of (take 11 rest) in
         (match drop 11 rest with
          | [data] -> let d = bytes_of_hex data in OCStore (z s, z ts, b kf, b m, model_flags vp8 d fl, d)
          | _ -> failwith "cstore")
      | ["cresize"; k] -> OCResize (z k)
      | "write" :: rest ->
         let fl = flags_of (take 11 rest) in
         (match drop 11 rest with
          | [data] -> let d = bytes_of_hex data in OWrite (model_flags vp8 d fl, d)
          | _ -> failwith "write")
      | ["nack"; l] -> ONack (zlist l)
      | ["adjust"] -> OAdjust
      | ["limit"; x] -> OLimit (b x)
      | ["updrate"; r0; loss; actual] -> OUpdRate (z_of_dec r0, z loss, z_of_dec actual)
      | _ -> failwith ("forward: bad op " ^ String.concat " " toks) in
    let (st', out) = step vp8 !st op in
    st := st';
    match out with
    | RNone -> "-"
    | RWrite (r, l, kf) -> wres_s r ^ " " ^ zs l ^ " " ^ bs kf
    | RNack (rs, l) -> (if rs = [] then "-" else String.concat "," (List.map wres_s rs)) ^ " " ^ zs l
    | RLayer l -> zs l
    | RRate r -> dec_of_z r

let init () = register "forward" comp_forward

(* Glue for the `api` component (property C17): builds the environment of
   Model/Api.v from the setup lines of a history, runs every `req` line
   through the extracted [Api.handle] and prints status, body digest and the
   digest of the stored groups.  The hash oracle is the identity on the clear
   text (the driver prints a stored hash as the clear text it was made of). *)
open Util

(* OCaml string <-> extracted Coq string *)
let ascii_of_char (c : char) : Ascii.ascii =
  let n = Char.code c in
  let b i = (n lsr i) land 1 = 1 in
  Ascii.Ascii (b 0, b 1, b 2, b 3, b 4, b 5, b 6, b 7)
let char_of_ascii (a : Ascii.ascii) : char =
  match a with
  | Ascii.Ascii (b0, b1, b2, b3, b4, b5, b6, b7) ->
     let v b i = if b then 1 lsl i else 0 in
     Char.chr (v b0 0 + v b1 1 + v b2 2 + v b3 3 + v b4 4 + v b5 5 + v b6 6 + v b7 7)
let cs (s : string) : String0.string =
  let r = ref String0.EmptyString in
  for i = String.length s - 1 downto 0 do
    r := String0.String (ascii_of_char s.[i], !r)
  done;
  !r
let os (s : String0.string) : string =
  let buf = Buffer.create 16 in
  let rec go = function
    | String0.EmptyString -> ()
    | String0.String (a, r) -> Buffer.add_char buf (char_of_ascii a); go r in
  go s; Buffer.contents buf

(* "-" encodes the empty string *)
let dash s = if s = "-" then "" else s
let undash s = if s = "" then "-" else s
let split c s = String.split_on_char c s
let plus_list s = if s = "-" || s = "" then [] else List.map cs (split '+' s)

let hash_oracle (_t : String0.string) (pw : String0.string) : String0.string = pw

let mkpw t k = { Api.pw_type = cs t; pw_key = k; pw_hash = cs ""; pw_salt = cs ""; pw_iter = BinNums.Z0 }

(* pwspec: none | plain:<pw> | wildcard | bcrypt:<pw> | pbkdf2:<pw> | broken | plainnokey *)
let parse_pw (s : string) : Api.password =
  match split ':' s with
  | ["none"] -> mkpw "" None
  | ["wildcard"] -> mkpw "wildcard" None
  | ["broken"] -> mkpw "weird" None
  | ["plainnokey"] -> mkpw "plain" None
  | [("plain" | "bcrypt" | "pbkdf2") as t; pw] -> mkpw t (Some (cs (dash pw)))
  | _ -> failwith ("api: bad pwspec " ^ s)

let print_pw (p : Api.password) : string =
  let t = os p.Api.pw_type in
  match t, p.Api.pw_key with
  | "", None -> "none"
  | "wildcard", _ -> "wildcard"
  | "plain", None -> "plainnokey"
  | ("plain" | "bcrypt" | "pbkdf2"), Some k -> t ^ ":" ^ undash (os k)
  | _, _ -> "broken"

(* perms: none | role:<name> | list:<a+b> *)
let parse_perms (s : string) : Api.perms =
  match split ':' s with
  | ["none"] -> Api.PNone
  | ["role"; n] -> Api.PNamed (cs n)
  | ["list"; l] -> Api.PList (plus_list l)
  | _ -> failwith ("api: bad perms " ^ s)
let print_perms = function
  | Api.PNone -> "none"
  | Api.PNamed n -> "role:" ^ os n
  | Api.PList l -> "list:" ^ String.concat "+" (List.map os l)

let bool01 s = (s = "1")
let b01 x = if x then "1" else "0"

let print_pub (p : Api.pubdesc) =
  undash (os p.Api.p_comment) ^ "," ^ b01 p.Api.p_auto_subgroups ^ b01 p.Api.p_allow_recording
  ^ b01 p.Api.p_unrestricted_tokens

let print_user (u : Api.user_desc) = print_pw u.Api.u_password ^ "/" ^ print_perms u.Api.u_perms

let print_group (name, (d : Api.description)) =
  let users = List.sort compare
      (List.map (fun (n, u) -> undash (os n) ^ "=" ^ print_user u) d.Api.d_users) in
  let wild = match d.Api.d_wildcard with Some w -> print_user w | None -> "-" in
  let keys = if d.Api.d_keys = [] then "-" else String.concat "+" (List.map os d.Api.d_keys) in
  os name ^ "[" ^ print_pub d.Api.d_pub ^ "|" ^ String.concat "," users ^ "|" ^ wild ^ "|" ^ keys ^ "]"

let print_state (e : Api.env) =
  let gs = List.sort compare (List.map print_group e.Api.e_groups) in
  "W" ^ b01 e.Api.e_writable ^ ";" ^ String.concat ";" gs ^ ";T" ^ string_of_int (List.length e.Api.e_tokens)

let names l =
  let l = List.sort compare (List.map (fun s -> let s = os s in if s = "?new" then "?new" else s) l) in
  "names:" ^ (if l = [] then "-" else String.concat "+" l)

let print_body = function
  | Api.BOEmpty -> "e"
  | Api.BOFixed -> "t"
  | Api.BOStats -> "names:-"
  | Api.BONames l -> names l
  | Api.BOTokNames l -> names l
  | Api.BODesc d ->
     "desc:" ^ print_pub d.Api.d_pub ^ "," ^ b01 (d.Api.d_users <> []) ^ b01 (d.Api.d_wildcard <> None)
     ^ b01 (d.Api.d_keys <> [])
  | Api.BOUser u -> "user:" ^ print_perms u.Api.u_perms ^ "," ^ print_pw u.Api.u_password
  | Api.BOTok _ -> "tok"

(* cred: none | raw | basic,<user>,<pw> | name,<tok> |
   jwt,<key>,<claimsok>,<sub>,<subgroups>,<perms>,<aud>   aud = <hostok><path>;... *)
let parse_cred (s : string) : Api.creds =
  match split ',' s with
  | ["none"] | ["raw"] -> Api.CNone
  | ["basic"; u; p] -> Api.CBasic (cs (dash u), cs (dash p))
  | ["name"; t] -> Api.CBearer (Api.BName (cs t))
  | ["jwt"; k; ok; sub; sg; perms; aud] ->
     let auds = if aud = "-" then [] else
         List.map (fun a -> (a.[0] = '1', cs (String.sub a 1 (String.length a - 1)))) (split ';' aud) in
     Api.CBearer (Api.BJwt { Api.j_key = cs k; j_claims_ok = bool01 ok; j_sub = cs (dash sub);
                             j_subgroups = bool01 sg; j_perms = plus_list perms; j_aud = auds })
  | _ -> failwith ("api: bad cred " ^ s)

let parse_ct = function
  | "j" -> Api.CTJson | "t" -> Api.CTText | "k" -> Api.CTJwk | "o" -> Api.CTOther | "n" -> Api.CTNone
  | s -> failwith ("api: bad ctype " ^ s)

let opt_user s = if s = "~" then None else Some (cs (dash s))

(* body: none | bad,<ct> | desc,<ct>,<comment>,<aru>,<UWK> | user,<ct>,<perms>,<pwspec> |
   pw,<ct>,<pwspec> | text,<ct>,<clear> | keys,<ct>,<valid>,<nil|k1+k2|-> |
   tok,<ct>,<over>,<sub>,<user>,<perms>,<timeok> *)
let parse_body (s : string) : Api.body_in =
  let mk ct p = { Api.bi_ctype = parse_ct ct; bi_payload = p } in
  match split ',' s with
  | ["none"] -> mk "n" Api.PNothing
  | ["bad"; ct] -> mk ct Api.PMalformed
  | ["desc"; ct; c; aru; uwk] ->
     let bit s i = s.[i] <> '0' in   (* '1' = present, '2' = present and empty: both are "not nil" *)
     mk ct (Api.PDesc { Api.db_pub = { Api.p_comment = cs (dash c); p_auto_subgroups = bit aru 0;
                                       p_allow_recording = bit aru 1; p_unrestricted_tokens = bit aru 2 };
                        db_users = bit uwk 0; db_wildcard = bit uwk 1; db_keys = bit uwk 2 })
  | ["user"; ct; perms; pw] ->
     mk ct (Api.PUser { Api.u_password = parse_pw pw; u_perms = parse_perms perms })
  | ["pw"; ct; pw] -> mk ct (Api.PPassword (parse_pw pw))
  | ["text"; ct; t] -> mk ct (Api.PText (cs (dash t)))
  | ["keys"; ct; valid; ks] ->
     mk ct (Api.PKeys ((if ks = "nil" then None else Some (plus_list ks)), bool01 valid))
  | ["tok"; ct; over; sub; user; perms; tok] ->
     mk ct (Api.PToken { Api.tb_over = bool01 over; tb_sub = bool01 sub; tb_user = opt_user user;
                         tb_perms = plus_list perms; tb_time_ok = bool01 tok })
  | _ -> failwith ("api: bad body " ^ s)

let empty_env = { Api.e_conf = []; e_writable = true; e_store_ok = true; e_groups = []; e_tokens = [] }

let upd_group (e : Api.env) (g : string) (f : Api.description -> Api.description) : Api.env =
  let found = ref false in
  let gs = List.map (fun (n, d) -> if os n = g then (found := true; (n, f d)) else (n, d)) e.Api.e_groups in
  if not !found then failwith ("api: no group " ^ g);
  { e with Api.e_groups = gs }

let comp_api : Registry.comp = fun _params ->
  let env = ref empty_env in
  let snap = ref empty_env in
  let last = ref "" in
  let fail_next = ref false in   (* the store step of the next request fails *)
  fun toks ->
    match toks with
    | ["writable"; w] -> env := { !env with Api.e_writable = bool01 w }; "-"
    | ["confuser"; n; pw; perms] ->
       env := { !env with Api.e_conf = !env.Api.e_conf @ [(cs n, { Api.u_password = parse_pw pw; u_perms = parse_perms perms })] }; "-"
    | ["confedit"; n; pw; perms] ->
       (* the administrator edits config.json by hand; the file's stamp changes, the server re-reads it *)
       let u = { Api.u_password = parse_pw pw; u_perms = parse_perms perms } in
       env := { !env with Api.e_conf = List.map (fun (k, v) -> if k = cs n then (k, u) else (k, v)) !env.Api.e_conf }; "-"
    | ["confclear"] ->
       (* config.json is removed: no server administrator, groups not writable *)
       env := { !env with Api.e_conf = []; Api.e_writable = false }; "-"
    | ["group"; n; c; a; r; u] ->
       let d = { Api.d_pub = { Api.p_comment = cs (dash c); p_auto_subgroups = bool01 a;
                               p_allow_recording = bool01 r; p_unrestricted_tokens = bool01 u };
                 d_users = []; d_wildcard = None; d_keys = [] } in
       env := { !env with Api.e_groups = !env.Api.e_groups @ [(cs n, d)] }; "-"
    | ["user"; g; n; pw; perms] ->
       let u = { Api.u_password = parse_pw pw; u_perms = parse_perms perms } in
       env := upd_group !env g (fun d -> { d with Api.d_users = d.Api.d_users @ [(cs (dash n), u)] }); "-"
    | ["wild"; g; pw; perms] ->
       let u = { Api.u_password = parse_pw pw; u_perms = parse_perms perms } in
       env := upd_group !env g (fun d -> { d with Api.d_wildcard = Some u }); "-"
    | ["key"; g; k] ->
       env := upd_group !env g (fun d -> { d with Api.d_keys = d.Api.d_keys @ [cs k] }); "-"
    | ["token"; n; g; sub; user; perms; tok] ->
       let t = { Api.st_name = cs n; st_group = cs (dash g); st_sub = bool01 sub; st_user = opt_user user;
                 st_perms = plus_list perms; st_time_ok = bool01 tok } in
       env := { !env with Api.e_tokens = !env.Api.e_tokens @ [t] }; "-"
    | ["start"] -> snap := !env; last := print_state !env; "-"
    | ["reset"] -> env := !snap; last := print_state !env; "-"
    | ["req"; m; path; cred; body] ->
       let r = { Api.r_method = cs m; r_path = cs path; r_creds = parse_cred cred; r_body = parse_body body } in
       let e_in = if !fail_next then { !env with Api.e_store_ok = false } else !env in
       fail_next := false;
       let (e', resp) = Api.handle hash_oracle e_in r in
       let e' = { e' with Api.e_store_ok = true } in
       env := e';
       let st = print_state e' in
       let sts = if st = !last then "=" else st in
       last := st;
       zs resp.Api.rs_status ^ " " ^ print_body resp.Api.rs_body ^ " " ^ sts
    | "http" :: _ -> "-"   (* C12 lines: outside the model *)
    | "fault" :: _ -> fail_next := true; "-"   (* a write fault is armed for the next request *)
    | "faulthttp" :: _ -> "-"
    | "lockstep" :: _ | "par" :: _ | "load" :: _ -> "-"   (* scheduling lines: outside the model *)
    | _ -> failwith ("api: bad op " ^ String.concat " " toks)

let init () = Registry.register "api" comp_api

open Util
open Registry

(* C19: stateless string functions; every op carries its arguments as hex
   byte strings ("-" = empty). *)
let hx = hex_of_bytes
let hlist l = if l = [] then "none" else String.concat "," (List.map hx l)

let comp_paths : Registry.comp = fun _params ->
  fun toks ->
    match toks with
    | ["clean"; s] ->
       (match Paths.clean_lazy (bytes_of_hex s) with
        | Paths.Ok r -> hx r
        | Paths.Panic -> "PANIC"
        | Paths.OutOfFuel -> "OUT-OF-FUEL")
    | ["validgroup"; s] -> bs (Paths.valid_group_name (bytes_of_hex s))
    | ["validuser"; s] -> bs (Paths.valid_username (bytes_of_hex s))
    | ["parsegroup"; prefix; p] ->
       hx (Paths.parse_group_name (bytes_of_hex prefix) (bytes_of_hex p))
    | ["splitpath"; p] ->
       let ((a, k), r) = Paths.split_path (bytes_of_hex p) in
       hx a ^ " " ^ hx k ^ " " ^ hx r
    | ["sanitise"; s] -> hx (Paths.sanitise (bytes_of_hex s))
    | ["join"; a; b2] -> hx (Paths.join2 (bytes_of_hex a) (bytes_of_hex b2))
    | ["descfile"; d; name] -> hx (Paths.desc_file (bytes_of_hex d) (bytes_of_hex name))
    | ["descfiles"; d; name; allow] ->
       hlist (Paths.desc_files (bytes_of_hex d) (bytes_of_hex name) (b allow))
    | ["recdir"; d; g] -> hx (Paths.rec_dir (bytes_of_hex d) (bytes_of_hex g))
    | ["recfile"; stamp; user; counter; ext] ->
       hx (Paths.rec_file_name (bytes_of_hex stamp) (bytes_of_hex user) (z counter) (bytes_of_hex ext))
    | ["delete"; g; f] ->
       (match Paths.delete_target (bytes_of_hex g) (bytes_of_hex f) with
        | None -> "refused"
        | Some _ -> "attempted")
    | ["getperm"; tp; po; nd; check; cuser; ue; pw] ->
       let opt x = if x = "nil" then None else Some (bytes_of_hex x) in
       (match Paths.get_permission_username (b tp) (b po) (b nd) (opt check) (opt cuser) (b ue) (b pw) with
        | None -> "refused"
        | Some u -> "ok " ^ hx u)
    | ["apigroup"; p] -> hx (Paths.api_group_name (bytes_of_hex p))
    (* operations observed by monitors only *)
    | ("groupadd" | "apiput" | "updatedesc" | "updateuser" | "addclient") :: _ -> "-"
    | _ -> failwith ("paths: bad op " ^ String.concat " " toks)

let init () = register "paths" comp_paths

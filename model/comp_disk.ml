(* glue for Model/Disk.v: components "disk" (whole recorder with the
   reference builder), "disktime" (origin arithmetic and rtptime), "sanitise" *)
open Util
open Registry

let two32 = z "4294967296"
let z64 hi lo = BinInt.Z.add (BinInt.Z.mul (z hi) two32) (z lo)
let z64s x = zs (BinInt.Z.div x two32) ^ ":" ^ zs (BinInt.Z.modulo x two32)
let rec int_of_nat = function Datatypes.O -> 0 | Datatypes.S n -> 1 + int_of_nat n
let fnv l =
  List.fold_left (fun h x -> ((h lxor (int_of_z x)) * 16777619) land 0xFFFFFFFF)
    2166136261 l
let opt f = function None -> "-" | Some x -> f x
let join sep l = if l = [] then "-" else String.concat sep l

let flow_s = function
  | Disk.FlContinue -> "C" | Disk.FlInvalidOrigin -> "I"
  | Disk.FlCloseConn -> "X" | Disk.FlPanic -> "P"

let comp_disk : Registry.comp = fun params ->
  let kinds = List.nth params 0 and exact = List.nth params 1 in
  let n = String.length kinds in
  let cds = List.init n (fun i ->
      match kinds.[i] with
      | 'a' -> Disk.opus_codec
      | 'h' -> Disk.h264_codec
      | _ -> Disk.vp8_codec (* '9': VP9 is not modelled, its ops are not compared *)) in
  let st = ref (Disk.new_rec cds) in
  let caches = Array.init n (fun _ -> Hashtbl.create 64) in
  let files : Disk.fev list ref = ref [] in
  let is_exact j = j < String.length exact && exact.[j] = '1' in
  let origins () =
    let tc = (!st).Disk.r_conn.Disk.cn_time in
    String.concat "/" (List.init n (fun j ->
        if is_exact j then opt zs (Disk.origin_of tc (nat_of_int j)) else "~")) in
  let store t bytes =
    match Disk.rtp_parse bytes with
    | Some p -> Hashtbl.replace caches.(t) (int_of_z p.Disk.p_seq) bytes
    | None -> () in
  let write t now bytes =
    let cache s = Hashtbl.find_opt caches.(t) (int_of_z s) in
    let (st', Disk.Coq_mkWout (fs, k, last, fe, fl)) =
      Disk.rec_write !st (nat_of_int t) (z now) cache bytes in
    st := st';
    files := !files @ fe;
    "f=" ^ join "," (List.map (fun (s, c) -> zs s ^ ":" ^ zs c) fs)
    ^ " k=" ^ zs k ^ " l=" ^ opt zs last ^ " o=" ^ origins () ^ " fl=" ^ flow_s fl in
  let render fl =
    (* files: W<w>H<h>;T0=kf.tm.len.hash,...;T1=... separated by | *)
    let cur = ref None and out = ref [] in
    let flush () =
      match !cur with
      | None -> ()
      | Some (w, h, tr) ->
        out := (Printf.sprintf "W%sH%s" (zs w) (zs h)
                ^ String.concat "" (List.init n (fun j ->
                    Printf.sprintf ";T%d=%s" j (join "," (List.rev tr.(j))))))
               :: !out;
        cur := None in
    List.iter (function
        | Disk.FOpen (w, h) -> flush (); cur := Some (w, h, Array.make n [])
        | Disk.FClose -> flush ()
        | Disk.FWrite (t, kf, tm, data) ->
          (match !cur with
           | None -> out := "WRITE-WITHOUT-FILE" :: !out
           | Some (_, _, tr) ->
             let j = int_of_nat t in
             tr.(j) <- (Printf.sprintf "%s.%s.%d.%d" (bs kf)
                          (if is_exact j then zs tm else "~")
                          (List.length data) (fnv data)) :: tr.(j))) !files;
    flush ();
    join "|" (List.rev !out) ^ " fl=" ^ flow_s fl in
  fun toks ->
    match toks with
    | ["s"; t; data] -> store (int_of_string t) (bytes_of_hex data); "-"
    | ["sw"; t; now; data] | ["swx"; t; now; data] ->
      let b = bytes_of_hex data in
      store (int_of_string t) b; write (int_of_string t) now b
    | ["w"; t; now; data] | ["wx"; t; now; data] -> write (int_of_string t) now (bytes_of_hex data)
    | ["sr"; t; hi; lo; rtp] ->
      st := Disk.rec_sr !st (nat_of_int (int_of_string t)) (z64 hi lo) (z rtp);
      "o=" ^ origins ()
    | ["age"; _] -> "-"
    | ["close"] | ["closex"] ->
      let ((st', fe), fl) = Disk.rec_close !st in
      st := st';
      files := !files @ fe;
      let r = render fl in
      files := [];
      r
    | _ -> failwith ("disk: bad op " ^ String.concat " " toks)

let comp_disktime : Registry.comp = fun params ->
  let rates = zlist (List.nth params 0) in
  let st = ref { Disk.tc_local = None; Disk.tc_remote = BinNums.Z0;
                 Disk.tc_tracks = List.map (fun r ->
                     { Disk.tt_origin = None; Disk.tt_ntp = BinNums.Z0;
                       Disk.tt_rtp = BinNums.Z0; Disk.tt_rate = r }) rates } in
  let show () =
    let c = !st in
    "L=" ^ opt zs c.Disk.tc_local ^ " R=" ^ z64s c.Disk.tc_remote ^ " "
    ^ String.concat ";" (List.map (fun t ->
        "o=" ^ opt zs t.Disk.tt_origin ^ ",n=" ^ z64s t.Disk.tt_ntp ^ ",r=" ^ zs t.Disk.tt_rtp)
        c.Disk.tc_tracks) in
  fun toks ->
    match toks with
    | ["so"; i; ts; now; rate] ->
      st := Disk.set_origin !st (nat_of_int (int_of_string i)) (z ts) (z now) (z rate); show ()
    | ["sto"; i; hi; lo; rtp; rate] ->
      st := Disk.set_time_offset !st (nat_of_int (int_of_string i)) (z64 hi lo) (z rtp) (z rate);
      show ()
    | ["ao"; i; ts] ->
      st := Disk.adjust_origin !st (nat_of_int (int_of_string i)) (z ts); show ()
    | ["fd"; d; hz] -> zs (Disk.from_duration (z d) (z hz))
    | ["td"; tm; hz] -> zs (Disk.to_duration (z tm) (z hz))
    | ["n2t"; hi; lo] -> zs (Disk.ntp_to_time (z64 hi lo))
    | ["t2n"; ns] -> z64s (Disk.time_to_ntp (z ns))
    | ["tm"; o; rate; ts] -> zs (Disk.tm_of (z o) (z rate) (z ts))
    | _ -> failwith ("disktime: bad op " ^ String.concat " " toks)

let comp_sanitise : Registry.comp = fun _ ->
  fun toks ->
    match toks with
    | ["san"; s] -> hex_of_bytes (Disk.sanitise (bytes_of_hex s))
    | _ -> failwith "sanitise: bad op"

let init () =
  register "disk" comp_disk;
  register "disktime" comp_disktime;
  register "sanitise" comp_sanitise

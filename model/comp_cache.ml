open Util
open Registry

let comp_cache : Registry.comp = fun params ->
  let st = ref (Cache.new_cache (z (List.nth params 0))) in
  fun toks ->
    let open Cache in
    if toks = ["dump"] then begin
      let c = !st in
      let bl x = if x then "true" else "false" in
      let hd = String.concat " " [ zs c.c_last; zs c.c_cycle; bl c.c_lastValid;
          zs c.c_expected; zs c.c_totalExpected; zs c.c_received; zs c.c_totalReceived;
          zs c.c_keyframe; bl c.c_keyframeValid;
          bl c.c_bitmap.bm_valid; zs c.c_bitmap.bm_first; zs c.c_bitmap.bm_bits;
          zs c.c_tail; string_of_int (List.length c.c_entries) ] in
      let b = Buffer.create 256 in
      Buffer.add_string b hd;
      List.iter (fun e -> Buffer.add_string b (" " ^ zs e.e_seq ^ ":" ^ zs e.e_lam ^ ":" ^ zs e.e_ts)) c.c_entries;
      Buffer.contents b
    end else
    let op = match toks with
      | ["store"; s; ts; kf; m; data] -> OStore (z s, z ts, b kf, b m, bytes_of_hex data)
      | ["get"; s] -> OGet (z s)
      | ["getat"; s; i] -> OGetAt (z s, z i)
      | ["resize"; k] -> OResize (z k)
      | ["resizecond"; k] -> OResizeCond (z k)
      | ["last"] -> OLast
      | ["keyframe"] -> OKeyframe
      | ["bitmapget"; n] -> OBitmapGet (z n)
      | ["expect"; n] -> OExpect (z n)
      | ["getstats"; r] -> OGetStats (b r)
      | _ -> failwith ("cache: bad op " ^ String.concat " " toks) in
    let (st', out) = step !st op in
    st := st';
    match out with
    | RStore (f, i) -> zs f ^ " " ^ zs i
    | RGet (n, bytes) -> zs n ^ " " ^ hex_of_bytes bytes
    | RUnit -> "-"
    | RBool x -> bs x
    | RSeqOk (s, ok) -> zs s ^ " " ^ bs ok
    | RBitmap (fd, f, bm) -> bs fd ^ " " ^ zs f ^ " " ^ zs bm
    | RStats s -> String.concat " " [zs s.s_received; zs s.s_totalReceived;
                                      zs s.s_expected; zs s.s_totalExpected; zs s.s_eseqno]

let comp_tobitmap : Registry.comp = fun _ ->
  fun toks ->
    match toks with
    | ["tobitmap"; l] ->
       (* iterate ToBitmap as sendNACKs does; print the pairs *)
       let rec go l acc =
         match Cache.to_bitmap l with
         | None -> List.rev acc
         | Some ((f, bm), rest) -> go rest ((zs f ^ ":" ^ zs bm) :: acc) in
       let r = go (zlist l) [] in
       if r = [] then "-" else String.concat "," r
    | _ -> failwith "tobitmap: bad op"

let init () = register "cache" comp_cache; register "tobitmap" comp_tobitmap

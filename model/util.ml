(* Glue between the text trace protocol and the extracted models (trusted). *)
open BinNums

let rec pos_of_int n =
  if n = 1 then Coq_xH
  else if n land 1 = 0 then Coq_xO (pos_of_int (n lsr 1))
  else Coq_xI (pos_of_int (n lsr 1))
let z_of_int n =
  if n = 0 then Z0 else if n > 0 then Zpos (pos_of_int n) else Zneg (pos_of_int (-n))
let rec int_of_pos = function
  | Coq_xH -> 1
  | Coq_xO p -> 2 * int_of_pos p
  | Coq_xI p -> 2 * int_of_pos p + 1
let int_of_z = function Z0 -> 0 | Zpos p -> int_of_pos p | Zneg p -> - (int_of_pos p)
let z s = z_of_int (int_of_string s)
let zs x = string_of_int (int_of_z x)
let b s = (s = "1")
let bs x = if x then "1" else "0"
let rec nat_of_int n = if n <= 0 then Datatypes.O else Datatypes.S (nat_of_int (n-1))

let hexval c =
  match c with
  | '0'..'9' -> Char.code c - 48
  | 'a'..'f' -> Char.code c - 87
  | 'A'..'F' -> Char.code c - 55
  | _ -> failwith "hex"
let bytes_of_hex s =
  if s = "-" then [] else begin
    let n = String.length s / 2 in
    let rec go i acc =
      if i < 0 then acc
      else go (i-1) (z_of_int (hexval s.[2*i] * 16 + hexval s.[2*i+1]) :: acc) in
    go (n-1) []
  end
let hex_of_bytes l =
  if l = [] then "-" else begin
    let buf = Buffer.create 64 in
    List.iter (fun x -> Buffer.add_string buf (Printf.sprintf "%02x" (int_of_z x))) l;
    Buffer.contents buf
  end
let zlist s = if s = "-" then [] else List.map z (String.split_on_char ',' s)
let zlist_s l = if l = [] then "-" else String.concat "," (List.map zs l)

(* Coq strings are extracted as char lists by ExtrOcamlBasic+nothing: we keep
   Coq's [string] inductive only where a model uses it. *)

(* component registry: a component maps the parameters of an H line to a
   closure that steps the extracted model on one op line *)
type comp = string list -> (string list -> string)
let table : (string, comp) Hashtbl.t = Hashtbl.create 16
let register (name : string) (c : comp) = Hashtbl.replace table name c
let find name = Hashtbl.find_opt table name

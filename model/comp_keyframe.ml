open Util
open Registry

(* keyframe <codec> <hexpayload> [<oracle>]   => <kf> <known> | PANIC | FUEL
   flags    <codec> <hexbuf>                  => T | <seqno> <marker> | PANIC
   dims     <codec> <hexpayload> [<oracle>]   => <w> <h> | PANIC
   xdims    ...                               => -   (not modelled, not compared)
   <oracle> = what pion's depacketiser produced (pion is not modelled):
   vp8: E | S,PID,hexpayload    vp9: E | B,hexpayload *)

let name_of s =
  if s = "-" then []
  else List.init (String.length s) (fun i -> z_of_int (Char.code s.[i]))

let depack_of toks =
  let open Keyframe in
  match toks with
  | [] -> DNone
  | ["E"] -> DErr
  | [o] ->
     (match String.split_on_char ',' o with
      | [s; pid; pl] -> DVP8 (z s, z pid, bytes_of_hex pl)
      | [bb; pl] -> DVP9 (b bb, bytes_of_hex pl)
      | _ -> failwith ("keyframe: bad oracle " ^ o))
  | _ -> failwith "keyframe: bad oracle"

let out f = function
  | Keyframe.Ok r -> f r
  | Keyframe.Panic -> "PANIC"
  | Keyframe.OutOfFuel -> "FUEL"

let comp_keyframe : Registry.comp = fun _params ->
  fun toks ->
    match toks with
    | "keyframe" :: codec :: data :: oracle ->
       out (fun (kf, known) -> bs kf ^ " " ^ bs known)
         (Keyframe.keyframe (name_of codec) (bytes_of_hex data) (depack_of oracle))
    | ["flags"; _codec; data] ->
       out (function
           | None -> "T"
           | Some (seqno, marker) -> zs seqno ^ " " ^ bs marker)
         (Keyframe.packet_flags_header (bytes_of_hex data))
    | "dims" :: codec :: _data :: oracle ->
       out (fun (w, h) -> zs w ^ " " ^ zs h)
         (Keyframe.keyframe_dimensions (name_of codec) (depack_of oracle))
    | "xdims" :: _ -> "-"
    | _ -> failwith ("keyframe: bad op " ^ String.concat " " toks)

let init () = register "keyframe" comp_keyframe

open Util
open Registry

(* descstore: the group-definition store (Model/DescStore.v).  The state is
   the model's [file]; stamps (size, mtime) of new versions are inputs. *)

let bytes_of_string s =
  List.init (String.length s) (fun i -> z_of_int (Char.code s.[i]))

let target s = let n = int_of_string s in
  if n < 0 then DescStore.TWild else DescStore.TUser (z_of_int n)

let res_s = function
  | DescStore.ROk -> "ok"
  | DescStore.RMismatch -> "mismatch"
  | DescStore.RNotExist -> "notexist"
  | DescStore.RNotWritable -> "notwritable"

let user_s (u : DescStore.user) = zs u.DescStore.u_perm ^ ":" ^ zs u.DescStore.u_pw

let rec state_s (f : DescStore.file) =
  match f with
  | None -> "absent"
  | Some (c, s) -> proj_s c ^ " tag=" ^ hex_of_bytes (DescStore.make_etag s)
and proj_s (c : DescStore.content) =
  (fun s ->
     let us = List.sort (fun (a, _) (b, _) -> compare (int_of_z a) (int_of_z b)) c.DescStore.c_users in
     let u = if us = [] then "-" else
       String.concat "," (List.map (fun (k, x) -> zs k ^ ":" ^ user_s x) us) in
     let w = match c.DescStore.c_wild with None -> "-" | Some x -> user_s x in
     "d=" ^ zs c.DescStore.c_desc ^ " u=" ^ u ^ " w=" ^ w ^ " k=" ^ zs c.DescStore.c_keys) ()

let parse_user s =
  match String.split_on_char ':' s with
  | [p; w] -> { DescStore.u_perm = z p; u_pw = z w }
  | _ -> failwith "user"

let parse_users s =
  if s = "-" then [] else
    List.map (fun e -> match String.split_on_char ':' e with
                       | [k; p; w] -> (z k, { DescStore.u_perm = z p; u_pw = z w })
                       | _ -> failwith "users") (String.split_on_char ',' s)

let req_of kind t im inm arg =
  let im = bytes_of_hex im and inm = bytes_of_hex inm in
  match kind with
  | "getgroup" -> DescStore.GetGroup (false, im, inm)
  | "headgroup" -> DescStore.GetGroup (true, im, inm)
  | "putgroup" -> DescStore.PutGroup (im, inm, z arg)
  | "delgroup" -> DescStore.DelGroup (im, inm)
  | "getuser" -> DescStore.GetUser (target t, im, inm)
  | "putuser" -> DescStore.PutUser (target t, im, inm, z arg)
  | "deluser" -> DescStore.DelUser (target t, im, inm)
  | "setpw" -> DescStore.SetPw (target t, z arg)
  | "setkeys" -> DescStore.SetKeys (z arg)
  | _ -> failwith ("descstore: bad request kind " ^ kind)

let target_name = bytes_of_string "g"
let temp_random = bytes_of_string "123456"

let comp_descstore : Registry.comp = fun params ->
  let wr = b (List.nth params 0) in
  let st : DescStore.file ref = ref None in
  let cache : DescStore.file ref = ref None in
  let pending : Etag.str option ref = ref None in
  let do_op o =
    let (f', out) = DescStore.step wr !st o in
    st := f'; out in
  let res_of o = match do_op o with
    | DescStore.OutRes r -> res_s r
    | _ -> failwith "res" in
  let tag_of o = match do_op o with
    | DescStore.OutTag (Some t) -> hex_of_bytes t
    | DescStore.OutTag None -> "notexist"
    | _ -> failwith "tag" in
  let direct kind t tag arg ns =
    match kind with
    | "updesc" -> DescStore.OUpdateDescription (bytes_of_hex tag, z arg, ns)
    | "upuser" -> DescStore.OUpdateUser (target t, bytes_of_hex tag, z arg, ns)
    | "deluser" -> DescStore.ODeleteUser (target t, bytes_of_hex tag, ns)
    | _ -> failwith ("descstore: bad race kind " ^ kind) in
  fun toks ->
    match toks with
    | ["seed"; d; users; wild; keys; size; mtime] ->
       let c = { DescStore.c_desc = z d; c_users = parse_users users;
                 c_wild = (if wild = "-" then None else Some (parse_user wild));
                 c_keys = z keys } in
       st := Some (c, (z size, z mtime)); "ok"
    | ["gettag"] -> tag_of DescStore.OGetTag
    | ["getusertag"; t] -> tag_of (DescStore.OGetUserTag (target t))
    | ["updesc"; tag; d; size; mtime] ->
       res_of (DescStore.OUpdateDescription (bytes_of_hex tag, z d, (z size, z mtime)))
    | ["deldesc"; tag] -> res_of (DescStore.ODeleteDescription (bytes_of_hex tag))
    | ["upuser"; t; tag; perm; size; mtime] ->
       res_of (DescStore.OUpdateUser (target t, bytes_of_hex tag, z perm, (z size, z mtime)))
    | ["deluser"; t; tag; size; mtime] ->
       res_of (DescStore.ODeleteUser (target t, bytes_of_hex tag, (z size, z mtime)))
    | ["setpw"; t; pw; size; mtime] ->
       res_of (DescStore.OSetPassword (target t, z pw, (z size, z mtime)))
    | ["setkeys"; k; size; mtime] -> res_of (DescStore.OSetKeys (z k, (z size, z mtime)))
    | ["state"] ->
       (match do_op DescStore.OState with
        | DescStore.OutState f -> state_s f
        | _ -> failwith "state")
    | ["http"; kind; t; im; inm; arg; size; mtime] ->
       let (f', status) = DescStore.handle wr (req_of kind t im inm arg) !st (z size, z mtime) in
       st := f'; zs status
    | ["race"; kind; t; tag; arg; size; mtime] ->
       (* the winner's operation applied sequentially: acknowledged or not *)
       if res_of (direct kind t tag arg (z size, z mtime)) = "ok" then "1" else "0"
    | ["httprace"; kind; t; im; inm; arg; size; mtime] ->
       let (f', status) = DescStore.handle wr (req_of kind t im inm arg) !st (z size, z mtime) in
       st := f';
       let s = int_of_z status in
       if s = 201 || s = 204 then "1" else "0"
    | ["load"] ->
       (* group.Add(name, nil): the in-memory copy is replaced unless
          descriptionUnchanged *)
       cache := DescStore.get_description !cache !st;
       (match !cache with None -> "notexist" | Some _ -> "ok")
    | ["hget"; form; im; inm] ->
       let v = if form = "0" then DescStore.get_description !cache !st else !st in
       (match v with
        | None -> "404 - -"
        | Some (c, s) ->
           let etag = DescStore.make_etag s in
           (match Etag.check_preconditions Etag.m_GET etag (bytes_of_hex im) (bytes_of_hex inm) with
            | Etag.CpDone x -> zs x ^ " " ^ hex_of_bytes etag ^ " -"
            | Etag.CpNotDone -> "200 " ^ hex_of_bytes etag ^ " " ^ zs c.DescStore.c_desc
            | Etag.CpOutOfFuel -> "OUT-OF-FUEL"))
    | ["lsread"; kind; t; im; inm; arg] ->
       pending := DescStore.read_step (req_of kind t im inm arg) !st; "-"
    | ["lswrite"; kind; t; im; inm; arg; size; mtime] ->
       let r = req_of kind t im inm arg in
       (match !pending with
        | None -> "404"
        | Some e ->
           let (f', h) = DescStore.write_step wr r e !st (z size, z mtime) in
           st := f';
           let s = int_of_z (DescStore.http_status r h) in
           if s = 201 || s = 204 then "2xx" else string_of_int s)
    | ["ls2"; rb; ra; final; size; mtime; bk; bt; btag; barg; ah; ak; at; aim; ainm; aarg] ->
       (* two requests that were queued on groups.mu together: which got the
          lock first is not determined; the outcome (results and final
          definition, given as arguments) must be that of ONE of the two serial
          orders.  A version replaced at once gets a dummy stamp. *)
       let final_s = String.concat "" (List.map (fun x -> String.make 1 (Char.chr (int_of_z x))) (bytes_of_hex final)) in
       let fin = (z size, z mtime) and dummy = (z "1", z "1") in
       let run_b f ns =
         let o = match bk with
           | "updesc" -> DescStore.OUpdateDescription (bytes_of_hex btag, z barg, ns)
           | "deldesc" -> DescStore.ODeleteDescription (bytes_of_hex btag)
           | "upuser" -> DescStore.OUpdateUser (target bt, bytes_of_hex btag, z barg, ns)
           | "deluser" -> DescStore.ODeleteUser (target bt, bytes_of_hex btag, ns)
           | "setpw" -> DescStore.OSetPassword (target bt, z barg, ns)
           | "setkeys" -> DescStore.OSetKeys (z barg, ns)
           | _ -> failwith "ls2: bad B" in
         match DescStore.step wr f o with
         | (f', DescStore.OutRes r) -> (f', res_s r)
         | _ -> failwith "ls2" in
       let run_a f ns =
         if ah = "1" then begin
           let r = req_of ak at aim ainm aarg in
           match !pending with
           | None -> (f, "404")
           | Some e ->
              let (f', h) = DescStore.write_step wr r e f ns in
              let s = int_of_z (DescStore.http_status r h) in
              (f', if s = 201 || s = 204 then "ok" else string_of_int s)
         end else begin
           let o = match ak with
             | "updesc" -> DescStore.OUpdateDescription (bytes_of_hex aim, z aarg, ns)
             | "deldesc" -> DescStore.ODeleteDescription (bytes_of_hex aim)
             | "upuser" -> DescStore.OUpdateUser (target at, bytes_of_hex aim, z aarg, ns)
             | "deluser" -> DescStore.ODeleteUser (target at, bytes_of_hex aim, ns)
             | "setpw" -> DescStore.OSetPassword (target at, z aarg, ns)
             | "setkeys" -> DescStore.OSetKeys (z aarg, ns)
             | _ -> failwith "ls2: bad A" in
           match DescStore.step wr f o with
           | (f', DescStore.OutRes r) -> (f', res_s r)
           | _ -> failwith "ls2"
         end in
       let nostamp f = match f with None -> "absent" | Some (c, _) -> proj_s c in
       let try_order first second r1 r2 =
         (* the first acknowledged write keeps the final stamp only if the
            second request wrote nothing *)
         let ns1 = if r2 = "ok" then dummy else fin in
         let (f1, x1) = first !st ns1 in
         let (f2, x2) = second f1 fin in
         (x1 = r1 && x2 = r2 && nostamp f2 = final_s, f2) in
       let (ok1, f_ba) = try_order run_b run_a rb ra in
       if ok1 then (st := f_ba; "serial")
       else begin
         let (ok2, f_ab) = try_order run_a run_b ra rb in
         if ok2 then (st := f_ab; "serial")
         else (st := f_ba; "not-serialisable: B;A gives " ^ nostamp f_ba ^ ", A;B gives " ^ nostamp f_ab)
       end
    | ["rwrace"; _] ->
       (* readers take content and stamp from ONE version (read_description):
          no served pair is foreign (C18_content_matches_tag) *)
       "0"
    | ["syscalls"; _] ->
       let kind = function
         | DescStore.SCreate _ -> "create" | DescStore.SWrite _ -> "write"
         | DescStore.SSync _ -> "sync" | DescStore.SClose _ -> "close"
         | DescStore.SRename _ -> "rename" | DescStore.SRemove _ -> "remove" in
       String.concat "," (List.map kind
         (DescStore.rewrite_steps (DescStore.group_file target_name)
            (DescStore.temp_name temp_random) [bytes_of_string "new"]))
    | ["crash"; k] ->
       (* the first k system calls of one rewrite on a directory that holds the
          old definition *)
       let oldb = bytes_of_string "old" and newb = bytes_of_string "new" in
       let tgt = DescStore.group_file target_name in
       let tmp = DescStore.temp_name temp_random in
       let steps = DescStore.rewrite_steps tgt tmp [newb] in
       let rec take n l = if n <= 0 then [] else match l with [] -> [] | x :: r -> x :: take (n-1) r in
       let d = List.fold_left DescStore.exec_sys [(tgt, oldb)] (take (int_of_string k) steps) in
       let verdict = match DescStore.read_def d target_name with
         | Some x when x = oldb -> "old"
         | Some x when x = newb -> "new"
         | Some _ -> "partial"
         | None -> "missing" in
       let leftover = match DescStore.lookup tmp d with Some _ -> "1" | None -> "0" in
       (* a temp file is never listed as a group *)
       let listed = DescStore.group_files d in
       if List.length listed <> 1 then "listing-broken" else verdict ^ " " ^ leftover
    | _ -> failwith ("descstore: bad op " ^ String.concat " " toks)

let init () = register "descstore" comp_descstore

(* Glue for the `token` component (property C09): decodes the op lines written
   by harness/cmd/token/token.go, runs the extracted Model/Token.v functions
   and prints the model's observable.

   Encodings (see the driver): a string is hex ("-" or "=" when empty), an
   optional string is "~" when absent, a list is comma separated ("-" when
   empty, "=" for an empty element), a number claim is "~" (absent), "!"
   (wrong type) or an instant in ns. *)
open Util
open Registry

(* ---- OCaml string <-> Coq string *)
let ascii_of_char c =
  let n = Char.code c in
  let b i = (n lsr i) land 1 = 1 in
  Ascii.Ascii (b 0, b 1, b 2, b 3, b 4, b 5, b 6, b 7)

let char_of_ascii (Ascii.Ascii (b0, b1, b2, b3, b4, b5, b6, b7)) =
  let v b i = if b then 1 lsl i else 0 in
  Char.chr (v b0 0 + v b1 1 + v b2 2 + v b3 3 + v b4 4 + v b5 5 + v b6 6 + v b7 7)

let cstr (s : string) : String0.string =
  let r = ref String0.EmptyString in
  for i = String.length s - 1 downto 0 do
    r := String0.String (ascii_of_char s.[i], !r)
  done;
  !r

let rec ostr (s : String0.string) : string =
  match s with
  | String0.EmptyString -> ""
  | String0.String (a, r) -> String.make 1 (char_of_ascii a) ^ ostr r

let unhex (s : string) : string =
  if s = "-" || s = "=" then "" else begin
    let n = String.length s / 2 in
    String.init n (fun i -> Char.chr (hexval s.[2*i] * 16 + hexval s.[2*i+1]))
  end

let hex (s : string) : string =
  if s = "" then "=" else begin
    let buf = Buffer.create 16 in
    String.iter (fun c -> Buffer.add_string buf (Printf.sprintf "%02x" (Char.code c))) s;
    Buffer.contents buf
  end

let str s = cstr (unhex s)
let optstr s = if s = "~" then None else Some (str s)
let items s = if s = "-" then [] else String.split_on_char ',' s
let strlist s = List.map str (items s)
let optz s = if s = "~" then None else Some (z s)
let numclaim s =
  if s = "~" then Token.NAbsent else if s = "!" then Token.NInvalid else Token.NDate (z s)

let show_str s = hex (ostr s)
let show_list l = if l = [] then "-" else String.concat "," (List.map show_str l)

let keys s =
  List.mapi (fun i it ->
      match String.split_on_char ':' it with
      | [kty; alg; kid; mat] ->
         { Token.k_id = z_of_int i; k_kty = optstr kty; k_alg = optstr alg;
           k_kid = optstr kid; k_material_ok = b mat }
      | _ -> failwith "token: bad key") (items s)

let flags s = List.map b (items s)

let auds s =
  List.map (fun it ->
      match String.split_on_char ':' it with
      | [ok; host; path] -> { Token.au_ok = b ok; au_host = str host; au_path = str path }
      | _ -> failwith "token: bad aud") (items s)

(* signature oracle: the driver verified the signature under each configured
   key independently (with the header's algorithm) *)
let verify (k : Token.key) _alg (fl : bool list) : bool =
  match List.nth_opt fl (int_of_z k.Token.k_id) with Some x -> x | None -> false

(* validGroupName oracle: table of the names that can occur *)
let vgn_table s =
  let tbl = List.map (fun it ->
      match String.split_on_char ':' it with
      | [name; fl] -> (unhex name, b fl)
      | _ -> failwith "token: bad vu") (items s) in
  fun (u : String0.string) ->
    match List.assoc_opt (ostr u) tbl with Some x -> x | None -> failwith "token: name not in vu table"

let stateful tg sub user perms exp nbf =
  { Token.st_group = str tg; st_sub = b sub; st_username = optstr user;
    st_perms = strlist perms; st_expires = optz exp; st_notbefore = optz nbf }

(* J fields: keys alg kid vflags exp nbf iat subok sub audok aud incl permsok perms *)
let jwt_of = function
  | [ks; alg; kid; vf; exp; nbf; iat; subok; sub; audok; aud; incl; permsok; perms] ->
     (keys ks,
      { Token.j_header = { Token.h_alg = optstr alg; h_kid = str kid };
        j_claims = { Token.c_exp = numclaim exp; c_nbf = numclaim nbf; c_iat = numclaim iat;
                     c_sub_ok = b subok; c_sub = str sub; c_aud_ok = b audok; c_aud = auds aud;
                     c_incl = b incl; c_perms_ok = b permsok; c_perms = strlist perms };
        j_data = flags vf })
  | _ -> failwith "token: bad jwt fields"

(* TOK... -> (keys, cred_token) *)
let cred = function
  | ["N"] -> ([], Token.COpaque None)
  | ["S"; tg; sub; user; perms; exp; nbf] ->
     ([], Token.COpaque (Some (stateful tg sub user perms exp nbf)))
  | "J" :: rest -> let (ks, j) = jwt_of rest in (ks, Token.CJWT j)
  | _ -> failwith "token: bad token spec"

let show_result = function
  | Token.Accept (u, p) -> "ok " ^ show_str u ^ " " ^ show_list p
  | Token.Reject _ -> "err"

let comp_token : Registry.comp = fun _params ->
  fun toks ->
    match toks with
    | ["methods"] ->
       String.concat "," (List.sort compare (List.map ostr Token.jwt_methods))
    | ["smatch"; tg; sub; g] ->
       bs (Token.stateful_match (stateful tg sub "~" "-" "~" "~") (str g))
    | ["jmatch"; pth; incl; g] ->
       bs (Token.match_group (str pth) (str g) (b incl))
    | ["scheck"; now; tg; sub; user; perms; exp; nbf; g] ->
       show_result (Token.stateful_check (z now) (stateful tg sub user perms exp nbf) (str g))
    | "jwt" :: now :: rest ->
       let n = List.length rest in
       let fields = List.filteri (fun i _ -> i < n - 2) rest in
       let host = List.nth rest (n - 2) and g = List.nth rest (n - 1) in
       let (ks, j) = jwt_of fields in
       (match Token.jwt_parse verify (z now) ks j with
        | Token.PUnverifiable -> "parse:unverifiable"
        | Token.PSignature -> "parse:signature"
        | Token.PClaims -> "parse:claims"
        | Token.PValid ->
           (match Token.jwt_check (str host) (str g) j.Token.j_claims with
            | Token.Accept (u, p) -> "ok " ^ show_str u ^ " " ^ show_list p
            | Token.Reject _ -> "check:err"))
    | "perm" :: now :: host :: g :: users :: cu :: vu :: tok ->
       let (ks, ct) = cred tok in
       (match Token.get_permission verify (vgn_table vu) (z now) (str host) ks
                (strlist users) (str g) ct (optstr cu) with
        | Token.GPOk (u, p) -> "ok " ^ show_str u ^ " " ^ show_list p
        | Token.GPNotAuthorised -> "notauth"
        | Token.GPUsernameRequired -> "required"
        | Token.GPDuplicate -> "duplicate")
    | "gadmin" :: now :: host :: tok ->
       let (_, ct) = cred tok in
       bs (Token.check_global_admin verify (z now) (str host) ct)
    | "bwin" :: _ -> "-"
    | _ -> failwith ("token: bad op " ^ String.concat " " toks)

let init () = register "token" comp_token

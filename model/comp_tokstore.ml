(* glue for the C16 token store model (Model/TokenStore.v), driver tokstore *)
open Util
open Registry
open TokenStore

let opt_z s = if s = "n" then None else Some (z s)
let opt_s = function None -> "n" | Some x -> zs x

let stamp_of s =
  match String.split_on_char ':' s with
  | [a; b] -> { st_size = z a; st_mtime = z b }
  | _ -> failwith ("tokstore: bad stamp " ^ s)
(* tags are named t<k> in the order they were first returned; "bad" is a
   string the store never returned *)
let bad_stamp = { st_size = z "-1"; st_mtime = z "-1" }
let tok_of s =
  match String.split_on_char '/' s with
  | [n; g; e; nb; d] ->
     { tk_name = z n; tk_group = z g; tk_exp = opt_z e; tk_nbf = opt_z nb; tk_data = z d }
  | _ -> failwith ("tokstore: bad token " ^ s)
let tok_s t =
  String.concat "/" [zs t.tk_name; zs t.tk_group; opt_s t.tk_exp; opt_s t.tk_nbf; zs t.tk_data]

let content_of s =
  if s = "-" then None
  else if s = "e" then Some []
  else Some (List.map (fun x -> if x = "!" then Junk else Rec (tok_of x))
               (String.split_on_char ';' s))

let res_s = function ROk -> "ok" | RMismatch -> "mismatch" | RNotExist -> "notexist" | ROther -> "other"

(* the reply of a signalling command: no error field, or an error *)
let sig_s = function ROk -> "ok" | _ -> "error"

let ids_s l =
  if l = [] then "-"
  else String.concat "," (List.map string_of_int (List.sort compare l))


let comp_tokstore : Registry.comp = fun _params ->
  let st = ref init_state in
  let tags : (stamp * int) list ref = ref [] in
  let etag_s = function
    | None -> "-"
    | Some s ->
       (match List.assoc_opt s !tags with
        | Some k -> "t" ^ string_of_int k
        | None -> let k = List.length !tags + 1 in tags := (s, k) :: !tags; "t" ^ string_of_int k) in
  let etag_of_s s =
    if s = "-" then None
    else if s = "bad" then Some bad_stamp
    else
      let k = int_of_string (String.sub s 1 (String.length s - 1)) in
      match List.find_opt (fun (_, k') -> k' = k) !tags with
      | Some (x, _) -> Some x
      | None -> Some bad_stamp in
  let run o = let (s', out) = step !st o in st := s'; out in
  (* "fault" arms the EMFILE fault for the next operation that may write *)
  let fault = ref false in
  let take () = let f = !fault in fault := false; f in
  let wrun w = let (s', out) = wstep (take ()) !st w in st := s'; out in
  let arun q = let (s', r) = api_step_f (take ()) !st q in st := s'; r in
  let srun q = let (s', r) = sig_step (take ()) !st q in st := s'; r in
  let hval_of_s s =
    if s = "-" then None else if s = "*" then Some HStar
    else match etag_of_s s with Some x -> Some (HTag x) | None -> None in
  fun toks ->
    match toks with
    | ["get"; n] ->
       let o = run (OGet (z n)) in
       (match o.o_res, o.o_toks with
        | ROk, [t] -> "ok " ^ etag_s o.o_etag ^ " " ^ tok_s t
        | r, _ -> res_s r ^ " - -")
    | ["list"; g] ->
       let o = run (OList (z g)) in
       (match o.o_res with
        | ROk -> "ok " ^ etag_s o.o_etag ^ " " ^ ids_s (List.map (fun t -> int_of_z t.tk_name) o.o_toks)
        | r -> res_s r ^ " - -")
    | ["upd"; t; e; st0; s] ->
       res_s (wrun (WUpdate (tok_of t, etag_of_s e, stamp_of st0, stamp_of s))).o_res
    | ["del"; n; e; s] ->
       res_s (wrun (WDelete (z n, etag_of_s e, stamp_of s))).o_res
    | ["expire"; now; s] ->
       res_s (run (ODo (WExpire (z now, stamp_of s)))).o_res
    | ["ext"; c; s] -> ignore (run (OExternal (content_of c, stamp_of s))); "-"
    | ["fault"] -> fault := true; "-"
    | ["smake"; t; s] ->
       sig_s (srun (SMake (tok_of t, stamp_of "0:0", stamp_of s))).o_res
    | ["sedit"; g; n; e; nb; s] ->
       sig_s (srun (SEdit (z g, z n, opt_z e, opt_z nb, stamp_of "0:0", stamp_of s))).o_res
    | ["slist"; g] ->
       let o = srun (SList (z g)) in
       (match o.o_res with
        | ROk -> "ok " ^ ids_s (List.map (fun t -> int_of_z t.tk_name) o.o_toks)
        | r -> "error -")
    | ["restart"] -> ignore (run ORestart); "-"
    | ["repoint"] -> ignore (run ORepoint); "-"
    | ["view"; k] ->
       let universe = List.init (int_of_string k) (fun i -> i) in
       let srv = List.filter (fun n -> (run (OGet (z_of_int n))).o_res = ROk) universe in
       let file =
         match (!st).s_file with
         | None -> "-"
         | Some f ->
            if List.exists (fun e -> e = Junk) f.f_lines then "!"
            else if f.f_lines = [] then "e"
            else ids_s (List.map (function Rec t -> int_of_z t.tk_name | Junk -> -1) f.f_lines) in
       "srv=" ^ ids_s srv ^ " file=" ^ file
    | ["aget"; g; n; im; inm] ->
       let r = arun (AGet (z g, z n, hval_of_s im, hval_of_s inm)) in
       (match r.a_toks with
        | [t] when int_of_z r.a_status = 200 -> "200 " ^ etag_s r.a_etag ^ " " ^ tok_s t
        | _ -> zs r.a_status ^ " - -")
    | ["alist"; g] ->
       let r = arun (AList (z g)) in
       if int_of_z r.a_status = 200
       then "200 " ^ etag_s r.a_etag ^ " " ^ ids_s (List.map (fun t -> int_of_z t.tk_name) r.a_toks)
       else zs r.a_status ^ " - -"
    | ["apost"; g; t; s] ->
       zs (arun (APost (z g, tok_of t, stamp_of "0:0", stamp_of s))).a_status
    | ["aput"; g; n; im; inm; t; s] ->
       zs (arun (APut (z g, z n, hval_of_s im, hval_of_s inm, tok_of t, stamp_of "0:0", stamp_of s))).a_status
    | ["adel"; g; n; im; inm; s] ->
       zs (arun (ADelete (z g, z n, hval_of_s im, hval_of_s inm, stamp_of s))).a_status
    | _ -> failwith ("tokstore: bad op " ^ String.concat " " toks)

(* histories that are checked by monitors only *)
let comp_dummy : Registry.comp = fun _ -> fun _ -> "-"

let init () =
  register "tokstore" comp_tokstore;
  register "tokrace" comp_dummy;
  register "tokcrash" comp_dummy;
  register "tokfail" comp_dummy

open Util
open Registry

(* unmarshal <hexbody> => ok <ufrag> <pwd> <cands> <mds> | err | PANIC
   cand = <hex>:<ufrag or ~>:<mline index or ~>:<mid or ~>, joined by ","
   md   = <mline>|<mid>|<ufrag>|<pwd>|<cands>, joined by ";"     ("-" = none) *)
let opt f = function None -> "~" | Some x -> f x
let cand (c : SdpFrag.cand) =
  String.concat ":" [ hex_of_bytes c.cd_cand; opt hex_of_bytes c.cd_ufrag; opt zs c.cd_mline; opt hex_of_bytes c.cd_mid ]
let cands l = if l = [] then "-" else String.concat "," (List.map cand l)
let md (m : SdpFrag.md) =
  String.concat "|" [ hex_of_bytes m.md_mline; hex_of_bytes m.md_mid; hex_of_bytes m.md_ufrag; hex_of_bytes m.md_pwd; cands m.md_cands ]
let mds l = if l = [] then "-" else String.concat ";" (List.map md l)

(* marshal <hexbody> | ufragpwd <hexbody> | allcands <hexbody>: Marshal, UFragPwd
   and AllCandidates of the fragment parsed from the body
   => <hex> | <ufrag> <pwd> | <cands>        ("nofrag": the body does not parse).
   The driver sends them right after the unmarshal op of the same body: the
   last parse is kept, so that the body is parsed once. *)
let comp_sdpfrag : comp = fun _ ->
  let last = ref ("", SdpFrag.RErr) in
  let parse data =
    if not (String.equal (fst !last) data) then
      last := (data, SdpFrag.unmarshal (bytes_of_hex data));
    snd !last in
  let with_frag data g = match parse data with SdpFrag.ROk f -> g f | _ -> "nofrag" in
  fun toks ->
    match toks with
    | ["unmarshal"; data] ->
       (match parse data with
        | SdpFrag.ROk f -> String.concat " " [ "ok"; hex_of_bytes f.f_ufrag; hex_of_bytes f.f_pwd; cands f.f_cands; mds f.f_mds ]
        | SdpFrag.RErr -> "err"
        | SdpFrag.RPanic -> "PANIC")
    | ["marshal"; data] -> with_frag data (fun f -> hex_of_bytes (SdpFrag.marshal f))
    | ["ufragpwd"; data] ->
       with_frag data (fun f -> let (u, p) = SdpFrag.ufrag_pwd f in hex_of_bytes u ^ " " ^ hex_of_bytes p)
    | ["allcands"; data] -> with_frag data (fun f -> cands (SdpFrag.all_candidates f))
    | _ -> failwith "sdpfrag: bad op"
let init () = register "sdpfrag" comp_sdpfrag

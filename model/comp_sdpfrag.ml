open Util
open Registry

(* unmarshal <hexbody> => ok <ufrag> <pwd> <cands> <mds> | err | PANIC
   cand = <hex>:<ufrag or ~>:<mline index or ~>:<mid or ~>, joined by ","
   md   = <mline>|<mid>|<ufrag>|<pwd>|<cands>, joined by ";"     ("-" = none) *)
let opt f = function None -> "~" | Some x -> f x
let cand (c : SdpFrag.cand) =
  String.concat ":" [ hex_of_bytes c.cd_cand; opt hex_of_bytes c.cd_ufrag; opt zs c.cd_mline; opt hex_of_bytes c.cd_mid ]
let cands l = if l = [] then "-" else String.concat "," (List.map cand l)
let md (m : SdpFrag.md) =
  String.concat "|" [ hex_of_bytes m.md_mline; hex_of_bytes m.md_mid; hex_of_bytes m.md_ufrag; hex_of_bytes m.md_pwd; cands m.md_cands ]
let mds l = if l = [] then "-" else String.concat ";" (List.map md l)

let comp_sdpfrag : comp = fun _ ->
  fun toks ->
    match toks with
    | ["unmarshal"; data] ->
       (match SdpFrag.unmarshal (bytes_of_hex data) with
        | SdpFrag.ROk f -> String.concat " " [ "ok"; hex_of_bytes f.f_ufrag; hex_of_bytes f.f_pwd; cands f.f_cands; mds f.f_mds ]
        | SdpFrag.RErr -> "err"
        | SdpFrag.RPanic -> "PANIC")
    | _ -> failwith "sdpfrag: bad op"
let init () = register "sdpfrag" comp_sdpfrag

open Util
open Registry

(* method names travel as plain tokens; the model compares byte lists *)
let bytes_of_string s =
  List.init (String.length s) (fun i -> z_of_int (Char.code s.[i]))

let comp_etag : Registry.comp = fun _ ->
  fun toks ->
    match toks with
    | ["scan"; s] ->
       let (e, r) = Etag.scan_etag (bytes_of_hex s) in
       hex_of_bytes e ^ " " ^ hex_of_bytes r
    | ["match"; etag; header] ->
       (match Etag.etag_match (bytes_of_hex etag) (bytes_of_hex header) with
        | Some x -> bs x
        | None -> "OUT-OF-FUEL")
    | ["cp"; m; etag; im; inm] ->
       let r = Etag.check_preconditions (bytes_of_string m) (bytes_of_hex etag)
                 (bytes_of_hex im) (bytes_of_hex inm) in
       let (d, s) = Etag.cp_obs r in
       zs d ^ " " ^ zs s
    | _ -> failwith ("etag: bad op " ^ String.concat " " toks)

let init () = register "etag" comp_etag

(* Glue for the `auth` component (property C08): Model/Auth.v.
   H auth <id> <stream> <allow-recording> <unrestricted-tokens> <wildcard-user|~> <user>...
     user = name/type/hash/key|~/salt/iterations/role/raw-permissions   (strings in hex, - = empty)
   login <user|~> <password> <oracle>          => ok <user> <sorted permissions> | <error class>
   join <client id> <user|~> <password> <oracle> => <class> <member> <inits> <username> <permissions>
   mkpw <alg> <password> <salt> <iterations> <length> <cost> <oracle> => password record
   The oracle column carries the values of the hash functions (computed by the
   driver with golang.org/x/crypto) that the model may ask for:
     p:<pw>:<salt>:<iter>:<len>:<key>   b:<hash>:<pw>:<m|x|e>   g:<pw>:<cost>:<hash|!>
   Asking for a value that is not listed is a MODEL-ERROR. *)
open Util
open Registry

let ascii_of_char c =
  let n = Char.code c in
  let bit i = (n lsr i) land 1 = 1 in
  Ascii.Ascii (bit 0, bit 1, bit 2, bit 3, bit 4, bit 5, bit 6, bit 7)

let char_of_ascii (Ascii.Ascii (b0, b1, b2, b3, b4, b5, b6, b7)) =
  let v b i = if b then 1 lsl i else 0 in
  Char.chr (v b0 0 + v b1 1 + v b2 2 + v b3 3 + v b4 4 + v b5 5 + v b6 6 + v b7 7)

let coq_of_string (s : string) : String0.string =
  let r = ref String0.EmptyString in
  for i = String.length s - 1 downto 0 do
    r := String0.String (ascii_of_char s.[i], !r)
  done;
  !r

let string_of_coq (s : String0.string) : string =
  let b = Buffer.create 16 in
  let rec go = function
    | String0.EmptyString -> ()
    | String0.String (c, r) -> Buffer.add_char b (char_of_ascii c); go r in
  go s; Buffer.contents b

let unhex (s : string) : string =
  if s = "-" then "" else begin
    let n = String.length s / 2 in
    String.init n (fun i -> Char.chr (hexval s.[2*i] * 16 + hexval s.[2*i+1]))
  end

let hex (s : string) : string =
  if s = "" then "-" else begin
    let b = Buffer.create 32 in
    String.iter (fun c -> Buffer.add_string b (Printf.sprintf "%02x" (Char.code c))) s;
    Buffer.contents b
  end

let cs s = coq_of_string (unhex s)          (* hex token -> Coq string *)
let hs s = hex (string_of_coq s)            (* Coq string -> hex token *)

let perm_list (l : string list) : string =
  if l = [] then "-" else String.concat "," (List.map (fun s -> "x" ^ (if s = "" then "" else hex s)) l)

let sorted_perms (l : String0.string list) : string =
  perm_list (List.sort compare (List.map string_of_coq l))

let parse_raw (s : string) : String0.string list =
  if s = "-" then []
  else List.map (fun it ->
      let h = String.sub it 1 (String.length it - 1) in
      coq_of_string (if h = "" then "" else unhex h))
      (String.split_on_char ',' s)

let parse_user (tok : string) : String0.string * Auth.user =
  match String.split_on_char '/' tok with
  | [name; ty; hash; key; salt; iter; role; raw] ->
     let pw = { Auth.p_type = cs ty; p_hash = cs hash;
                p_key = (if key = "~" then None else Some (cs key));
                p_salt = cs salt; p_iter = z iter } in
     (cs name, { Auth.u_password = pw;
                 u_permissions = { Auth.ps_name = cs role; ps_perms = parse_raw raw } })
  | _ -> failwith ("auth: bad user token " ^ tok)

let password_token (p : Auth.password) : string =
  String.concat "/" [ "-"; hs p.Auth.p_type; hs p.Auth.p_hash;
                      (match p.Auth.p_key with None -> "~" | Some k -> hs k);
                      hs p.Auth.p_salt; zs p.Auth.p_iter; "-"; "-" ]

(* oracle tables *)
type oracles = {
  pb : (string * string * int * int, string) Hashtbl.t;
  bc : (string * string, Auth.bcrypt_out) Hashtbl.t;
  gen : (string * int, string option) Hashtbl.t }

let parse_oracle (s : string) : oracles =
  let o = { pb = Hashtbl.create 4; bc = Hashtbl.create 4; gen = Hashtbl.create 4 } in
  if s <> "-" then
    List.iter (fun e ->
        match String.split_on_char ':' e with
        | ["p"; pw; salt; iter; len; res] ->
           Hashtbl.replace o.pb (unhex pw, unhex salt, int_of_string iter, int_of_string len) (unhex res)
        | ["b"; hash; pw; r] ->
           Hashtbl.replace o.bc (unhex hash, unhex pw)
             (match r with "m" -> Auth.BMatch | "x" -> Auth.BMismatch | _ -> Auth.BError)
        | ["g"; pw; cost; key] ->
           (* ! = the library refuses to hash this password *)
           Hashtbl.replace o.gen (unhex pw, int_of_string cost)
             (if key = "!" then None else Some (unhex key))
        | _ -> failwith ("auth: bad oracle entry " ^ e))
      (String.split_on_char ',' s);
  o

let pbkdf2_of o = fun pw salt iter len ->
  match Hashtbl.find_opt o.pb (string_of_coq pw, string_of_coq salt, int_of_z iter, int_of_z len) with
  | Some r -> coq_of_string r
  | None -> failwith "pbkdf2 value not supplied"
let bcrypt_of o = fun hash pw ->
  match Hashtbl.find_opt o.bc (string_of_coq hash, string_of_coq pw) with
  | Some r -> r
  | None -> failwith "bcrypt value not supplied"
let gen_of o = fun pw cost _salt ->
  match Hashtbl.find_opt o.gen (string_of_coq pw, int_of_z cost) with
  | Some (Some r) -> Some (coq_of_string r)
  | Some None -> None
  | None -> failwith "bcrypt hash not supplied"

let match_class = function
  | Auth.EMissingKey -> "missingkey"
  | Auth.EBadHex -> "badhex"
  | Auth.EUnknownHash -> "unkhash"
  | Auth.EUnknownType -> "unktype"
  | Auth.EBcrypt -> "bcrypterr"
let err_class = function
  | Auth.ANoUsername -> "nousername"
  | Auth.AMatch e -> match_class e
  | Auth.ABadPassword -> "badpw"
  | Auth.ANoSuchUsername -> "nouser"
  | Auth.AInvalidUsername -> "baduser"
  | Auth.ANeither -> "nocreds"

let creds user pw =
  { Auth.cr_username = (if user = "~" then None else Some (cs user)); cr_password = cs pw }

let comp_auth : Registry.comp = fun params ->
  let desc = match params with
    | ar :: ut :: wild :: users ->
       { Auth.d_users = List.map parse_user users;
         d_wildcard = (if wild = "~" then None else Some (snd (parse_user wild)));
         d_allowRecording = b ar; d_unrestrictedTokens = b ut }
    | _ -> failwith "auth: bad H line" in
  let members = ref [] in
  fun toks ->
    match toks with
    | ["login"; user; pw; orc] ->
       let o = parse_oracle orc in
       (match Auth.get_permission (pbkdf2_of o) (bcrypt_of o) desc (creds user pw) with
        | Datatypes.Coq_inl (u, perms) -> "ok " ^ hs u ^ " " ^ sorted_perms perms
        | Datatypes.Coq_inr e -> err_class e)
    | ["join"; cid; user; pw; orc] ->
       let o = parse_oracle orc in
       let c = { Auth.cl_id = coq_of_string cid; cl_username = coq_of_string "";
                 cl_permissions = []; cl_group = None } in
       (* a fresh client id in an unlocked group without limits: always admitted *)
       let admission _ _ _ = None in
       let ((members', c'), r) =
         Auth.add_client (pbkdf2_of o) (bcrypt_of o) admission desc !members c (creds user pw) in
       members := members';
       let cls, inits = match r with
         | None -> "ok", 1
         | Some (Auth.JAuth e) -> err_class e, 0
         | Some (Auth.JRefused _) -> "refused", 1 in
       let member = List.exists (fun m -> string_of_coq m = cid) members' in
       String.concat " " [cls; bs member; string_of_int inits; hs c'.Auth.cl_username;
                          sorted_perms c'.Auth.cl_permissions]
    | ["mkpw"; alg; pw; salt; iter; len; cost; orc] ->
       let o = parse_oracle orc in
       let a = match alg with
         | "pbkdf2" -> Auth.AlgPbkdf2 | "bcrypt" -> Auth.AlgBcrypt | "wildcard" -> Auth.AlgWildcard
         | _ -> failwith "auth: bad algorithm" in
       (match Auth.make_password (pbkdf2_of o) (gen_of o) a (cs pw) (cs salt) (z iter) (z len) (z cost) with
        | Some p -> password_token p
        | None -> "refused")
    | _ -> failwith ("auth: bad op " ^ String.concat " " toks)

(* Component authiso: Model/AuthHeap.v with Init copying (copy = true).
   H authiso <id> <stream> <raw array>...
   ilogin <client> r:<role>:<ar>:<ut> | w:<k>     iact <client> <kind> <ar>     ileave <client>
   => c<id>=<permissions in order>;...|<role>=<permissions>;...|<raw array>;...
   The capacity oracle is 0 (no spare capacity): what a client sees does not
   depend on it (Proofs/AuthIsolation.owner_view). *)
let perm_list_coq (l : String0.string list) : string = perm_list (List.map string_of_coq l)
let or_dash l sep = if l = [] then "-" else String.concat sep l

let comp_authiso : Registry.comp = fun params ->
  let raws = List.map parse_raw params in
  let slack _ = Datatypes.O in
  let w = ref (AuthHeap.init_world raws) in
  let ids = ref [] in
  let state () =
    let cs = List.filter_map (fun id ->
        match AuthHeap.perms_of !w (nat_of_int id) with
        | Some l -> Some (Printf.sprintf "c%d=%s" id (perm_list_coq l))
        | None -> None) (List.sort_uniq compare !ids) in
    let roles = List.map (fun (n, l) -> hs n ^ "=" ^ perm_list_coq l) (AuthHeap.role_table !w) in
    let nroles = List.length Roles.roles in
    let rs = List.mapi (fun k _ -> perm_list_coq (List.nth !w.AuthHeap.w_heap (nroles + k))) raws in
    or_dash cs ";" ^ "|" ^ or_dash roles ";" ^ "|" ^ or_dash rs ";" in
  fun toks ->
    let op = match toks with
      | ["ilogin"; c; src] ->
         ids := int_of_string c :: !ids;
         let s = match String.split_on_char ':' src with
           | ["r"; role; ar; ut] -> AuthHeap.SrcRole (cs role, b ar, b ut)
           | ["w"; k] -> AuthHeap.SrcRaw (nat_of_int (int_of_string k))
           | _ -> failwith ("authiso: bad source " ^ src) in
         AuthHeap.Login (nat_of_int (int_of_string c), s)
      | ["iact"; c; kind; ar] ->
         let k = match kind with
           | "op" -> AuthHeap.AOp | "unop" -> AuthHeap.AUnop
           | "present" -> AuthHeap.APresent | "unpresent" -> AuthHeap.AUnpresent
           | "shutup" -> AuthHeap.AShutup | "unshutup" -> AuthHeap.AUnshutup
           | _ -> failwith ("authiso: bad action " ^ kind) in
         AuthHeap.Act (nat_of_int (int_of_string c), k, b ar)
      | ["ileave"; c] -> AuthHeap.Leave (nat_of_int (int_of_string c))
      | _ -> failwith ("authiso: bad op " ^ String.concat " " toks) in
    w := AuthHeap.step slack raws true !w op;
    state ()

let init () = register "auth" comp_auth; register "authiso" comp_authiso;
  register "authws" (fun _ -> fun _ -> "-")   (* monitor-only histories: nothing to compare *)

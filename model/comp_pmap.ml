open Util
open Registry

let comp_pmap : Registry.comp = fun _ ->
  let st = ref PacketMap.pm_init in
  fun toks ->
    let open PacketMap in
    let op = match toks with
      | ["map"; s; p] -> OMap (z s, z p)
      | ["drop"; s; p] -> ODrop (z s, z p)
      | ["reverse"; s] -> OReverse (z s)
      | _ -> failwith ("pmap: bad op " ^ String.concat " " toks) in
    let (st', out) = step !st op in
    st := st';
    match out with
    | RTriple (ok, s, p) -> bs ok ^ " " ^ zs s ^ " " ^ zs p
    | RBool x -> bs x

let init () = register "pmap" comp_pmap

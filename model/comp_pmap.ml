open Util
open Registry

let comp_pmap : Registry.comp = fun _ ->
  let st = ref PacketMap.pm_init in
  fun toks ->
    let open PacketMap in
    if toks = ["dump"] then begin
      let m = !st in
      let hd = String.concat " " [ (if m.m_started then "true" else "false"); zs m.m_next; zs m.m_nextPid;
                                   zs m.m_delta; zs m.m_pidDelta; zs m.m_lastEntry ] in
      match m.m_entries with
      | None -> hd ^ " nil"
      | Some es ->
         List.fold_left (fun acc e -> acc ^ " " ^ zs e.e_first ^ ":" ^ zs e.e_count ^ ":" ^ zs e.e_delta ^ ":" ^ zs e.e_pidDelta) hd es
    end else
    match toks with
    | ["shift"; dk; dp] ->
       let (ok, m') = TestSupport.pm_shift !st (z dk) (z dp) in st := m'; bs ok
    | _ ->
    let op = match toks with
      | ["map"; s; p] -> OMap (z s, z p)
      | ["drop"; s; p] -> ODrop (z s, z p)
      | ["reverse"; s] -> OReverse (z s)
      | _ -> failwith ("pmap: bad op " ^ String.concat " " toks) in
    let (st', out) = step !st op in
    st := st';
    match out with
    | RTriple (ok, s, p) -> bs ok ^ " " ^ zs s ^ " " ^ zs p
    | RBool x -> bs x

let init () = register "pmap" comp_pmap

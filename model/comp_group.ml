(* Glue for the `group` driver (C10): text ops -> steps of Model/Admission.v.
   A Go-level operation that spans several critical sections of Group.mu is
   replayed as the same sequence of atomic model steps:
     join     = SAdd (pending description change) ; SAddClient
     shutdown = SSetLocked true msg ; Kick of the members (kickall snapshot)
   "desc" only rewrites the file: the model sees the new description at the
   next Add, as the code does. *)
open Util
open Registry

let str_of_hex = bytes_of_hex
let hex_of_str = hex_of_bytes

let ev_string e =
  let open Admission in
  match e with
  | EJoined (u, k) ->
     "J" ^ zs u ^ "." ^ (match k with KJoin -> "join" | KLeave -> "leave" | KChange -> "change")
  | EPush (t, add, about) ->
     "P" ^ zs t ^ "." ^ (if add then "add" else "delete") ^ "." ^ hex_of_str about
  | EKick u -> "K" ^ zs u

let events_string evs =
  if evs = [] then "-"
  else String.concat "," (List.sort compare (List.map ev_string evs))

let state_string (g : Admission.group) =
  let open Admission in
  let ids = List.sort compare (List.map (fun (i, _) -> hex_of_str i) g.g_clients) in
  let idl = if ids = [] then "-" else String.concat "," ids in
  let (l, m) = match g.g_locked with Some m -> ("1", hex_of_str m) | None -> ("0", "-") in
  idl ^ " " ^ l ^ " " ^ m ^ " " ^ string_of_int (List.length g.g_clients)

let result_string r =
  let open Admission in
  match r with
  | RAccepted -> "admitted"
  | RAuth -> "auth"
  | RLocked m -> "locked:" ^ hex_of_str m
  | RNotOpen -> "notopen"
  | RClosed -> "closed"
  | RNoOps -> "noops"
  | RTooMany -> "toomany"
  | REmptyId -> "emptyid"
  | RDupId -> "dupid"
  | RDone -> "done"
  | RUnknown -> "unknown"

let opt_z s = if s = "-" then None else Some (z s)

(* "code:isop,..." -> GetPermission as a function of the credential code *)
let auth_of s =
  let tbl = if s = "-" then [] else
    List.map (fun p -> match String.split_on_char ':' p with
                       | [c; o] -> (int_of_string c, b o)
                       | _ -> failwith "group: bad auth table") (String.split_on_char ',' s) in
  fun c -> List.assoc_opt (int_of_z c) tbl

let comp_group : Registry.comp = fun _params ->
  let open Admission in
  let st : group option ref = ref None in
  let pending : desc option ref = ref None in
  let do_add () =
    match !st, !pending with
    | None, Some d -> st := Some (created d); pending := None; []
    | None, None -> failwith "group: add before any description"
    | Some g, r ->
       let (g', o) = step g (SAdd r) in
       st := Some g'; pending := None; o.o_events in
  let cur () = match !st with Some g -> g | None -> failwith "group: no group" in
  fun toks ->
    match toks with
    | ["desc"; mx; al; ak; nb; ex; auth] ->
       pending := Some { d_max_clients = z mx; d_autolock = b al; d_autokick = b ak;
                         d_not_before = opt_z nb; d_expires = opt_z ex; d_auth = auth_of auth };
       "-"
    | ["add"] ->
       let ev = do_add () in
       events_string ev ^ " | " ^ state_string (cur ())
    | ["join"; uid; id; sys; sysop; code] ->
       let ev1 = do_add () in
       let j = { j_uid = z uid; j_id = str_of_hex id; j_sys = b sys; j_sysop = b sysop;
                 j_cred = z code } in
       let (g', o) = step (cur ()) (SAddClient (z "0", j)) in
       st := Some g';
       result_string o.o_res ^ " " ^ events_string (ev1 @ o.o_events) ^ " | " ^ state_string g'
    | ["del"; uid; id] ->
       let (g', o) = step (cur ()) (SDelClient (str_of_hex id, z uid)) in
       st := Some g';
       events_string o.o_events ^ " | " ^ state_string g'
    | ["lock"; bb; msg] ->
       let (g', o) = step (cur ()) (SSetLocked (b bb, str_of_hex msg)) in
       st := Some g';
       events_string o.o_events ^ " | " ^ state_string g'
    | ["shutdown"; msg] ->
       let (g', o) = step (cur ()) (SSetLocked (true, str_of_hex msg)) in
       st := Some g';
       let kicks = List.map (fun (_, c) -> EKick c.c_uid) g'.g_clients in
       events_string (o.o_events @ kicks) ^ " | " ^ state_string g'
    | _ -> failwith ("group: bad op " ^ String.concat " " toks)

(* concurrent batches are checked by the driver's monitors only *)
let comp_groupconc : Registry.comp = fun _ -> fun _ -> "-"

let init () = register "group" comp_group; register "groupconc" comp_groupconc

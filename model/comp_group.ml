(* Glue for the `group` driver (C10): text ops -> steps of Model/Admission.v.
   A Go-level operation that spans several critical sections of Group.mu is
   replayed as the same sequence of atomic model steps:
     join     = TAdd (create / reload / fail) ; SAddClient on the object returned
     shutdown = SSetLocked true msg ; Kick of the members (kickall snapshot)
   "desc" / "corrupt" only replace the file: the model sees it at the next
   Add, as the code does. *)
open Util
open Registry

let str_of_hex = bytes_of_hex
let hex_of_str = hex_of_bytes

let ev_string e =
  let open Admission in
  match e with
  | EJoined (u, k) ->
     "J" ^ zs u ^ "." ^ (match k with KJoin -> "join" | KLeave -> "leave" | KChange -> "change")
  | EPush (t, add, about) ->
     "P" ^ zs t ^ "." ^ (if add then "add" else "delete") ^ "." ^ hex_of_str about
  | EKick u -> "K" ^ zs u

let events_string evs =
  if evs = [] then "-"
  else String.concat "," (List.sort compare (List.map ev_string evs))

let state_string (g : Admission.group) =
  let open Admission in
  let ids = List.sort compare (List.map (fun (i, _) -> hex_of_str i) g.g_clients) in
  let idl = if ids = [] then "-" else String.concat "," ids in
  let (l, m) = match g.g_locked with Some m -> ("1", hex_of_str m) | None -> ("0", "-") in
  idl ^ " " ^ l ^ " " ^ m ^ " " ^ string_of_int (List.length g.g_clients)

let result_string r =
  let open Admission in
  match r with
  | RAccepted -> "admitted"
  | RAuth -> "auth"
  | RLocked m -> "locked:" ^ hex_of_str m
  | RNotOpen -> "notopen"
  | RClosed -> "closed"
  | RNoOps -> "noops"
  | RTooMany -> "toomany"
  | REmptyId -> "emptyid"
  | RDupId -> "dupid"
  | RDone -> "done"
  | RUnknown -> "unknown"

let opt_z s = if s = "-" then None else Some (z s)

(* "code:isop,..." -> GetPermission as a function of the credential code *)
let auth_of s =
  let tbl = if s = "-" then [] else
    List.map (fun p -> match String.split_on_char ':' p with
                       | [c; o] -> (int_of_string c, b o)
                       | _ -> failwith "group: bad auth table") (String.split_on_char ',' s) in
  fun c -> List.assoc_opt (int_of_z c) tbl

let rec int_of_nat = function Datatypes.O -> 0 | Datatypes.S n -> 1 + int_of_nat n

(* The whole history of one group NAME runs through the table layer of the
   model (tstep): desc/corrupt replace the file, add/join go through TAdd,
   every other operation is a critical section of the object the client holds
   (the object it entered; for lock/shutdown/DelClient-by-a-stranger the
   registered object). *)
let comp_group : Registry.comp = fun _params ->
  let open Admission in
  let tb : table ref = ref tinit in
  let where : (string, Datatypes.nat) Hashtbl.t = Hashtbl.create 16 in  (* uid -> object entered *)
  let cur_state () =
    match !tb.t_cur with
    | None -> "absent"
    | Some k -> (match List.nth_opt !tb.t_objs (int_of_nat k) with
                 | Some g -> state_string g
                 | None -> "absent") in
  let tdo s = let (t', r) = tstep !tb s in tb := t'; r in
  let on_cur s =
    match !tb.t_cur with
    | None -> failwith "group: no registered group"
    | Some k -> (match tdo (TOn (k, s)) with TOut o -> o | _ -> failwith "group: bad step") in
  fun toks ->
    match toks with
    | ["desc"; mx; al; ak; nb; ex; auth] ->
       ignore (tdo (TWrite (Some { d_max_clients = z mx; d_autolock = b al; d_autokick = b ak;
                                   d_not_before = opt_z nb; d_expires = opt_z ex;
                                   d_auth = auth_of auth })));
       "-"
    | ["corrupt"; _mode] -> ignore (tdo (TWrite None)); "-"
    | ["add"] ->
       (match tdo TAdd with
        | TAddOk (_, ev) -> "ok " ^ events_string ev ^ " | " ^ cur_state ()
        | _ -> "adderr - | " ^ cur_state ())
    | ["join"; uid; id; sys; sysop; code] ->
       (* AddClient: Add, then the entry step; an object found deleted sends
          the joiner back to Add (cannot happen in a sequential history) *)
       let j = { j_uid = z uid; j_id = str_of_hex id; j_sys = b sys; j_sysop = b sysop;
                 j_cred = z code } in
       let rec attempt n evs =
         if n = 0 then failwith "group: join keeps retrying" else
         match tdo TAdd with
         | TAddOk (k, ev1) ->
            (match tdo (TOn (k, SAddClient (z "0", j))) with
             | TOut o ->
                if o.o_res = RAccepted then Hashtbl.replace where uid k;
                result_string o.o_res ^ " " ^ events_string (evs @ ev1 @ o.o_events)
                ^ " | " ^ cur_state ()
             | TRetry -> attempt (n - 1) (evs @ ev1)
             | _ -> failwith "group: bad join step")
         | _ -> "adderr " ^ events_string evs ^ " | " ^ cur_state () in
       attempt 3 []
    | ["del"; uid; id] ->
       let k = match Hashtbl.find_opt where uid with
         | Some k -> k
         | None -> (match !tb.t_cur with Some k -> k | None -> failwith "group: del without group") in
       (match tdo (TOn (k, SDelClient (str_of_hex id, z uid))) with
        | TOut o ->
           if o.o_res = RDone then Hashtbl.remove where uid;
           events_string o.o_events ^ " | " ^ cur_state ()
        | _ -> failwith "group: bad del step")
    | ["lock"; bb; msg] ->
       let o = on_cur (SSetLocked (b bb, str_of_hex msg)) in
       events_string o.o_events ^ " | " ^ cur_state ()
    | ["shutdown"; msg] ->
       let o = on_cur (SSetLocked (true, str_of_hex msg)) in
       let g = match !tb.t_cur with
         | Some k -> List.nth !tb.t_objs (int_of_nat k) | None -> failwith "group: no group" in
       let kicks = List.map (fun (_, c) -> EKick c.c_uid) g.g_clients in
       events_string (o.o_events @ kicks) ^ " | " ^ cur_state ()
    | ["delete"] ->
       (match tdo TDelete with
        | TDeleted r -> bs r ^ " | " ^ cur_state ()
        | _ -> failwith "group: bad delete step")
    | _ -> failwith ("group: bad op " ^ String.concat " " toks)

(* concurrent batches are checked by the driver's monitors only *)
let comp_groupconc : Registry.comp = fun _ -> fun _ -> "-"

let init () = register "group" comp_group; register "groupconc" comp_groupconc

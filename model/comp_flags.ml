open Util
open Registry
let comp_flags : comp = fun _ ->
  fun toks ->
    match toks with
    | ["flags"; codec; data] ->
       let c = match codec with "vp8" -> Flags.CVP8 | "vp9" -> Flags.CVP9 | _ -> Flags.COther in
       (match Flags.packet_flags c (bytes_of_hex data) with
        | Flags.FErr -> "err"
        | Flags.FUnmodelled -> "unmodelled"
        | Flags.FOk (f, disc) ->
           String.concat " " [
             zs f.Layers.f_seqno; bs f.Layers.f_marker; bs f.Layers.f_start; bs f.Layers.f_end;
             bs f.Layers.f_keyframe; zs f.Layers.f_pid; zs f.Layers.f_tid; zs f.Layers.f_sid;
             bs f.Layers.f_tidUpSync; bs f.Layers.f_sidUpSync; bs f.Layers.f_sidNonReference; bs disc ])
    | _ -> failwith "flags: bad op"
let init () = register "flags" comp_flags

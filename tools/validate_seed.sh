#!/bin/bash
# validate_seed.sh <dir with patch.diff, seeded_demo_test.go, meta.json>
# Confirms in a scratch worktree of /repo: builds and suite passes with the patch,
# demo fails with the patch and passes without it.  Prints one summary line.
set -u
d=$(cd "$1" && pwd)
S=/tmp/vseed-$$
export GOFLAGS=-mod=mod GOPROXY=off
git -C /repo worktree add -q --detach $S HEAD || exit 2
pkg=$(python3 -c "import json;print(json.load(open('$d/meta.json'))['demo_package'])")
run=$(python3 -c "import json;print(json.load(open('$d/meta.json'))['demo_run'])")
cd $S
res=""
if git apply "$d/patch.diff"; then
  if go build ./... >/dev/null 2>&1; then res="$res builds=yes"; else res="$res builds=NO"; fi
  # the suite has a fixed-port test (webserver, localhost:1234) and a sleep-accuracy test
  # (rtptime): one suite at a time, and packages that fail are re-run alone up to 3 times
  L=/tmp/vseed-suite.$$.log
  if flock /tmp/vseed-suite.lock go test -vet=off -count=1 -p 4 ./... >$L 2>&1; then res="$res suite=pass"; else
     ok=1
     for pk in $(grep -E '^(FAIL|---)?\s*FAIL\s+github.com' $L | awk '{print $2}' | sort -u); do
        good=0
        for i in 1 2 3; do if flock /tmp/vseed-suite.lock go test -vet=off -count=1 -p 1 $pk >>$L 2>&1; then good=1; break; fi; done
        [ $good = 1 ] || ok=0
     done
     if [ $ok = 1 ]; then res="$res suite=pass(retry)"; else res="$res suite=FAIL"; cp $L /tmp/vseed-suite-fail.log; fi
  fi
  rm -f $L
  cp "$d/seeded_demo_test.go" $S/$pkg/seeded_demo_test.go
  if eval "$run" >/tmp/vseed-demo1.log 2>&1; then res="$res demo_with_patch=PASSES(bad)"; else res="$res demo_with_patch=fails"; fi
  git apply -R "$d/patch.diff"
  if eval "$run" >/tmp/vseed-demo2.log 2>&1; then res="$res demo_without_patch=passes"; else res="$res demo_without_patch=FAILS(bad)"; fi
else
  res="patch does not apply"
fi
cd /
git -C /repo worktree remove --force $S
echo "SEED $d:$res"

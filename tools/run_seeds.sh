#!/bin/bash
# run_seeds.sh <Cxx>... : validates every /tmp/seed-Cxx/out/<k> and runs the property's quick check on it
for p in "$@"; do
  for d in ${SEEDPREFIX:-/tmp/seed-}$p/out/*/; do
    [ -f "$d/patch.diff" ] || continue
    k=$(basename $d)
    echo "##### $p/$k: $(python3 -c "import json;print(json.load(open('$d/meta.json')).get('summary','')[:200])")"
    /verif/tools/validate_seed.sh $d
    MUT_TAIL=4 /verif/tools/mutcheck.sh seed-$p-$k $d/patch.diff $p 2>&1 | grep -v "^===" | cut -c1-300
  done
done

#!/bin/bash
# c13_race.sh [seed] [n]: supporting run for property C13 (the lifecycle driver is also run under
# the race detector by ./check itself; this wrapper adds the unbounded driver and prints the reports):
# builds the C13 concurrency drivers (lifecycle, unbounded) with the Go race
# detector against /repo (or $VERIF_REPO) in a scratch directory, runs them,
# and prints the number of DATA RACE reports and the first one.  A report is a
# finding about the real code (the drivers' own bookkeeping is mutex-protected).
set -u
seed=${1:-1}; n=${2:-60}
REPO=${VERIF_REPO:-/repo}
W=$(mktemp -d /tmp/c13race.XXXXXX)
trap 'rm -rf $W' EXIT
export GOFLAGS=-mod=mod GOPROXY=off
mkdir -p $W/h/cmd $W/h/internal
cp -r /verif/harness/cmd/lifecycle /verif/harness/cmd/unbounded $W/h/cmd/
cp -r /verif/harness/internal/tr $W/h/internal/
cp $REPO/go.sum $W/h/
printf 'module verifharness\n\ngo 1.24.0\n\nrequire github.com/jech/galene v0.0.0\n\nreplace github.com/jech/galene => %s\n' "$REPO" > $W/h/go.mod
rc=0
for d in lifecycle unbounded; do
  (cd $W/h && go build -race -tags verif -o $W/$d ./cmd/$d) || { echo "build of $d with -race failed"; rc=2; continue; }
  GORACE="halt_on_error=0 log_path=$W/race.$d" $W/$d -seed $seed -n $n -out $W/$d.trace >/dev/null 2>$W/$d.err
  races=$(cat $W/race.$d.* 2>/dev/null | grep -c "WARNING: DATA RACE")
  fails=$(wc -l < $W/$d.trace.monitor 2>/dev/null || echo "?")
  echo "driver=$d seed=$seed n=$n data_races=$races monitor_failures=$fails"
  if [ "$races" != 0 ]; then
    rc=1
    cat $W/race.$d.* | sed -n '1,40p'
  fi
done
exit $rc

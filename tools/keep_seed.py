#!/usr/bin/env python3
"""keep_seed.py <src dir> <seed id> <property> <result: caught|missed> <by what / note>
Archives a validated seeded change under /verif/seeded/<seed id>/."""
import json, os, shutil, sys
src, sid, prop, result, note = sys.argv[1:6]
dst = os.path.join("/verif/seeded", sid)
os.makedirs(dst, exist_ok=True)
for f in ("patch.diff", "seeded_demo_test.go"):
    shutil.copy(os.path.join(src, f), os.path.join(dst, f))
m = json.load(open(os.path.join(src, "meta.json")))
m["property"] = prop
m["confirmed_by_coordinator"] = "tools/validate_seed.sh: builds, unchanged suite passes with the change, demo fails with it and passes without it"
m["check_result"] = result
m["check_note"] = note
m["ran"] = "tools/mutcheck.sh (scratch worktree of /repo + scratch copy of /verif): ./check %s --tier quick" % prop
json.dump(m, open(os.path.join(dst, "meta.json"), "w"), indent=1)
print("kept", dst)

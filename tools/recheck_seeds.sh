#!/bin/bash
# recheck_seeds.sh [<seed id>...] : runs the quick check of each archived seed's property on a
# scratch copy of /repo with the seed applied (tools/mutcheck.sh); prints one line per seed:
#   SEED <id> <property> caught|MISSED|noapply
cd /verif
ids="$@"; [ -z "$ids" ] && ids=$(ls seeded)
for id in $ids; do
  d=/verif/seeded/$id; [ -f $d/patch.diff ] || continue
  p=$(python3 -c "import json;print(json.load(open('$d/meta.json'))['property'])")
  out=$(MUT_TAIL=40 tools/mutcheck.sh rs-$id $d/patch.diff $p 2>&1)
  if echo "$out" | grep -q "PATCH DOES NOT APPLY"; then r=noapply
  elif echo "$out" | grep -q "^VIOLATION property=$p"; then r=caught
  else r=MISSED; fi
  echo "SEED $id $p $r $(echo "$out" | grep -c '^VIOLATION') violation-lines"
done

#!/bin/bash
# mutcheck.sh <scratch-name> <patch.diff> <Cxx> [<Cxx>...]
# Runs the quick checks of the given properties against a scratch copy of /repo
# (HEAD + the untracked verif hook files) with the patch applied, using a
# scratch copy of /verif, so that neither /repo nor /verif is touched.
# Prints the last lines of each check and removes the scratch copies.
set -u
name=$1; patch=$2; shift 2
S=/tmp/mut-$name
rm -rf $S; mkdir -p $S
git -C /repo worktree add -q --detach $S/repo HEAD || exit 2
(cd /repo && git ls-files --others --exclude-standard -z | xargs -0 -r -I{} cp --parents {} $S/repo/)
if [ "$patch" != "-" ]; then
  if ! git -C $S/repo apply "$patch"; then echo "PATCH DOES NOT APPLY"; git -C /repo worktree remove --force $S/repo; rm -rf $S; exit 2; fi
fi
rsync -a --exclude work/drv_* --exclude 'work/*.trace*' --exclude evidence/replays /verif/ $S/verif/
rc=0
for p in "$@"; do
  echo "=== $p on mutated tree"
  (cd $S/verif && VERIF_REPO=$S/repo timeout 1800 ./check $p --tier quick 2>&1 | tail -${MUT_TAIL:-6}) || true
done
if [ "${MUT_KEEP:-0}" = 0 ]; then
  git -C /repo worktree remove --force $S/repo; rm -rf $S
fi

// pushconn.go: Generated/PushConn.v -- the SOURCE TEXT of rtpconn.pushConn
// (the function that schedules the delayed push of a new up connection / a
// new track), printed by go/printer without comments, one Coq string per
// line.
//
// Why: the C07 driver decides WHEN a delayed push happens through the hook
// rtpconn/verif_export_c07.go VerifUp.Fire, which re-states the body of the
// goroutine of pushConn (test-and-set of `pushed`, then pushConnNow on the
// clients that are in the group at that moment), and Model/Subscribe.v
// (new_timer / fire_timer) transcribes the same lines.  Neither can see an
// edit of that body.  Proofs/SubscribePinned.v states that the text below is
// the text the hook and the model were written against, so that ANY edit of
// pushConn makes the C07 proof obligation fail until hook, model and pinned
// text have been brought in line with it.  (Real-timer histories of the driver
// look for a concrete failing schedule.)
package main

import (
	"bytes"
	"fmt"
	"go/printer"
	"strings"
)

func init() { generators = append(generators, genPushConn) }

func pushConnCoqString(s string) string {
	s = strings.ReplaceAll(s, "\"", "\"\"")
	s = strings.ReplaceAll(s, "\t", "  ")
	return "\"" + s + "\""
}

func genPushConn() {
	f := parse("rtpconn/rtpconn.go")
	var e emitter
	e.header("Source text of rtpconn.pushConn (rtpconn/rtpconn.go), see gen/pushconn.go.")
	lines := []string{"pushConn not found"}
	if fd := f.funcDecl("pushConn"); fd != nil {
		fd.Doc = nil
		var buf bytes.Buffer
		cfg := printer.Config{Mode: printer.UseSpaces | printer.TabIndent, Tabwidth: 8}
		// printing a bare node drops the comments inside it
		if err := cfg.Fprint(&buf, f.fset, fd); err == nil {
			lines = nil
			for _, l := range strings.Split(buf.String(), "\n") {
				if strings.TrimSpace(l) == "" {
					continue
				}
				lines = append(lines, strings.TrimRight(l, " \t"))
			}
		}
	}
	fmt.Fprintf(&e.sb, "Definition pushConn_text : list string := [\n")
	for i, l := range lines {
		sep := ";"
		if i == len(lines)-1 {
			sep = ""
		}
		fmt.Fprintf(&e.sb, "  %s%%string%s\n", pushConnCoqString(l), sep)
	}
	fmt.Fprintf(&e.sb, "].\n")
	e.write("PushConn.v")
}

// routes.go: Generated/Routes.v -- the branch structure of the administrative
// API (webserver/api.go).  Starting from apiHandler, every function of api.go
// that takes the http.ResponseWriter and is reached by a call is walked as a
// handler.  The walk is syntactic and path-sensitive: it enumerates the paths
// through the statements of a handler, tracking which of
//
//	if apiCORS(w, r, "...") { return }
//	if !checkAdmin(w, r, X) { return }                       X = "" or g
//	if !checkAdminOrExplicitPassword(w, r, g, user) { return }
//
// have been passed, and emits one table row for every call that is an EFFECT
// or a READ (any call into the packages group, token, stats; sendJSON; any
// other call that is handed w; calls that are not known to be harmless), for
// every 404 / 405 leaf and for every delegation to another handler, together
// with the guard that dominates it on that path.  A shape that is not
// understood yields a row with guard g_unknown, which makes the lemma
// Proofs/ApiGate.routes_ok fail.
package main

import (
	"bytes"
	"fmt"
	"go/ast"
	"go/printer"
	"go/token"
	"sort"
	"strconv"
	"strings"
)

func init() { generators = append(generators, genRoutes) }

type rtRow struct {
	handler, branch, effect, guard, scope string
	cors, nonwild                         bool
	line                                  int
}

type rtState struct {
	guard      string // none | server_admin | group_admin | admin_or_own_password
	cors       bool
	tokRead    bool // a token was fetched by name on this path
	tokChecked bool // ... and `old.Group != g` has been tested since
	tokSet     bool // `newtoken.Group = g` has been executed
	conds      []string
}

func (s rtState) with(cond string) rtState {
	n := s
	n.conds = append(append([]string{}, s.conds...), cond)
	return n
}

type rtWalker struct {
	f        *file
	decls    map[string]*ast.FuncDecl
	imports  map[string]bool
	fn       *ast.FuncDecl
	assigned map[string]bool
	rows     []rtRow
	seen     map[string]bool
	work     []string
	done     map[string]bool
	paths    int
}

const rtMaxPaths = 200000

// functions of the package that write the response for the caller and
// neither read nor change group data
var rtResponders = map[string]bool{
	"httpError": true, "internalError": true, "failAuthentication": true,
	"getJSON": true, "getText": true, "checkPreconditions": true,
}

// checks and helpers of api.go that are not handlers
var rtNotHandlers = map[string]bool{
	"checkAdmin": true, "checkAdminOrExplicitPassword": true, "apiCORS": true,
	"sendJSON": true, "getJSON": true, "getText": true,
}

// packages all of whose functions are harmless here
var rtPurePkgs = map[string]bool{
	"strings": true, "errors": true, "mime": true, "rand": true, "base64": true,
	"bcrypt": true, "log": true, "slices": true,
}

var rtBuiltins = map[string]bool{
	"string": true, "make": true, "len": true, "append": true, "cap": true,
	"copy": true, "new": true, "byte": true, "int": true,
}

func rtSrc(fset *token.FileSet, n ast.Node) string {
	var b bytes.Buffer
	printer.Fprint(&b, fset, n)
	return strings.Join(strings.Fields(b.String()), " ")
}

func rtCoqString(s string) string {
	var b strings.Builder
	b.WriteByte('"')
	for _, r := range s {
		switch {
		case r == '"':
			b.WriteString(`""`)
		case r < 32 || r > 126:
			b.WriteByte('?')
		default:
			b.WriteRune(r)
		}
	}
	b.WriteByte('"')
	return b.String()
}

func rtIdent(e ast.Expr, name string) bool {
	id, ok := e.(*ast.Ident)
	return ok && id.Name == name
}

func rtIsEmptyStringLit(e ast.Expr) bool {
	bl, ok := e.(*ast.BasicLit)
	if !ok || bl.Kind != token.STRING {
		return false
	}
	s, err := strconv.Unquote(bl.Value)
	return err == nil && s == ""
}

// rtCallName returns (package-or-root identifier, printed name).
func (w *rtWalker) callName(c *ast.CallExpr) (root string, name string) {
	name = rtSrc(w.f.fset, c.Fun)
	var e ast.Expr = c.Fun
	for {
		switch v := e.(type) {
		case *ast.SelectorExpr:
			e = v.X
			continue
		case *ast.CallExpr:
			e = v.Fun
			continue
		case *ast.ParenExpr:
			e = v.X
			continue
		case *ast.IndexExpr:
			e = v.X
			continue
		case *ast.Ident:
			return v.Name, name
		}
		return "", name
	}
}

func (w *rtWalker) emit(st rtState, n ast.Node, effect, scope string) {
	w.emitG(st, n, effect, scope, st.guard)
}

func (w *rtWalker) emitG(st rtState, n ast.Node, effect, scope, guard string) {
	nonwild := false
	for _, c := range st.conds {
		if c == "!(wildcard)" {
			nonwild = true
		}
	}
	line := w.f.fset.Position(n.Pos()).Line
	key := fmt.Sprint(w.fn.Name.Name, "|", line, "|", effect, "|", guard, "|", scope, "|", st.cors, "|", nonwild)
	if w.seen[key] {
		return
	}
	w.seen[key] = true
	w.rows = append(w.rows, rtRow{handler: w.fn.Name.Name, branch: strings.Join(st.conds, " && "),
		effect: effect, guard: guard, scope: scope, cors: st.cors, nonwild: nonwild, line: line})
}

func (w *rtWalker) unknown(st rtState, n ast.Node, what string) {
	w.emitG(st, n, "unknown:"+what, "sc_other", "unknown")
}

func rtHasW(c *ast.CallExpr) bool {
	for _, a := range c.Args {
		if rtIdent(a, "w") {
			return true
		}
	}
	return false
}

// isHandlerDecl: a function of api.go whose first parameter is the
// http.ResponseWriter and that is not one of the checks/helpers.
func (w *rtWalker) isHandlerDecl(name string) bool {
	fd := w.decls[name]
	if fd == nil || rtNotHandlers[name] || fd.Type.Params == nil || len(fd.Type.Params.List) == 0 {
		return false
	}
	return rtSrc(w.f.fset, fd.Type.Params.List[0].Type) == "http.ResponseWriter"
}

// paramIndex returns the index of the parameter called name, or -1.
func rtParamIndex(fd *ast.FuncDecl, name string) int {
	i := 0
	for _, p := range fd.Type.Params.List {
		if len(p.Names) == 0 {
			i++
			continue
		}
		for _, n := range p.Names {
			if n.Name == name {
				return i
			}
			i++
		}
	}
	return -1
}

// call classifies one call on the current path.
func (w *rtWalker) call(st rtState, c *ast.CallExpr) {
	root, name := w.callName(c)
	_, isSel := c.Fun.(*ast.SelectorExpr)
	switch {
	case name == "checkAdmin" || name == "checkAdminOrExplicitPassword" || name == "apiCORS":
		// outside the recognised `if ... { return }` shape
		w.unknown(st, c, name+" in an unrecognised position")
	case name == "http.NotFound" || name == "notFound":
		g := st.guard
		if g == "none" {
			g = "notfound_only"
		}
		w.emitG(st, c, "notFound", "sc_none", g)
	case name == "methodNotAllowed":
		w.emit(st, c, "methodNotAllowed", "sc_none")
	case name == "sendJSON":
		scope := "sc_none"
		if st.tokRead {
			scope = "sc_token_unchecked"
			if st.tokChecked {
				scope = "sc_token_checked"
			}
		}
		w.emit(st, c, "sendJSON", scope)
	case !isSel && w.isHandlerDecl(name):
		scope := "sc_none"
		if i := rtParamIndex(w.decls[name], "g"); i >= 0 {
			scope = "sc_other"
			if i < len(c.Args) && rtIdent(c.Args[i], "g") {
				scope = "sc_group"
			}
		}
		w.emit(st, c, "handler:"+name, scope)
		if !w.done[name] {
			w.done[name] = true
			w.work = append(w.work, name)
		}
	case !isSel && rtResponders[name]:
	case !isSel && rtBuiltins[name]:
	case !isSel && name == "splitPath":
	case isSel && w.imports[root] && (root == "group" || root == "token" || root == "stats"):
		w.dataCall(st, c, name)
	case isSel && w.imports[root] && rtPurePkgs[root]:
	case name == "http.Error" || name == "http.MaxBytesReader" || name == "json.NewDecoder" || name == "io.ReadAll":
	case isSel && !w.imports[root] && (root == "w" || root == "r" || root == "d" || root == "old"):
		// methods of the response writer, the request, the JSON decoder and a
		// fetched token; only writing the body is an effect
		if name == "w.Write" {
			w.emit(st, c, "output:"+name, "sc_other")
		}
	default:
		what := "call:" + name
		if rtHasW(c) {
			what = "output:" + name
		}
		w.emit(st, c, what, "sc_other")
	}
}

// dataCall: a call into package group, token or stats.
func (w *rtWalker) dataCall(st rtState, c *ast.CallExpr, name string) {
	switch name {
	case "token.Get":
		w.emit(st, c, name, "sc_token_read")
		return
	case "token.Delete":
		if st.tokRead && st.tokChecked {
			w.emit(st, c, name, "sc_token_checked")
		} else {
			w.emit(st, c, name, "sc_token_unchecked")
		}
		return
	case "token.Update":
		// the group of the stored token is forced to g; replacing an existing
		// token additionally needs the group test, creating one (etag "") not
		ok := st.tokSet && (st.tokChecked || (len(c.Args) == 2 && rtIsEmptyStringLit(c.Args[1])))
		if ok {
			w.emit(st, c, name, "sc_token_checked")
		} else {
			w.emit(st, c, name, "sc_token_unchecked")
		}
		return
	}
	if len(c.Args) == 0 {
		w.emit(st, c, name, "sc_global")
		return
	}
	if rtIdent(c.Args[0], "g") {
		w.emit(st, c, name, "sc_group")
		return
	}
	w.emit(st, c, name, "sc_other")
}

// calls visits the calls of an expression or simple statement in source
// order (function literals are not entered: a closure is an unknown shape).
func (w *rtWalker) calls(st rtState, n ast.Node) {
	if n == nil {
		return
	}
	ast.Inspect(n, func(x ast.Node) bool {
		switch v := x.(type) {
		case *ast.FuncLit:
			w.unknown(st, v, "function literal")
			return false
		case *ast.CallExpr:
			// arguments first (evaluation order), then the call itself
			for _, a := range v.Args {
				w.calls(st, a)
			}
			if _, ok := v.Fun.(*ast.Ident); !ok {
				// receiver expression, e.g. w.Header() in w.Header().Set(..)
				if se, ok := v.Fun.(*ast.SelectorExpr); ok {
					w.calls(st, se.X)
				}
			}
			w.call(st, v)
			return false
		}
		return true
	})
}

func rtStrongest(a, b string) string {
	rank := map[string]int{"none": 0, "admin_or_own_password": 1, "group_admin": 2, "server_admin": 3, "unknown": -1}
	if a == "unknown" || b == "unknown" {
		return "unknown"
	}
	if rank[b] > rank[a] {
		return b
	}
	return a
}

// isReturnOnly: `{ return }`
func rtReturnOnly(b *ast.BlockStmt) bool {
	if b == nil || len(b.List) != 1 {
		return false
	}
	r, ok := b.List[0].(*ast.ReturnStmt)
	return ok && len(r.Results) == 0
}

// guardIf recognises the three guard statements.  It returns the state
// after the statement and true, or false if the statement is not a guard.
func (w *rtWalker) guardIf(st rtState, s *ast.IfStmt) (rtState, bool) {
	if s.Init != nil || s.Else != nil || !rtReturnOnly(s.Body) {
		return st, false
	}
	cond := s.Cond
	neg := false
	if u, ok := cond.(*ast.UnaryExpr); ok && u.Op == token.NOT {
		neg = true
		cond = u.X
	}
	c, ok := cond.(*ast.CallExpr)
	if !ok {
		return st, false
	}
	name := rtSrc(w.f.fset, c.Fun)
	switch {
	case name == "apiCORS" && !neg && len(c.Args) == 3 && rtIdent(c.Args[0], "w") && rtIdent(c.Args[1], "r"):
		n := st.with("!apiCORS")
		n.cors = true
		return n, true
	case name == "checkAdmin" && neg && len(c.Args) == 3 && rtIdent(c.Args[0], "w") && rtIdent(c.Args[1], "r"):
		n := st.with("checkAdmin(" + rtSrc(w.f.fset, c.Args[2]) + ")")
		switch {
		case rtIsEmptyStringLit(c.Args[2]):
			n.guard = rtStrongest(st.guard, "server_admin")
		case rtIdent(c.Args[2], "g"):
			n.guard = rtStrongest(st.guard, "group_admin")
		default:
			n.guard = "unknown"
		}
		return n, true
	case name == "checkAdminOrExplicitPassword" && neg && len(c.Args) == 4 && rtIdent(c.Args[0], "w") && rtIdent(c.Args[1], "r"):
		n := st.with("checkAdminOrExplicitPassword(" + rtSrc(w.f.fset, c.Args[2]) + ", " + rtSrc(w.f.fset, c.Args[3]) + ")")
		if rtIdent(c.Args[2], "g") && rtIdent(c.Args[3], "user") && !w.assigned["user"] {
			n.guard = rtStrongest(st.guard, "admin_or_own_password")
		} else {
			n.guard = "unknown"
		}
		return n, true
	}
	return st, false
}

// tokGroupTest: `old.Group != g` or `old != nil && old.Group != g`
func (w *rtWalker) tokGroupTest(e ast.Expr) bool {
	s := rtSrc(w.f.fset, e)
	return s == "old.Group != g" || s == "old != nil && old.Group != g"
}

// block walks stmts on the path st and calls k with the state at the end of
// every path that falls out of the block.
func (w *rtWalker) block(stmts []ast.Stmt, st rtState, k func(rtState)) {
	if len(stmts) == 0 {
		w.paths++
		k(st)
		return
	}
	if w.paths > rtMaxPaths {
		return
	}
	s, rest := stmts[0], stmts[1:]
	next := func(n rtState) { w.block(rest, n, k) }
	switch v := s.(type) {
	case *ast.ReturnStmt:
		for _, r := range v.Results {
			w.calls(st, r)
		}
		w.paths++
		return
	case *ast.BlockStmt:
		w.block(v.List, st, next)
	case *ast.IfStmt:
		if n, ok := w.guardIf(st, v); ok {
			next(n)
			return
		}
		if v.Init != nil {
			w.simple(&st, v.Init)
		}
		w.calls(st, v.Cond)
		cs := rtSrc(w.f.fset, v.Cond)
		thenSt := st.with(cs)
		elseSt := st.with("!(" + cs + ")")
		if w.tokGroupTest(v.Cond) {
			// the test is passed on the else path
			elseSt.tokChecked = true
		}
		w.block(v.Body.List, thenSt, next)
		switch e := v.Else.(type) {
		case nil:
			next(elseSt)
		case *ast.BlockStmt:
			w.block(e.List, elseSt, next)
		case *ast.IfStmt:
			w.block([]ast.Stmt{e}, elseSt, next)
		default:
			w.unknown(st, v, "else")
		}
	case *ast.SwitchStmt:
		if v.Init != nil {
			w.simple(&st, v.Init)
		}
		w.calls(st, v.Tag)
		tag := "true"
		if v.Tag != nil {
			tag = rtSrc(w.f.fset, v.Tag)
		}
		hasDefault := false
		for _, cc := range v.Body.List {
			cl := cc.(*ast.CaseClause)
			var alts []string
			for _, e := range cl.List {
				w.calls(st, e)
				alts = append(alts, tag+" == "+rtSrc(w.f.fset, e))
			}
			cond := strings.Join(alts, " || ")
			if cl.List == nil {
				hasDefault = true
				cond = tag + " default"
			}
			w.block(cl.Body, st.with(cond), next)
		}
		if !hasDefault {
			next(st.with(tag + " no case"))
		}
	case *ast.ForStmt:
		if v.Init != nil {
			w.simple(&st, v.Init)
		}
		w.calls(st, v.Cond)
		w.block(v.Body.List, st.with("loop"), func(rtState) {})
		if v.Post != nil {
			w.calls(st, v.Post)
		}
		// what a loop body establishes does not hold after the loop
		next(st)
	case *ast.RangeStmt:
		w.calls(st, v.X)
		w.block(v.Body.List, st.with("loop"), func(rtState) {})
		next(st)
	case *ast.BranchStmt:
		if v.Tok == token.BREAK || v.Tok == token.CONTINUE {
			w.paths++
			return
		}
		w.unknown(st, v, v.Tok.String())
	case *ast.ExprStmt, *ast.AssignStmt, *ast.DeclStmt, *ast.IncDecStmt, *ast.EmptyStmt:
		w.simple(&st, s)
		next(st)
	default:
		w.unknown(st, s, fmt.Sprintf("%T", s))
	}
}

// simple handles a statement without control flow.
func (w *rtWalker) simple(st *rtState, s ast.Stmt) {
	switch v := s.(type) {
	case *ast.AssignStmt:
		for _, r := range v.Rhs {
			w.calls(*st, r)
		}
		for _, l := range v.Lhs {
			// an index or field on the left may contain calls too
			if _, ok := l.(*ast.Ident); !ok {
				w.calls(*st, l)
			}
			if rtIdent(l, "g") && st.guard != "none" {
				w.unknown(*st, v, "g assigned after the check")
			}
		}
		for _, r := range v.Rhs {
			if c, ok := r.(*ast.CallExpr); ok && rtSrc(w.f.fset, c.Fun) == "token.Get" {
				st.tokRead = true
				st.tokChecked = false
			}
		}
		if len(v.Lhs) == 1 && len(v.Rhs) == 1 && rtSrc(w.f.fset, v.Lhs[0]) == "newtoken.Group" {
			st.tokSet = rtIdent(v.Rhs[0], "g")
		}
	case *ast.ExprStmt:
		w.calls(*st, v.X)
	case *ast.DeclStmt:
		w.calls(*st, v.Decl)
	case *ast.IncDecStmt:
		w.calls(*st, v.X)
	case *ast.EmptyStmt:
	default:
		w.unknown(*st, s, fmt.Sprintf("%T", s))
	}
}

func rtAssigned(fd *ast.FuncDecl) map[string]bool {
	out := map[string]bool{}
	ast.Inspect(fd.Body, func(n ast.Node) bool {
		switch v := n.(type) {
		case *ast.AssignStmt:
			for _, l := range v.Lhs {
				if id, ok := l.(*ast.Ident); ok {
					out[id.Name] = true
				}
			}
		case *ast.RangeStmt:
			for _, e := range []ast.Expr{v.Key, v.Value} {
				if id, ok := e.(*ast.Ident); ok {
					out[id.Name] = true
				}
			}
		case *ast.UnaryExpr:
			if v.Op == token.AND {
				if id, ok := v.X.(*ast.Ident); ok {
					out[id.Name] = true
				}
			}
		}
		return true
	})
	return out
}

// rtCheckDef reads `ok = isAdminOrExplicitPassword(groupname, X, creds)` out
// of checkAdmin / checkAdminOrExplicitPassword and returns the text of X, and
// whether the function has the expected frame: the only `return true` is the
// last statement and it is preceded by `if !ok { failAuthentication(..); return false }`.
func rtCheckDef(f *file, name string) string {
	fd := f.funcDecl(name)
	if fd == nil || fd.Body == nil {
		return "missing"
	}
	arg := "unknown"
	n := 0
	ast.Inspect(fd.Body, func(x ast.Node) bool {
		if c, ok := x.(*ast.CallExpr); ok && rtSrc(f.fset, c.Fun) == "isAdminOrExplicitPassword" {
			n++
			if len(c.Args) == 3 && rtSrc(f.fset, c.Args[0]) == "groupname" && rtSrc(f.fset, c.Args[2]) == "creds" {
				arg = rtSrc(f.fset, c.Args[1])
			}
		}
		return true
	})
	if n != 1 {
		return "unknown"
	}
	l := fd.Body.List
	if len(l) < 3 {
		return "unknown"
	}
	if rtSrc(f.fset, l[len(l)-1]) != "return true" {
		return "unknown"
	}
	if rtSrc(f.fset, l[len(l)-2]) != `if !ok { failAuthentication(w, "/galene-api/") return false }` {
		return "unknown"
	}
	if rtSrc(f.fset, l[len(l)-3]) != "ok = isAdminOrExplicitPassword(groupname, "+arg+", creds)" {
		return "unknown"
	}
	// no other `return true`
	cnt := 0
	ast.Inspect(fd.Body, func(x ast.Node) bool {
		if r, ok := x.(*ast.ReturnStmt); ok && len(r.Results) == 1 && rtSrc(f.fset, r.Results[0]) == "true" {
			cnt++
		}
		return true
	})
	if cnt != 1 {
		return "unknown"
	}
	return arg
}

func genRoutes() {
	api := parse("webserver/api.go")
	w := &rtWalker{f: api, decls: map[string]*ast.FuncDecl{}, imports: map[string]bool{},
		seen: map[string]bool{}, done: map[string]bool{}}
	for _, d := range api.f.Decls {
		if fd, ok := d.(*ast.FuncDecl); ok && fd.Recv == nil {
			w.decls[fd.Name.Name] = fd
		}
	}
	for _, im := range api.f.Imports {
		p, _ := strconv.Unquote(im.Path.Value)
		n := p[strings.LastIndex(p, "/")+1:]
		if im.Name != nil {
			n = im.Name.Name
		}
		w.imports[n] = true
	}

	var handlers []string
	w.work = []string{"apiHandler"}
	w.done["apiHandler"] = true
	for len(w.work) > 0 {
		name := w.work[0]
		w.work = w.work[1:]
		fd := w.decls[name]
		handlers = append(handlers, name)
		if fd == nil || fd.Body == nil {
			w.fn = &ast.FuncDecl{Name: ast.NewIdent(name)}
			w.rows = append(w.rows, rtRow{handler: name, effect: "unknown:handler not found", guard: "unknown", scope: "sc_other"})
			continue
		}
		w.fn = fd
		w.assigned = rtAssigned(fd)
		w.paths = 0
		w.block(fd.Body.List, rtState{guard: "none"}, func(rtState) {})
		if w.paths > rtMaxPaths {
			w.rows = append(w.rows, rtRow{handler: name, effect: "unknown:too many paths", guard: "unknown", scope: "sc_other"})
		}
	}
	sort.SliceStable(w.rows, func(i, j int) bool {
		if w.rows[i].line != w.rows[j].line {
			return w.rows[i].line < w.rows[j].line
		}
		return false
	})

	// where the API is mounted
	ws := parse("webserver/webserver.go")
	type mount struct{ pattern, handler string }
	var mounts []mount
	ast.Inspect(ws.f, func(x ast.Node) bool {
		c, ok := x.(*ast.CallExpr)
		if !ok {
			return true
		}
		n := rtSrc(ws.fset, c.Fun)
		if (n == "http.HandleFunc" || n == "http.Handle") && len(c.Args) == 2 {
			if bl, ok := c.Args[0].(*ast.BasicLit); ok && bl.Kind == token.STRING {
				p, _ := strconv.Unquote(bl.Value)
				mounts = append(mounts, mount{p, rtSrc(ws.fset, c.Args[1])})
			} else {
				mounts = append(mounts, mount{"unknown:" + rtSrc(ws.fset, c.Args[0]), rtSrc(ws.fset, c.Args[1])})
			}
		}
		return true
	})

	var e emitter
	e.header("Branch structure of the administrative API (webserver/api.go): every effect,\n   read, 404/405 leaf and delegation with the guard that dominates it.")
	e.sb.WriteString("Open Scope string_scope.\n\n")
	e.sb.WriteString("Inductive guard := g_none | g_server_admin | g_group_admin | g_admin_or_own_password\n  | g_notfound_only | g_unknown.\n")
	e.sb.WriteString("Inductive scope := sc_none | sc_global | sc_group | sc_token_read | sc_token_checked\n  | sc_token_unchecked | sc_other.\n")
	e.sb.WriteString("Record route := { rt_handler : string; rt_branch : string; rt_effect : string;\n  rt_guard : guard; rt_scope : scope; rt_cors : bool; rt_nonwild : bool; rt_line : nat }.\n\n")
	e.sb.WriteString("Definition routes : list route := [\n")
	for i, r := range w.rows {
		sep := ";"
		if i == len(w.rows)-1 {
			sep = ""
		}
		fmt.Fprintf(&e.sb, "  Build_route %s %s\n    %s g_%s %s %v %v %d%s\n", rtCoqString(r.handler), rtCoqString(r.branch),
			rtCoqString(r.effect), r.guard, r.scope, r.cors, r.nonwild, r.line, sep)
	}
	e.sb.WriteString("].\n\n")
	hs := make([]string, len(handlers))
	for i, h := range handlers {
		hs[i] = rtCoqString(h)
	}
	fmt.Fprintf(&e.sb, "Definition handlers : list string := [%s].\n\n", strings.Join(hs, "; "))
	ms := make([]string, len(mounts))
	for i, m := range mounts {
		ms[i] = "(" + rtCoqString(m.pattern) + ", " + rtCoqString(m.handler) + ")"
	}
	fmt.Fprintf(&e.sb, "Definition mounts : list (string * string) := [%s].\n\n", strings.Join(ms, "; "))
	fmt.Fprintf(&e.sb, "(* the user argument that the check passes to isAdminOrExplicitPassword *)\nDefinition check_defs : list (string * string) := [(\"checkAdmin\", %s); (\"checkAdminOrExplicitPassword\", %s)].\n",
		rtCoqString(rtCheckDef(api, "checkAdmin")), rtCoqString(rtCheckDef(api, "checkAdminOrExplicitPassword")))
	rtUpdateFunctions(&e)
	e.write("Routes.v")
}

// rtUpdateFunctions: every function of group/description.go that rewrites or
// removes a group file (calls rewriteDescriptionFile or os.Remove), with
// whether its whole read-modify-write is inside the description lock: the
// statements `groups.mu.Lock()` and `defer groups.mu.Unlock()` come, in this
// order and next to each other, before the first statement that reads a
// description (readDescription, getDescriptionFile, GetDescription, os.Stat,
// os.Open) or writes one, and the lock is not released anywhere else.
func rtUpdateFunctions(e *emitter) {
	f := parse("group/description.go")
	touches := func(n ast.Node, names ...string) bool {
		found := false
		ast.Inspect(n, func(x ast.Node) bool {
			if c, ok := x.(*ast.CallExpr); ok {
				fn := rtSrc(f.fset, c.Fun)
				for _, nm := range names {
					if fn == nm {
						found = true
					}
				}
			}
			if se, ok := x.(*ast.SelectorExpr); ok {
				// a function value passed along, e.g. getDescriptionFile(name, false, os.Stat)
				for _, nm := range names {
					if rtSrc(f.fset, se) == nm {
						found = true
					}
				}
			}
			return true
		})
		return found
	}
	type uf struct {
		name   string
		locked bool
	}
	var out []uf
	for _, d := range f.f.Decls {
		fd, ok := d.(*ast.FuncDecl)
		if !ok || fd.Body == nil || fd.Recv != nil || fd.Name.Name == "rewriteDescriptionFile" {
			continue
		}
		if !touches(fd.Body, "rewriteDescriptionFile", "os.Remove") {
			continue
		}
		lockAt, firstIO, unlocks := -1, -1, 0
		for i, st := range fd.Body.List {
			src := rtSrc(f.fset, st)
			if src == "groups.mu.Lock()" && lockAt < 0 {
				lockAt = i
				continue
			}
			if firstIO < 0 && touches(st, "readDescription", "getDescriptionFile", "GetDescription", "rewriteDescriptionFile",
				"os.Stat", "os.Open", "os.Remove", "os.ReadFile") {
				firstIO = i
			}
		}
		ast.Inspect(fd.Body, func(x ast.Node) bool {
			if c, ok := x.(*ast.CallExpr); ok && rtSrc(f.fset, c.Fun) == "groups.mu.Unlock" {
				unlocks++
			}
			return true
		})
		locked := lockAt >= 0 && firstIO > lockAt && lockAt+1 < len(fd.Body.List) &&
			rtSrc(f.fset, fd.Body.List[lockAt+1]) == "defer groups.mu.Unlock()" && unlocks == 1
		out = append(out, uf{fd.Name.Name, locked})
	}
	parts := make([]string, len(out))
	for i, u := range out {
		parts[i] = fmt.Sprintf("(%s, %v)", rtCoqString(u.name), u.locked)
	}
	fmt.Fprintf(&e.sb, "\n(* the functions of group/description.go that rewrite or remove a group file, and\n   whether their whole read-modify-write is under groups.mu *)\nDefinition update_functions : list (string * bool) := [%s].\n", strings.Join(parts, "; "))
}

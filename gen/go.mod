module verifgen

go 1.24.0

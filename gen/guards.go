package main

// guards.go -> Generated/Guards.v
//
// For every `case` of the `switch m.Type` of rtpconn.handleClientMessage,
// and of the `switch m.Kind` nested in a case, the guards that precede the
// first effectful statement:
//
//   * needs member: `if g == nil { ...return }` / `if c.group == nil {...}`
//     (g an alias introduced by `g := c.group`);
//   * required permissions: `if !slices.Contains(c.permissions, "p") {
//     ...return }`, the disjunctive form `!A || !B`, and the form where the
//     permission is a local variable initialised by a literal and overridden
//     under `m.Type == "T" && m.Kind == "K"` (chat captions);
//   * `if m.Dest != c.Id() { ...return }` is reported as the pseudo
//     permission "@self".
//
// The scan of a statement list stops at the first statement that is neither
// a guard nor benign (a benign statement declares or assigns locals without
// calling anything, or is an `if` without permission test whose body only
// returns).  Deliberately syntactic and conservative: an `if` that gdMentions
// c.permissions or c.group in a shape not listed above makes the site
// `unknown` (listed in guards_unknown, which the C11 lemma requires to be
// empty).

import (
	"fmt"
	"go/ast"
	"go/token"
	"sort"
	"strconv"
	"strings"
)

type gdGuardRow struct {
	typ, kind string
	member    bool
	perms     []string
}

type gdGuardScan struct {
	member  bool
	perms   []string
	unknown []string
	// variable permission: name -> default literal and overrides
	varDefault map[string]string
	varOver    map[string][]gdPermOverride
	special    []gdPermSpecial // rows specialised by (type, kind)
	alias      map[string]bool
}

type gdPermOverride struct{ typ, kind, perm string }
type gdPermSpecial struct{ typ, kind, perm string }

func gdStrLit(e ast.Expr) (string, bool) {
	bl, ok := e.(*ast.BasicLit)
	if !ok || bl.Kind != token.STRING {
		return "", false
	}
	s, err := strconv.Unquote(bl.Value)
	return s, err == nil
}

func gdIsSel(e ast.Expr, x, sel string) bool {
	se, ok := e.(*ast.SelectorExpr)
	if !ok || se.Sel.Name != sel {
		return false
	}
	id, ok := se.X.(*ast.Ident)
	return ok && id.Name == x
}

func gdMentions(n ast.Node, x, sel string) bool {
	found := false
	ast.Inspect(n, func(n ast.Node) bool {
		if e, ok := n.(ast.Expr); ok && gdIsSel(e, x, sel) {
			found = true
		}
		return !found
	})
	return found
}

func gdHasCall(n ast.Node) bool {
	found := false
	ast.Inspect(n, func(n ast.Node) bool {
		switch v := n.(type) {
		case *ast.FuncLit:
			return false // a closure that is only defined
		case *ast.CallExpr:
			// conversions and make/len of locals are harmless, but we stay
			// conservative: any call counts
			_ = v
			found = true
		}
		return !found
	})
	return found
}

func gdEndsInReturn(b *ast.BlockStmt) bool {
	if b == nil || len(b.List) == 0 {
		return false
	}
	_, ok := b.List[len(b.List)-1].(*ast.ReturnStmt)
	return ok
}

func gdOnlyReturns(b *ast.BlockStmt) bool {
	if b == nil || len(b.List) != 1 {
		return false
	}
	_, ok := b.List[0].(*ast.ReturnStmt)
	return ok
}

// gdNotContains recognises `!slices.Contains(c.permissions, X)` and returns X.
func gdNotContains(e ast.Expr) (ast.Expr, bool) {
	u, ok := e.(*ast.UnaryExpr)
	if !ok || u.Op != token.NOT {
		return nil, false
	}
	call, ok := u.X.(*ast.CallExpr)
	if !ok || len(call.Args) != 2 || !gdIsSel(call.Fun, "slices", "Contains") {
		return nil, false
	}
	if !gdIsSel(call.Args[0], "c", "permissions") {
		return nil, false
	}
	return call.Args[1], true
}

// gdDisjuncts flattens a || b || c.
func gdDisjuncts(e ast.Expr) []ast.Expr {
	if p, ok := e.(*ast.ParenExpr); ok {
		return gdDisjuncts(p.X)
	}
	if b, ok := e.(*ast.BinaryExpr); ok && b.Op == token.LOR {
		return append(gdDisjuncts(b.X), gdDisjuncts(b.Y)...)
	}
	return []ast.Expr{e}
}

func (s *gdGuardScan) isGroupNil(e ast.Expr) bool {
	b, ok := e.(*ast.BinaryExpr)
	if !ok || b.Op != token.EQL {
		return false
	}
	id, ok := b.Y.(*ast.Ident)
	if !ok || id.Name != "nil" {
		return false
	}
	if gdIsSel(b.X, "c", "group") {
		return true
	}
	if x, ok := b.X.(*ast.Ident); ok && s.alias[x.Name] {
		return true
	}
	return false
}

// gdTypeKindCond recognises m.Type == "T" && m.Kind == "K".
func gdTypeKindCond(e ast.Expr) (string, string, bool) {
	b, ok := e.(*ast.BinaryExpr)
	if !ok || b.Op != token.LAND {
		return "", "", false
	}
	eq := func(e ast.Expr, field string) (string, bool) {
		c, ok := e.(*ast.BinaryExpr)
		if !ok || c.Op != token.EQL || !gdIsSel(c.X, "m", field) {
			return "", false
		}
		return gdStrLit(c.Y)
	}
	t, ok1 := eq(b.X, "Type")
	k, ok2 := eq(b.Y, "Kind")
	return t, k, ok1 && ok2
}

// scan consumes the guards at the head of a statement list and returns the
// index of the first statement it did not consume.
func (s *gdGuardScan) scan(where string, list []ast.Stmt) int {
	for i, st := range list {
		switch v := st.(type) {
		case *ast.AssignStmt:
			// g := c.group
			if len(v.Lhs) == 1 && len(v.Rhs) == 1 && gdIsSel(v.Rhs[0], "c", "group") {
				if id, ok := v.Lhs[0].(*ast.Ident); ok && v.Tok == token.DEFINE {
					s.alias[id.Name] = true
					continue
				}
			}
			// required := "lit"
			if len(v.Lhs) == 1 && len(v.Rhs) == 1 && v.Tok == token.DEFINE {
				if id, ok := v.Lhs[0].(*ast.Ident); ok {
					if lit, ok := gdStrLit(v.Rhs[0]); ok {
						s.varDefault[id.Name] = lit
						continue
					}
				}
			}
			if gdHasCall(v) || gdMentions(v, "c", "permissions") {
				return i
			}
			continue
		case *ast.DeclStmt:
			if gdHasCall(v) {
				return i
			}
			continue
		case *ast.IfStmt:
			if v.Init != nil || v.Else != nil {
				if gdMentions(v, "c", "permissions") {
					s.unknown = append(s.unknown, where)
				}
				return i
			}
			// needs member
			if s.isGroupNil(v.Cond) {
				if !gdEndsInReturn(v.Body) {
					s.unknown = append(s.unknown, where)
					return i
				}
				s.member = true
				continue
			}
			// permission test(s)
			ds := gdDisjuncts(v.Cond)
			allPerm := true
			var lits []string
			var vars []string
			for _, d := range ds {
				x, ok := gdNotContains(d)
				if !ok {
					allPerm = false
					break
				}
				if lit, ok := gdStrLit(x); ok {
					lits = append(lits, lit)
				} else if id, ok := x.(*ast.Ident); ok {
					if _, known := s.varDefault[id.Name]; known {
						vars = append(vars, id.Name)
					} else {
						allPerm = false
					}
				} else {
					allPerm = false
				}
			}
			if allPerm {
				if !gdEndsInReturn(v.Body) {
					s.unknown = append(s.unknown, where)
					return i
				}
				s.perms = append(s.perms, lits...)
				for _, name := range vars {
					s.perms = append(s.perms, "$"+name)
				}
				continue
			}
			if gdMentions(v.Cond, "c", "permissions") {
				s.unknown = append(s.unknown, where)
				return i
			}
			// if m.Type == "T" && m.Kind == "K" { required = "lit" }
			if t, k, ok := gdTypeKindCond(v.Cond); ok && len(v.Body.List) == 1 {
				if as, ok := v.Body.List[0].(*ast.AssignStmt); ok && as.Tok == token.ASSIGN &&
					len(as.Lhs) == 1 && len(as.Rhs) == 1 {
					if id, ok := as.Lhs[0].(*ast.Ident); ok {
						if _, known := s.varDefault[id.Name]; known {
							if lit, ok := gdStrLit(as.Rhs[0]); ok {
								s.varOver[id.Name] = append(s.varOver[id.Name], gdPermOverride{t, k, lit})
								continue
							}
						}
					}
				}
			}
			// m.Dest != c.Id()  -> "@self"
			if b, ok := v.Cond.(*ast.BinaryExpr); ok && b.Op == token.NEQ && gdIsSel(b.X, "m", "Dest") {
				if call, ok := b.Y.(*ast.CallExpr); ok && len(call.Args) == 0 && gdIsSel(call.Fun, "c", "Id") && gdEndsInReturn(v.Body) {
					s.perms = append(s.perms, "@self")
					continue
				}
			}
			// a validation that only returns
			if gdOnlyReturns(v.Body) && !gdHasCall(v.Cond) {
				continue
			}
			return i
		default:
			return i
		}
	}
	return len(list)
}

func gdNewScan() *gdGuardScan {
	return &gdGuardScan{varDefault: map[string]string{}, varOver: map[string][]gdPermOverride{}, alias: map[string]bool{}}
}

func (s *gdGuardScan) clone() *gdGuardScan {
	c := gdNewScan()
	c.member = s.member
	c.perms = append([]string{}, s.perms...)
	c.unknown = append([]string{}, s.unknown...)
	for k, v := range s.varDefault {
		c.varDefault[k] = v
	}
	for k, v := range s.varOver {
		c.varOver[k] = append([]gdPermOverride{}, v...)
	}
	for k := range s.alias {
		c.alias[k] = true
	}
	return c
}

// rows turns a finished scan into table rows for the given types and kind.
func (s *gdGuardScan) rows(types []string, kind string) []gdGuardRow {
	var out []gdGuardRow
	for _, t := range types {
		// default row
		var perms []string
		type spec struct{ kind string }
		specials := map[string][]string{} // kind -> perms
		for _, p := range s.perms {
			if strings.HasPrefix(p, "$") {
				name := p[1:]
				perms = append(perms, s.varDefault[name])
			} else {
				perms = append(perms, p)
			}
		}
		// specialised rows: one per override that applies to this type
		for _, p := range s.perms {
			if !strings.HasPrefix(p, "$") {
				continue
			}
			for _, o := range s.varOver[p[1:]] {
				if o.typ != t || kind != "_" {
					continue
				}
				var ps []string
				for _, q := range s.perms {
					if q == p {
						ps = append(ps, o.perm)
					} else if strings.HasPrefix(q, "$") {
						ps = append(ps, s.varDefault[q[1:]])
					} else {
						ps = append(ps, q)
					}
				}
				specials[o.kind] = ps
			}
		}
		ks := make([]string, 0, len(specials))
		for k := range specials {
			ks = append(ks, k)
		}
		sort.Strings(ks)
		for _, k := range ks {
			out = append(out, gdGuardRow{t, k, s.member, specials[k]})
		}
		out = append(out, gdGuardRow{t, kind, s.member, perms})
	}
	return out
}

func gdCaseStrings(cc *ast.CaseClause) ([]string, bool) {
	if cc.List == nil {
		return []string{"_"}, true
	}
	var out []string
	for _, e := range cc.List {
		s, ok := gdStrLit(e)
		if !ok {
			return nil, false
		}
		out = append(out, s)
	}
	return out, true
}

func gdFindSwitch(list []ast.Stmt, field string) (*ast.SwitchStmt, int) {
	for i, st := range list {
		if sw, ok := st.(*ast.SwitchStmt); ok && sw.Tag != nil && gdIsSel(sw.Tag, "m", field) {
			return sw, i
		}
	}
	return nil, -1
}

func gdCoqStr(s string) string { return "\"" + strings.ReplaceAll(s, "\"", "\"\"") + "\"" }

func gdCoqStrList(l []string) string {
	parts := make([]string, len(l))
	for i, s := range l {
		parts[i] = gdCoqStr(s)
	}
	return "[" + strings.Join(parts, "; ") + "]"
}

func genGuards() {
	var e emitter
	e.header("Permission and membership guards of rtpconn.handleClientMessage (see gen/guards.go).")
	e.sb.WriteString("Open Scope string_scope.\n\n")
	f := parse("rtpconn/webclient.go")
	var rows []gdGuardRow
	var unknown []string
	fd := f.funcDecl("handleClientMessage")
	var tsw *ast.SwitchStmt
	if fd != nil && fd.Body != nil {
		tsw, _ = gdFindSwitch(fd.Body.List, "Type")
	}
	if tsw == nil {
		unknown = append(unknown, "handleClientMessage: switch m.Type not found")
	} else {
		for _, st := range tsw.Body.List {
			cc := st.(*ast.CaseClause)
			types, ok := gdCaseStrings(cc)
			if !ok {
				unknown = append(unknown, "case with a non-literal type")
				continue
			}
			where := strings.Join(types, ",")
			s := gdNewScan()
			ksw, at := gdFindSwitch(cc.Body, "Kind")
			if ksw == nil {
				s.scan(where, cc.Body)
				rows = append(rows, s.rows(types, "_")...)
				unknown = append(unknown, s.unknown...)
				continue
			}
			// the prefix must be consumed entirely up to the kind switch
			n := s.scan(where, cc.Body[:at])
			if n != at {
				unknown = append(unknown, where+": statements before switch m.Kind not understood")
			}
			unknown = append(unknown, s.unknown...)
			hasDefault := false
			for _, kst := range ksw.Body.List {
				kc := kst.(*ast.CaseClause)
				kinds, ok := gdCaseStrings(kc)
				if !ok {
					unknown = append(unknown, where+": case with a non-literal kind")
					continue
				}
				ks := s.clone()
				ks.unknown = nil
				ks.scan(where+"/"+strings.Join(kinds, ","), kc.Body)
				unknown = append(unknown, ks.unknown...)
				for _, k := range kinds {
					if k == "_" {
						hasDefault = true
					}
					rows = append(rows, ks.rows(types, k)...)
				}
			}
			if !hasDefault {
				rows = append(rows, s.rows(types, "_")...)
			}
		}
	}
	e.sb.WriteString("(* (type, kind, needs member, required permissions); kind \"_\" = any other kind,\n   type \"_\" = any other type; \"@self\" = the destination must be the sender. *)\n")
	e.sb.WriteString("Definition guards : list (string * string * bool * list string) := [\n")
	for i, r := range rows {
		sep := ";"
		if i == len(rows)-1 {
			sep = ""
		}
		b := "false"
		if r.member {
			b = "true"
		}
		fmt.Fprintf(&e.sb, "  (%s, %s, %s, %s)%s\n", gdCoqStr(r.typ), gdCoqStr(r.kind), b, gdCoqStrList(r.perms), sep)
	}
	e.sb.WriteString("].\n\n")
	e.sb.WriteString("(* sites whose guard shape the translator did not understand; must be empty *)\n")
	fmt.Fprintf(&e.sb, "Definition guards_unknown : list string := %s.\n", gdCoqStrList(unknown))
	e.write("Guards.v")
}

func init() { generators = append(generators, genGuards) }

// locks.go: the lock-discipline translator (Generated/Locks.v, property C13).
//
// It loads /repo with full type information (golang.org/x/tools/go/packages)
// and computes, syntactically and conservatively,
//
//  1. for every function body (declared functions, methods and function
//     literals) a forward dataflow over its statements with two lock sets:
//     MUST (intersection at joins: locks certainly held) and MAY (union at
//     joins: locks possibly held).  `x.mu.Lock()` is attributed to a lock
//     CLASS by the static type of x (`group.Group.mu`; a mutex in a
//     package-level variable of anonymous struct type is `group.groups.mu`).
//     `defer x.mu.Unlock()` keeps the lock to the end of the function; other
//     deferred calls are evaluated at the exits, last first;
//  2. at every read/write of a GUARDED field (table guardSpecs) the MUST set;
//     the access is listed with the lock it requires;
//  3. "called locked" functions: functions named *Unlocked or whose comment
//     says "called locked" / "Called with ... taken|held" are analysed with
//     that lock assumed held, and every call site is listed as an obligation
//     with its MUST set.  An UNEXPORTED function or a function literal that
//     touches a guarded field without taking the lock, and is only ever
//     called (never started with `go`, never stored), is treated the same
//     way (the requirement is INFERRED, marked as such, and becomes an
//     obligation at each of its call sites, transitively);
//  4. lock-order edges: class possibly held -> class acquired, directly or
//     through the static call graph.  Calls through interfaces are expanded
//     to every implementation in the repository; a function literal passed
//     to a function of the repository is a callee of that function's calls
//     of the corresponding parameter (so the literal given to g.Range runs
//     under Group.mu); `go f()` starts f with no lock.  Each edge carries one
//     witnessing call chain;
//  5. blocking channel operations performed while a lock may be held;
//  6. `unknown` entries for the shapes it does not understand (calls of
//     function values it cannot resolve, goto, locks it cannot name).
//
// Limits (trusted/assumed, see props/C13.json): lock classes, not lock
// instances; code outside the repository is assumed not to call back into it
// synchronously except through the function literals handed to it and
// through the standard sort/slices helpers; reflection and method values
// stored in data structures are not followed.
package main

import (
	"fmt"
	"go/ast"
	"go/token"
	"go/types"
	"os"
	"path/filepath"
	"regexp"
	"sort"
	"strings"

	"golang.org/x/tools/go/packages"
)

func init() { generators = append(generators, genLocks) }

// ---------------------------------------------------------------- tables

// guardSpec: which fields are guarded by which mutex field of the same
// struct.  fields == nil means every field except the mutex.
type guardSpec struct {
	pkg, typ string // typ is a named struct type, or a package-level variable of struct type
	mutex    string
	fields   []string
}

var guardSpecs = []guardSpec{
	{"group", "Group", "mu", []string{"clients", "locked", "description", "history", "timestamp", "data"}},
	{"group", "groups", "mu", []string{"groups"}},
	{"unbounded", "Channel", "mu", []string{"queue"}},
	{"packetcache", "Cache", "mu", nil},
	{"packetmap", "Map", "mu", nil},
	{"token", "state", "mu", nil},
}

// packages of the standard library whose functions call the function
// literals they are given synchronously, before returning
var syncCallbackPkgs = map[string]bool{"sort": true, "slices": true, "strings": true,
	"bytes": true, "maps": true, "sync": true, "iter": true}

// command-line tools that live in the repository but are separate programs
// (they share no memory with the server)
var separatePrograms = map[string]bool{"galenectl": true}

var reCalledLocked = regexp.MustCompile(`(?i)called\s+locked|called\s+with\s+.{1,60}?\b(taken|held)\b`)
var reMuMention = regexp.MustCompile(`\b([A-Za-z_][A-Za-z0-9_]*)\.mu\b`)

// ---------------------------------------------------------------- data

type lkState struct {
	dead bool
	must map[string]bool
	may  map[string]bool
	base map[string]string // for the locks of must: the expression whose mutex was locked ("g" for g.mu.Lock()); "*" = assumed, "?" = differs between paths
}

func newState() lkState {
	return lkState{must: map[string]bool{}, may: map[string]bool{}, base: map[string]string{}}
}
func deadState() lkState {
	s := newState()
	s.dead = true
	return s
}
func (s lkState) clone() lkState {
	c := lkState{dead: s.dead, must: map[string]bool{}, may: map[string]bool{}, base: map[string]string{}}
	for k := range s.must {
		c.must[k] = true
		c.base[k] = s.base[k]
	}
	for k := range s.may {
		c.may[k] = true
	}
	return c
}
func joinState(a, b lkState) lkState {
	if a.dead {
		return b.clone()
	}
	if b.dead {
		return a.clone()
	}
	c := newState()
	for k := range a.must {
		if b.must[k] {
			c.must[k] = true
			if a.base[k] == b.base[k] {
				c.base[k] = a.base[k]
			} else {
				c.base[k] = "?"
			}
		}
	}
	for k := range a.may {
		c.may[k] = true
	}
	for k := range b.may {
		c.may[k] = true
	}
	return c
}
func eqState(a, b lkState) bool {
	if a.dead != b.dead || len(a.must) != len(b.must) || len(a.may) != len(b.may) {
		return false
	}
	for k := range a.must {
		if !b.must[k] || a.base[k] != b.base[k] {
			return false
		}
	}
	for k := range a.may {
		if !b.may[k] {
			return false
		}
	}
	return true
}
func setList(m map[string]bool) []string {
	out := make([]string, 0, len(m))
	for k := range m {
		out = append(out, k)
	}
	sort.Strings(out)
	return out
}

type lkAccess struct {
	field, kind, pos, required string
	held                       []string
	instance                   string // "same" or how the object of the lock and of the access differ
}
type lkLockSite struct {
	class, pos string
	mayBefore  []string
}
type lkCall struct {
	pos      string
	callees  []*lkNode
	how      string // "", "interface I.m", "parameter f", "literal"
	must     []string
	bases    map[string]string // base expressions of the must locks
	recvExpr string            // receiver expression of the call ("" if none)
	argExprs []string
	may      []string
	paramIdx int // >= 0: this is a call of the node's own function parameter
	owner    *lkNode
}
type lkBlocking struct {
	what, pos string
	may       []string
}
type lkUnknown struct{ kind, fn, pos, text string }

type lkNode struct {
	key      string
	pkg      *packages.Package
	body     *ast.BlockStmt
	ftype    *ast.FuncType
	recv     *ast.FieldList
	doc      string
	obj      *types.Func
	lit      *ast.FuncLit
	parent   *lkNode
	exported bool
	nlits    int

	annotated map[string]bool // assumed by annotation
	annotWhy  string
	inferred  map[string]bool          // assumed by inference
	roots     map[string]bool          // reasons why it may start with no lock held
	valueUse  string                   // where the function is used as a value (stored, passed), if anywhere
	denied    map[string]bool          // requirements that were inferred and could not be discharged at a call site
	locals    map[*types.Var][]*lkNode // local variables bound to function literals
	extLocals map[*types.Var]bool      // local function variables that come from code outside the repository
	origin    *lkNode                  // for a variant specialised on constant bool arguments
	consts    map[int]bool
	variants  map[string]*lkNode
	called    bool // has at least one call site

	relocks  [][3]string // (class, position of the Unlock, position of the second Lock)
	accesses []lkAccess
	locks    []lkLockSite
	calls    []lkCall
	blocking []lkBlocking
	params   []*types.Var
}

func (n *lkNode) entry() map[string]bool {
	m := map[string]bool{}
	for k := range n.annotated {
		m[k] = true
	}
	for k := range n.inferred {
		m[k] = true
	}
	return m
}

type lkAnalysis struct {
	fset     *token.FileSet
	root     string
	pkgs     []*packages.Package
	nodes    []*lkNode
	byObj    map[*types.Func]*lkNode
	byLit    map[*ast.FuncLit]*lkNode
	guard    map[*types.Var]string // guarded field -> lock class
	named    []types.Type          // all named non-interface types of the repository (T and *T)
	unknowns []lkUnknown
	unkSeen  map[string]bool
	bindings map[*lkNode]map[int][]*lkNode // function -> parameter index -> function values passed
	modPath  string

	setupUnknowns []lkUnknown
}

func (a *lkAnalysis) pos(p token.Pos) string {
	pp := a.fset.Position(p)
	rel, err := filepath.Rel(a.root, pp.Filename)
	if err != nil {
		rel = pp.Filename
	}
	return fmt.Sprintf("%s:%d", rel, pp.Line)
}

func (a *lkAnalysis) unknown(kind string, n *lkNode, p token.Pos, text string) {
	u := lkUnknown{kind, n.key, a.pos(p), text}
	k := u.kind + "|" + u.fn + "|" + u.pos + "|" + u.text
	if !a.unkSeen[k] {
		a.unkSeen[k] = true
		a.unknowns = append(a.unknowns, u)
	}
}

func (a *lkAnalysis) inRepo(p *types.Package) bool {
	return p != nil && (p.Path() == a.modPath || strings.HasPrefix(p.Path(), a.modPath+"/"))
}

func shortPkg(p *types.Package) string {
	if p == nil {
		return "?"
	}
	return p.Name()
}

// ---------------------------------------------------------------- lock classes

func deref(t types.Type) types.Type {
	if p, ok := t.Underlying().(*types.Pointer); ok {
		return p.Elem()
	}
	return t
}

func isMutexType(t types.Type) bool {
	n, ok := deref(t).(*types.Named)
	if !ok {
		return false
	}
	o := n.Obj()
	return o.Pkg() != nil && o.Pkg().Path() == "sync" && (o.Name() == "Mutex" || o.Name() == "RWMutex")
}

// ownerName names the thing that contains a mutex field: a named struct type
// ("group.Group") or a package-level variable of anonymous struct type
// ("group.groups").
func (a *lkAnalysis) ownerName(info *types.Info, x ast.Expr) string {
	t := info.TypeOf(x)
	if t == nil {
		return ""
	}
	t = deref(t)
	if n, ok := t.(*types.Named); ok {
		return shortPkg(n.Obj().Pkg()) + "." + n.Origin().Obj().Name()
	}
	if id, ok := ast.Unparen(x).(*ast.Ident); ok {
		if v, ok := info.Uses[id].(*types.Var); ok && v.Parent() == v.Pkg().Scope() {
			return shortPkg(v.Pkg()) + "." + v.Name()
		}
	}
	return ""
}

// lockClass names the mutex designated by e (the X of X.Lock()).
func (a *lkAnalysis) lockClass(info *types.Info, e ast.Expr) string {
	e = ast.Unparen(e)
	if u, ok := e.(*ast.UnaryExpr); ok && u.Op == token.AND {
		e = ast.Unparen(u.X)
	}
	switch v := e.(type) {
	case *ast.SelectorExpr:
		if sel := info.Selections[v]; sel != nil && sel.Kind() == types.FieldVal {
			owner := a.ownerName(info, v.X)
			if owner != "" {
				return owner + "." + v.Sel.Name
			}
		} else if obj, ok := info.Uses[v.Sel].(*types.Var); ok && obj.Parent() == obj.Pkg().Scope() {
			return shortPkg(obj.Pkg()) + "." + obj.Name()
		}
	case *ast.Ident:
		if obj, ok := info.Uses[v].(*types.Var); ok {
			if obj.Parent() == obj.Pkg().Scope() {
				return shortPkg(obj.Pkg()) + "." + obj.Name()
			}
			if isMutexType(obj.Type()) {
				return "" // a local mutex: not understood
			}
			// a struct that embeds a mutex
			owner := a.ownerName(info, v)
			if owner != "" {
				return owner + ".Mutex"
			}
		}
	}
	return ""
}

// structMutexClasses returns the lock classes of the mutex fields of the
// struct type t (named type) -- used for "called locked" annotations.
func (a *lkAnalysis) structMutexClasses(t types.Type) []string {
	t = deref(t)
	n, ok := t.(*types.Named)
	if !ok {
		return nil
	}
	st, ok := n.Underlying().(*types.Struct)
	if !ok {
		return nil
	}
	var out []string
	for i := 0; i < st.NumFields(); i++ {
		f := st.Field(i)
		if isMutexType(f.Type()) {
			out = append(out, shortPkg(n.Obj().Pkg())+"."+n.Origin().Obj().Name()+"."+f.Name())
		}
	}
	return out
}

// ---------------------------------------------------------------- setup

func (a *lkAnalysis) buildGuards() {
	for _, gs := range guardSpecs {
		var found bool
		for _, p := range a.pkgs {
			if p.Types.Name() != gs.pkg {
				continue
			}
			obj := p.Types.Scope().Lookup(gs.typ)
			if obj == nil {
				continue
			}
			st, ok := obj.Type().Underlying().(*types.Struct)
			if !ok {
				continue
			}
			class := gs.pkg + "." + gs.typ + "." + gs.mutex
			hasMu := false
			seen := map[string]bool{}
			for i := 0; i < st.NumFields(); i++ {
				f := st.Field(i)
				if f.Name() == gs.mutex && isMutexType(f.Type()) {
					hasMu = true
					continue
				}
				if gs.fields == nil {
					a.guard[f] = class
					continue
				}
				for _, w := range gs.fields {
					if w == f.Name() {
						a.guard[f] = class
						seen[w] = true
					}
				}
			}
			if hasMu {
				found = true
			}
			for _, w := range gs.fields {
				if !seen[w] {
					a.unknowns = append(a.unknowns, lkUnknown{"guard-spec", gs.pkg + "." + gs.typ, "-", "no field " + w})
				}
			}
		}
		if !found {
			a.unknowns = append(a.unknowns, lkUnknown{"guard-spec", gs.pkg + "." + gs.typ, "-", "type or mutex " + gs.mutex + " not found"})
		}
	}
}

func (a *lkAnalysis) collectNamed() {
	for _, p := range a.pkgs {
		sc := p.Types.Scope()
		for _, name := range sc.Names() {
			tn, ok := sc.Lookup(name).(*types.TypeName)
			if !ok || tn.IsAlias() {
				continue
			}
			n, ok := tn.Type().(*types.Named)
			if !ok || n.TypeParams().Len() > 0 {
				continue
			}
			if _, isIface := n.Underlying().(*types.Interface); isIface {
				continue
			}
			a.named = append(a.named, n, types.NewPointer(n))
		}
	}
}

func recvTypeName(fd *ast.FuncDecl) string {
	if fd.Recv == nil || len(fd.Recv.List) != 1 {
		return ""
	}
	t := fd.Recv.List[0].Type
	for {
		switch v := t.(type) {
		case *ast.StarExpr:
			t = v.X
			continue
		case *ast.IndexExpr:
			t = v.X
			continue
		case *ast.IndexListExpr:
			t = v.X
			continue
		case *ast.ParenExpr:
			t = v.X
			continue
		case *ast.Ident:
			return v.Name
		}
		return "?"
	}
}

func (a *lkAnalysis) collectFuncs() {
	for _, p := range a.pkgs {
		if separatePrograms[p.PkgPath[strings.LastIndex(p.PkgPath, "/")+1:]] {
			continue
		}
		for _, f := range p.Syntax {
			for _, d := range f.Decls {
				fd, ok := d.(*ast.FuncDecl)
				if !ok || fd.Body == nil {
					continue
				}
				obj, _ := p.TypesInfo.Defs[fd.Name].(*types.Func)
				if obj == nil {
					continue
				}
				key := p.Types.Name() + "." + fd.Name.Name
				exported := fd.Name.IsExported()
				if rt := recvTypeName(fd); rt != "" {
					key = p.Types.Name() + "." + rt + "." + fd.Name.Name
				}
				n := &lkNode{key: key, pkg: p, body: fd.Body, ftype: fd.Type, recv: fd.Recv, obj: obj,
					exported: exported, annotated: map[string]bool{}, inferred: map[string]bool{}, roots: map[string]bool{}}
				if fd.Doc != nil {
					n.doc = fd.Doc.Text()
				}
				if fd.Name.Name == "main" || fd.Name.Name == "init" {
					n.roots["main/init"] = true
				}
				a.nodes = append(a.nodes, n)
				a.byObj[obj] = n
				a.annotate(n)
			}
		}
	}
}

// collectValueUses marks the declared functions that are used as values
// (not in call position) anywhere: they may be invoked from places the
// translator does not see.
func (a *lkAnalysis) collectValueUses() {
	for _, p := range a.pkgs {
		for _, f := range p.Syntax {
			inCall := map[*ast.Ident]bool{}
			ast.Inspect(f, func(nd ast.Node) bool {
				if c, ok := nd.(*ast.CallExpr); ok {
					fun := ast.Unparen(c.Fun)
					switch v := fun.(type) {
					case *ast.IndexExpr:
						fun = ast.Unparen(v.X)
					case *ast.IndexListExpr:
						fun = ast.Unparen(v.X)
					}
					switch v := fun.(type) {
					case *ast.Ident:
						inCall[v] = true
					case *ast.SelectorExpr:
						inCall[v.Sel] = true
					}
				}
				return true
			})
			ast.Inspect(f, func(nd ast.Node) bool {
				id, ok := nd.(*ast.Ident)
				if !ok || inCall[id] {
					return true
				}
				if fn, ok := p.TypesInfo.Uses[id].(*types.Func); ok {
					if n := a.byObj[fn.Origin()]; n != nil && n.valueUse == "" {
						n.valueUse = a.pos(id.Pos())
					}
				}
				return true
			})
		}
	}
}

func (a *lkAnalysis) fieldVars(n *lkNode) (recv []*types.Var, params []*types.Var) {
	info := n.pkg.TypesInfo
	get := func(fl *ast.FieldList) []*types.Var {
		var out []*types.Var
		if fl == nil {
			return nil
		}
		for _, f := range fl.List {
			if len(f.Names) == 0 {
				out = append(out, nil)
			}
			for _, nm := range f.Names {
				v, _ := info.Defs[nm].(*types.Var)
				out = append(out, v)
			}
		}
		return out
	}
	return get(n.recv), get(n.ftype.Params)
}

// entryBase: for a lock assumed on entry, the name of the receiver or
// parameter (or package-level variable) whose mutex it is, and its position
// (-1 receiver, i parameter, -2 package-level variable or unknown).  "*"
// when it cannot be named (function literals, locks one level deeper).
func (a *lkAnalysis) entryBase(n *lkNode, class string) (string, int) {
	if n.lit != nil {
		return "*", -2
	}
	recv, params := a.fieldVars(n)
	for _, v := range recv {
		if v != nil {
			for _, c := range a.structMutexClasses(v.Type()) {
				if c == class {
					return v.Name(), -1
				}
			}
		}
	}
	for i, v := range params {
		if v != nil {
			for _, c := range a.structMutexClasses(v.Type()) {
				if c == class {
					return v.Name(), i
				}
			}
		}
	}
	// a package-level variable of anonymous struct type: pkg.var.mu
	parts := strings.Split(class, ".")
	if len(parts) == 3 {
		if v, ok := n.pkg.Types.Scope().Lookup(parts[1]).(*types.Var); ok && n.pkg.Types.Name() == parts[0] {
			return v.Name(), -2
		}
	}
	return "*", -2
}

// annotate finds the locks a function says it is called with.
func (a *lkAnalysis) annotate(n *lkNode) {
	name := n.obj.Name()
	byName := strings.HasSuffix(name, "Unlocked")
	byDoc := reCalledLocked.MatchString(n.doc)
	if !byName && !byDoc {
		return
	}
	recv, params := a.fieldVars(n)
	all := append(append([]*types.Var{}, recv...), params...)
	// explicit mentions of X.mu in the comment
	if byDoc {
		for _, m := range reMuMention.FindAllStringSubmatch(n.doc, -1) {
			x := m[1]
			done := false
			for _, v := range all {
				if v != nil && v.Name() == x {
					for _, c := range a.structMutexClasses(v.Type()) {
						if strings.HasSuffix(c, ".mu") {
							n.annotated[c] = true
							done = true
						}
					}
				}
			}
			if !done {
				if v, ok := n.pkg.Types.Scope().Lookup(x).(*types.Var); ok {
					if st, ok := v.Type().Underlying().(*types.Struct); ok {
						for i := 0; i < st.NumFields(); i++ {
							if st.Field(i).Name() == "mu" && isMutexType(st.Field(i).Type()) {
								if _, named := deref(v.Type()).(*types.Named); named {
									for _, c := range a.structMutexClasses(v.Type()) {
										n.annotated[c] = true
									}
								} else {
									n.annotated[shortPkg(v.Pkg())+"."+v.Name()+".mu"] = true
								}
								done = true
							}
						}
					}
				}
			}
			if !done {
				a.unknowns = append(a.unknowns, lkUnknown{"annotation", n.key, a.pos(n.body.Pos()), "comment mentions " + x + ".mu which names no mutex"})
			}
		}
	}
	if len(n.annotated) == 0 {
		// the first of receiver/parameters that has a mutex; else one level
		// deeper (t.conn.mu for a method of a track)
		for _, v := range all {
			if v == nil {
				continue
			}
			if cs := a.structMutexClasses(v.Type()); len(cs) > 0 {
				for _, c := range cs {
					n.annotated[c] = true
				}
				break
			}
		}
	}
	if len(n.annotated) == 0 {
		for _, v := range all {
			if v == nil {
				continue
			}
			if nt, ok := deref(v.Type()).(*types.Named); ok {
				if st, ok := nt.Underlying().(*types.Struct); ok {
					for i := 0; i < st.NumFields(); i++ {
						for _, c := range a.structMutexClasses(st.Field(i).Type()) {
							n.annotated[c] = true
						}
					}
				}
			}
			if len(n.annotated) > 0 {
				break
			}
		}
	}
	if len(n.annotated) == 0 {
		a.unknowns = append(a.unknowns, lkUnknown{"annotation", n.key, a.pos(n.body.Pos()), "called locked, but which lock?"})
	}
	if byName {
		n.annotWhy = "name *Unlocked"
	} else {
		n.annotWhy = "comment"
	}
}

// ---------------------------------------------------------------- the walker

type lkFrame struct {
	label     string
	isLoop    bool
	breaks    []lkState
	continues []lkState
}

type lkDefer struct {
	call *ast.CallExpr
}

type lkWalker struct {
	a      *lkAnalysis
	n      *lkNode
	info   *types.Info
	frames []*lkFrame
	defers []lkDefer
	exits  []lkState
	locals map[*types.Var][]*lkNode // local variables bound to function literals
	consts map[*types.Var]bool      // bool parameters with a known constant value (specialised variant)

	released map[string]string // "class|base" -> position of an explicit Unlock seen earlier in this function
}

// assignedIn: v is assigned or has its address taken somewhere in body.
func assignedIn(body *ast.BlockStmt, v *types.Var, info *types.Info) bool {
	found := false
	ast.Inspect(body, func(nd ast.Node) bool {
		switch x := nd.(type) {
		case *ast.AssignStmt:
			for _, l := range x.Lhs {
				if id, ok := ast.Unparen(l).(*ast.Ident); ok && info.Uses[id] == v {
					found = true
				}
			}
		case *ast.IncDecStmt:
			if id, ok := ast.Unparen(x.X).(*ast.Ident); ok && info.Uses[id] == v {
				found = true
			}
		case *ast.UnaryExpr:
			if x.Op == token.AND {
				if id, ok := ast.Unparen(x.X).(*ast.Ident); ok && info.Uses[id] == v {
					found = true
				}
			}
		}
		return true
	})
	return found
}

// evalBool: the value of a condition built from the known constant bool
// parameters with !, && and ||.
func (w *lkWalker) evalBool(e ast.Expr) (val, known bool) {
	switch v := ast.Unparen(e).(type) {
	case *ast.Ident:
		if o, ok := w.info.Uses[v].(*types.Var); ok {
			if c, ok := w.consts[o]; ok {
				return c, true
			}
		}
		if tv, ok := w.info.Types[v]; ok && tv.Value != nil && tv.Value.Kind().String() == "Bool" {
			return tv.Value.String() == "true", true
		}
	case *ast.UnaryExpr:
		if v.Op == token.NOT {
			if x, ok := w.evalBool(v.X); ok {
				return !x, true
			}
		}
	case *ast.BinaryExpr:
		x, kx := w.evalBool(v.X)
		y, ky := w.evalBool(v.Y)
		switch v.Op {
		case token.LAND:
			if (kx && !x) || (ky && !y) {
				return false, true
			}
			if kx && ky {
				return true, true
			}
		case token.LOR:
			if (kx && x) || (ky && y) {
				return true, true
			}
			if kx && ky {
				return false, true
			}
		}
	}
	return false, false
}

// lookupLocal finds the function literals (or the outside origin) of a local
// function variable of this function or of an enclosing one.
func (w *lkWalker) lookupLocal(v *types.Var) (lits []*lkNode, ext bool, ok bool) {
	for n := w.n; n != nil; n = n.parent {
		if l, ok := n.locals[v]; ok {
			return l, false, true
		}
		if n.extLocals[v] {
			return nil, true, true
		}
	}
	return nil, false, false
}

func (a *lkAnalysis) litNode(parent *lkNode, lit *ast.FuncLit) *lkNode {
	if n, ok := a.byLit[lit]; ok {
		return n
	}
	parent.nlits++
	n := &lkNode{key: fmt.Sprintf("%s$%d", parent.key, parent.nlits), pkg: parent.pkg, body: lit.Body,
		ftype: lit.Type, lit: lit, parent: parent, annotated: map[string]bool{}, inferred: map[string]bool{},
		roots: map[string]bool{}}
	a.byLit[lit] = n
	a.nodes = append(a.nodes, n)
	return n
}

func (a *lkAnalysis) analyse(n *lkNode) {
	n.accesses, n.locks, n.calls, n.blocking, n.relocks = nil, nil, nil, nil, nil
	n.locals = map[*types.Var][]*lkNode{}
	n.extLocals = map[*types.Var]bool{}
	w := &lkWalker{a: a, n: n, info: n.pkg.TypesInfo, locals: n.locals, consts: map[*types.Var]bool{}}
	_, n.params = a.fieldVars(n)
	for i, v := range n.consts {
		if i < len(n.params) && n.params[i] != nil && !assignedIn(n.body, n.params[i], w.info) {
			w.consts[n.params[i]] = v
		}
	}
	st := newState()
	for k := range n.entry() {
		st.must[k] = true
		st.may[k] = true
		st.base[k], _ = a.entryBase(n, k)
	}
	w.prescanLocals(n.body)
	end := w.block(n.body.List, st)
	w.exits = append(w.exits, end)
	exit := deadState()
	for _, e := range w.exits {
		exit = joinState(exit, e)
	}
	if exit.dead {
		exit = newState()
	}
	// deferred calls run at the exits, last first
	for i := len(w.defers) - 1; i >= 0; i-- {
		exit = w.call(w.defers[i].call, exit, "defer")
	}
}

// prescanLocals binds local variables that are assigned function literals
// (f := func(){...}; var f = func...; f = func...), without entering nested
// literals.
func (w *lkWalker) prescanLocals(body *ast.BlockStmt) {
	ast.Inspect(body, func(nd ast.Node) bool {
		switch v := nd.(type) {
		case *ast.FuncLit:
			return false
		case *ast.AssignStmt:
			if len(v.Rhs) == 1 {
				// x, cancel := context.WithCancel(...): function values
				// produced by code outside the repository
				if c, ok := ast.Unparen(v.Rhs[0]).(*ast.CallExpr); ok && w.externalCall(c) {
					for _, l := range v.Lhs {
						if id, ok := l.(*ast.Ident); ok {
							if d, ok := w.info.Defs[id].(*types.Var); ok {
								if _, isFn := d.Type().Underlying().(*types.Signature); isFn {
									w.n.extLocals[d] = true
								}
							}
						}
					}
				}
			}
			if len(v.Lhs) == len(v.Rhs) {
				for i, r := range v.Rhs {
					if lit, ok := ast.Unparen(r).(*ast.FuncLit); ok {
						if id, ok := v.Lhs[i].(*ast.Ident); ok {
							var obj *types.Var
							if d, ok := w.info.Defs[id].(*types.Var); ok {
								obj = d
							} else if u, ok := w.info.Uses[id].(*types.Var); ok {
								obj = u
							}
							if obj != nil {
								w.locals[obj] = append(w.locals[obj], w.a.litNode(w.n, lit))
							}
						}
					}
				}
			}
		case *ast.ValueSpec:
			if len(v.Names) == len(v.Values) {
				for i, r := range v.Values {
					if lit, ok := ast.Unparen(r).(*ast.FuncLit); ok {
						if obj, ok := w.info.Defs[v.Names[i]].(*types.Var); ok {
							w.locals[obj] = append(w.locals[obj], w.a.litNode(w.n, lit))
						}
					}
				}
			}
		}
		return true
	})
}

// externalCall: the call enters a function declared outside the repository.
func (w *lkWalker) externalCall(c *ast.CallExpr) bool {
	var id *ast.Ident
	switch f := ast.Unparen(c.Fun).(type) {
	case *ast.Ident:
		id = f
	case *ast.SelectorExpr:
		id = f.Sel
	default:
		return false
	}
	fn, ok := w.info.Uses[id].(*types.Func)
	return ok && fn.Pkg() != nil && !w.a.inRepo(fn.Pkg())
}

func (w *lkWalker) block(list []ast.Stmt, st lkState) lkState {
	for _, s := range list {
		st = w.stmt(s, st, "")
	}
	return st
}

func (w *lkWalker) findFrame(label string, needLoop bool) *lkFrame {
	for i := len(w.frames) - 1; i >= 0; i-- {
		f := w.frames[i]
		if label != "" {
			if f.label == label {
				return f
			}
			continue
		}
		if !needLoop || f.isLoop {
			return f
		}
	}
	return nil
}

func hasDefault(clauses []ast.Stmt) bool {
	for _, c := range clauses {
		switch v := c.(type) {
		case *ast.CaseClause:
			if v.List == nil {
				return true
			}
		case *ast.CommClause:
			if v.Comm == nil {
				return true
			}
		}
	}
	return false
}

func (w *lkWalker) stmt(s ast.Stmt, st lkState, label string) lkState {
	if s == nil {
		return st
	}
	// unreachable code (st.dead) is still walked so that its function
	// literals are seen; it records nothing and cannot lower a join
	switch v := s.(type) {
	case *ast.BlockStmt:
		return w.block(v.List, st)
	case *ast.LabeledStmt:
		return w.stmt(v.Stmt, st, v.Label.Name)
	case *ast.ExprStmt:
		st = w.expr(v.X, st)
		if call, ok := ast.Unparen(v.X).(*ast.CallExpr); ok && w.noReturn(call) {
			return deadState()
		}
		return st
	case *ast.AssignStmt:
		for _, r := range v.Rhs {
			st = w.expr(r, st)
		}
		for _, l := range v.Lhs {
			st = w.lhs(l, st)
		}
		return st
	case *ast.IncDecStmt:
		return w.lhs(v.X, st)
	case *ast.DeclStmt:
		if gd, ok := v.Decl.(*ast.GenDecl); ok {
			for _, sp := range gd.Specs {
				if vs, ok := sp.(*ast.ValueSpec); ok {
					for _, e := range vs.Values {
						st = w.expr(e, st)
					}
				}
			}
		}
		return st
	case *ast.SendStmt:
		st = w.expr(v.Chan, st)
		st = w.expr(v.Value, st)
		w.blockingOp("channel send", v.Pos(), st)
		return st
	case *ast.ReturnStmt:
		for _, r := range v.Results {
			st = w.expr(r, st)
		}
		if !st.dead {
			w.exits = append(w.exits, st)
		}
		return deadState()
	case *ast.GoStmt:
		return w.goStmt(v, st)
	case *ast.DeferStmt:
		return w.deferStmt(v, st)
	case *ast.IfStmt:
		st = w.stmt(v.Init, st, "")
		st = w.expr(v.Cond, st)
		if val, known := w.evalBool(v.Cond); known && len(w.consts) > 0 {
			// specialised variant: the condition is decided by the constant
			// bool arguments of the call
			if val {
				return w.block(v.Body.List, st)
			}
			if v.Else != nil {
				return w.stmt(v.Else, st, "")
			}
			return st
		}
		a := w.block(v.Body.List, st.clone())
		var b lkState
		if v.Else != nil {
			b = w.stmt(v.Else, st.clone(), "")
		} else {
			b = st
		}
		return joinState(a, b)
	case *ast.ForStmt:
		st = w.stmt(v.Init, st, "")
		fr := &lkFrame{label: label, isLoop: true}
		head := st.clone()
		var afterCond lkState
		for iter := 0; iter < 10; iter++ {
			fr.breaks, fr.continues = nil, nil
			w.frames = append(w.frames, fr)
			cur := head.clone()
			if v.Cond != nil {
				cur = w.expr(v.Cond, cur)
			}
			afterCond = cur.clone()
			end := w.block(v.Body.List, cur)
			for _, c := range fr.continues {
				end = joinState(end, c)
			}
			end = w.stmt(v.Post, end, "")
			w.frames = w.frames[:len(w.frames)-1]
			nh := joinState(head, end)
			if eqState(nh, head) {
				break
			}
			head = nh
		}
		out := deadState()
		if v.Cond != nil {
			out = afterCond
		}
		for _, b := range fr.breaks {
			out = joinState(out, b)
		}
		return out
	case *ast.RangeStmt:
		st = w.expr(v.X, st)
		if t := w.info.TypeOf(v.X); t != nil {
			if _, ok := t.Underlying().(*types.Chan); ok {
				w.blockingOp("range over channel", v.Pos(), st)
			}
		}
		fr := &lkFrame{label: label, isLoop: true}
		head := st.clone()
		for iter := 0; iter < 10; iter++ {
			fr.breaks, fr.continues = nil, nil
			w.frames = append(w.frames, fr)
			cur := head.clone()
			if v.Key != nil {
				cur = w.lhs(v.Key, cur)
			}
			if v.Value != nil {
				cur = w.lhs(v.Value, cur)
			}
			end := w.block(v.Body.List, cur)
			for _, c := range fr.continues {
				end = joinState(end, c)
			}
			w.frames = w.frames[:len(w.frames)-1]
			nh := joinState(head, end)
			if eqState(nh, head) {
				break
			}
			head = nh
		}
		out := head
		for _, b := range fr.breaks {
			out = joinState(out, b)
		}
		return out
	case *ast.SwitchStmt:
		st = w.stmt(v.Init, st, "")
		if v.Tag != nil {
			st = w.expr(v.Tag, st)
		}
		return w.clauses(v.Body.List, st, label, !hasDefault(v.Body.List))
	case *ast.TypeSwitchStmt:
		st = w.stmt(v.Init, st, "")
		st = w.stmt(v.Assign, st, "")
		return w.clauses(v.Body.List, st, label, !hasDefault(v.Body.List))
	case *ast.SelectStmt:
		if !hasDefault(v.Body.List) {
			w.blockingOp("select without default", v.Pos(), st)
		}
		return w.clauses(v.Body.List, st, label, false)
	case *ast.BranchStmt:
		switch v.Tok {
		case token.BREAK:
			l := ""
			if v.Label != nil {
				l = v.Label.Name
			}
			if f := w.findFrame(l, false); f != nil {
				f.breaks = append(f.breaks, st)
			} else {
				w.a.unknown("branch", w.n, v.Pos(), "break without target")
			}
		case token.CONTINUE:
			l := ""
			if v.Label != nil {
				l = v.Label.Name
			}
			if f := w.findFrame(l, true); f != nil {
				f.continues = append(f.continues, st)
			} else {
				w.a.unknown("branch", w.n, v.Pos(), "continue without target")
			}
		case token.GOTO:
			w.a.unknown("branch", w.n, v.Pos(), "goto")
		case token.FALLTHROUGH:
			w.a.unknown("branch", w.n, v.Pos(), "fallthrough")
		}
		return deadState()
	case *ast.EmptyStmt:
		return st
	default:
		w.a.unknown("statement", w.n, s.Pos(), fmt.Sprintf("%T", s))
		return st
	}
}

func (w *lkWalker) clauses(list []ast.Stmt, st lkState, label string, fallsThroughWhenNoMatch bool) lkState {
	fr := &lkFrame{label: label}
	w.frames = append(w.frames, fr)
	out := deadState()
	if fallsThroughWhenNoMatch {
		out = st.clone()
	}
	for _, c := range list {
		cur := st.clone()
		switch cc := c.(type) {
		case *ast.CaseClause:
			for _, e := range cc.List {
				cur = w.expr(e, cur)
			}
			cur = w.block(cc.Body, cur)
		case *ast.CommClause:
			// the communication of a select clause is not a separate blocking
			// operation (the select as a whole was recorded)
			switch cm := cc.Comm.(type) {
			case *ast.SendStmt:
				cur = w.expr(cm.Chan, cur)
				cur = w.expr(cm.Value, cur)
			case *ast.ExprStmt:
				cur = w.exprNoRecv(cm.X, cur)
			case *ast.AssignStmt:
				for _, r := range cm.Rhs {
					cur = w.exprNoRecv(r, cur)
				}
				for _, l := range cm.Lhs {
					cur = w.lhs(l, cur)
				}
			}
			cur = w.block(cc.Body, cur)
		}
		out = joinState(out, cur)
	}
	w.frames = w.frames[:len(w.frames)-1]
	for _, b := range fr.breaks {
		out = joinState(out, b)
	}
	return out
}

func (w *lkWalker) blockingOp(what string, p token.Pos, st lkState) {
	if st.dead {
		return
	}
	w.n.blocking = append(w.n.blocking, lkBlocking{what, w.a.pos(p), setList(st.may)})
}

func (w *lkWalker) noReturn(call *ast.CallExpr) bool {
	switch f := ast.Unparen(call.Fun).(type) {
	case *ast.Ident:
		if b, ok := w.info.Uses[f].(*types.Builtin); ok && b.Name() == "panic" {
			return true
		}
	case *ast.SelectorExpr:
		if fn, ok := w.info.Uses[f.Sel].(*types.Func); ok && fn.Pkg() != nil {
			full := fn.Pkg().Path() + "." + fn.Name()
			switch full {
			case "os.Exit", "log.Fatal", "log.Fatalf", "log.Fatalln", "log.Panic", "log.Panicf", "log.Panicln":
				return true
			}
		}
	}
	return false
}

// lhs walks an assignment target: a guarded field is written.
func (w *lkWalker) lhs(e ast.Expr, st lkState) lkState {
	return w.exprMode(e, st, true, true)
}

func (w *lkWalker) expr(e ast.Expr, st lkState) lkState {
	return w.exprMode(e, st, false, true)
}

func (w *lkWalker) exprNoRecv(e ast.Expr, st lkState) lkState {
	if u, ok := ast.Unparen(e).(*ast.UnaryExpr); ok && u.Op == token.ARROW {
		return w.exprMode(u.X, st, false, true)
	}
	return w.exprMode(e, st, false, true)
}

// exprMode walks an expression in (approximate) evaluation order.
func (w *lkWalker) exprMode(e ast.Expr, st lkState, write bool, _ bool) lkState {
	if e == nil {
		return st
	}
	switch v := e.(type) {
	case *ast.ParenExpr:
		return w.exprMode(v.X, st, write, true)
	case *ast.FuncLit:
		// a literal that is neither called here nor passed to a call nor bound
		// to a local variable: it escapes (stored, returned); it may run with
		// nothing held
		n := w.a.litNode(w.n, v)
		if !w.isLocalLit(n) {
			n.roots["stored or returned function literal"] = true
		}
		return st
	case *ast.SelectorExpr:
		st = w.exprMode(v.X, st, false, true)
		w.access(v, st, write)
		return st
	case *ast.IndexExpr:
		// m[k] = v writes the map held in the field
		st = w.exprMode(v.X, st, write, true)
		return w.exprMode(v.Index, st, false, true)
	case *ast.IndexListExpr:
		return w.exprMode(v.X, st, write, true)
	case *ast.SliceExpr:
		st = w.exprMode(v.X, st, write, true)
		st = w.exprMode(v.Low, st, false, true)
		st = w.exprMode(v.High, st, false, true)
		return w.exprMode(v.Max, st, false, true)
	case *ast.StarExpr:
		return w.exprMode(v.X, st, false, true)
	case *ast.UnaryExpr:
		st = w.exprMode(v.X, st, v.Op == token.AND && write, true)
		if v.Op == token.ARROW {
			w.blockingOp("channel receive", v.Pos(), st)
		}
		return st
	case *ast.BinaryExpr:
		st = w.exprMode(v.X, st, false, true)
		return w.exprMode(v.Y, st, false, true)
	case *ast.KeyValueExpr:
		st = w.exprMode(v.Key, st, false, true)
		return w.exprMode(v.Value, st, false, true)
	case *ast.CompositeLit:
		for _, el := range v.Elts {
			if kv, ok := el.(*ast.KeyValueExpr); ok {
				// struct field keys are not expressions
				if _, isIdent := kv.Key.(*ast.Ident); !isIdent {
					st = w.exprMode(kv.Key, st, false, true)
				}
				st = w.exprMode(kv.Value, st, false, true)
			} else {
				st = w.exprMode(el, st, false, true)
			}
		}
		return st
	case *ast.TypeAssertExpr:
		return w.exprMode(v.X, st, false, true)
	case *ast.CallExpr:
		return w.call(v, st, "")
	case *ast.Ident, *ast.BasicLit, *ast.ArrayType, *ast.MapType, *ast.ChanType, *ast.FuncType,
		*ast.InterfaceType, *ast.StructType, *ast.Ellipsis:
		return st
	default:
		w.a.unknown("expression", w.n, e.Pos(), fmt.Sprintf("%T", e))
		return st
	}
}

func (w *lkWalker) isLocalLit(n *lkNode) bool {
	for _, l := range w.n.locals {
		for _, x := range l {
			if x == n {
				return true
			}
		}
	}
	return false
}

func (w *lkWalker) access(sel *ast.SelectorExpr, st lkState, write bool) {
	s := w.info.Selections[sel]
	if s == nil || s.Kind() != types.FieldVal {
		return
	}
	f, ok := s.Obj().(*types.Var)
	if !ok {
		return
	}
	class, guarded := w.a.guard[f.Origin()]
	if !guarded {
		return
	}
	if st.dead {
		return
	}
	kind := "read"
	if write {
		kind = "write"
	}
	owner := class[:strings.LastIndex(class, ".")]
	instance := "same"
	if st.must[class] {
		via := types.ExprString(sel.X)
		if hb := st.base[class]; hb != "*" && hb != via {
			instance = "lock held via " + hb + ", field accessed via " + via
		}
	}
	w.n.accesses = append(w.n.accesses, lkAccess{field: owner + "." + f.Name(), kind: kind,
		pos: w.a.pos(sel.Sel.Pos()), required: class, held: setList(st.must), instance: instance})
}

// ---------------------------------------------------------------- calls

var lockMethods = map[string]int{"Lock": 1, "RLock": 1, "Unlock": -1, "RUnlock": -1, "TryLock": 2, "TryRLock": 2}

// lockOp recognises X.Lock() / X.Unlock() on a sync mutex.
func (w *lkWalker) lockOp(call *ast.CallExpr) (op int, x ast.Expr) {
	sel, ok := ast.Unparen(call.Fun).(*ast.SelectorExpr)
	if !ok {
		return 0, nil
	}
	k, ok := lockMethods[sel.Sel.Name]
	if !ok {
		return 0, nil
	}
	fn, ok := w.info.Uses[sel.Sel].(*types.Func)
	if !ok || fn.Pkg() == nil || fn.Pkg().Path() != "sync" {
		return 0, nil
	}
	sig := fn.Type().(*types.Signature)
	if sig.Recv() == nil || !isMutexType(sig.Recv().Type()) {
		return 0, nil
	}
	return k, sel.X
}

func (w *lkWalker) call(call *ast.CallExpr, st lkState, ctx string) lkState {
	// conversions and builtins
	if tv, ok := w.info.Types[call.Fun]; ok && tv.IsType() {
		for _, a := range call.Args {
			st = w.expr(a, st)
		}
		return st
	}
	if id, ok := ast.Unparen(call.Fun).(*ast.Ident); ok {
		if b, ok := w.info.Uses[id].(*types.Builtin); ok {
			for i, a := range call.Args {
				// delete(m, k), clear(m) and append's result written back are
				// writes of the first argument
				wr := i == 0 && (b.Name() == "delete" || b.Name() == "clear")
				st = w.exprMode(a, st, wr, true)
			}
			return st
		}
	}
	if op, x := w.lockOp(call); op != 0 {
		st = w.exprModeLockBase(x, st)
		class := w.a.lockClass(w.info, x)
		if class == "" {
			w.a.unknown("lock", w.n, call.Pos(), "cannot name the mutex "+types.ExprString(x))
			return st
		}
		if st.dead {
			return st
		}
		switch op {
		case 1:
			w.n.locks = append(w.n.locks, lkLockSite{class, w.a.pos(call.Pos()), setList(st.may)})
			st = st.clone()
			st.must[class] = true
			st.may[class] = true
			st.base[class] = lockBase(x)
			if up, ok := w.released[class+"|"+lockBase(x)]; ok && ctx != "defer" {
				// the same mutex of the same object is taken again after an
				// explicit Unlock: the function's critical section is split
				k := w.a.pos(call.Pos())
				dup := false
				for _, r := range w.n.relocks {
					if r[2] == k {
						dup = true
					}
				}
				if !dup {
					w.n.relocks = append(w.n.relocks, [3]string{class, up, k})
				}
			}
		case -1:
			if ctx != "defer" {
				if w.released == nil {
					w.released = map[string]string{}
				}
				if _, ok := w.released[class+"|"+lockBase(x)]; !ok {
					w.released[class+"|"+lockBase(x)] = w.a.pos(call.Pos())
				}
			}
			st = st.clone()
			delete(st.must, class)
			delete(st.may, class)
			delete(st.base, class)
		case 2:
			w.a.unknown("lock", w.n, call.Pos(), "TryLock")
		}
		return st
	}

	// receiver expression and arguments first
	fun := ast.Unparen(call.Fun)
	switch f := fun.(type) {
	case *ast.IndexExpr:
		fun = ast.Unparen(f.X)
	case *ast.IndexListExpr:
		fun = ast.Unparen(f.X)
	}
	switch f := fun.(type) {
	case *ast.SelectorExpr:
		st = w.expr(f.X, st)
		w.access(f, st, false) // a func-typed guarded field
	case *ast.FuncLit, *ast.Ident:
	default:
		st = w.expr(fun, st)
	}
	callees, how, external, extPkg := w.resolve(call, fun)
	if external {
		if sel, ok := fun.(*ast.SelectorExpr); ok {
			if fn, ok := w.info.Uses[sel.Sel].(*types.Func); ok {
				switch fn.FullName() {
				case "(*sync.WaitGroup).Wait", "(*sync.Cond).Wait", "time.Sleep":
					w.blockingOp(fn.FullName(), call.Pos(), st)
				}
			}
		}
	}
	if how == "" || strings.HasPrefix(how, "interface ") {
		// constant bool arguments select a specialised copy of the callee
		cs := make([]*lkNode, len(callees))
		for i, t := range callees {
			cs[i] = w.a.variant(t, w.constArgs(call, t))
		}
		callees = cs
	}
	// arguments; function literals and function values passed as arguments
	for i, arg := range call.Args {
		ua := ast.Unparen(arg)
		if lit, ok := ua.(*ast.FuncLit); ok {
			ln := w.a.litNode(w.n, lit)
			w.passFunc(call, callees, external, extPkg, i, ln, st)
			continue
		}
		st = w.expr(arg, st)
		if fn := w.funcValue(ua); fn != nil {
			for _, t := range fn {
				w.passFunc(call, callees, external, extPkg, i, t, st)
			}
		} else if len(callees) > 0 && w.unresolvedFuncArg(ua) {
			w.a.unknown("call", w.n, arg.Pos(), "function-typed argument "+types.ExprString(ua)+" is not a function the translator can name")
		}
	}
	if st.dead {
		return st
	}
	if how == "unknown" {
		return st
	}
	if len(callees) > 0 || how != "" {
		c := lkCall{pos: w.a.pos(call.Pos()), callees: callees, how: how, must: setList(st.must), may: setList(st.may),
			paramIdx: -1, owner: w.n, bases: map[string]string{}}
		for k, v := range st.base {
			c.bases[k] = v
		}
		if sel, ok := fun.(*ast.SelectorExpr); ok && w.info.Selections[sel] != nil {
			c.recvExpr = types.ExprString(sel.X)
		}
		for _, arg := range call.Args {
			c.argExprs = append(c.argExprs, types.ExprString(arg))
		}
		if strings.HasPrefix(how, "parameter ") {
			fmt.Sscanf(how, "parameter %d", &c.paramIdx)
		}
		w.n.calls = append(w.n.calls, c)
		for _, t := range callees {
			t.called = true
		}
	}
	return st
}

// constArgs: the constant bool arguments of a call, by parameter index.
func (w *lkWalker) constArgs(call *ast.CallExpr, callee *lkNode) map[int]bool {
	if callee.origin != nil || call.Ellipsis.IsValid() {
		return nil
	}
	ps := callee.paramsOf(w.a)
	if len(ps) != len(call.Args) {
		return nil
	}
	var out map[int]bool
	for i, arg := range call.Args {
		tv, ok := w.info.Types[arg]
		if !ok || tv.Value == nil || tv.Value.Kind().String() != "Bool" {
			continue
		}
		if ps[i] == nil {
			continue
		}
		if b, ok := ps[i].Type().Underlying().(*types.Basic); !ok || b.Kind() != types.Bool {
			continue
		}
		if out == nil {
			out = map[int]bool{}
		}
		out[i] = tv.Value.String() == "true"
	}
	return out
}

// variant returns the copy of n specialised on constant bool arguments.
func (a *lkAnalysis) variant(n *lkNode, consts map[int]bool) *lkNode {
	if len(consts) == 0 {
		return n
	}
	ps := n.paramsOf(a)
	var parts []string
	for i := range ps {
		if v, ok := consts[i]; ok {
			parts = append(parts, fmt.Sprintf("%s=%v", ps[i].Name(), v))
		}
	}
	sig := strings.Join(parts, ",")
	if n.variants == nil {
		n.variants = map[string]*lkNode{}
	}
	if v, ok := n.variants[sig]; ok {
		return v
	}
	v := &lkNode{key: n.key + "[" + sig + "]", pkg: n.pkg, body: n.body, ftype: n.ftype, recv: n.recv, doc: n.doc,
		obj: n.obj, lit: n.lit, parent: n.parent, exported: n.exported, annotated: n.annotated, annotWhy: n.annotWhy,
		inferred: map[string]bool{}, roots: map[string]bool{}, origin: n, consts: consts, valueUse: ""}
	n.variants[sig] = v
	a.nodes = append(a.nodes, v)
	return v
}

// unresolvedFuncArg: the argument has function type, is not nil, and does
// not come from outside the repository.
func (w *lkWalker) unresolvedFuncArg(e ast.Expr) bool {
	t := w.info.TypeOf(e)
	if t == nil {
		return false
	}
	if _, ok := t.Underlying().(*types.Signature); !ok {
		return false
	}
	switch v := e.(type) {
	case *ast.Ident:
		if v.Name == "nil" {
			return false
		}
		switch o := w.info.Uses[v].(type) {
		case *types.Func:
			return w.a.inRepo(o.Pkg()) // a repository function without body
		case *types.Var:
			if _, ext, ok := w.lookupLocal(o); ok && ext {
				return false
			}
		}
	case *ast.SelectorExpr:
		if fn, ok := w.info.Uses[v.Sel].(*types.Func); ok && !w.a.inRepo(fn.Pkg()) {
			return false
		}
	}
	return true
}

// lockBase: "g" for g.mu, "t.conn" for t.conn.mu, the variable itself for a
// mutex variable.
func lockBase(x ast.Expr) string {
	x = ast.Unparen(x)
	if u, ok := x.(*ast.UnaryExpr); ok && u.Op == token.AND {
		x = ast.Unparen(u.X)
	}
	if sel, ok := x.(*ast.SelectorExpr); ok {
		return types.ExprString(sel.X)
	}
	return types.ExprString(x)
}

func (w *lkWalker) exprModeLockBase(x ast.Expr, st lkState) lkState {
	// the base of X.mu: walk X's base for accesses (t.conn.mu reads t.conn)
	if sel, ok := ast.Unparen(x).(*ast.SelectorExpr); ok {
		return w.expr(sel.X, st)
	}
	return st
}

// funcValue: e denotes a function of the repository used as a value (not
// called): a declared function, a method value, or a local bound to literals.
func (w *lkWalker) funcValue(e ast.Expr) []*lkNode {
	switch v := e.(type) {
	case *ast.Ident:
		switch o := w.info.Uses[v].(type) {
		case *types.Func:
			if n := w.a.byObj[o.Origin()]; n != nil {
				return []*lkNode{n}
			}
		case *types.Var:
			if l, _, ok := w.lookupLocal(o); ok {
				return l
			}
		}
	case *ast.SelectorExpr:
		if s := w.info.Selections[v]; s != nil {
			if s.Kind() == types.MethodVal {
				if fn, ok := s.Obj().(*types.Func); ok {
					if _, isIface := s.Recv().Underlying().(*types.Interface); isIface {
						return w.implementations(s.Recv(), fn)
					}
					if n := w.a.byObj[fn.Origin()]; n != nil {
						return []*lkNode{n}
					}
				}
			}
		} else if fn, ok := w.info.Uses[v.Sel].(*types.Func); ok {
			if n := w.a.byObj[fn.Origin()]; n != nil {
				return []*lkNode{n}
			}
		}
	}
	return nil
}

// passFunc: the function value fn is passed as argument i of call.
func (w *lkWalker) passFunc(call *ast.CallExpr, callees []*lkNode, external bool, extPkg string, i int, fn *lkNode, st lkState) {
	if external {
		// called by code outside the repository: synchronously by the known
		// helpers, else possibly later from another goroutine (no lock
		// held) AND possibly now (locks of the caller held)
		c := lkCall{pos: w.a.pos(call.Pos()), callees: []*lkNode{fn}, how: "callback of " + extPkg,
			must: setList(st.must), may: setList(st.may), paramIdx: -1, owner: w.n}
		if !syncCallbackPkgs[extPkg] {
			fn.roots["callback given to "+extPkg] = true
			c.must = nil
		}
		fn.called = true
		if !st.dead {
			w.n.calls = append(w.n.calls, c)
		}
		return
	}
	if len(callees) == 0 {
		fn.roots["function value passed to an unresolved call"] = true
		return
	}
	for _, t := range callees {
		// variadic or out of range: give up on that binding
		if i >= len(t.paramsOf(w.a)) {
			fn.roots["function value passed to a variadic parameter"] = true
			continue
		}
		m := w.a.bindings[t]
		if m == nil {
			m = map[int][]*lkNode{}
			w.a.bindings[t] = m
		}
		dup := false
		for _, x := range m[i] {
			if x == fn {
				dup = true
			}
		}
		if !dup {
			m[i] = append(m[i], fn)
		}
		if t.origin != nil {
			mo := w.a.bindings[t.origin]
			if mo == nil {
				mo = map[int][]*lkNode{}
				w.a.bindings[t.origin] = mo
			}
			dup = false
			for _, x := range mo[i] {
				if x == fn {
					dup = true
				}
			}
			if !dup {
				mo[i] = append(mo[i], fn)
			}
		}
	}
}

func (n *lkNode) paramsOf(a *lkAnalysis) []*types.Var {
	_, p := a.fieldVars(n)
	return p
}

func (w *lkWalker) implementations(recv types.Type, m *types.Func) []*lkNode {
	iface, ok := recv.Underlying().(*types.Interface)
	if !ok {
		return nil
	}
	var out []*lkNode
	seen := map[*lkNode]bool{}
	for _, t := range w.a.named {
		if !types.Implements(t, iface) {
			continue
		}
		ms := types.NewMethodSet(t)
		s := ms.Lookup(m.Pkg(), m.Name())
		if s == nil {
			continue
		}
		fn, ok := s.Obj().(*types.Func)
		if !ok {
			continue
		}
		if n := w.a.byObj[fn.Origin()]; n != nil && !seen[n] {
			seen[n] = true
			out = append(out, n)
		}
	}
	sort.Slice(out, func(i, j int) bool { return out[i].key < out[j].key })
	return out
}

// paramOwner finds the function (this node or an enclosing one) of which v
// is a parameter.
func (w *lkWalker) paramOwner(v *types.Var) (*lkNode, int) {
	for n := w.n; n != nil; n = n.parent {
		_, ps := w.a.fieldVars(n)
		for i, p := range ps {
			if p == v {
				return n, i
			}
		}
	}
	return nil, -1
}

// resolve finds the functions of the repository a call may enter.
// how: "" static, "interface ...", "parameter i", "literal", "unknown".
func (w *lkWalker) resolve(call *ast.CallExpr, fun ast.Expr) (callees []*lkNode, how string, external bool, extPkg string) {
	switch f := fun.(type) {
	case *ast.FuncLit:
		return []*lkNode{w.a.litNode(w.n, f)}, "literal", false, ""
	case *ast.Ident:
		switch o := w.info.Uses[f].(type) {
		case *types.Func:
			if n := w.a.byObj[o.Origin()]; n != nil {
				return []*lkNode{n}, "", false, ""
			}
			if w.a.inRepo(o.Pkg()) {
				w.a.unknown("call", w.n, call.Pos(), "function without body "+o.FullName())
				return nil, "unknown", false, ""
			}
			return nil, "", true, shortPkg(o.Pkg())
		case *types.Var:
			if l, ext, ok := w.lookupLocal(o); ok {
				if ext {
					return nil, "", true, "?"
				}
				return l, "local function variable " + o.Name(), false, ""
			}
			if owner, i := w.paramOwner(o); owner != nil {
				if owner != w.n {
					// a literal calls a parameter of its enclosing function:
					// record the call as if made by a parameter call of the owner
					return w.a.boundTo(owner, i), fmt.Sprintf("outer parameter %d of %s", i, owner.key), false, ""
				}
				return nil, fmt.Sprintf("parameter %d", i), false, ""
			}
			w.a.unknown("call", w.n, call.Pos(), "call of the function variable "+o.Name())
			return nil, "unknown", false, ""
		case nil:
			w.a.unknown("call", w.n, call.Pos(), "unresolved identifier "+f.Name)
			return nil, "unknown", false, ""
		}
		return nil, "", true, "?"
	case *ast.SelectorExpr:
		s := w.info.Selections[f]
		if s == nil {
			// qualified identifier pkg.F
			switch o := w.info.Uses[f.Sel].(type) {
			case *types.Func:
				if n := w.a.byObj[o.Origin()]; n != nil {
					return []*lkNode{n}, "", false, ""
				}
				return nil, "", true, shortPkg(o.Pkg())
			case *types.Var:
				if w.a.inRepo(o.Pkg()) {
					w.a.unknown("call", w.n, call.Pos(), "call of the package-level function variable "+o.Name())
					return nil, "unknown", false, ""
				}
				return nil, "", true, shortPkg(o.Pkg())
			}
			return nil, "", true, "?"
		}
		switch s.Kind() {
		case types.MethodVal:
			fn := s.Obj().(*types.Func)
			if _, isIface := s.Recv().Underlying().(*types.Interface); isIface {
				if _, isTP := s.Recv().(*types.TypeParam); isTP {
					w.a.unknown("call", w.n, call.Pos(), "method call on a type parameter")
					return nil, "unknown", false, ""
				}
				impls := w.implementations(s.Recv(), fn)
				name := types.TypeString(s.Recv(), func(p *types.Package) string { return p.Name() })
				if len(impls) == 0 {
					return nil, "", true, shortPkg(fn.Pkg())
				}
				return impls, "interface " + name + "." + fn.Name(), false, ""
			}
			if n := w.a.byObj[fn.Origin()]; n != nil {
				return []*lkNode{n}, "", false, ""
			}
			return nil, "", true, shortPkg(fn.Pkg())
		case types.FieldVal:
			fv := s.Obj().(*types.Var)
			if w.a.inRepo(fv.Pkg()) {
				w.a.unknown("call", w.n, call.Pos(), "call of the function stored in field "+fv.Name())
				return nil, "unknown", false, ""
			}
			return nil, "", true, shortPkg(fv.Pkg())
		}
		return nil, "", true, "?"
	default:
		w.a.unknown("call", w.n, call.Pos(), "call of a computed function value "+types.ExprString(fun))
		return nil, "unknown", false, ""
	}
}

// boundTo: the function values bound (so far) to parameter i of n.
func (a *lkAnalysis) boundTo(n *lkNode, i int) []*lkNode {
	if m := a.bindings[n]; m != nil {
		return m[i]
	}
	return nil
}

func (w *lkWalker) goStmt(g *ast.GoStmt, st lkState) lkState {
	call := g.Call
	fun := ast.Unparen(call.Fun)
	for _, arg := range call.Args {
		st = w.expr(arg, st)
	}
	if sel, ok := fun.(*ast.SelectorExpr); ok {
		st = w.expr(sel.X, st)
	}
	callees, how, _, _ := w.resolve(call, fun)
	if how == "unknown" {
		return st
	}
	for _, t := range callees {
		t.roots["go statement at "+w.a.pos(g.Pos())] = true
	}
	if strings.HasPrefix(how, "parameter ") {
		w.a.unknown("call", w.n, g.Pos(), "go of a function parameter")
	}
	return st
}

func (w *lkWalker) deferStmt(d *ast.DeferStmt, st lkState) lkState {
	call := d.Call
	if op, _ := w.lockOp(call); op != 0 {
		w.defers = append(w.defers, lkDefer{call})
		return st
	}
	// arguments and receiver are evaluated now
	for _, arg := range call.Args {
		if _, isLit := ast.Unparen(arg).(*ast.FuncLit); !isLit {
			st = w.expr(arg, st)
		}
	}
	w.defers = append(w.defers, lkDefer{call})
	return st
}

// ---------------------------------------------------------------- whole program

type lkEdge struct{ from, to, witness string }

type lkReach struct {
	class string
	chain string
}

func (a *lkAnalysis) run() {
	// pass 1 discovers the literals; bindings of function values to
	// parameters need a second pass to be seen by parameter calls
	for round := 0; round < 50; round++ {
		a.bindings2reset()
		for i := 0; i < len(a.nodes); i++ {
			a.analyse(a.nodes[i])
		}
		for i := 0; i < len(a.nodes); i++ { // literals found late
			a.analyse(a.nodes[i])
		}
		a.resolveParamCalls()
		if a.infer() {
			continue
		}
		if a.prune() {
			continue
		}
		return
	}
	a.unknowns = append(a.unknowns, lkUnknown{"inference", "-", "-", "no fixpoint"})
}

func (a *lkAnalysis) bindings2reset() {
	a.bindings = map[*lkNode]map[int][]*lkNode{}
	a.unknowns = a.unknowns[:0:0]
	a.unkSeen = map[string]bool{}
	a.unknowns = append(a.unknowns, a.setupUnknowns...)
	for _, n := range a.nodes {
		n.called = false
		for k := range n.roots {
			if k != "main/init" {
				delete(n.roots, k)
			}
		}
	}
}

// resolveParamCalls fills the callees of the calls of function parameters
// with everything bound to that parameter anywhere.
func (a *lkAnalysis) resolveParamCalls() {
	for _, n := range a.nodes {
		for i := range n.calls {
			c := &n.calls[i]
			if c.paramIdx >= 0 {
				c.callees = a.boundTo(n, c.paramIdx)
				for _, t := range c.callees {
					t.called = true
				}
			}
		}
	}
}

func (n *lkNode) mayInfer() bool {
	if n.exported && n.lit == nil {
		return false
	}
	if n.valueUse != "" {
		return false
	}
	if len(n.roots) > 0 {
		return false
	}
	return n.called
}

// infer adds entry requirements to unexported, only-called functions whose
// accesses or obligations are not met locally.  Returns true if something
// changed (the analysis must be redone).
func (a *lkAnalysis) infer() bool {
	changed := false
	for _, n := range a.nodes {
		if !n.mayInfer() {
			continue
		}
		need := map[string]bool{}
		for _, ac := range n.accesses {
			if !contains(ac.held, ac.required) {
				need[ac.required] = true
			}
		}
		for _, c := range n.calls {
			for _, t := range c.callees {
				for r := range t.entry() {
					if !contains(c.must, r) {
						need[r] = true
					}
				}
			}
		}
		for r := range need {
			if n.denied[r] {
				continue
			}
			// a lock the function itself takes cannot be required on entry
			takes := false
			for _, l := range n.locks {
				if l.class == r {
					takes = true
				}
			}
			if takes {
				continue
			}
			if !n.annotated[r] && !n.inferred[r] {
				n.inferred[r] = true
				changed = true
			}
		}
	}
	return changed
}

// prune withdraws an inferred requirement that one of the call sites of the
// function does not meet: the requirement is then not an invariant of the
// program, and the access (or the obligation) that needed it is reported
// where it occurs.  Returns true if something changed.
func (a *lkAnalysis) prune() bool {
	changed := false
	for _, n := range a.nodes {
		for _, c := range n.calls {
			for _, t := range c.callees {
				for r := range t.inferred {
					if !contains(c.must, r) {
						delete(t.inferred, r)
						if t.denied == nil {
							t.denied = map[string]bool{}
						}
						t.denied[r] = true
						changed = true
					}
				}
			}
		}
	}
	return changed
}

func contains(l []string, s string) bool {
	for _, x := range l {
		if x == s {
			return true
		}
	}
	return false
}

// reach computes, for every node, the lock classes it may acquire
// (transitively through calls), each with one witnessing chain.
func (a *lkAnalysis) reach() map[*lkNode][]lkReach {
	out := map[*lkNode]map[string]string{}
	for _, n := range a.nodes {
		m := map[string]string{}
		for _, l := range n.locks {
			if _, ok := m[l.class]; !ok {
				m[l.class] = fmt.Sprintf("%s locks %s at %s", n.key, l.class, l.pos)
			}
		}
		out[n] = m
	}
	for changed := true; changed; {
		changed = false
		for _, n := range a.nodes {
			for _, c := range n.calls {
				for _, t := range c.callees {
					for class, chain := range out[t] {
						if _, ok := out[n][class]; !ok {
							via := ""
							if c.how != "" {
								via = " [" + c.how + "]"
							}
							out[n][class] = fmt.Sprintf("%s calls %s at %s%s; %s", n.key, t.key, c.pos, via, chain)
							changed = true
						}
					}
				}
			}
		}
	}
	res := map[*lkNode][]lkReach{}
	for n, m := range out {
		for _, k := range setList(boolKeys(m)) {
			res[n] = append(res[n], lkReach{k, m[k]})
		}
	}
	return res
}

// blocksReach: the functions that may perform a blocking channel operation
// (directly or through calls), with one chain.
func (a *lkAnalysis) blocksReach() map[*lkNode]string {
	out := map[*lkNode]string{}
	for _, n := range a.nodes {
		if len(n.blocking) > 0 {
			b := n.blocking[0]
			out[n] = fmt.Sprintf("%s: %s at %s", n.key, b.what, b.pos)
		}
	}
	for changed := true; changed; {
		changed = false
		for _, n := range a.nodes {
			if _, ok := out[n]; ok {
				continue
			}
			for _, c := range n.calls {
				for _, t := range c.callees {
					if chain, ok := out[t]; ok {
						if _, done := out[n]; !done {
							out[n] = fmt.Sprintf("%s calls %s at %s; %s", n.key, t.key, c.pos, chain)
							changed = true
						}
					}
				}
			}
		}
	}
	return out
}

func boolKeys(m map[string]string) map[string]bool {
	o := map[string]bool{}
	for k := range m {
		o[k] = true
	}
	return o
}

func (a *lkAnalysis) edges() []lkEdge {
	reach := a.reach()
	best := map[[2]string]string{}
	add := func(from, to, w string) {
		k := [2]string{from, to}
		if old, ok := best[k]; !ok || len(w) < len(old) || (len(w) == len(old) && w < old) {
			best[k] = w
		}
	}
	for _, n := range a.nodes {
		for _, l := range n.locks {
			for _, h := range l.mayBefore {
				add(h, l.class, fmt.Sprintf("%s holds %s and locks %s at %s", n.key, h, l.class, l.pos))
			}
		}
		for _, c := range n.calls {
			if len(c.may) == 0 {
				continue
			}
			for _, t := range c.callees {
				for _, r := range reach[t] {
					for _, h := range c.may {
						via := ""
						if c.how != "" {
							via = " [" + c.how + "]"
						}
						add(h, r.class, fmt.Sprintf("%s holds %s and calls %s at %s%s; %s", n.key, h, t.key, c.pos, via, r.chain))
					}
				}
			}
		}
	}
	var out []lkEdge
	for k, w := range best {
		out = append(out, lkEdge{k[0], k[1], w})
	}
	sort.Slice(out, func(i, j int) bool {
		if out[i].from != out[j].from {
			return out[i].from < out[j].from
		}
		return out[i].to < out[j].to
	})
	return out
}

// ---------------------------------------------------------------- output

func coqStr(s string) string {
	return "\"" + strings.ReplaceAll(s, "\"", "\"\"") + "\""
}
func coqStrList(l []string) string {
	p := make([]string, len(l))
	for i, s := range l {
		p[i] = coqStr(s)
	}
	return "[" + strings.Join(p, "; ") + "]"
}

// genLocks never takes the other generators down with it: if the analysis
// panics (a shape of a future tree it was not written for), Locks.v is
// written with one `unknown` entry, which makes the C13 lemmas fail.
func genLocks() {
	defer func() {
		if r := recover(); r != nil {
			fmt.Fprintln(os.Stderr, "gen/locks: panic:", r)
			a := &lkAnalysis{fset: token.NewFileSet(), guard: map[*types.Var]string{}, unkSeen: map[string]bool{}}
			a.unknowns = []lkUnknown{{"translator", "-", "-", fmt.Sprint("panic: ", r)}}
			a.emit()
		}
	}()
	genLocksMain()
}

func genLocksMain() {
	root, err := filepath.Abs(*repo)
	if err != nil {
		fmt.Fprintln(os.Stderr, "gen/locks:", err)
		os.Exit(2)
	}
	if r, err := filepath.EvalSymlinks(root); err == nil {
		root = r
	}
	fset := token.NewFileSet()
	cfg := &packages.Config{
		Mode: packages.NeedName | packages.NeedFiles | packages.NeedSyntax | packages.NeedTypes |
			packages.NeedTypesInfo | packages.NeedImports | packages.NeedDeps | packages.NeedModule,
		Dir: root, Fset: fset, Env: os.Environ(), Tests: false,
	}
	pkgs, err := packages.Load(cfg, "./...")
	if err != nil {
		fmt.Fprintln(os.Stderr, "gen/locks: loading the repository:", err)
		os.Exit(2)
	}
	sort.Slice(pkgs, func(i, j int) bool { return pkgs[i].PkgPath < pkgs[j].PkgPath })
	a := &lkAnalysis{fset: fset, root: root, pkgs: pkgs, byObj: map[*types.Func]*lkNode{},
		byLit: map[*ast.FuncLit]*lkNode{}, guard: map[*types.Var]string{}, unkSeen: map[string]bool{},
		bindings: map[*lkNode]map[int][]*lkNode{}}
	for _, p := range pkgs {
		for _, e := range p.Errors {
			a.unknowns = append(a.unknowns, lkUnknown{"load", p.PkgPath, "-", e.Error()})
		}
		if p.Module != nil && a.modPath == "" {
			a.modPath = p.Module.Path
		}
		// deterministic order of files
		sort.Slice(p.Syntax, func(i, j int) bool {
			return fset.Position(p.Syntax[i].Pos()).Filename < fset.Position(p.Syntax[j].Pos()).Filename
		})
	}
	if a.modPath == "" {
		a.modPath = "github.com/jech/galene"
	}
	if len(pkgs) == 0 {
		a.unknowns = append(a.unknowns, lkUnknown{"load", "-", "-", "no packages"})
	}
	a.buildGuards()
	a.collectNamed()
	a.collectFuncs()
	a.collectValueUses()
	a.setupUnknowns = append([]lkUnknown{}, a.unknowns...)
	a.run()
	a.emit()
}

func (a *lkAnalysis) emit() {
	var e emitter
	e.header("Lock discipline of /repo extracted by gen/locks.go: accesses to guarded fields with the\n   locks certainly held, \"called locked\" obligations, lock-order edges with witnesses,\n   blocking operations under a lock, and what the translator did not understand.")
	sb := &e.sb
	sb.WriteString("Open Scope string_scope.\n\n")
	sb.WriteString("(* (field, read/write, function, position, locks certainly held, required lock, instance)\n   instance = \"same\" when the lock was taken through the same expression as the field is\n   accessed through (g.mu.Lock() ... g.clients), or is assumed on entry for that object *)\n")
	sb.WriteString("Definition access : Type := (string * string * string * string * list string * string * string)%type.\n")
	sb.WriteString("(* (callee, why it requires the lock, caller, position, locks certainly held, required lock, instance) *)\n")
	sb.WriteString("Definition obligation : Type := (string * string * string * string * list string * string * string)%type.\n\n")

	var nodes []*lkNode
	for _, n := range a.nodes {
		if len(n.variants) > 0 && !n.called && len(n.roots) == 0 && n.valueUse == "" && !n.exported {
			// an unexported function that is only ever entered through its
			// specialised copies (constant bool arguments)
			continue
		}
		nodes = append(nodes, n)
	}
	sort.SliceStable(nodes, func(i, j int) bool { return nodes[i].key < nodes[j].key })

	// lock classes
	classes := map[string]bool{}
	for _, n := range nodes {
		for _, l := range n.locks {
			classes[l.class] = true
		}
		for k := range n.entry() {
			classes[k] = true
		}
	}
	for _, c := range a.guard {
		classes[c] = true
	}
	fmt.Fprintf(sb, "Definition lock_classes : list string := %s.\n\n", coqStrList(setList(classes)))

	gl := map[string]bool{}
	for _, c := range a.guard {
		gl[c] = true
	}
	fmt.Fprintf(sb, "(* the locks that guard the fields listed below *)\nDefinition guard_locks : list string := %s.\n\n", coqStrList(setList(gl)))

	// guarded fields
	gf := map[string]bool{}
	for f, c := range a.guard {
		gf[c[:strings.LastIndex(c, ".")]+"."+f.Name()+" <- "+c] = true
	}
	fmt.Fprintf(sb, "Definition guarded_fields : list string := %s.\n\n", coqStrList(setList(gf)))

	// accesses
	sb.WriteString("Definition accesses : list access := [\n")
	first := true
	nacc := 0
	for _, n := range nodes {
		for _, ac := range n.accesses {
			if !first {
				sb.WriteString(";\n")
			}
			first = false
			nacc++
			fmt.Fprintf(sb, "  (%s, %s, %s, %s, %s, %s, %s)", coqStr(ac.field), coqStr(ac.kind), coqStr(n.key), coqStr(ac.pos),
				coqStrList(ac.held), coqStr(ac.required), coqStr(ac.instance))
		}
	}
	sb.WriteString("\n].\n\n")

	// functions that assume a lock on entry
	sb.WriteString("(* functions analysed with a lock assumed held on entry: (function, lock, why) *)\n")
	sb.WriteString("Definition assumed_on_entry : list (string * string * string) := [\n")
	first = true
	for _, n := range nodes {
		for _, k := range setList(n.entry()) {
			why := "inferred: unexported and only called"
			if n.lit != nil {
				why = "inferred: function literal that is only called"
			}
			if n.annotated[k] {
				why = "annotated: " + n.annotWhy
			}
			if !first {
				sb.WriteString(";\n")
			}
			first = false
			fmt.Fprintf(sb, "  (%s, %s, %s)", coqStr(n.key), coqStr(k), coqStr(why))
		}
	}
	sb.WriteString("\n].\n\n")

	// obligations
	sb.WriteString("Definition call_obligations : list obligation := [\n")
	first = true
	for _, n := range nodes {
		for _, c := range n.calls {
			for _, t := range c.callees {
				for _, r := range setList(t.entry()) {
					why := "inferred"
					if t.annotated[r] {
						why = "annotated"
					}
					held := c.must
					if c.must == nil {
						held = []string{}
					}
					if !first {
						sb.WriteString(";\n")
					}
					first = false
					instance := "same"
					if contains(held, r) {
						name, idx := a.entryBase(t, r)
						actual := name
						switch {
						case idx == -1:
							actual = c.recvExpr
						case idx >= 0 && idx < len(c.argExprs):
							actual = c.argExprs[idx]
						}
						if hb := c.bases[r]; hb != "*" && name != "*" && hb != actual {
							instance = "lock held via " + hb + ", callee works on " + actual
						}
					}
					fmt.Fprintf(sb, "  (%s, %s, %s, %s, %s, %s, %s)", coqStr(t.key), coqStr(why), coqStr(n.key), coqStr(c.pos),
						coqStrList(held), coqStr(r), coqStr(instance))
				}
			}
		}
	}
	// a function that assumes a lock and can also start with nothing held
	for _, n := range nodes {
		if len(n.entry()) == 0 {
			continue
		}
		reasons := setList(n.roots)
		if n.valueUse != "" {
			reasons = append(reasons, "used as a value at "+n.valueUse)
		}
		if n.exported && n.lit == nil && len(n.inferred) > 0 {
			reasons = append(reasons, "exported")
		}
		if !n.called {
			reasons = append(reasons, "never called in the repository")
		}
		for _, why := range reasons {
			for _, r := range setList(n.entry()) {
				if n.annotated[r] && (why == "never called in the repository") {
					continue
				}
				if !first {
					sb.WriteString(";\n")
				}
				first = false
				fmt.Fprintf(sb, "  (%s, %s, %s, %s, [], %s, %s)", coqStr(n.key), coqStr("starts with no lock"), coqStr(why), coqStr(a.pos(n.body.Pos())), coqStr(r), coqStr("same"))
			}
		}
	}
	sb.WriteString("\n].\n\n")

	// edges
	edges := a.edges()
	sb.WriteString("(* (lock possibly held, lock acquired, one witnessing call chain) *)\n")
	sb.WriteString("Definition lock_edges : list (string * string * string) := [\n")
	for i, ed := range edges {
		if i > 0 {
			sb.WriteString(";\n")
		}
		fmt.Fprintf(sb, "  (%s, %s,\n   %s)", coqStr(ed.from), coqStr(ed.to), coqStr(ed.witness))
	}
	sb.WriteString("\n].\n\n")

	// blocking operations
	sb.WriteString("(* informational, one entry per (lock possibly held, blocking channel operation reached):\n   (operation or call chain to it, function, position, lock possibly held) *)\n")
	sb.WriteString("Definition blocking_under_lock : list (string * string * string * list string) := [\n")
	first = true
	blocks := a.blocksReach()
	type bkey struct{ class, op string }
	bestB := map[bkey][3]string{} // (what, function, position)
	addB := func(class, op, what, fn, pos string) {
		k := bkey{class, op}
		if old, ok := bestB[k]; !ok || len(what) < len(old[0]) || (len(what) == len(old[0]) && what+fn+pos < old[0]+old[1]+old[2]) {
			bestB[k] = [3]string{what, fn, pos}
		}
	}
	for _, n := range nodes {
		for _, b := range n.blocking {
			for _, h := range b.may {
				addB(h, b.what+" at "+b.pos, b.what, n.key, b.pos)
			}
		}
		for _, c := range n.calls {
			for _, t := range c.callees {
				if chain, ok := blocks[t]; ok {
					op := chain[strings.LastIndex(chain, ": ")+2:]
					for _, h := range c.may {
						addB(h, op, "calls "+t.key+"; "+chain, n.key, c.pos)
					}
				}
			}
		}
	}
	var bkeys []bkey
	for k := range bestB {
		bkeys = append(bkeys, k)
	}
	sort.Slice(bkeys, func(i, j int) bool {
		if bkeys[i].class != bkeys[j].class {
			return bkeys[i].class < bkeys[j].class
		}
		return bkeys[i].op < bkeys[j].op
	})
	for _, k := range bkeys {
		v := bestB[k]
		if !first {
			sb.WriteString(";\n")
		}
		first = false
		fmt.Fprintf(sb, "  (%s, %s, %s, %s)", coqStr(v[0]), coqStr(v[1]), coqStr(v[2]), coqStrList([]string{k.class}))
	}
	sb.WriteString("\n].\n\n")

	// split critical sections
	sb.WriteString("(* functions that take a mutex of an object again after having released it (the work of the\n   function is NOT one atomic step with respect to that mutex):\n   (function, lock, position of the Unlock, position of the second Lock) *)\n")
	sb.WriteString("Definition split_critical_sections : list (string * string * string * string) := [\n")
	first = true
	for _, n := range nodes {
		if n.origin != nil {
			continue
		}
		for _, r := range n.relocks {
			if !first {
				sb.WriteString(";\n")
			}
			first = false
			fmt.Fprintf(sb, "  (%s, %s, %s, %s)", coqStr(n.key), coqStr(r[0]), coqStr(r[1]), coqStr(r[2]))
		}
	}
	sb.WriteString("\n].\n\n")

	// escaping aliases of guarded slices and maps
	sb.WriteString("(* aliases of guarded slice/map fields that leave the critical section:\n   (field, function, position, how) *)\n")
	sb.WriteString("Definition escaping_guarded_state : list (string * string * string * string) := [\n")
	if len(a.pkgs) > 0 {
		for i, e := range a.escapes() {
			if i > 0 {
				sb.WriteString(";\n")
			}
			fmt.Fprintf(sb, "  (%s, %s, %s, %s)", coqStr(e.field), coqStr(e.fn), coqStr(e.pos), coqStr(e.how))
		}
	}
	sb.WriteString("\n].\n\n")

	// unknowns
	sort.Slice(a.unknowns, func(i, j int) bool {
		x, y := a.unknowns[i], a.unknowns[j]
		if x.fn != y.fn {
			return x.fn < y.fn
		}
		if x.pos != y.pos {
			return x.pos < y.pos
		}
		return x.text < y.text
	})
	sb.WriteString("(* (kind, function, position, what) *)\n")
	sb.WriteString("Definition unknown : list (string * string * string * string) := [\n")
	for i, u := range a.unknowns {
		if i > 0 {
			sb.WriteString(";\n")
		}
		fmt.Fprintf(sb, "  (%s, %s, %s, %s)", coqStr(u.kind), coqStr(u.fn), coqStr(u.pos), coqStr(u.text))
	}
	sb.WriteString("\n].\n\n")

	nlocks := 0
	ncalls := 0
	for _, n := range nodes {
		nlocks += len(n.locks)
		ncalls += len(n.calls)
	}
	fmt.Fprintf(sb, "(* %d function bodies, %d lock sites, %d resolved call sites, %d accesses, %d edges *)\n",
		len(nodes), nlocks, ncalls, nacc, len(edges))
	fmt.Fprintf(sb, "Definition n_function_bodies : nat := %d.\nDefinition n_lock_sites : nat := %d.\n", len(nodes), nlocks)
	e.write("Locks.v")
}

// ---------------------------------------------------------------- escaping guarded state
//
// A guarded field of slice or map type must not leave the critical section
// as an alias: the caller would read (or write) the backing array with the
// lock released.  A flow-insensitive alias analysis over the function bodies:
// an expression ALIASES the field F when it is the selector x.F, a reslice
// of an alias, append(alias, ...), slices.Clip/Delete/DeleteFunc/Insert/
// Compact/Grow(alias, ...), a conversion of an alias, a local variable that
// is somewhere assigned an alias, the result of a function of the repository
// that returns (an alias of) its parameter when that argument is an alias, or
// the result of a "called locked" function that returns an alias.  An alias
// ESCAPES when it is returned by a function that does not have F's lock
// assumed on entry (unless ownership is transferred: `q := x.F; x.F = nil;
// return q`), stored anywhere but in a local variable or back into x.F, put
// into a composite literal, sent on a channel, has its address taken, is
// passed to a `go` statement, to a call through an interface or a function
// value, or to a function outside the repository other than the builtins and
// the non-retaining helpers (slices, maps, sort, fmt, log, json), or is
// captured by a function literal that may run later.  Passing an alias to a
// function of the repository taints that parameter (context-insensitively)
// and the same rules apply inside.  Elements (m[k], s[i]) are values, not
// aliases of the container; pointers stored IN the container are not
// followed (limit).

type lkEscape struct{ field, fn, pos, how string }

var nonRetainingPkgs = map[string]bool{"slices": true, "maps": true, "sort": true, "fmt": true, "log": true,
	"json": true, "strings": true, "bytes": true}

var aliasReturningSlicesFuncs = map[string]bool{"Clip": true, "Delete": true, "DeleteFunc": true, "Insert": true,
	"Compact": true, "CompactFunc": true, "Grow": true}

type escCtx struct {
	a       *lkAnalysis
	taint   map[*types.Var]map[string]bool // "F:<field>" guarded field, "A:<field>" argument-borne alias, "P:<i>" parameter i
	retF    map[*lkNode]map[string]bool    // entry-assumed functions: fields whose alias they return
	retP    map[*lkNode]map[int]bool       // functions that return (an alias of) parameter i
	changed bool
	out     []lkEscape
	seen    map[string]bool
}

func (x *escCtx) add(m map[string]bool, k string) {
	if !m[k] {
		m[k] = true
		x.changed = true
	}
}

func (x *escCtx) report(n *lkNode, p token.Pos, field, how string) {
	e := lkEscape{field, n.key, x.a.pos(p), how}
	k := e.field + "|" + e.fn + "|" + e.pos + "|" + e.how
	if !x.seen[k] {
		x.seen[k] = true
		x.out = append(x.out, e)
	}
}

func isRefType(t types.Type) bool {
	switch t.Underlying().(type) {
	case *types.Slice, *types.Map:
		return true
	}
	return false
}

// guardedRef: sel is a guarded field of slice or map type.
func (x *escCtx) guardedRef(info *types.Info, sel *ast.SelectorExpr) (string, bool) {
	s := info.Selections[sel]
	if s == nil || s.Kind() != types.FieldVal {
		return "", false
	}
	f, ok := s.Obj().(*types.Var)
	if !ok {
		return "", false
	}
	class, guarded := x.a.guard[f.Origin()]
	if !guarded || !isRefType(f.Type()) {
		return "", false
	}
	return class[:strings.LastIndex(class, ".")] + "." + f.Name(), true
}

func (x *escCtx) staticCallee(info *types.Info, call *ast.CallExpr) *lkNode {
	fun := ast.Unparen(call.Fun)
	switch f := fun.(type) {
	case *ast.IndexExpr:
		fun = ast.Unparen(f.X)
	case *ast.IndexListExpr:
		fun = ast.Unparen(f.X)
	}
	switch f := fun.(type) {
	case *ast.Ident:
		if o, ok := info.Uses[f].(*types.Func); ok {
			return x.a.byObj[o.Origin()]
		}
	case *ast.SelectorExpr:
		if s := info.Selections[f]; s != nil {
			if s.Kind() == types.MethodVal {
				if _, isIface := s.Recv().Underlying().(*types.Interface); isIface {
					return nil
				}
				if o, ok := s.Obj().(*types.Func); ok {
					return x.a.byObj[o.Origin()]
				}
			}
			return nil
		}
		if o, ok := info.Uses[f.Sel].(*types.Func); ok {
			return x.a.byObj[o.Origin()]
		}
	}
	return nil
}

// calleeName: (package name, function name) of a call of a function that is
// not in the repository; builtin = ("builtin", name).
func (x *escCtx) externalName(info *types.Info, call *ast.CallExpr) (string, string, bool) {
	fun := ast.Unparen(call.Fun)
	switch f := fun.(type) {
	case *ast.IndexExpr:
		fun = ast.Unparen(f.X)
	case *ast.IndexListExpr:
		fun = ast.Unparen(f.X)
	}
	var id *ast.Ident
	switch f := fun.(type) {
	case *ast.Ident:
		id = f
	case *ast.SelectorExpr:
		if info.Selections[f] != nil {
			return "", "", false
		}
		id = f.Sel
	default:
		return "", "", false
	}
	switch o := info.Uses[id].(type) {
	case *types.Builtin:
		return "builtin", o.Name(), true
	case *types.Func:
		if o.Pkg() != nil && !x.a.inRepo(o.Pkg()) {
			return o.Pkg().Name(), o.Name(), true
		}
	}
	return "", "", false
}

// src: the alias sources of an expression.
func (x *escCtx) src(n *lkNode, e ast.Expr) map[string]bool {
	info := n.pkg.TypesInfo
	switch v := ast.Unparen(e).(type) {
	case *ast.SelectorExpr:
		if f, ok := x.guardedRef(info, v); ok {
			return map[string]bool{"F:" + f: true}
		}
	case *ast.Ident:
		if o, ok := info.Uses[v].(*types.Var); ok {
			return x.taint[o]
		}
		if o, ok := info.Defs[v].(*types.Var); ok {
			return x.taint[o]
		}
	case *ast.SliceExpr:
		return x.src(n, v.X)
	case *ast.CallExpr:
		if tv, ok := info.Types[v.Fun]; ok && tv.IsType() && len(v.Args) == 1 {
			return x.src(n, v.Args[0])
		}
		if pkg, name, ok := x.externalName(info, v); ok {
			if len(v.Args) > 0 && ((pkg == "builtin" && name == "append") || (pkg == "slices" && aliasReturningSlicesFuncs[name])) {
				return x.src(n, v.Args[0])
			}
			return nil
		}
		if t := x.staticCallee(info, v); t != nil {
			out := map[string]bool{}
			for f := range x.retF[t] {
				out["F:"+f] = true
			}
			for i := range x.retP[t] {
				if i < len(v.Args) {
					for s := range x.src(n, v.Args[i]) {
						out[s] = true
					}
				}
			}
			return out
		}
	}
	return nil
}

func fieldOf(source string) (string, bool) {
	if strings.HasPrefix(source, "F:") || strings.HasPrefix(source, "A:") {
		return source[2:], true
	}
	return "", false
}

// transferred: `return q` where q := x.F once and x.F is reset (nil or a
// fresh value) afterwards, at the top level of the body: ownership moves to
// the caller.
func (x *escCtx) transferred(n *lkNode, e ast.Expr) bool {
	info := n.pkg.TypesInfo
	id, ok := ast.Unparen(e).(*ast.Ident)
	if !ok {
		return false
	}
	v, _ := info.Uses[id].(*types.Var)
	if v == nil {
		return false
	}
	var from string
	step := 0
	for _, s := range n.body.List {
		as, ok := s.(*ast.AssignStmt)
		if !ok || len(as.Lhs) != 1 || len(as.Rhs) != 1 {
			continue
		}
		switch step {
		case 0:
			if l, ok := as.Lhs[0].(*ast.Ident); ok && (info.Defs[l] == v || info.Uses[l] == v) {
				if sel, ok := ast.Unparen(as.Rhs[0]).(*ast.SelectorExpr); ok {
					if _, g := x.guardedRef(info, sel); g {
						from = types.ExprString(sel)
						step = 1
					}
				}
			}
		case 1:
			if sel, ok := ast.Unparen(as.Lhs[0]).(*ast.SelectorExpr); ok && types.ExprString(sel) == from {
				if r, ok := ast.Unparen(as.Rhs[0]).(*ast.Ident); ok && r.Name == "nil" {
					step = 2
				}
			}
		}
	}
	if step != 2 {
		return false
	}
	// q is assigned exactly once
	count := 0
	ast.Inspect(n.body, func(nd ast.Node) bool {
		if as, ok := nd.(*ast.AssignStmt); ok {
			for _, l := range as.Lhs {
				if li, ok := l.(*ast.Ident); ok && (info.Defs[li] == v || info.Uses[li] == v) {
					count++
				}
			}
		}
		return true
	})
	return count == 1
}

func (x *escCtx) localVar(info *types.Info, e ast.Expr) *types.Var {
	id, ok := ast.Unparen(e).(*ast.Ident)
	if !ok {
		return nil
	}
	var v *types.Var
	if d, ok := info.Defs[id].(*types.Var); ok {
		v = d
	} else if u, ok := info.Uses[id].(*types.Var); ok {
		v = u
	}
	if v == nil || v.Pkg() == nil || v.Parent() == v.Pkg().Scope() || v.IsField() {
		return nil
	}
	return v
}

func (x *escCtx) assign(n *lkNode, lhs ast.Expr, srcs map[string]bool, p token.Pos) {
	if len(srcs) == 0 {
		return
	}
	info := n.pkg.TypesInfo
	if id, ok := ast.Unparen(lhs).(*ast.Ident); ok && id.Name == "_" {
		return
	}
	if v := x.localVar(info, lhs); v != nil {
		m := x.taint[v]
		if m == nil {
			m = map[string]bool{}
			x.taint[v] = m
		}
		for s := range srcs {
			x.add(m, s)
		}
		return
	}
	for s := range srcs {
		f, ok := fieldOf(s)
		if !ok {
			continue
		}
		if sel, ok := ast.Unparen(lhs).(*ast.SelectorExpr); ok {
			if g, isG := x.guardedRef(info, sel); isG && g == f {
				continue // stored back into the same guarded field
			}
		}
		x.report(n, p, f, "stored into "+types.ExprString(lhs))
	}
}

func (x *escCtx) walk(n *lkNode) {
	info := n.pkg.TypesInfo
	_, params := x.a.fieldVars(n)
	for i, p := range params {
		if p != nil && isRefType(p.Type()) {
			m := x.taint[p]
			if m == nil {
				m = map[string]bool{}
				x.taint[p] = m
			}
			x.add(m, fmt.Sprintf("P:%d", i))
		}
	}
	entry := n.entry()
	isRoot := len(n.roots) > 0
	ast.Inspect(n.body, func(nd ast.Node) bool {
		switch v := nd.(type) {
		case *ast.FuncLit:
			return false
		case *ast.AssignStmt:
			if len(v.Lhs) == len(v.Rhs) {
				for i := range v.Lhs {
					x.assign(n, v.Lhs[i], x.src(n, v.Rhs[i]), v.Pos())
				}
			} else if len(v.Rhs) == 1 {
				s := x.src(n, v.Rhs[0])
				for _, l := range v.Lhs {
					x.assign(n, l, s, v.Pos())
				}
			}
		case *ast.ValueSpec:
			if len(v.Names) == len(v.Values) {
				for i := range v.Names {
					x.assign(n, v.Names[i], x.src(n, v.Values[i]), v.Pos())
				}
			}
		case *ast.ReturnStmt:
			results := v.Results
			if len(results) == 0 && n.ftype.Results != nil {
				for _, f := range n.ftype.Results.List {
					for _, nm := range f.Names {
						results = append(results, nm)
					}
				}
			}
			for _, r := range results {
				for s := range x.src(n, r) {
					switch {
					case strings.HasPrefix(s, "P:"):
						var i int
						fmt.Sscanf(s, "P:%d", &i)
						if x.retP[n] == nil {
							x.retP[n] = map[int]bool{}
						}
						if !x.retP[n][i] {
							x.retP[n][i] = true
							x.changed = true
						}
					case strings.HasPrefix(s, "A:"):
						// an alias that came in as an argument and goes back to
						// the caller, who holds it anyway (see retP)
					case strings.HasPrefix(s, "F:"):
						f := s[2:]
						class := ""
						for fv, c := range x.a.guard {
							if c[:strings.LastIndex(c, ".")]+"."+fv.Name() == f {
								class = c
							}
						}
						if entry[class] && n.lit == nil {
							if x.retF[n] == nil {
								x.retF[n] = map[string]bool{}
							}
							x.add(x.retF[n], f)
						} else if !x.transferred(n, r) {
							x.report(n, v.Pos(), f, "returned to a caller that does not hold the lock")
						}
					}
				}
			}
		case *ast.SendStmt:
			for s := range x.src(n, v.Value) {
				if f, ok := fieldOf(s); ok {
					x.report(n, v.Pos(), f, "sent on a channel")
				}
			}
		case *ast.CompositeLit:
			for _, el := range v.Elts {
				val := el
				if kv, ok := el.(*ast.KeyValueExpr); ok {
					val = kv.Value
				}
				for s := range x.src(n, val) {
					if f, ok := fieldOf(s); ok {
						x.report(n, el.Pos(), f, "stored into a composite literal")
					}
				}
			}
		case *ast.UnaryExpr:
			if v.Op == token.AND {
				for s := range x.src(n, v.X) {
					if f, ok := fieldOf(s); ok {
						x.report(n, v.Pos(), f, "address taken")
					}
				}
			}
		case *ast.GoStmt:
			for _, arg := range v.Call.Args {
				for s := range x.src(n, arg) {
					if f, ok := fieldOf(s); ok {
						x.report(n, v.Pos(), f, "passed to a go statement")
					}
				}
			}
		case *ast.CallExpr:
			if tv, ok := info.Types[v.Fun]; ok && tv.IsType() {
				return true
			}
			pkg, name, ext := x.externalName(info, v)
			callee := x.staticCallee(info, v)
			for i, arg := range v.Args {
				srcs := x.src(n, arg)
				if len(srcs) == 0 {
					continue
				}
				switch {
				case ext && (pkg == "builtin" || nonRetainingPkgs[pkg]):
					_ = name
				case callee != nil:
					ps := callee.paramsOf(x.a)
					idx := i
					if idx >= len(ps) {
						idx = len(ps) - 1 // variadic
					}
					if idx < 0 || ps[idx] == nil {
						for s := range srcs {
							if f, ok := fieldOf(s); ok {
								x.report(n, arg.Pos(), f, "passed to "+callee.key+" (parameter cannot be named)")
							}
						}
						continue
					}
					m := x.taint[ps[idx]]
					if m == nil {
						m = map[string]bool{}
						x.taint[ps[idx]] = m
					}
					for s := range srcs {
						if f, ok := fieldOf(s); ok {
							x.add(m, "A:"+f)
						}
					}
				default:
					for s := range srcs {
						if f, ok := fieldOf(s); ok {
							x.report(n, arg.Pos(), f, "passed to "+types.ExprString(v.Fun)+", which the translator cannot follow")
						}
					}
				}
			}
		case *ast.Ident:
			// captured by a function literal that may run later
			if isRoot && n.lit != nil {
				if o, ok := info.Uses[v].(*types.Var); ok {
					if o.Pos() < n.lit.Pos() || o.Pos() > n.lit.End() {
						for s := range x.taint[o] {
							if f, ok := fieldOf(s); ok {
								x.report(n, v.Pos(), f, "captured by a function literal that may run with the lock released")
							}
						}
					}
				}
			}
		}
		return true
	})
}

func (a *lkAnalysis) escapes() []lkEscape {
	x := &escCtx{a: a, taint: map[*types.Var]map[string]bool{}, retF: map[*lkNode]map[string]bool{},
		retP: map[*lkNode]map[int]bool{}}
	for round := 0; round < 30; round++ {
		x.changed = false
		x.out = nil
		x.seen = map[string]bool{}
		for _, n := range a.nodes {
			if n.origin != nil {
				continue
			}
			x.walk(n)
		}
		if !x.changed {
			break
		}
	}
	if x.changed {
		x.out = append(x.out, lkEscape{"-", "-", "-", "alias analysis did not reach a fixpoint"})
	}
	sort.Slice(x.out, func(i, j int) bool {
		p, q := x.out[i], x.out[j]
		if p.fn != q.fn {
			return p.fn < q.fn
		}
		if p.pos != q.pos {
			return p.pos < q.pos
		}
		return p.field+p.how < q.field+q.how
	})
	return x.out
}

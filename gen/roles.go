// roles.go: Generated/Roles.v -- the role table of group/description.go
// (`permissionsMap`) and the shape of `Permissions.Permissions`: which
// permission is added under which description flag and which precondition.
// Purely syntactic; a shape that is not understood is emitted as "unknown",
// which makes the lemmas of Proofs/AuthRoles.v fail.
package main

import (
	"fmt"
	"go/ast"
	"go/token"
	"sort"
	"strconv"
	"strings"
)

func init() { generators = append(generators, genRoles) }

func coqString(s string) string {
	// Coq string literal: only the double quote is escaped (doubled)
	return "\"" + strings.ReplaceAll(s, "\"", "\"\"") + "\""
}

func coqStringList(l []string) string {
	parts := make([]string, len(l))
	for i, s := range l {
		parts[i] = coqString(s)
	}
	return "[" + strings.Join(parts, "; ") + "]"
}

func stringLit(e ast.Expr) (string, bool) {
	bl, ok := e.(*ast.BasicLit)
	if !ok || bl.Kind != token.STRING {
		return "", false
	}
	s, err := strconv.Unquote(bl.Value)
	return s, err == nil
}

// stringSliceLit reads {"a", "b"} (with or without the []string type).
func stringSliceLit(e ast.Expr) ([]string, bool) {
	cl, ok := e.(*ast.CompositeLit)
	if !ok {
		return nil, false
	}
	out := []string{}
	for _, el := range cl.Elts {
		s, ok := stringLit(el)
		if !ok {
			return nil, false
		}
		out = append(out, s)
	}
	return out, true
}

type roleEntry struct {
	name  string
	perms []string
}

// roleTable reads `var permissionsMap = map[string][]string{...}`.
func roleTable(f *file) ([]roleEntry, bool) {
	for _, d := range f.f.Decls {
		gd, ok := d.(*ast.GenDecl)
		if !ok || gd.Tok != token.VAR {
			continue
		}
		for _, s := range gd.Specs {
			vs := s.(*ast.ValueSpec)
			for i, n := range vs.Names {
				if n.Name != "permissionsMap" || i >= len(vs.Values) {
					continue
				}
				cl, ok := vs.Values[i].(*ast.CompositeLit)
				if !ok {
					return nil, false
				}
				var out []roleEntry
				for _, el := range cl.Elts {
					kv, ok := el.(*ast.KeyValueExpr)
					if !ok {
						return nil, false
					}
					k, ok1 := stringLit(kv.Key)
					v, ok2 := stringSliceLit(kv.Value)
					if !ok1 || !ok2 {
						return nil, false
					}
					out = append(out, roleEntry{k, v})
				}
				return out, true
			}
		}
	}
	return nil, false
}

func isIdent(e ast.Expr, name string) bool {
	id, ok := e.(*ast.Ident)
	return ok && id.Name == name
}

func isSel(e ast.Expr, x, sel string) bool {
	se, ok := e.(*ast.SelectorExpr)
	return ok && isIdent(se.X, x) && se.Sel.Name == sel
}

// conj flattens a && b && c.
func conj(e ast.Expr) []ast.Expr {
	if p, ok := e.(*ast.ParenExpr); ok {
		return conj(p.X)
	}
	if b, ok := e.(*ast.BinaryExpr); ok && b.Op == token.LAND {
		return append(conj(b.X), conj(b.Y)...)
	}
	return []ast.Expr{e}
}

type rule struct {
	flag, added string
	pos, neg    []string
}

// flagLoop reads
//
//	for _, p := range perms { switch p { case "op": op = true ... } }
//
// and returns the pairs (permission literal, boolean variable).
func flagLoop(s ast.Stmt) ([][2]string, bool) {
	rs, ok := s.(*ast.RangeStmt)
	if !ok || !isIdent(rs.X, "perms") || len(rs.Body.List) != 1 {
		return nil, false
	}
	v, ok := rs.Value.(*ast.Ident)
	if !ok {
		return nil, false
	}
	sw, ok := rs.Body.List[0].(*ast.SwitchStmt)
	if !ok || sw.Init != nil || !isIdent(sw.Tag, v.Name) {
		return nil, false
	}
	var out [][2]string
	for _, c := range sw.Body.List {
		cc := c.(*ast.CaseClause)
		if len(cc.List) != 1 || len(cc.Body) != 1 {
			return nil, false
		}
		lit, ok := stringLit(cc.List[0])
		if !ok {
			return nil, false
		}
		as, ok := cc.Body[0].(*ast.AssignStmt)
		if !ok || as.Tok != token.ASSIGN || len(as.Lhs) != 1 || len(as.Rhs) != 1 ||
			!isIdent(as.Rhs[0], "true") {
			return nil, false
		}
		lhs, ok := as.Lhs[0].(*ast.Ident)
		if !ok {
			return nil, false
		}
		out = append(out, [2]string{lit, lhs.Name})
	}
	return out, true
}

// addRule reads
//
//	if desc != nil && desc.<Flag> {
//		if a && !b { perms = append([]string{"<added>"}, perms...) }
//	}
func addRule(s ast.Stmt) (rule, bool) {
	var r rule
	is, ok := s.(*ast.IfStmt)
	if !ok || is.Init != nil || is.Else != nil || len(is.Body.List) != 1 {
		return r, false
	}
	cs := conj(is.Cond)
	if len(cs) != 2 {
		return r, false
	}
	ne, ok := cs[0].(*ast.BinaryExpr)
	if !ok || ne.Op != token.NEQ || !isIdent(ne.X, "desc") || !isIdent(ne.Y, "nil") {
		return r, false
	}
	fs, ok := cs[1].(*ast.SelectorExpr)
	if !ok || !isIdent(fs.X, "desc") {
		return r, false
	}
	r.flag = fs.Sel.Name
	inner, ok := is.Body.List[0].(*ast.IfStmt)
	if !ok || inner.Init != nil || inner.Else != nil || len(inner.Body.List) != 1 {
		return r, false
	}
	for _, c := range conj(inner.Cond) {
		switch v := c.(type) {
		case *ast.Ident:
			r.pos = append(r.pos, v.Name)
		case *ast.UnaryExpr:
			id, ok := v.X.(*ast.Ident)
			if v.Op != token.NOT || !ok {
				return r, false
			}
			r.neg = append(r.neg, id.Name)
		default:
			return r, false
		}
	}
	as, ok := inner.Body.List[0].(*ast.AssignStmt)
	if !ok || as.Tok != token.ASSIGN || len(as.Lhs) != 1 || len(as.Rhs) != 1 ||
		!isIdent(as.Lhs[0], "perms") {
		return r, false
	}
	call, ok := as.Rhs[0].(*ast.CallExpr)
	if !ok || !isIdent(call.Fun, "append") || len(call.Args) != 2 ||
		!call.Ellipsis.IsValid() || !isIdent(call.Args[1], "perms") {
		return r, false
	}
	added, ok := stringSliceLit(call.Args[0])
	if !ok || len(added) != 1 {
		return r, false
	}
	r.added = added[0]
	return r, true
}

// permissionsShape classifies every top-level statement of
// Permissions.Permissions; anything it does not recognise is "unknown".
func permissionsShape(f *file) (shape []string, flags [][2]string, rules []rule) {
	fd := f.funcDecl("Permissions.Permissions")
	if fd == nil || fd.Body == nil {
		return []string{"unknown"}, nil, nil
	}
	for _, s := range fd.Body.List {
		switch v := s.(type) {
		case *ast.IfStmt:
			// if p.name == "" { return p.permissions }
			if be, ok := v.Cond.(*ast.BinaryExpr); ok && be.Op == token.EQL &&
				isSel(be.X, "p", "name") && v.Init == nil && v.Else == nil &&
				len(v.Body.List) == 1 {
				if lit, ok := stringLit(be.Y); ok && lit == "" {
					if rt, ok := v.Body.List[0].(*ast.ReturnStmt); ok &&
						len(rt.Results) == 1 && isSel(rt.Results[0], "p", "permissions") {
						shape = append(shape, "raw_return")
						continue
					}
				}
			}
			if r, ok := addRule(v); ok {
				rules = append(rules, r)
				shape = append(shape, "rule")
				continue
			}
			shape = append(shape, "unknown")
		case *ast.AssignStmt:
			// perms := permissionsMap[p.name]   |   flag := false
			if v.Tok == token.DEFINE && len(v.Lhs) == 1 && len(v.Rhs) == 1 {
				if ix, ok := v.Rhs[0].(*ast.IndexExpr); ok && isIdent(v.Lhs[0], "perms") &&
					isIdent(ix.X, "permissionsMap") && isSel(ix.Index, "p", "name") {
					shape = append(shape, "lookup")
					continue
				}
				if id, ok := v.Lhs[0].(*ast.Ident); ok && isIdent(v.Rhs[0], "false") {
					shape = append(shape, "flag:"+id.Name)
					continue
				}
			}
			shape = append(shape, "unknown")
		case *ast.RangeStmt:
			if fl, ok := flagLoop(v); ok {
				flags = fl
				shape = append(shape, "flagloop")
				continue
			}
			shape = append(shape, "unknown")
		case *ast.ReturnStmt:
			if len(v.Results) == 1 && isIdent(v.Results[0], "perms") {
				shape = append(shape, "return_perms")
				continue
			}
			shape = append(shape, "unknown")
		default:
			shape = append(shape, "unknown")
		}
	}
	return
}

func genRoles() {
	var e emitter
	e.header("Role table permissionsMap and the shape of Permissions.Permissions (group/description.go).")
	e.sb.WriteString("Open Scope string_scope.\n\n")
	f := parse("group/description.go")

	table, ok := roleTable(f)
	if !ok {
		table = []roleEntry{{"unknown", []string{"unknown"}}}
	}
	// Go map literal: the order of the entries is irrelevant (duplicate keys
	// do not compile), so sort by role name; the order inside a role is kept.
	sort.SliceStable(table, func(i, j int) bool { return table[i].name < table[j].name })
	e.sb.WriteString("(* permissionsMap, sorted by role name *)\n")
	e.sb.WriteString("Definition roles : list (string * list string) :=\n  [")
	for i, r := range table {
		if i > 0 {
			e.sb.WriteString(";\n   ")
		}
		fmt.Fprintf(&e.sb, "(%s, %s)", coqString(r.name), coqStringList(r.perms))
	}
	e.sb.WriteString("].\n\n")

	shape, flags, rules := permissionsShape(f)
	e.sb.WriteString("(* one tag per top-level statement of Permissions.Permissions *)\n")
	fmt.Fprintf(&e.sb, "Definition permissions_shape : list string :=\n  %s.\n\n", coqStringList(shape))
	e.sb.WriteString("(* the switch in the loop over the role's permissions: (literal, flag variable) *)\n")
	e.sb.WriteString("Definition permissions_flags : list (string * string) :=\n  [")
	for i, fl := range flags {
		if i > 0 {
			e.sb.WriteString("; ")
		}
		fmt.Fprintf(&e.sb, "(%s, %s)", coqString(fl[0]), coqString(fl[1]))
	}
	e.sb.WriteString("].\n\n")
	e.sb.WriteString("(* conditional additions, in source order:\n" +
		"   (description flag, permission prepended, flag variables required true, required false) *)\n")
	e.sb.WriteString("Definition permissions_rules : list (string * string * list string * list string) :=\n  [")
	for i, r := range rules {
		if i > 0 {
			e.sb.WriteString(";\n   ")
		}
		fmt.Fprintf(&e.sb, "(%s, %s, %s, %s)", coqString(r.flag), coqString(r.added),
			coqStringList(r.pos), coqStringList(r.neg))
	}
	e.sb.WriteString("].\n")
	e.write("Roles.v")
}

// history.go: Generated/HistoryConsts.v -- the constants of the chat history
// of group/group.go and group/description.go (C15, history part):
// maxChatHistory, DefaultMaxHistoryAge (in nanoseconds), the unit by which
// maxHistoryAge multiplies the description field, the shape of
// maxHistoryAge, and the comparison operators of the eviction test of
// AddToChatHistory and of the age test of discardObsoleteHistory.
// Purely syntactic; what is not understood is emitted as -1 / "unknown",
// which makes the consistency lemmas of Proofs/History.v fail.
package main

import (
	"fmt"
	"go/ast"
	"go/token"
	"strconv"
)

func init() { generators = append(generators, genHistory) }

// histTimeUnits are the time.Duration constants in nanoseconds.
var histTimeUnits = map[string]int64{
	"Nanosecond":  1,
	"Microsecond": 1000,
	"Millisecond": 1000000,
	"Second":      1000000000,
	"Minute":      60 * 1000000000,
	"Hour":        3600 * 1000000000,
}

// histEvalDuration evaluates a constant expression made of integer literals,
// package constants, time.<Unit>, parentheses and * + -.
func histEvalDuration(e ast.Expr, consts map[string]int64) (int64, bool) {
	switch v := e.(type) {
	case *ast.BasicLit:
		if v.Kind != token.INT {
			return 0, false
		}
		n, err := strconv.ParseInt(v.Value, 0, 64)
		return n, err == nil
	case *ast.ParenExpr:
		return histEvalDuration(v.X, consts)
	case *ast.Ident:
		n, ok := consts[v.Name]
		return n, ok
	case *ast.SelectorExpr:
		if p, ok := v.X.(*ast.Ident); ok && p.Name == "time" {
			n, ok := histTimeUnits[v.Sel.Name]
			return n, ok
		}
		return 0, false
	case *ast.BinaryExpr:
		a, ok1 := histEvalDuration(v.X, consts)
		b, ok2 := histEvalDuration(v.Y, consts)
		if !ok1 || !ok2 {
			return 0, false
		}
		switch v.Op {
		case token.MUL:
			return a * b, true
		case token.ADD:
			return a + b, true
		case token.SUB:
			return a - b, true
		}
	}
	return 0, false
}

// histConstExpr returns the value expression of a package-level constant.
func histConstExpr(f *file, name string) ast.Expr {
	for _, d := range f.f.Decls {
		gd, ok := d.(*ast.GenDecl)
		if !ok || gd.Tok != token.CONST {
			continue
		}
		for _, s := range gd.Specs {
			vs := s.(*ast.ValueSpec)
			for i, n := range vs.Names {
				if n.Name == name && i < len(vs.Values) {
					return vs.Values[i]
				}
			}
		}
	}
	return nil
}

func histIsSel(e ast.Expr, x, sel string) bool {
	s, ok := e.(*ast.SelectorExpr)
	if !ok || s.Sel.Name != sel {
		return false
	}
	id, ok := s.X.(*ast.Ident)
	return ok && id.Name == x
}

// histAgeShape recognises
//
//	if desc.MaxHistoryAge != 0 {
//		return time.Duration(desc.MaxHistoryAge) * <unit>
//	}
//	return DefaultMaxHistoryAge
//
// and returns the unit in nanoseconds.
func histAgeShape(fd *ast.FuncDecl) (unit int64, ok bool) {
	if fd == nil || fd.Body == nil || len(fd.Body.List) != 2 {
		return -1, false
	}
	if fd.Type.Params == nil || len(fd.Type.Params.List) != 1 ||
		len(fd.Type.Params.List[0].Names) != 1 {
		return -1, false
	}
	p := fd.Type.Params.List[0].Names[0].Name
	ifs, ok1 := fd.Body.List[0].(*ast.IfStmt)
	ret, ok2 := fd.Body.List[1].(*ast.ReturnStmt)
	if !ok1 || !ok2 || ifs.Init != nil || ifs.Else != nil {
		return -1, false
	}
	cond, ok := ifs.Cond.(*ast.BinaryExpr)
	if !ok || cond.Op != token.NEQ || !histIsSel(cond.X, p, "MaxHistoryAge") {
		return -1, false
	}
	if z, ok := cond.Y.(*ast.BasicLit); !ok || z.Value != "0" {
		return -1, false
	}
	if len(ifs.Body.List) != 1 {
		return -1, false
	}
	r1, ok := ifs.Body.List[0].(*ast.ReturnStmt)
	if !ok || len(r1.Results) != 1 {
		return -1, false
	}
	mul, ok := r1.Results[0].(*ast.BinaryExpr)
	if !ok || mul.Op != token.MUL {
		return -1, false
	}
	conv, ok := mul.X.(*ast.CallExpr)
	if !ok || !histIsSel(conv.Fun, "time", "Duration") || len(conv.Args) != 1 ||
		!histIsSel(conv.Args[0], p, "MaxHistoryAge") {
		return -1, false
	}
	u, ok := histEvalDuration(mul.Y, nil)
	if !ok {
		return -1, false
	}
	if len(ret.Results) != 1 {
		return -1, false
	}
	if id, ok := ret.Results[0].(*ast.Ident); !ok || id.Name != "DefaultMaxHistoryAge" {
		return -1, false
	}
	return u, true
}

// histCompareOp returns the operator of the unique comparison in fn whose
// one side mentions the identifier `mention` (as an identifier or a selector
// name), e.g. ">=" for `len(g.history) >= maxChatHistory`.
func histCompareOp(f *file, fn, mention string) string {
	fd := f.funcDecl(fn)
	if fd == nil || fd.Body == nil {
		return "unknown"
	}
	mentions := func(e ast.Expr) bool {
		found := false
		ast.Inspect(e, func(n ast.Node) bool {
			if id, ok := n.(*ast.Ident); ok && id.Name == mention {
				found = true
			}
			return true
		})
		return found
	}
	var ops []string
	ast.Inspect(fd.Body, func(n ast.Node) bool {
		be, ok := n.(*ast.BinaryExpr)
		if !ok {
			return true
		}
		switch be.Op {
		case token.LSS, token.LEQ, token.GTR, token.GEQ, token.EQL, token.NEQ:
			if mentions(be.Y) && !mentions(be.X) {
				ops = append(ops, be.Op.String())
			} else if mentions(be.X) && !mentions(be.Y) {
				ops = append(ops, "flipped "+be.Op.String())
			}
		}
		return true
	})
	if len(ops) != 1 {
		return "unknown"
	}
	return ops[0]
}

func genHistory() {
	var e emitter
	e.header("Chat history constants of group/group.go and group/description.go (C15).")

	g := parse("group/group.go")
	e.z("maxChatHistory", orMinus(g.constants(), "maxChatHistory"))

	d := parse("group/description.go")
	def := int64(-1)
	if x := histConstExpr(d, "DefaultMaxHistoryAge"); x != nil {
		if v, ok := histEvalDuration(x, d.constants()); ok {
			def = v
		}
	}
	e.z("defaultMaxHistoryAge", def)
	unit, ok := histAgeShape(d.funcDecl("maxHistoryAge"))
	e.z("maxHistoryAgeUnit", unit)
	fmt.Fprintf(&e.sb, "Definition maxHistoryAge_shape_ok : bool := %v.\n", ok)
	// `len(g.history) >= maxChatHistory` and `time.Since(h[i].Time) <= duration`
	fmt.Fprintf(&e.sb, "Definition addEvictOp : string := %s%%string.\n",
		strconv.Quote(histCompareOp(g, "Group.AddToChatHistory", "maxChatHistory")))
	fmt.Fprintf(&e.sb, "Definition discardKeepOp : string := %s%%string.\n",
		strconv.Quote(histCompareOp(g, "discardObsoleteHistory", "duration")))
	e.write("HistoryConsts.v")
}

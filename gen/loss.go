// loss.go: Generated/LossConsts.v -- the parts of rtpconn that Model/Loss.v
// transcribes and that no driver can execute (readLoop needs a
// webrtc.TrackRemote, sendUpRTCP and nackWriter a peer connection):
//
//   - readLoop (rtpreader.go): the statements between Cache.Store and the
//     computation of the writer delay, i.e. the delta/packets/unnacked NACK
//     decision, as normalised source text, and their integer literals;
//   - sendUpRTCP (rtpconn.go): the statements of the per-track loop that
//     mention stats/totalLost/fractionLost, and their integer literals;
//   - rtpUpTrack.sendNACK / sendNACKs: the Expect calls and the ToBitmap
//     loop with its 240-pair limit;
//   - nackWriter (rtpwriter.go): the statements that mention cutoff/nacks;
//   - rtpUpTrack.GetPacket: the whole body (buffering without duplicates).
//
// Purely syntactic.  Proofs/LossConsts.v states what Model/Loss.v was
// transcribed from; any edit of these statements makes that lemma fail.
package main

import (
	"bytes"
	"fmt"
	"go/ast"
	"go/printer"
	"strings"
)

func init() { generators = append(generators, genLoss) }

// lossSrc prints a node on one line (runs of white space collapsed).
func lossSrc(f *file, n ast.Node) string {
	if ds, ok := n.(*ast.DeclStmt); ok {
		if gd, ok := ds.Decl.(*ast.GenDecl); ok {
			gd.Doc = nil // comments are not part of the statement
		}
	}
	var b bytes.Buffer
	if err := printer.Fprint(&b, f.fset, n); err != nil {
		return "unprintable"
	}
	return strings.Join(strings.Fields(b.String()), " ")
}

func lossMentions(n ast.Node, names ...string) bool {
	found := false
	ast.Inspect(n, func(x ast.Node) bool {
		if id, ok := x.(*ast.Ident); ok {
			for _, nm := range names {
				if id.Name == nm {
					found = true
				}
			}
		}
		return !found
	})
	return found
}

// lossLits returns the integer literals of a node in source order (same
// convention as file.literals).
func lossLits(n ast.Node) []int64 {
	var out []int64
	ast.Inspect(n, func(x ast.Node) bool {
		if e, ok := x.(ast.Expr); ok {
			if _, isIdent := e.(*ast.Ident); !isIdent {
				if v, ok := evalInt(e, nil); ok {
					out = append(out, v)
					return false
				}
			}
		}
		return true
	})
	return out
}

// lossForBody returns the body of the first for/range statement of fd whose
// body mentions one of names.
func lossForBody(fd *ast.FuncDecl, names ...string) []ast.Stmt {
	var body []ast.Stmt
	if fd == nil || fd.Body == nil {
		return nil
	}
	ast.Inspect(fd.Body, func(x ast.Node) bool {
		if body != nil {
			return false
		}
		switch s := x.(type) {
		case *ast.ForStmt:
			if lossMentions(s.Body, names...) {
				body = s.Body.List
				return false
			}
		case *ast.RangeStmt:
			if lossMentions(s.Body, names...) {
				body = s.Body.List
				return false
			}
		}
		return true
	})
	return body
}

func lossCoqString(s string) string {
	return "\"" + strings.ReplaceAll(s, "\"", "\"\"") + "\""
}

func (e *emitter) strlist(name string, vs []string) {
	fmt.Fprintf(&e.sb, "Definition %s : list string := [\n", name)
	for i, v := range vs {
		sep := ";"
		if i == len(vs)-1 {
			sep = ""
		}
		fmt.Fprintf(&e.sb, "  %s%s\n", lossCoqString(v), sep)
	}
	e.sb.WriteString("]%string.\n")
}

func genLoss() {
	var e emitter
	e.header("The NACK decision of readLoop, the loss arithmetic of sendUpRTCP, sendNACK(s),\n   nackWriter and GetPacket of rtpconn: normalised source text and integer literals.")

	// ---- readLoop
	rd := parse("rtpconn/rtpreader.go")
	var rlSrc []string
	var rlLits []int64
	body := lossForBody(rd.funcDecl("readLoop"), "Store")
	on := false
	for _, s := range body {
		if !on {
			if lossMentions(s, "Store") {
				on = true
			} else {
				continue
			}
		}
		if as, ok := s.(*ast.AssignStmt); ok && len(as.Lhs) == 1 {
			if id, ok := as.Lhs[0].(*ast.Ident); ok && id.Name == "delay" {
				break
			}
		}
		rlSrc = append(rlSrc, lossSrc(rd, s))
		rlLits = append(rlLits, lossLits(s)...)
	}
	if len(rlSrc) == 0 {
		rlSrc = []string{"unknown"}
		rlLits = []int64{-1}
	}
	e.strlist("readLoop_decision_src", rlSrc)
	e.zlist("readLoop_decision_literals", rlLits)

	// ---- sendUpRTCP
	rc := parse("rtpconn/rtpconn.go")
	var rrSrc []string
	var rrLits []int64
	for _, s := range lossForBody(rc.funcDecl("sendUpRTCP"), "GetStats") {
		if !lossMentions(s, "stats", "totalLost", "fractionLost") {
			continue
		}
		if es, ok := s.(*ast.AssignStmt); ok && lossMentions(s, "reports") && len(es.Rhs) == 1 {
			// reports = append(reports, rtcp.ReceptionReport{...}): keep the three
			// fields the model computes
			ast.Inspect(es.Rhs[0], func(x ast.Node) bool {
				if kv, ok := x.(*ast.KeyValueExpr); ok {
					if k, ok := kv.Key.(*ast.Ident); ok {
						switch k.Name {
						case "FractionLost", "TotalLost", "LastSequenceNumber":
							rrSrc = append(rrSrc, lossSrc(rc, kv))
							rrLits = append(rrLits, lossLits(kv.Value)...)
						}
					}
				}
				return true
			})
			continue
		}
		rrSrc = append(rrSrc, lossSrc(rc, s))
		rrLits = append(rrLits, lossLits(s)...)
	}
	if len(rrSrc) == 0 {
		rrSrc = []string{"unknown"}
		rrLits = []int64{-1}
	}
	e.strlist("sendUpRTCP_loss_src", rrSrc)
	e.zlist("sendUpRTCP_loss_literals", rrLits)

	// ---- sendNACK / sendNACKs
	var snSrc []string
	var snLits []int64
	for _, fn := range []string{"rtpUpTrack.sendNACK", "rtpUpTrack.sendNACKs"} {
		fd := rc.funcDecl(fn)
		if fd == nil || fd.Body == nil {
			snSrc = append(snSrc, "unknown")
			snLits = append(snLits, -1)
			continue
		}
		for _, s := range fd.Body.List {
			if lossMentions(s, "Expect", "ToBitmap", "count") {
				snSrc = append(snSrc, lossSrc(rc, s))
				snLits = append(snLits, lossLits(s)...)
			}
		}
	}
	e.strlist("sendNACK_src", snSrc)
	e.zlist("sendNACK_literals", snLits)

	// ---- GetPacket
	var gpSrc []string
	if fd := rc.funcDecl("rtpUpTrack.GetPacket"); fd != nil && fd.Body != nil {
		for _, s := range fd.Body.List {
			gpSrc = append(gpSrc, lossSrc(rc, s))
		}
	} else {
		gpSrc = []string{"unknown"}
	}
	e.strlist("getPacket_src", gpSrc)

	// ---- nackWriter
	wr := parse("rtpconn/rtpwriter.go")
	var nwSrc []string
	var nwLits []int64
	if fd := wr.funcDecl("nackWriter"); fd != nil && fd.Body != nil {
		for _, s := range fd.Body.List {
			if lossMentions(s, "cutoff", "nacks", "Keyframe") {
				nwSrc = append(nwSrc, lossSrc(wr, s))
				nwLits = append(nwLits, lossLits(s)...)
			}
		}
	}
	if len(nwSrc) == 0 {
		nwSrc = []string{"unknown"}
		nwLits = []int64{-1}
	}
	e.strlist("nackWriter_src", nwSrc)
	e.zlist("nackWriter_literals", nwLits)

	e.write("LossConsts.v")
}

(* C06  Loss accounting and NACK generation never blame a packet that arrived.
   Statements only; every proof is [exact lemma] (after introductions).
   Models: Model/Cache.v (loss bitmap, Store counters, Expect, GetStats,
   BitmapGet, ToBitmap: the L0 transcription of packetcache.go, run against the
   real packetcache on every check by the `loss` and `cache` drivers) and
   Model/Loss.v (readLoop's NACK decision, sendUpRTCP's loss arithmetic,
   sendNACKs, nackWriter: transcriptions tied by Generated/LossConsts.v).

   Histories are arbitrary lists of operations [lop] from a fresh cache:
   Store, BitmapGet, readLoop step (Store + decision + BitmapGet + Expect),
   Expect, GetStats.  [wf_lop]: the Go argument types (uint16 numbers).

   Ghost reading (Proofs/LossTrack.v, LossStats.v): next to the model run, a
   tracker interprets the 16-bit numbers of a history as POSITIONS inside the
   current epoch (an epoch ends when the loss window is re-based: bitmap not
   yet valid, or a packet more than 0x100 behind [first] arrives):
     t_F   position of bitmap.first,     t_S  positions stored in this epoch,
     t_s16 the 16-bit numbers stored in this epoch,
     t_nacks (epoch, position) of every number a BitmapGet result denoted;
   the statistics ghost keeps the counters without the uint32 wrap. *)
From Coq Require Import ZArith List Bool Sorted String Lia.
From Galene Require Import Lib.Word Model.Cache Model.Loss.
From Galene Require Import Generated.Consts Generated.LossConsts.
From Galene Require Import Proofs.LossConsts Proofs.LossBits Proofs.LossTrack Proofs.LossStats
     Proofs.LossNack Proofs.LossLive.
Import ListNotations.
Open Scope Z_scope.

(* ---- what the model was transcribed from still is what /repo says ---- *)
Theorem C06_source :
  readLoop_decision_src = readLoop_decision_src_expected /\
  readLoop_decision_literals = readLoop_decision_literals_expected /\
  sendUpRTCP_loss_src = sendUpRTCP_loss_src_expected /\
  sendUpRTCP_loss_literals = sendUpRTCP_loss_literals_expected /\
  sendNACK_src = sendNACK_src_expected /\
  sendNACK_literals = sendNACK_literals_expected /\
  getPacket_src = getPacket_src_expected /\
  nackWriter_src = nackWriter_src_expected /\
  nackWriter_literals = nackWriter_literals_expected.
Proof. exact loss_source_ok. Qed.
Print Assumptions C06_source.

Theorem C06_literals :
  readLoop_decision_literals = [32768; 0; 0; 50; 24; 24; 2; 2; 4] /\
  sendUpRTCP_loss_literals = [256; 255; 255] /\
  sendNACK_literals = [1; 0; 0; 240] /\
  nackWriter_literals = [0; 256; 32768; 0; 1; 0; 1; 0] /\
  seqnoInvalid_literals = [0; 256] /\
  bitmap_set_literals = [1; 0; 32; 31; 1; 1; 1] /\
  bitmap_get_literals = [0; 0; 17; 17; 0; 0; 0; 1; 0; 1] /\
  toBitmap_literals = [0; 0; 1; 0; 0; 1; 16; 1; 1].
Proof. exact loss_literals_ok. Qed.
Print Assumptions C06_literals.

(* ---- the bitmap invariant ---- *)
(* After every history: bit i of the 32-bit word is set iff position first+i
   was stored since the window was last re-based; nothing at or beyond
   first+32 was stored; the recorded 16-bit numbers are the positions mod 2^16. *)
Theorem C06_bitmap_invariant : forall cap h, Forall wf_lop h ->
  let t := trk_run cap h in
  let b := c_bitmap (lrun (new_cache cap) h) in
  bm_first b = w16 (t_F t) /\
  0 <= bm_bits b < 2 ^ 32 /\
  (forall i, 0 <= i < 32 -> (Z.testbit (bm_bits b) i = true <-> In (t_F t + i) (t_S t))) /\
  (forall U, In U (t_S t) -> U < t_F t + 32) /\
  t_s16 t = map w16 (t_S t).
Proof.
  intros cap h Hwf t b. pose proof (TI_run cap h Hwf) as HT. fold t in HT.
  pose proof (ti_b _ HT) as HB. unfold t in HB at 1. rewrite trk_run_cache in HB. fold b t in HB.
  exact (conj (bi_first _ _ _ HB) (conj (bi_range _ _ _ HB) (conj (bi_bits _ _ _ HB)
        (conj (bi_top _ _ _ HB) (ti_s16 _ HT))))).
Qed.
Print Assumptions C06_bitmap_invariant.

(* [first] only moves forward inside an epoch; a new epoch starts exactly at a
   re-basing Store, with the window {s} *)
Theorem C06_window_forward : forall t o,
  let t' := fst (tk_step t o) in
  t_epoch t <= t_epoch t' <= t_epoch t + 1 /\
  (t_epoch t' = t_epoch t -> t_F t <= t_F t').
Proof. exact window_forward. Qed.
Print Assumptions C06_window_forward.

(* ---- never a NACK for a packet received since the last re-base ---- *)
(* Every number denoted by a BitmapGet(next) result is before next in the
   circular order and is the number of a position k < 17 ahead of first at
   which nothing was stored since the window was last re-based. *)
Theorem C06_nack_not_received : forall cap h next f m c',
  Forall wf_lop h -> is16 next ->
  bitmap_get (lrun (new_cache cap) h) next = ((true, f, m), c') ->
  let t := trk_run cap h in
  forall n, In n (nums f m) ->
    cmp16 n next < 0 /\
    exists k, 0 <= k < 17 /\ n = w16 (t_F t + k) /\ ~ In (t_F t + k) (t_S t).
Proof. exact nack_not_received. Qed.
Print Assumptions C06_nack_not_received.

(* the same in 16-bit numbers, while the epoch spans less than a cycle *)
Theorem C06_nack_not_received16 : forall cap h next f m c',
  Forall wf_lop h -> is16 next ->
  bitmap_get (lrun (new_cache cap) h) next = ((true, f, m), c') ->
  let t := trk_run cap h in
  (forall U, In U (t_S t) -> t_F t - 65000 < U) ->
  forall n, In n (nums f m) -> ~ In n (t_s16 t).
Proof. exact nack_not_received16. Qed.
Print Assumptions C06_nack_not_received16.

(* and it reports EVERY position it shifts out at which nothing was stored *)
Theorem C06_nack_complete : forall cap h next fd f m c',
  Forall wf_lop h -> is16 next ->
  bitmap_get (lrun (new_cache cap) h) next = ((fd, f, m), c') ->
  let t := trk_run cap h in
  let count := get_count (c_bitmap (lrun (new_cache cap) h)) next in
  forall k, 0 <= k < count -> ~ In (t_F t + k) (t_S t) ->
    fd = true /\ In (w16 (t_F t + k)) (nums f m).
Proof. exact nack_complete. Qed.
Print Assumptions C06_nack_complete.

(* The unrestricted claim -- "never stored at all" -- is FALSE (finding F20):
   one stray packet more than 256 numbers old re-bases the window; after
   store 900..1000, store 500, store 1001 the result of BitmapGet(997) denotes
   970..986, all of which were stored and are still held by the cache. *)
Definition f20_history : list lop :=
  map (fun i => LStore (900 + Z.of_nat i) false) (seq 0 101) ++ [LStore 500 false; LStore 1001 false].
Definition stored_in (h : list lop) (n : Z) : bool :=
  existsb (fun o => match o with
                    | LStore s _ | LRead s _ _ _ => s =? n
                    | _ => false
                    end) h.
Theorem C06_nack_refuted :
  Forall wf_lop f20_history /\
  let c := lrun (new_cache 200) f20_history in
  exists f m c', bitmap_get c 997 = ((true, f, m), c') /\
    nums f m = [970;971;972;973;974;975;976;977;978;979;980;981;982;983;984;985;986] /\
    forallb (fun n => stored_in f20_history n && cache_holds c n) (nums f m) = true.
Proof.
  split.
  - unfold f20_history. apply Forall_app. split.
    + apply Forall_forall. intros o Hin. apply in_map_iff in Hin. destruct Hin as (i & <- & Hi).
      apply in_seq in Hi. cbn [wf_lop]. unfold is16. lia.
    + repeat constructor; cbn; unfold is16; lia.
  - cbv zeta. eexists _, _, _. split; [vm_compute; reflexivity|]. split; [vm_compute; reflexivity|].
    vm_compute. reflexivity.
Qed.
Print Assumptions C06_nack_refuted.

(* F20 at its boundary: the re-base is decided against bitmap.first, which is
   newest+1 after a duplicate of the newest packet; a packet exactly 256 behind
   the newest one (not a restart for the statistics: restart_free) then
   re-bases the window.  store 100..179, store 179 again, store 179-256 = 65459,
   store 181: BitmapGet(179) denotes 150..166, all stored and still held. *)
Definition f20_limit_history : list lop :=
  map (fun i => LStore (100 + Z.of_nat i) false) (seq 0 80) ++
  [LStore 179 false; LStore 65459 false; LStore 181 false].
Theorem C06_nack_refuted_at_256 :
  Forall wf_lop f20_limit_history /\
  restart_free (new_cache 200) f20_limit_history = true /\
  let c := lrun (new_cache 200) f20_limit_history in
  exists f m c', bitmap_get c 179 = ((true, f, m), c') /\
    nums f m = [150;151;152;153;154;155;156;157;158;159;160;161;162;163;164;165;166] /\
    forallb (fun n => stored_in f20_limit_history n && cache_holds c n) (nums f m) = true.
Proof.
  split.
  - unfold f20_limit_history. apply Forall_app. split.
    + apply Forall_forall. intros o Hin. apply in_map_iff in Hin. destruct Hin as (i & <- & Hi).
      apply in_seq in Hi. cbn [wf_lop]. unfold is16. lia.
    + repeat constructor; cbn; unfold is16; lia.
  - split; [vm_compute; reflexivity|].
    cbv zeta. eexists _, _, _. split; [vm_compute; reflexivity|]. split; [vm_compute; reflexivity|].
    vm_compute. reflexivity.
Qed.
Print Assumptions C06_nack_refuted_at_256.

(* ---- the receive loop: never at or beyond the newest tracked ---- *)
(* A NACK sent by a readLoop step for packet s denotes only numbers strictly
   older than s - unnacked (hence strictly older than s), each a position at
   which nothing was stored in the epoch, s included. *)
Theorem C06_nack_before_next : forall cap h s kf rate ok f m c',
  Forall wf_lop h -> is16 s -> 0 <= rate ->
  lstep (lrun (new_cache cap) h) (LRead s kf rate ok) = (c', LONack (Some (f, m))) ->
  let t1 := trk_run cap (h ++ [LStore s kf]) in
  let next := w16 (s - rl_unnacked (rl_packets rate)) in
  ok = true /\
  forall n, In n (nums f m) ->
    cmp16 n next < 0 /\ cmp16 n s < 0 /\
    exists k, 0 <= k < 17 /\ n = w16 (t_F t1 + k) /\ ~ In (t_F t1 + k) (t_S t1).
Proof. exact read_step_nack. Qed.
Print Assumptions C06_nack_before_next.

(* ---- at most once ---- *)
(* Over every history, no (epoch, position) is denoted by two BitmapGet
   results (nor twice by one); two entries of one epoch that carry the same
   16-bit number are a whole cycle of numbers apart. *)
Theorem C06_once : forall cap h, Forall wf_lop h ->
  NoDup (t_nacks (trk_run cap h)) /\
  (forall e U1 U2, In (e, U1) (t_nacks (trk_run cap h)) -> In (e, U2) (t_nacks (trk_run cap h)) ->
     w16 U1 = w16 U2 -> U1 = U2 \/ 65536 <= Z.abs (U1 - U2)).
Proof.
  intros cap h Hwf. split; [exact (nacks_once cap h Hwf)|].
  intros e U1 U2 _ _. exact (nacks_same_number U1 U2).
Qed.
Print Assumptions C06_once.

(* ---- a hole in a steady stream is requested ---- *)
(* The window is steady (valid, bits = 1, first = h-1: what in-order arrivals
   leave behind); h is skipped and h+1, h+2, ... arrive through readLoop steps
   at a fixed rate.  With packets = clamp(rate/50, 2, 24): the first [packets]
   arrivals send nothing, arrival packets+1 sends the NACK (h, 0) = {h}. *)
Theorem C06_hole_requested : forall c h rate, c_bitmap c = steady h ->
  let p := Z.to_nat (rl_packets rate) in
  louts c (arrivals h rate (S p)) = repeat (LONack None) p ++ [LONack (Some (w16 h, 0))] /\
  nums (w16 h) 0 = [w16 h].
Proof. exact hole_requested. Qed.
Print Assumptions C06_hole_requested.

(* the steady state is reached by the first packet and kept by in-order ones *)
Theorem C06_steady_reached : forall cap s kf, is16 s ->
  c_bitmap (lrun (new_cache cap) [LStore s kf]) = steady (s + 1).
Proof. exact steady_first_store. Qed.
Theorem C06_steady_kept : forall c h kf, c_bitmap c = steady h ->
  c_bitmap (fst (lstep c (LStore (w16 h) kf))) = steady (h + 1).
Proof. exact steady_in_order. Qed.
Print Assumptions C06_steady_kept.

(* ---- received never exceeds expected ---- *)
(* For every interleaving of Store / readLoop step / BitmapGet / Expect /
   GetStats(reset): the unbounded counts satisfy R <= E and TR <= TE, the
   reported numbers are these counts modulo 2^32, hence received <= expected
   while fewer than 2^32 packets were expected in the interval, and in total
   while fewer than 2^32 were expected overall. *)
Theorem C06_received_le_expected : forall cap h reset, Forall wf_lop h ->
  let g := sg_run cap h in
  let s := fst (get_stats (lrun (new_cache cap) h) reset) in
  (0 <= g_R g <= g_E g /\ 0 <= g_TR g <= g_TE g) /\
  (s_received s = w32 (g_R g) /\ s_expected s = w32 (g_E g) /\
   s_totalReceived s = w32 (g_TR g + g_R g) /\ s_totalExpected s = w32 (g_TE g + g_E g)) /\
  (g_E g < 2 ^ 32 -> s_received s <= s_expected s) /\
  (g_TE g + g_E g < 2 ^ 32 -> s_totalReceived s <= s_totalExpected s).
Proof. exact received_le_expected. Qed.
Print Assumptions C06_received_le_expected.

(* without the bound the statement is false: the uint32 counters wrap *)
Theorem C06_received_le_expected_wrap_refuted :
  exists h, Forall wf_lop h /\
    let s := fst (get_stats (lrun (new_cache 4) h) false) in
    s_expected s < s_received s /\ s_totalExpected s < s_totalReceived s.
Proof. exact received_le_expected_wrap_refuted. Qed.
Print Assumptions C06_received_le_expected_wrap_refuted.

(* ---- the reception report ---- *)
Theorem C06_fraction_range : forall s,
  let '(fl, tl, es) := rr_stats s in
  0 <= fl <= 255 /\ 0 <= tl < 2 ^ 32 /\ es = s_eseqno s.
Proof. exact rr_stats_range. Qed.
Print Assumptions C06_fraction_range.

Theorem C06_fraction_value : forall s,
  0 <= s_received s < 2 ^ 32 -> 0 <= s_expected s < 2 ^ 32 ->
  let fl := fst (fst (rr_stats s)) in
  (s_expected s <= s_received s -> fl = 0) /\
  (s_received s < s_expected s ->
     fl = Z.min 255 (w32 ((s_expected s - s_received s) * 256) / s_expected s) /\
     (s_expected s - s_received s < 2 ^ 24 ->
        fl = Z.min 255 ((s_expected s - s_received s) * 256 / s_expected s))).
Proof. exact rr_stats_fraction. Qed.
Print Assumptions C06_fraction_value.

(* TotalLost is NOT kept inside the 24-bit wire field (pion/rtcp refuses
   values >= 2^25): 1200 packets whose numbers jump forward by 30000 *)
Theorem C06_total_lost_exceeds_field :
  Forall wf_lop (jump_history 1200) /\
  let s := fst (get_stats (lrun (new_cache 1) (jump_history 1200)) true) in
  2 ^ 25 <= snd (fst (rr_stats s)).
Proof. exact total_lost_exceeds_field. Qed.
Print Assumptions C06_total_lost_exceeds_field.

(* ---- the extended highest sequence number ---- *)
(* The reported value is the unbounded ghost X modulo 2^32.  Over a stretch
   h2 of operations none of which is a restart (a Store of a number that is
   more than 256 behind the highest one) X does not decrease; hence the
   reported value does not decrease unless cycle<<16 wraps past 2^32. *)
Theorem C06_eseqno_monotone : forall cap h1 h2,
  Forall wf_lop h1 -> Forall wf_lop h2 ->
  let c1 := lrun (new_cache cap) h1 in
  let c2 := lrun (new_cache cap) (h1 ++ h2) in
  eseqno c1 = w32 (g_X (sg_run cap h1)) /\
  eseqno c2 = w32 (g_X (sg_run cap (h1 ++ h2))) /\
  (restart_free c1 h2 = true ->
     g_X (sg_run cap h1) <= g_X (sg_run cap (h1 ++ h2)) /\
     (g_X (sg_run cap (h1 ++ h2)) < 2 ^ 32 -> eseqno c1 <= eseqno c2)).
Proof. exact eseqno_monotone. Qed.
Print Assumptions C06_eseqno_monotone.

(* ---- ToBitmap iterated as sendNACKs does ---- *)
(* arbitrary lists: only numbers of the list are denoted; all of them if the
   list has at most 240 elements (beyond 240 pairs sendNACKs drops the rest) *)
Theorem C06_tobitmap_lossless_set : forall l, Forall is16 l ->
  (forall n, In n (nums_of_pairs (nack_list_to_pairs l)) -> In n l) /\
  ((List.length l <= 240)%nat ->
   forall n, In n l -> In n (nums_of_pairs (nack_list_to_pairs l))).
Proof. exact tobitmap_set_lossless. Qed.
Print Assumptions C06_tobitmap_lossless_set.

(* lists sorted from a cutoff (what nackWriter passes): the denoted SEQUENCE is
   the list -- no loss, no duplicate, no reordering *)
Theorem C06_tobitmap_lossless : forall cutoff l, Forall is16 l ->
  StronglySorted (before_from cutoff) l -> (List.length l <= 240)%nat ->
  nums_of_pairs (nack_list_to_pairs l) = l.
Proof. exact tobitmap_seq_lossless. Qed.
Print Assumptions C06_tobitmap_lossless.

(* ---- nackWriter ---- *)
(* of the buffered numbers exactly those not held by the cache and not before
   the cutoff are kept, sorted from the cutoff; every number shipped out is a
   buffered number the cache does not hold *)
Theorem C06_nackwriter : forall in_cache cutoff nacks, Forall is16 nacks -> NoDup nacks ->
  let l := nackwriter_filter in_cache cutoff nacks in
  (forall n, In n l <-> In n nacks /\ in_cache n = false /\ w16 (n - cutoff) < 32768) /\
  StronglySorted (before_from cutoff) l /\ NoDup l /\ Forall is16 l /\
  ((List.length l <= 240)%nat -> nums_of_pairs (nack_list_to_pairs l) = l) /\
  (forall n, In n (nums_of_pairs (nack_list_to_pairs l)) -> In n nacks /\ in_cache n = false).
Proof. exact nackwriter_spec. Qed.
Print Assumptions C06_nackwriter.

Theorem C06_nackwriter_cache : forall c nacks, Forall is16 nacks -> NoDup nacks ->
  forall n, In n (nums_of_pairs (nack_writer c nacks)) ->
    In n nacks /\ cache_holds c n = false.
Proof. exact nack_writer_not_held. Qed.
Print Assumptions C06_nackwriter_cache.

(* GetPacket buffers every requested number at most once, whatever the order
   of the requests: the NoDup hypothesis of C06_nackwriter *)
Theorem C06_buffered_distinct : forall requests, NoDup (fold_left buffer_nack requests []).
Proof. exact buffer_nacks_NoDup. Qed.
Print Assumptions C06_buffered_distinct.

(* ---- non-vacuity ---- *)
(* a lossy history across the wrap: 65533, 65534, [65535 lost], 0, 1, [2 lost],
   3..8 through readLoop steps at rate 100 (packets = 2, unnacked = 2) *)
Definition ex_history : list lop :=
  [LRead 65533 true 100 true; LRead 65534 false 100 true; LRead 0 false 100 true;
   LRead 1 false 100 true; LRead 3 false 100 true; LRead 4 false 100 true;
   LRead 5 false 100 true; LRead 6 false 100 true].
Example C06_example_readloop :
  Forall wf_lop ex_history /\
  louts (new_cache 16) ex_history =
    [LONack None; LONack None; LONack None; LONack None; LONack (Some (65535, 0));
     LONack None; LONack (Some (2, 0)); LONack None] /\
  t_nacks (trk_run 16 ex_history) = [(1, 65533 + 5); (1, 65533 + 2)] /\
  t_s16 (trk_run 16 ex_history) = [6; 5; 4; 3; 1; 0; 65534; 65533] /\
  (forall U, In U (t_S (trk_run 16 ex_history)) -> t_F (trk_run 16 ex_history) - 65000 < U) /\
  (let s := fst (get_stats (lrun (new_cache 16) ex_history) true) in
   s_received s = 8 /\ s_expected s = 12 /\ s_eseqno s = 65536 + 6 /\
   rr_stats s = (85, 4, 65542)) /\
  g_E (sg_run 16 ex_history) = 12 /\
  restart_free (new_cache 16) ex_history = true.
Proof.
  split; [repeat constructor; cbn; unfold is16; lia|].
  vm_compute. repeat split; try reflexivity.
  intros U HU. repeat (destruct HU as [<-|HU]; [reflexivity|]). destruct HU.
Qed.

(* a BitmapGet result with found = true and the hypotheses of C06_nack_not_received *)
Example C06_example_bitmapget :
  let h := [LStore 10 false; LStore 11 false; LStore 13 false; LStore 14 false;
            LStore 16 false; LStore 17 false] in
  Forall wf_lop h /\ is16 15 /\
  fst (bitmap_get (lrun (new_cache 8) h) 15) = (true, 12, 0) /\
  nums 12 0 = [12] /\ t_F (trk_run 8 h) = 12 /\ t_S (trk_run 8 h) = [17; 16; 14; 13; 11; 10].
Proof.
  cbv zeta. split; [repeat constructor; cbn; unfold is16; lia|].
  split; [unfold is16; lia|]. vm_compute. repeat split; reflexivity.
Qed.

(* the hole theorem on a stream that crosses 65535 -> 0: 65534 arrives, 65535
   arrives, 0 is lost, 1..5 arrive at rate 200 (packets = 4) *)
Example C06_example_hole :
  let c := lrun (new_cache 32) [LStore 65534 false; LStore 65535 false] in
  c_bitmap c = steady 65536 /\
  louts c (arrivals 65536 200 5) =
    [LONack None; LONack None; LONack None; LONack None; LONack (Some (0, 0))].
Proof. cbv zeta. split; vm_compute; reflexivity. Qed.

(* ToBitmap / nackWriter on a list that crosses the wrap, with a number held by
   the cache (7) and one before the cutoff (64000) *)
Example C06_example_nackwriter :
  let nacks := [3; 65530; 7; 64000; 20; 65535] in
  Forall is16 nacks /\ NoDup nacks /\
  nackwriter_filter (fun n => n =? 7) 65000 nacks = [65530; 65535; 3; 20] /\
  nack_list_to_pairs [65530; 65535; 3; 20] = [(65530, 272); (20, 0)] /\
  nums_of_pairs [(65530, 272); (20, 0)] = [65530; 65535; 3; 20] /\
  nack_list_to_pairs [5; 5; 4] = [(5, 0); (5, 0); (4, 0)].
Proof.
  cbv zeta. split; [repeat constructor; unfold is16; lia|].
  split; [repeat (constructor; [cbn; lia|]); constructor|].
  vm_compute. repeat split; reflexivity.
Qed.

(* C19  Names from clients never reach files outside their configured
   directories.  Statements only; every proof is [exact lemma].

   Model: Model/Paths.v, tied to the Go code by the `paths` correspondence
   driver: path.Clean (lazy-buffer algorithm, with explicit Panic/OutOfFuel),
   validGroupName, validUsername, parseGroupName, splitPath, the description
   file name, sanitise, the recording directory and file name, the target of
   the delete action.  Strings are byte lists; every theorem quantifies over
   ALL strings.

   Vocabulary (Proofs/PathsClean.v, Proofs/PathsFacts.v):
     split s        strings.Split(s, "/");  join cs  strings.Join(cs, "/")
     normal c       c is not empty, not ".", not ".." and contains no '/'
     dir_comps d    the components of Clean(d) ([""] for "/", none for ".")
     dir_prefix d   Clean(d) followed by '/' ("/" for "/", "" for ".")
   so  split p = dir_comps d ++ fs  with fs non-empty and all normal says: p
   is strictly below the (cleaned) directory d, component-wise, and no
   component below d is "..", "." or empty. *)
From Coq Require Import ZArith List Bool String.
From Galene Require Import Model.Paths.
From Galene Require Import Proofs.PathsClean Proofs.PathsFacts Proofs.PathsExamples.
Import ListNotations.
Open Scope Z_scope.

(* ---- path.Clean as transcribed ---------------------------------------- *)

(* the lazy-buffer transcription never indexes out of range and never runs
   out of fuel; [clean] is its value *)
Theorem C19_clean_total : forall p, clean_lazy p = Ok (clean p).
Proof. exact clean_lazy_total. Qed.
Print Assumptions C19_clean_total.

(* it computes: split at '/', push components on a stack ("." and "" skipped,
   ".." pops, or is dropped at the root, or is kept in front of a relative
   path), join *)
Theorem C19_clean_spec : forall p, clean p = clean_spec p.
Proof. exact clean_spec_eq. Qed.
Print Assumptions C19_clean_spec.

(* Clean of a rooted path is rooted, has only normal components (no "..", no
   ".", no empty one) and is a fixed point *)
Theorem C19_clean_rooted : forall q,
  exists cs, clean (SLASH :: q) = SLASH :: join cs /\ Forall normal cs /\
             (cs = [] \/ split (clean (SLASH :: q)) = [] :: cs) /\
             clean (clean (SLASH :: q)) = clean (SLASH :: q).
Proof. exact clean_rooted_facts. Qed.
Print Assumptions C19_clean_rooted.

Theorem C19_clean_idempotent : forall p, clean (clean p) = clean p.
Proof. exact clean_idempotent. Qed.
Print Assumptions C19_clean_idempotent.

(* ---- the group layer --------------------------------------------------- *)

(* validGroupName accepts exactly: non-empty, no backslash, and splitting at
   '/' gives only non-empty components different from "." and ".." *)
Theorem C19_valid_iff : forall s,
  valid_group_name s = true <->
  s <> [] /\ ~ In BACKSLASH s /\ Forall normal (split s).
Proof. exact valid_iff. Qed.
Print Assumptions C19_valid_iff.

(* in the words of the property: accepted names are not empty, not absolute,
   have no backslash and no empty, "." or ".." component *)
Theorem C19_valid_relative : forall s, valid_group_name s = true ->
  s <> [] /\ hd 0 s <> SLASH /\ ~ In BACKSLASH s /\
  ~ In [] (split s) /\ ~ In [DOT] (split s) /\ ~ In DOTDOT (split s).
Proof. exact valid_relative. Qed.
Print Assumptions C19_valid_relative.

(* usernames obey the same rule, or are empty *)
Theorem C19_username : forall s,
  valid_username s = true <-> s = [] \/ valid_group_name s = true.
Proof. exact valid_username_iff. Qed.
Print Assumptions C19_username.

(* every way a username enters a join (password credentials, the username
   carried by a stateful token or the `sub` of a JWT, a token without
   username plus a client-chosen name): GetPermission returns a username only
   if it obeys the rule, and it is the token's or the client's *)
Theorem C19_join_username :
  forall tok_present parse_ok needs check cuser user_exists password_ok u,
  get_permission_username tok_present parse_ok needs check cuser user_exists password_ok = Some u ->
  valid_username u = true /\
  (u = [] \/ valid_group_name u = true) /\
  (check = Some u \/ cuser = Some u).
Proof. exact get_permission_username_valid. Qed.
Print Assumptions C19_join_username.

(* ---- URL-to-group parsing ---------------------------------------------- *)

(* parseGroupName returns "" or a name the group layer accepts *)
Theorem C19_parse_agrees : forall prefix p,
  parse_group_name prefix p = [] \/
  valid_group_name (parse_group_name prefix p) = true.
Proof. exact parse_agrees. Qed.
Print Assumptions C19_parse_agrees.

(* and it finds every accepted name that does not start with a dot *)
Theorem C19_parse_complete : forall prefix name,
  valid_group_name name = true -> hd 0 name <> DOT ->
  parse_group_name prefix (prefix ++ name) = name /\
  parse_group_name prefix (prefix ++ name ++ [SLASH]) = name.
Proof. exact parse_complete. Qed.
Print Assumptions C19_parse_complete.

(* ---- description files -------------------------------------------------- *)

(* an accepted name: the file is <directory>/<name>.json, strictly below the
   directory, with normal components only *)
Theorem C19_confined : forall d name, d <> [] -> valid_group_name name = true ->
  desc_file d name = dir_prefix d ++ name ++ JSON_EXT /\
  split (desc_file d name) = dir_comps d ++ split (name ++ JSON_EXT) /\
  Forall normal (split (name ++ JSON_EXT)).
Proof. exact desc_file_valid. Qed.
Print Assumptions C19_confined.

(* EVERY string (validated or not): because the name is cleaned as a rooted
   path before it is joined, the file is strictly below the directory and no
   component below the directory is "..", "." or empty *)
Theorem C19_confined_all : forall d name, d <> [] ->
  exists fs, fs <> [] /\ Forall normal fs /\
    split (desc_file d name) = dir_comps d ++ fs /\
    desc_file d name = dir_prefix d ++ join fs /\
    SLASH :: join fs = clean (SLASH :: name) ++ JSON_EXT.
Proof. exact desc_file_confined. Qed.
Print Assumptions C19_confined_all.

(* with an absolute directory the whole file name is free of ".." and "." *)
Theorem C19_no_dotdot : forall d name, is_rooted d = true ->
  Forall (fun c => c <> DOTDOT /\ c <> [DOT]) (split (desc_file d name)).
Proof. exact desc_file_no_dotdot. Qed.
Print Assumptions C19_no_dotdot.

(* every file name getDescriptionFile tries, the walk up to parent groups
   included, is confined in the same way *)
Theorem C19_desc_files_confined : forall d name sub f, d <> [] ->
  In f (desc_files d name sub) ->
  exists fs, fs <> [] /\ Forall normal fs /\
    split f = dir_comps d ++ fs /\ f = dir_prefix d ++ join fs.
Proof. exact desc_files_confined. Qed.
Print Assumptions C19_desc_files_confined.

(* the walk ends within the fuel used by the model *)
Theorem C19_desc_files_fuel : forall fuel d name sub, (List.length name < fuel)%nat ->
  desc_candidates fuel d name sub = desc_files d name sub.
Proof. exact desc_files_fuel. Qed.
Print Assumptions C19_desc_files_fuel.

(* ---- the administrative API (finding F21) ------------------------------- *)

(* "every name the API hands to UpdateDescription is one the group layer
   accepts" is FALSE of the code: PUT /galene-api/v0/.groups/a\b *)
Definition C19_api_names_full_statement : Prop :=
  forall pth, api_group_name pth = [] \/
              valid_group_name (api_group_name pth) = true.

Theorem C19_api_names_refuted :
  let pth := [SLASH; 97; BACKSLASH; 98] in
  api_group_name pth = [97; BACKSLASH; 98] /\
  valid_group_name (api_group_name pth) = false.
Proof. exact api_names_refuted_witness. Qed.
Print Assumptions C19_api_names_refuted.

(* confinement holds for API names all the same *)
Theorem C19_api_confined : forall d pth, d <> [] ->
  exists fs, fs <> [] /\ Forall normal fs /\
    split (desc_file d (api_group_name pth)) = dir_comps d ++ fs /\
    desc_file d (api_group_name pth) = dir_prefix d ++ join fs.
Proof. exact api_desc_file_confined. Qed.
Print Assumptions C19_api_confined.

(* ---- recordings ---------------------------------------------------------- *)

(* sanitise leaves no '/' and no '\' *)
Theorem C19_sanitise : forall s,
  ~ In SLASH (sanitise s) /\ ~ In BACKSLASH (sanitise s).
Proof. exact sanitise_no_separator. Qed.
Print Assumptions C19_sanitise.

(* the recording directory of an accepted group is <directory>/<group> *)
Theorem C19_recording_dir : forall d g, d <> [] -> valid_group_name g = true ->
  rec_dir d g = dir_prefix d ++ g /\
  split (rec_dir d g) = dir_comps d ++ split g /\ Forall normal (split g).
Proof. exact rec_dir_confined. Qed.
Print Assumptions C19_recording_dir.

(* whatever the username, the recording file name is ONE normal component
   (the time stamp is not empty, has no '/' and does not start with '.';
   the counter is the loop variable of openDiskFile) *)
Theorem C19_recording_name : forall stamp user counter ext,
  noslash stamp -> noslash ext -> 0 <= counter < 100 ->
  stamp <> [] -> hd 0 stamp <> DOT ->
  normal (rec_file_name stamp user counter ext) /\
  split (rec_file_name stamp user counter ext) = [rec_file_name stamp user counter ext].
Proof. exact rec_file_name_component. Qed.
Print Assumptions C19_recording_name.

(* so the recording lands directly in the group's own recording directory *)
Theorem C19_recording_path : forall d g stamp user counter ext,
  d <> [] -> valid_group_name g = true ->
  noslash stamp -> noslash ext -> 0 <= counter < 100 -> stamp <> [] -> hd 0 stamp <> DOT ->
  split (rec_path d g stamp user counter ext) =
    dir_comps d ++ split g ++ [rec_file_name stamp user counter ext] /\
  Forall normal (split g ++ [rec_file_name stamp user counter ext]).
Proof. exact rec_path_confined. Qed.
Print Assumptions C19_recording_path.

(* the delete form: the name handed to root.Remove is one normal component
   below the group's directory, or (filename "." or "..") that directory *)
Theorem C19_delete_target : forall g f t,
  valid_group_name g = true -> delete_target g f = Some t ->
  (t = g /\ (f = [DOT] \/ f = DOTDOT)) \/
  (t = g ++ SLASH :: f /\ normal f).
Proof. exact delete_target_confined. Qed.
Print Assumptions C19_delete_target.

(* non-vacuity: concrete strings satisfy the hypotheses, and hostile ones are
   confined as stated *)
Example C19_example :
  let d := bytes "/var/groups" in
  d <> [] /\ is_rooted d = true /\
  valid_group_name (bytes "a/b") = true /\
  valid_group_name (bytes "a/../b") = false /\
  valid_group_name (bytes "a\b") = false /\
  desc_file d (bytes "a/b") = bytes "/var/groups/a/b.json" /\
  desc_file d (bytes "../../etc/passwd") = bytes "/var/groups/etc/passwd.json" /\
  desc_file (bytes "./groups/") (bytes "x/../..") = bytes "groups/.json" /\
  dir_comps d = [[]; bytes "var"; bytes "groups"] /\
  parse_group_name (bytes "/group/") (bytes "/group/a/./b/") = bytes "a/b" /\
  parse_group_name (bytes "/group/") (bytes "/group/a\b") = [] /\
  rec_path (bytes "rec") (bytes "a/b") (bytes "2026-01-02T03:04:05.000") (bytes "../x\y") 7 (bytes "webm")
    = bytes "rec/a/b/2026-01-02T03:04:05.000-..-slash-x-backslash-y-07.webm" /\
  delete_target (bytes "a/b") (bytes "..") = Some (bytes "a/b") /\
  delete_target (bytes "a/b") (bytes "../x") = None /\
  get_permission_username true true false (Some (bytes "../../escape")) None false false = None /\
  get_permission_username true true false (Some (bytes "alice")) (Some (bytes "bob")) false false
    = Some (bytes "alice") /\
  get_permission_username true true true (Some []) (Some (bytes "bob")) false false = Some (bytes "bob").
Proof.
  cbv zeta. split; [discriminate|]. vm_compute. repeat split; reflexivity.
Qed.

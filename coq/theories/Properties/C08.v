(* C08  Password login needs the right password and yields exactly the
   configured rights.  Statements only; every proof is [exact lemma].

   Models: Model/Auth.v (value level: Password.Match, getPasswordPermission,
   GetPermission for creds.Token = "", Permissions.Permissions over the
   GENERATED role table, AddClient/join failure path, galenectl makePassword;
   tied to /repo by the `auth` correspondence driver) and Model/AuthHeap.v
   (who owns a permission list: slices over a heap, remove/addnew in place,
   Init with and without the copy).

   Quantifiers: all group descriptions (any users list, any wildcard user, any
   password record including empty and malformed ones, role names or raw
   arrays, both flags), all credentials, all hash oracles [pbkdf2],
   [bcrypt_check], [bcrypt_gen] (explicit arguments, no axioms), all admission
   policies, all histories of logins / moderation actions / leaves.

   Where the code differs from the short property text the statement follows
   the code and says so:
   - a login is accepted only if, in addition, validUsername holds: an entry
     whose NAME is not a valid user name can never log in;
   - a raw permission array is returned verbatim ("record"/"token" rules do
     not apply to it);
   - an error of Match (missing key, bad hex, unknown hash or type, bcrypt
     error) on the entry is returned as that error, on the wildcard user it
     becomes "user not found": both are refusals. *)
From Coq Require Import ZArith List Bool String.
From Galene Require Import Generated.Roles Model.Auth Model.AuthHeap.
From Galene Require Import Proofs.AuthRoles Proofs.AuthLogin Proofs.AuthIsolation.
Import ListNotations.
Close Scope Z_scope.
Open Scope string_scope.

(* ---------------------------------------------------------------- who is accepted *)

(* accepted <-> (valid user name and) the username has an entry whose password
   matches, or has no entry and the wildcard user's password matches *)
Theorem C08_accept_iff : forall pbkdf2 bcrypt_check desc u pw,
  accepted pbkdf2 bcrypt_check desc (mkCreds (Some u) pw) <->
  valid_username u = true /\
  ((exists c, assoc u (d_users desc) = Some c /\ matches pbkdf2 bcrypt_check c pw) \/
   (assoc u (d_users desc) = None /\
    exists w, d_wildcard desc = Some w /\ matches pbkdf2 bcrypt_check w pw)).
Proof. exact accept_iff. Qed.
Print Assumptions C08_accept_iff.

(* ... and what it is granted: its own name and the expansion of the matched
   entry's permissions, nothing else *)
Theorem C08_accept_result : forall pbkdf2 bcrypt_check desc u pw name perms,
  get_permission pbkdf2 bcrypt_check desc (mkCreds (Some u) pw) = inl (name, perms) <->
  valid_username u = true /\ name = u /\
  ((exists c, assoc u (d_users desc) = Some c /\ matches pbkdf2 bcrypt_check c pw /\
              perms = permissions (Some desc) (u_permissions c)) \/
   (assoc u (d_users desc) = None /\
    exists w, d_wildcard desc = Some w /\ matches pbkdf2 bcrypt_check w pw /\
              perms = permissions (Some desc) (u_permissions w))).
Proof. exact accept_result. Qed.
Print Assumptions C08_accept_result.

Theorem C08_no_username_refused : forall pbkdf2 bcrypt_check desc pw,
  get_permission pbkdf2 bcrypt_check desc (mkCreds None pw) = inr ANeither.
Proof. exact no_username_refused. Qed.
Print Assumptions C08_no_username_refused.

(* an entry always shadows the wildcard user: the outcome for a username that
   has an entry is the same whatever the wildcard user is (present, absent,
   matching everything) *)
Theorem C08_shadow : forall pbkdf2 bcrypt_check desc w' u pw,
  assoc u (d_users desc) <> None ->
  get_permission pbkdf2 bcrypt_check (set_wildcard desc w') (mkCreds (Some u) pw) =
  get_permission pbkdf2 bcrypt_check desc (mkCreds (Some u) pw).
Proof. exact shadow. Qed.
Print Assumptions C08_shadow.

Theorem C08_shadow_refuses : forall pbkdf2 bcrypt_check desc c u pw,
  assoc u (d_users desc) = Some c -> ~ matches pbkdf2 bcrypt_check c pw ->
  ~ accepted pbkdf2 bcrypt_check desc (mkCreds (Some u) pw).
Proof. exact shadow_refuses. Qed.
Print Assumptions C08_shadow_refuses.

(* an entry with no password (empty type) never matches *)
Theorem C08_empty_never : forall pbkdf2 bcrypt_check desc c u pw,
  assoc u (d_users desc) = Some c -> p_type (u_password c) = "" ->
  get_permission pbkdf2 bcrypt_check desc (mkCreds (Some u) pw) = inr ABadPassword.
Proof. exact empty_never. Qed.
Print Assumptions C08_empty_never.

Theorem C08_empty_wildcard_never : forall pbkdf2 bcrypt_check desc w u pw,
  assoc u (d_users desc) = None -> d_wildcard desc = Some w -> p_type (u_password w) = "" ->
  get_permission pbkdf2 bcrypt_check desc (mkCreds (Some u) pw) = inr ANoSuchUsername.
Proof. exact empty_wildcard_never. Qed.
Print Assumptions C08_empty_wildcard_never.

(* malformed records: the error of Match is returned for an entry and turned
   into "user not found" for the wildcard user; never an acceptance *)
Theorem C08_match_error_entry : forall pbkdf2 bcrypt_check desc c u pw e,
  assoc u (d_users desc) = Some c -> pw_match pbkdf2 bcrypt_check (u_password c) pw = MErr e ->
  get_permission pbkdf2 bcrypt_check desc (mkCreds (Some u) pw) = inr (AMatch e).
Proof. exact match_error_entry. Qed.
Print Assumptions C08_match_error_entry.

Theorem C08_match_error_wildcard : forall pbkdf2 bcrypt_check desc w u pw e,
  assoc u (d_users desc) = None -> d_wildcard desc = Some w ->
  pw_match pbkdf2 bcrypt_check (u_password w) pw = MErr e ->
  get_permission pbkdf2 bcrypt_check desc (mkCreds (Some u) pw) = inr ANoSuchUsername.
Proof. exact match_error_wildcard. Qed.
Print Assumptions C08_match_error_wildcard.

(* a plain password matches iff it is equal (ConstantTimeCompare is equality) *)
Theorem C08_plain_is_equality : forall pbkdf2 bcrypt_check h k s i pw,
  pw_match pbkdf2 bcrypt_check (mkPassword "plain" h (Some k) s i) pw = MOk (String.eqb pw k).
Proof. exact match_plain. Qed.
Print Assumptions C08_plain_is_equality.

(* ------------------------------------------------ every other attempt stays outside *)

(* a login that is not accepted returns an error; AddClient returns it before
   Init and before touching the membership; the join handler leaves the
   client without permissions and without group -- for every admission policy *)
Theorem C08_refused_outside : forall pbkdf2 bcrypt_check admission desc gname members c cr,
  cl_group c = None -> cl_permissions c = [] ->
  ~ accepted pbkdf2 bcrypt_check desc cr ->
  exists e, get_permission pbkdf2 bcrypt_check desc cr = inr e /\
    handle_join pbkdf2 bcrypt_check admission desc gname members c cr =
    (members, mkClient (cl_id c) (cl_username c) [] None, JFail (JAuth e)).
Proof. exact refused_outside. Qed.
Print Assumptions C08_refused_outside.

(* since d5987be: whatever made the join fail (authentication or admission) *)
Theorem C08_failed_join_outside :
  forall pbkdf2 bcrypt_check admission desc gname members c cr members' c' e,
  cl_group c = None ->
  handle_join pbkdf2 bcrypt_check admission desc gname members c cr = (members', c', JFail e) ->
  members' = members /\ cl_permissions c' = [] /\ cl_group c' = None.
Proof. exact failed_join_outside. Qed.
Print Assumptions C08_failed_join_outside.

Theorem C08_joined_permissions :
  forall pbkdf2 bcrypt_check admission desc gname members c cr members' c',
  cl_group c = None -> cl_permissions c = [] ->
  handle_join pbkdf2 bcrypt_check admission desc gname members c cr = (members', c', JJoined) ->
  exists name perms, get_permission pbkdf2 bcrypt_check desc cr = inl (name, perms) /\
    cl_username c' = name /\ cl_permissions c' = perms /\ cl_group c' = Some gname /\
    members' = (members ++ [cl_id c])%list.
Proof. exact joined_permissions. Qed.
Print Assumptions C08_joined_permissions.

(* -------------------------------------------------------------- exact permissions *)

(* as the code computes it, over ANY role table: the role's list, "record"
   prepended iff allow-recording and op in the role and record not already in
   it, "token" prepended iff unrestricted-tokens and present in the role and
   token not already in it *)
Theorem C08_exact_permissions_code : forall us w ar ut r l,
  r <> "" ->
  let R := role_perms r in
  permissions (Some (mkDesc us w ar ut)) (mkPerms r l) =
  ((if ut && (has "present" R && negb (has "token" R)) then ["token"] else []) ++
   (if ar && (has "op" R && negb (has "record" R)) then ["record"] else []) ++ R)%list.
Proof. exact permissions_named_code. Qed.
Print Assumptions C08_exact_permissions_code.

(* over the role table of the source (regenerated on every run): the
   expansion is the table written by hand from the property text *)
Theorem C08_exact_permissions : forall us w ar ut r l,
  r <> "" ->
  permissions (Some (mkDesc us w ar ut)) (mkPerms r l) = spec_permissions r ar ut.
Proof. exact permissions_named_spec. Qed.
Print Assumptions C08_exact_permissions.

(* ... which reads: "record" exactly for operators of groups that allow
   recording, "token" exactly for operators and, in unrestricted-token groups,
   presenters; everything else is the role's; nothing twice *)
Theorem C08_exact_permissions_reading : forall r ar ut,
  let p := spec_permissions r ar ut in
  let operator := In "op" p in
  let presenter := In "present" p in
  (operator <-> r = "op") /\
  (presenter <-> r = "op" \/ r = "present") /\
  (In "record" p <-> operator /\ ar = true) /\
  (In "token" p <-> operator \/ (presenter /\ ut = true)) /\
  (forall x, x <> "record" -> x <> "token" -> (In x p <-> In x (spec_permissions r false false))) /\
  NoDup p.
Proof. exact spec_permissions_reading. Qed.
Print Assumptions C08_exact_permissions_reading.

(* a raw permission array is returned verbatim *)
Theorem C08_raw_verbatim : forall d l, permissions d (mkPerms "" l) = l.
Proof. exact permissions_raw. Qed.
Print Assumptions C08_raw_verbatim.

(* the generated data the two theorems above rest on *)
Theorem C08_generated_table :
  roles = spec_roles /\
  permissions_rules = [("AllowRecording", "record", ["op"], ["record"]);
                       ("UnrestrictedTokens", "token", ["present"], ["token"])] /\
  permissions_flags = [("op", "op"); ("present", "present"); ("token", "token"); ("record", "record")] /\
  permissions_shape = ["raw_return"; "lookup"; "flag:op"; "flag:present"; "flag:token"; "flag:record";
                       "flagloop"; "rule"; "rule"; "return_perms"].
Proof. exact generated_ok. Qed.
Print Assumptions C08_generated_table.

(* --------------------------------------------------------------- hash round trip *)

(* a password hashed by the administration tool verifies for that password:
   pbkdf2 for every password (any length), salt, iteration count and key
   length >= 0, for every hash function that returns the requested number
   of bytes *)
Theorem C08_hash_roundtrip_pbkdf2 : forall pbkdf2 bcrypt_check bcrypt_gen,
  (forall pw s i n, (0 <= n)%Z -> Z.of_nat (String.length (pbkdf2 pw s i n)) = n) ->
  forall pw salt iterations length cost, (0 <= length)%Z ->
  exists p, make_password pbkdf2 bcrypt_gen AlgPbkdf2 pw salt iterations length cost = Some p /\
            pw_match pbkdf2 bcrypt_check p pw = MOk true.
Proof. exact roundtrip_pbkdf2. Qed.
Print Assumptions C08_hash_roundtrip_pbkdf2.

(* bcrypt: whenever the tool produces a record it verifies for the password,
   for every pair of oracles such that the library's comparison accepts the
   library's own hash (that IS the library's contract) *)
Theorem C08_hash_roundtrip_bcrypt : forall pbkdf2 bcrypt_check bcrypt_gen,
  (forall pw cost salt h, bcrypt_gen pw cost salt = Some h -> bcrypt_check h pw = BMatch) ->
  forall pw salt iterations length cost p,
  make_password pbkdf2 bcrypt_gen AlgBcrypt pw salt iterations length cost = Some p ->
  pw_match pbkdf2 bcrypt_check p pw = MOk true.
Proof. exact roundtrip_bcrypt. Qed.
Print Assumptions C08_hash_roundtrip_bcrypt.

(* the tool hands the password to bcrypt AS IT IS (no truncation, no
   normalisation): a record exists exactly when the library hashes that very
   password ... *)
Theorem C08_tool_hashes_the_given_password : forall pbkdf2 bcrypt_gen pw salt iterations length cost,
  make_password pbkdf2 bcrypt_gen AlgBcrypt pw salt iterations length cost =
  option_map (fun h => mkPassword "bcrypt" "" (Some h) "" 0%Z) (bcrypt_gen pw cost salt).
Proof. exact make_bcrypt. Qed.
Print Assumptions C08_tool_hashes_the_given_password.

(* ... so a password longer than 72 bytes, of which bcrypt would only see a
   prefix, is refused by the tool because the library refuses it *)
Theorem C08_tool_refuses_long_bcrypt : forall pbkdf2 bcrypt_gen,
  (forall pw cost salt, 72 < String.length pw -> bcrypt_gen pw cost salt = None) ->
  forall pw salt iterations length cost, 72 < String.length pw ->
  make_password pbkdf2 bcrypt_gen AlgBcrypt pw salt iterations length cost = None.
Proof. exact tool_refuses_long_bcrypt. Qed.
Print Assumptions C08_tool_refuses_long_bcrypt.

Theorem C08_hash_roundtrip_wildcard : forall pbkdf2 bcrypt_check bcrypt_gen pw pw' salt iterations length cost,
  exists p, make_password pbkdf2 bcrypt_gen AlgWildcard pw salt iterations length cost = Some p /\
            pw_match pbkdf2 bcrypt_check p pw' = MOk true.
Proof. exact roundtrip_wildcard. Qed.
Print Assumptions C08_hash_roundtrip_wildcard.

(* "and for no other password": PARTIAL.  The full statement is not provable:
   it is equivalent to collision-freeness of the hash function (first theorem)
   and false for some function with the right output length (second).  It is
   a tested fact only (monitors hash_no_other, hash_roundtrip_long), with the
   exceptions F22/F23 found on the real algorithms. *)
Definition C08_hash_no_other_full_statement : Prop := hash_no_other_statement.

Theorem C08_hash_no_other_is_collision_freeness_partial : forall pbkdf2 bcrypt_check bcrypt_gen,
  (forall pw s i n, (0 <= n)%Z -> Z.of_nat (String.length (pbkdf2 pw s i n)) = n) ->
  forall pw salt iterations length cost p, (0 <= length)%Z ->
  make_password pbkdf2 bcrypt_gen AlgPbkdf2 pw salt iterations length cost = Some p ->
  ((forall pw', pw_match pbkdf2 bcrypt_check p pw' = MOk true -> pw' = pw) <->
   (forall pw', pbkdf2 pw' salt iterations length = pbkdf2 pw salt iterations length -> pw' = pw)).
Proof. exact no_other_iff_injective. Qed.
Print Assumptions C08_hash_no_other_is_collision_freeness_partial.

Theorem C08_hash_no_other_refuted_without_collision_freeness : ~ C08_hash_no_other_full_statement.
Proof. exact hash_no_other_refuted. Qed.
Print Assumptions C08_hash_no_other_refuted_without_collision_freeness.

(* ------------------------------------------------------------------- isolation *)

(* With Init copying the list (the code since 7db3860): after ANY history of
   logins, moderation actions (op/unop/present/unpresent/shutup/unshutup, with
   remove/addnew editing the array in place) and leaves, an operation of
   client x changes no other client's permissions -- for every capacity policy
   of the allocator and every set of raw arrays in the descriptions *)
Theorem C08_isolation : forall slack raws ops o y,
  acts_on o <> y ->
  perms_of (step slack raws true (run slack raws true (init_world raws) ops) o) y =
  perms_of (run slack raws true (init_world raws) ops) y.
Proof. exact isolation_clients. Qed.
Print Assumptions C08_isolation.

(* ... nor the role table, which every later login reads *)
Theorem C08_isolation_roles : forall slack raws ops,
  role_table (run slack raws true (init_world raws) ops) = roles.
Proof. exact isolation_roles. Qed.
Print Assumptions C08_isolation_roles.

(* ... nor the raw permission arrays of the group descriptions *)
Theorem C08_isolation_raws : forall slack raws ops k, k < List.length raws ->
  cells (w_heap (run slack raws true (init_world raws) ops)) (List.length roles + k) = nth k raws [].
Proof. exact isolation_raws. Qed.
Print Assumptions C08_isolation_raws.

(* so that, after any history, a login is granted exactly what the value-level
   model (the one run against the code) computes *)
Theorem C08_isolation_login_grants : forall slack raws ops c name ar ut us wd l,
  name <> "" ->
  perms_of (step slack raws true (run slack raws true (init_world raws) ops)
                 (Login c (SrcRole name ar ut))) c =
  Some (permissions (Some (mkDesc us wd ar ut)) (mkPerms name l)).
Proof. exact login_grants_after_history. Qed.
Print Assumptions C08_isolation_login_grants.

(* what the owner's own list becomes, in place or not: remove deletes EVERY
   occurrence (since b21f80e), addnew appends unless present *)
Theorem C08_isolation_owner_view : forall slack h v s, wf h s ->
  view (fst (go_remove h v s)) (snd (go_remove h v s)) = filter (neqb v) (view h s) /\
  view (fst (go_addnew slack h v s)) (snd (go_addnew slack h v s)) =
  (if has v (view h s) then view h s else view h s ++ [v])%list.
Proof. exact owner_view. Qed.
Print Assumptions C08_isolation_owner_view.

(* why the copy in Init is needed (F10): with the slice shared, demoting one
   of two operators takes "op" from the other one and from the role table *)
Theorem C08_isolation_refuted_without_copy :
  let w := run (fun _ => 0) [] false (init_world []) f10_history in
  perms_of w 2 = Some ["present"; "message"; "caption"; "token"; "token"] /\
  assoc "op" (role_table w) = Some ["present"; "message"; "caption"; "token"; "token"].
Proof. exact shared_slices_break_isolation. Qed.
Print Assumptions C08_isolation_refuted_without_copy.

(* ------------------------------------------------------------------ non-vacuity *)

(* a toy hash (the password itself, cut or padded to the key length) so that
   the example computes; the theorems hold for every oracle *)
Definition ex_pbkdf2 (pw salt : string) (iter n : Z) : string := copy_into (Z.to_nat n) pw.
Definition ex_bcrypt (hash pw : string) : bcrypt_out :=
  if String.eqb hash "" then BError else if String.eqb hash pw then BMatch else BMismatch.

Definition ex_desc : description :=
  mkDesc
    [("alice", mkUser (mkPassword "plain" "" (Some "secret") "" 0) (mkPerms "op" []));
     ("bob", mkUser (mkPassword "" "" None "" 0) (mkPerms "op" []));
     ("carol", mkUser (mkPassword "pbkdf2" "sha-256" (Some "7733") "00" 5) (mkPerms "present" []));
     ("dave", mkUser (mkPassword "pbkdf2" "sha-256" (Some "773") "00" 5) (mkPerms "present" []));
     ("erin", mkUser (mkPassword "bcrypt" "" (Some "hunter2") "" 0) (mkPerms "" ["message"; "record"]));
     ("a/../b", mkUser (mkPassword "plain" "" (Some "x") "" 0) (mkPerms "message" []))]
    (Some (mkUser (mkPassword "wildcard" "" None "" 0) (mkPerms "message" [])))
    true true.

Example C08_example :
  let login u pw := get_permission ex_pbkdf2 ex_bcrypt ex_desc (mkCreds (Some u) pw) in
  (* the right password, the role expanded under both flags *)
  login "alice" "secret" = inl ("alice", ["record"; "op"; "present"; "message"; "caption"; "token"]) /\
  (* a wrong password is refused although the wildcard user accepts anything *)
  login "alice" "Secret" = inr ABadPassword /\
  (* no password: never, even with the empty password *)
  login "bob" "" = inr ABadPassword /\
  (* pbkdf2: matches / does not match / malformed key *)
  login "carol" "w3" = inl ("carol", ["token"; "present"; "message"]) /\
  login "carol" "w4" = inr ABadPassword /\
  login "dave" "w3" = inr (AMatch EBadHex) /\
  (* bcrypt, raw array verbatim *)
  login "erin" "hunter2" = inl ("erin", ["message"; "record"]) /\
  (* no entry: the wildcard user *)
  login "zoe" "anything" = inl ("zoe", ["message"]) /\
  (* an entry that can never log in: its name is not a valid user name *)
  login "a/../b" "x" = inr AInvalidUsername /\
  (* the hypotheses of C08_refused_outside hold for a fresh client *)
  (let c := mkClient "c1" "" [] None in
   handle_join ex_pbkdf2 ex_bcrypt (fun _ _ _ => None) ex_desc "g" ["c0"] c (mkCreds (Some "alice") "x")
   = (["c0"], mkClient "c1" "" [] None, JFail (JAuth ABadPassword)) /\
   handle_join ex_pbkdf2 ex_bcrypt (fun _ _ _ => None) ex_desc "g" ["c0"] c (mkCreds (Some "alice") "secret")
   = (["c0"; "c1"],
      mkClient "c1" "alice" ["record"; "op"; "present"; "message"; "caption"; "token"] (Some "g"),
      JJoined)) /\
  (* the toy hash satisfies the hypothesis of the round trip *)
  option_map (fun p => pw_match ex_pbkdf2 ex_bcrypt p "pw")
    (make_password ex_pbkdf2 (fun pw _ _ => Some pw) AlgPbkdf2 "pw" "salt" 7 4 0) = Some (MOk true) /\
  (* isolation: two operators, one demoted; the other keeps "op" *)
  (let w := run (fun _ => 3) [["message"; "op"]] true (init_world [["message"; "op"]])
              [Login 1 (SrcRole "op" true false); Login 2 (SrcRole "op" true false);
               Login 3 (SrcRaw 0); Act 1 AUnop true; Act 3 AShutup false; Act 2 AUnpresent true] in
   perms_of w 1 = Some ["present"; "message"; "caption"; "token"] /\
   perms_of w 2 = Some ["record"; "op"; "message"; "caption"; "token"] /\
   perms_of w 3 = Some ["op"]).
Proof. vm_compute. repeat split; reflexivity. Qed.

(* C16  Stateful tokens: durable, conditionally updated, and revocation is
   final.  Statements only; every proof is [exact lemma].

   Model: Model/TokenStore.v, the executable transcription of
   token/stateful.go, tied to it by the `tokstore` correspondence driver.
   A history is any list of operations
     OGet / OList                       token.Get / token.List
     ODo (WUpdate | WDelete | WExpire)  token.Update / Delete / Expire run to completion
     OExternal                          somebody replaces or removes the file
     ORestart / ORepoint                new process / SetStatefulFilename
     OCrash w k mid                     the process dies at (mid: inside) the k-th
                                        system call of w's file update
     OFail w k                          the k-th system call of w returns an error
   from the initial state (no file, empty memory).

   Hypothesis [fresh [] h] (the property's own): every version of the file
   that is written during h gets a stamp (size, mtime) that no earlier version
   had, and never the zero time.  [Forall ok_op h] excludes only an I/O error
   inside Expire (see C16_expire_io_error_breaks_mirror).

   OS assumptions are explicit: rename(2)/unlink(2) are single steps of
   [sys_step]; [mid = false] in C16_atomic_append / C16_atomic is "one
   write(2) of one line is not torn by a process crash"; a crash is a process
   crash (the code never calls fsync: nothing is claimed about power loss). *)
From Coq Require Import ZArith List Bool.
From Galene Require Import Model.TokenStore.
From Galene Require Import Proofs.TokenStoreBasics Proofs.TokenStoreInv Proofs.TokenStoreProps
  Proofs.TokenStoreCond Proofs.TokenStoreTheorems Proofs.TokenStoreApi.
Import ListNotations.
Open Scope Z_scope.

(* ---------------- mirror ---------------- *)

(* After every history, Get answers exactly as a freshly started server
   (empty memory, same file) would: same result, same token, same tag. *)
Theorem C16_mirror : forall h n,
  fresh [] h -> Forall ok_op h ->
  let s := run init_state h in
  snd (step s (OGet n)) = snd (step (fst (step s ORestart)) (OGet n)).
Proof. exact mirror_get_hist. Qed.
Print Assumptions C16_mirror.

(* the same for List (ties of the expiry sort come out in any order) *)
Theorem C16_mirror_list : forall h g,
  fresh [] h -> Forall ok_op h ->
  let s := run init_state h in
  let o := snd (step s (OList g)) in
  let o' := snd (step (fst (step s ORestart)) (OList g)) in
  o_res o = o_res o' /\ o_etag o = o_etag o' /\ (forall t, In t (o_toks o) <-> In t (o_toks o')).
Proof. exact mirror_list_hist. Qed.
Print Assumptions C16_mirror_list.

(* and both are what the file says: the last record of each name, or nothing
   at all (every request fails) when a line does not decode *)
Theorem C16_mirror_file : forall h n,
  fresh [] h -> Forall ok_op h ->
  let s := run init_state h in
  match fresh_view s with
  | None => o_res (snd (step s (OGet n))) = ROther
  | Some ts =>
    match tlookup n ts with
    | Some t => o_res (snd (step s (OGet n))) = ROk /\ o_toks (snd (step s (OGet n))) = [t]
    | None => o_res (snd (step s (OGet n))) = RNotExist
    end
  end.
Proof. exact mirror_file_hist. Qed.
Print Assumptions C16_mirror_file.

(* ---------------- revocation is final ---------------- *)

(* After a successful Delete of n, no later Get of n succeeds -- whatever
   happens in between (restarts, crashes, I/O errors, external edits, other
   tokens' updates), unless an Update or an external edit names n again.
   No hypothesis on stamps is needed. *)
Theorem C16_revocation_final : forall h1 n e st h2,
  o_res (snd (step (run init_state h1) (ODo (WDelete n e st)))) = ROk ->
  Forall (fun o => ~ recreates n o) h2 ->
  o_res (snd (step (run init_state (h1 ++ ODo (WDelete n e st) :: h2)) (OGet n))) <> ROk.
Proof. exact revocation_delete_hist. Qed.
Print Assumptions C16_revocation_final.

(* The same for a token swept by Expire: it was honoured, it had expired more
   than a week before [now], Expire succeeded. *)
Theorem C16_revocation_final_expire : forall h1 now st n t h2,
  fresh [] h1 -> Forall ok_op h1 ->
  let s := run init_state h1 in
  snd (step s (OGet n)) = mkOut ROk (o_etag (snd (step s (OGet n)))) [t] ->
  swept now t = true ->
  o_res (snd (step s (ODo (WExpire now st)))) = ROk ->
  Forall (fun o => ~ recreates n o) h2 ->
  o_res (snd (step (run init_state (h1 ++ ODo (WExpire now st) :: h2)) (OGet n))) <> ROk.
Proof. exact revocation_expire_hist. Qed.
Print Assumptions C16_revocation_final_expire.

(* ---------------- conditional writes ---------------- *)

(* in ANY state: Delete succeeds only if the token exists and the tag is the
   one Get returns in that very state *)
Theorem C16_conditional_delete : forall s n e st,
  o_res (snd (step s (ODo (WDelete n e st)))) = ROk ->
  o_res (snd (step s (OGet n))) = ROk /\ o_etag (snd (step s (OGet n))) = e.
Proof. exact delete_needs_current_tag. Qed.
Print Assumptions C16_conditional_delete.

(* Update succeeds only as an edit with the current tag, or as the creation
   of a token that does not exist, with the empty tag *)
Theorem C16_conditional_update : forall s t e st0 st,
  o_res (snd (step s (ODo (WUpdate t e st0 st)))) = ROk ->
  (o_res (snd (step s (OGet (tk_name t)))) = ROk /\ o_etag (snd (step s (OGet (tk_name t)))) = e) \/
  (o_res (snd (step s (OGet (tk_name t)))) = RNotExist /\ e = None).
Proof. exact update_needs_current_tag. Qed.
Print Assumptions C16_conditional_update.

(* a conditional write that succeeds with a tag read earlier proves that the
   file did not change in between (h is whatever happened since the Get) *)
Theorem C16_conditional : forall h0 n ste h w,
  fresh [] (h0 ++ h) -> Forall ok_op h0 ->
  let s := run init_state h0 in
  o_res (snd (step s (OGet n))) = ROk -> o_etag (snd (step s (OGet n))) = Some ste ->
  cond_tag w = Some ste ->
  o_res (snd (step (run (fst (step s (OGet n))) h) (ODo w))) = ROk ->
  s_file (run (fst (step s (OGet n))) h) = s_file s.
Proof. exact no_lost_update_hist. Qed.
Print Assumptions C16_conditional.

(* of two conditional writes that present the same tag, with any operations
   in between, at most one succeeds *)
Theorem C16_conditional_exclusive : forall h0 wA h wB ste,
  fresh [] (h0 ++ ODo wA :: h ++ [ODo wB]) -> Forall ok_op h0 ->
  cond_tag wA = Some ste -> cond_tag wB = Some ste ->
  let s := run init_state h0 in
  o_res (snd (step s (ODo wA))) = ROk ->
  o_res (snd (step (run (fst (step s (ODo wA))) h) (ODo wB))) <> ROk.
Proof. exact exclusive_hist. Qed.
Print Assumptions C16_conditional_exclusive.

(* two editors, each [read the tag of its token][write with that tag]
   (edittoken, and GET + PUT/DELETE with If-Match), under EVERY schedule of
   their four steps interleaved with anybody else's operations: if they hold
   the same tag, at most one of the two writes succeeds *)
Theorem C16_conditional_two_editors : forall h0 a1 a2 sc s' e1 e2 tr,
  fresh [] (h0 ++ tr) -> Forall ok_op (h0 ++ tr) ->
  run_sched (run init_state h0) a1 a2 ed_start ed_start sc = (s', e1, e2, tr) ->
  ed_tag e1 = ed_tag e2 -> ed_tag e1 <> None ->
  ~ (ed_res e1 = ROk /\ ed_res e2 = ROk).
Proof. exact two_editors_hist. Qed.
Print Assumptions C16_conditional_two_editors.

(* ---------------- atomic replacement ---------------- *)

(* in ANY state, every edit, delete and sweep (everything but the creation of
   a new token) replaces the file through rewrite(): at every interruption
   point k, also inside a system call (mid = true, torn writes), the file is
   exactly the old file or exactly the file of the completed operation *)
Theorem C16_atomic_rewrite : forall s w k mid,
  ~ creates s w ->
  s_file (fst (step s (OCrash w k mid))) = s_file s \/
  s_file (fst (step s (OCrash w k mid))) = s_file (fst (step s (ODo w))).
Proof. exact atomic_rewrite. Qed.
Print Assumptions C16_atomic_rewrite.

(* the creation of a token appends one line: if a write(2) of one line is not
   torn (mid = false), a freshly started server reads the old set, or the file
   is the one of the completed operation *)
Theorem C16_atomic_append : forall s w k,
  creates s w ->
  fresh_view (fst (step s (OCrash w k false))) = fresh_view s \/
  s_file (fst (step s (OCrash w k false))) = s_file (fst (step s (ODo w))).
Proof. exact atomic_append. Qed.
Print Assumptions C16_atomic_append.

(* every write operation, every crash point: what a freshly started server
   reads is the complete old set or the complete new set *)
Theorem C16_atomic : forall s w k,
  fresh_view (fst (step s (OCrash w k false))) = fresh_view s \/
  fresh_view (fst (step s (OCrash w k false))) = fresh_view (fst (step s (ODo w))).
Proof. exact atomic_fresh_view. Qed.
Print Assumptions C16_atomic.

(* ---------------- through the HTTP API ---------------- *)

(* [api_step] is the model of the token handlers of webserver/api.go (GET,
   list, POST, PUT, DELETE with If-Match / If-None-Match), run against the
   real handlers by the `tokapi` driver.  Every request IS a history of store
   operations (Get, then possibly one Update/Delete that carries the tag just
   read), so all the theorems above apply to sequences and interleavings of
   requests. *)
Theorem C16_api_is_history : forall s q, fst (api_step s q) = run s (api_ops s q).
Proof. exact api_is_history. Qed.
Print Assumptions C16_api_is_history.

(* in ANY state: a PUT / DELETE with If-Match: <tag> is answered 2xx only if
   the token exists and <tag> is its current tag -- never when the token was
   deleted after the tag was read *)
Theorem C16_api_put_if_match : forall s g n e inm t st0 st,
  is2xx (a_status (snd (api_step s (APut g n (Some (HTag e)) inm t st0 st)))) ->
  o_res (snd (step s (OGet n))) = ROk /\ o_etag (snd (step s (OGet n))) = Some e.
Proof. exact api_put_if_match. Qed.
Print Assumptions C16_api_put_if_match.

Theorem C16_api_delete_if_match : forall s g n e inm st,
  is2xx (a_status (snd (api_step s (ADelete g n (Some (HTag e)) inm st)))) ->
  o_res (snd (step s (OGet n))) = ROk /\ o_etag (snd (step s (OGet n))) = Some e.
Proof. exact api_delete_if_match. Qed.
Print Assumptions C16_api_delete_if_match.

(* a request that is not answered 2xx leaves the token file as it was *)
Theorem C16_api_refused_unchanged : forall s q,
  ~ is2xx (a_status (snd (api_step s q))) -> s_file (fst (api_step s q)) = s_file s.
Proof. exact api_refused_unchanged. Qed.
Print Assumptions C16_api_refused_unchanged.

(* ---------------- a refused update changes nothing ---------------- *)

(* After a write operation that is refused -- wrong or stale tag, missing
   token, or a system call that fails ([OFail]; not inside Expire) -- the
   running server answers every Get exactly as before the operation (the last
   accepted version), and exactly as a restarted server. *)
Theorem C16_refused_update_changes_nothing : forall h o w,
  fresh [] (h ++ [o]) -> Forall ok_op h -> not_expire w ->
  (o = ODo w \/ exists k, o = OFail w k) ->
  let s := run init_state h in
  o_res (snd (step s o)) <> ROk ->
  forall n,
    snd (step (fst (step s o)) (OGet n)) = snd (step s (OGet n)) /\
    snd (step (fst (step s o)) (OGet n)) = snd (step (fst (step (fst (step s o)) ORestart)) (OGet n)).
Proof. exact refused_update_hist. Qed.
Print Assumptions C16_refused_update_changes_nothing.

(* the token commands of the signalling protocol (maketoken, edittoken,
   listtokens; [sig_step], run against the real handleClientMessage by the
   `tokapi` driver) are histories of store operations too: edittoken is a Get
   followed by an Update -- possibly under an I/O fault -- of a COPY of the
   token, with the tag just read *)
Theorem C16_sig_is_history : forall fault s q,
  fst (sig_step fault s q) = run s (sig_ops fault s q).
Proof. exact sig_is_history. Qed.
Print Assumptions C16_sig_is_history.

(* ---------------- the hypotheses are needed ---------------- *)

(* without the assumption on write(2): a creation torn inside its write
   leaves a line that does not decode, and then NOTHING is honoured *)
Theorem C16_append_needs_untorn_write :
  let s := run init_state [ODo (WUpdate tA None (S 1) (S 2))] in
  let w := WUpdate tB None (S 3) (S 4) in
  creates s w /\ fresh_view s = Some [tA] /\
  fresh_view (fst (step s (OCrash w 1 true))) = None /\
  o_res (snd (step (fst (step s (OCrash w 1 true))) (OGet 1))) = ROther.
Proof. exact torn_append_loses_all. Qed.
Print Assumptions C16_append_needs_untorn_write.

(* "successive versions differ" is not enough, the stamp must not come back:
   create A (stamp 2), external edit (stamp 3), external edit (stamp 2 again)
   -- the server still honours A, a freshly started one does not *)
Theorem C16_stamps_must_not_come_back :
  successive_distinct zero_stamp aba_history /\
  o_res (snd (step (run init_state aba_history) (OGet 1))) = ROk /\
  o_res (snd (step (fst (step (run init_state aba_history) ORestart)) (OGet 1))) = RNotExist.
Proof. exact aba_breaks_mirror. Qed.
Print Assumptions C16_stamps_must_not_come_back.

(* an I/O error inside Expire (the rename fails): Expire does not roll its
   sweep back, the running server has forgotten a token that the file still
   holds and that a restart brings back *)
Theorem C16_expire_io_error_breaks_mirror :
  fresh [] expire_fail_history /\
  o_res (snd (step (run init_state expire_fail_history) (OGet 3))) = RNotExist /\
  o_res (snd (step (fst (step (run init_state expire_fail_history) ORestart)) (OGet 3))) = ROk.
Proof. exact expire_io_error_breaks_mirror. Qed.
Print Assumptions C16_expire_io_error_breaks_mirror.

(* ---------------- non-vacuity ---------------- *)

(* a history through every kind of operation satisfies the hypotheses; its
   results are the expected ones (refused without tag, edited with the tag,
   stale tag refused, deleted, swept, gone after the restart, crash and I/O
   error harmless) *)
Example C16_example :
  fresh [] example_history /\ Forall ok_op example_history /\
  map o_res (outs init_state example_history) =
    [ROk; ROk; ROk; ROk; RMismatch; ROk; RMismatch; ROk; ROk; ROk;
     RNotExist; RNotExist; ROk; ROther; ROther; ROk; ROk] /\
  o_toks (snd (step (run init_state example_history) (OGet 1))) = [] /\
  o_toks (snd (step (run init_state example_history) (OGet 2))) = [tB].
Proof. exact example_ok. Qed.

(* C12  No client input can crash the server.
   PROVISIONAL file written by the builder of the byte-level part (driver and
   model `keyframe`): it contains ONLY the theorems about galene's own
   hand-written parsers in codecs/codecs.go (Model/Keyframe.v).  The
   coordinator extends it with RewritePacket, signalling and HTTP.
   Statements only; every proof is [exact lemma].

   Reading guide: [Ok r] is a normal return with value r, [Panic] is a Go
   run-time panic (index or slice bounds out of range), [OutOfFuel] is a loop
   that did not finish within the given number of iterations.  Buffers are
   arbitrary lists of integers (no "is a byte" hypothesis is needed).
   [fuel_for p = S (length p)]. *)
From Coq Require Import ZArith List Bool.
From Galene Require Import Lib.Word Model.Keyframe Proofs.KeyframeSafe.
Import ListNotations.
Open Scope Z_scope.

(* Keyframe("video/av1"): for every payload a normal return *)
Theorem C12_keyframe_av1_safe : forall payload,
  exists r, keyframe_av1 (fuel_for payload) payload = Ok r.
Proof. exact keyframe_av1_safe. Qed.
Print Assumptions C12_keyframe_av1_safe.

(* ... and the loop over OBUs runs at most W+1 <= 4 times, W being the two
   bits 0x30 of the first byte *)
Theorem C12_keyframe_av1_terminates : forall payload fuel,
  (Z.to_nat (av1_w payload) + 1 <= fuel)%nat ->
  exists r, keyframe_av1 fuel payload = Ok r.
Proof. exact keyframe_av1_terminates. Qed.
Print Assumptions C12_keyframe_av1_terminates.

Theorem C12_keyframe_av1_terminates_4 : forall payload fuel,
  (4 <= fuel)%nat -> exists r, keyframe_av1 fuel payload = Ok r.
Proof. exact keyframe_av1_terminates_4. Qed.
Print Assumptions C12_keyframe_av1_terminates_4.

(* the LEB128 loop of getObu runs at most 5 times *)
Theorem C12_get_obu_len_terminates : forall data length,
  0 <= length -> exists r, get_obu_len 5 data 0 length = Ok r.
Proof. exact get_obu_len_fuel_5. Qed.
Print Assumptions C12_get_obu_len_terminates.

(* an iteration that continues moves the offset forward inside the packet *)
Theorem C12_av1_step_progress : forall p w offset i o' i',
  0 <= offset <= blen p ->
  av1_step p w (offset, i) = Ok (Continue (o', i')) ->
  offset < o' <= blen p /\ i' = i + 1 /\ i < w.
Proof. exact av1_step_progress. Qed.
Print Assumptions C12_av1_step_progress.

(* Keyframe("video/h264") *)
Theorem C12_keyframe_h264_safe : forall payload,
  exists r, keyframe_h264 (fuel_for payload) payload = Ok r.
Proof. exact keyframe_h264_safe. Qed.
Print Assumptions C12_keyframe_h264_safe.

(* the index of the aggregation loop strictly increases and stays inside *)
Theorem C12_keyframe_h264_terminates : forall p nalu i i',
  0 <= i ->
  h264_step p nalu i = Ok (Continue i') -> i < i' <= blen p.
Proof. exact keyframe_h264_terminates. Qed.
Print Assumptions C12_keyframe_h264_terminates.

(* the whole of Keyframe: every codec name, every payload, whatever pion's
   depacketiser produced for VP8/VP9 *)
Theorem C12_keyframe_safe : forall name payload d,
  exists r, keyframe name payload d = Ok r.
Proof. exact keyframe_safe. Qed.
Print Assumptions C12_keyframe_safe.

(* PacketFlags, header part: refused iff shorter than 4 bytes *)
Theorem C12_packet_flags_header_safe : forall buf,
  exists r, packet_flags_header buf = Ok r /\ (r = None <-> blen buf < 4).
Proof. exact packet_flags_header_safe. Qed.
Print Assumptions C12_packet_flags_header_safe.

(* KeyframeDimensions("video/vp8") on any depacketiser output *)
Theorem C12_keyframe_dimensions_vp8_safe : forall vp8payload,
  exists r, keyframe_dimensions_vp8 vp8payload = Ok r.
Proof. exact keyframe_dimensions_vp8_safe. Qed.
Print Assumptions C12_keyframe_dimensions_vp8_safe.

(* semantics pinned: H.264 single NAL unit *)
Theorem C12_h264_single_nalu : forall fuel b rest,
  1 <= Z.land b 31 <= 23 ->
  keyframe_h264 fuel (b :: rest) = Ok (Z.land b 31 =? 7, true).
Proof. exact h264_single_nalu. Qed.
Print Assumptions C12_h264_single_nalu.

(* semantics pinned: AV1 Z=0, N=1, W=2, sequence header then KEY frame *)
Theorem C12_av1_seq_then_key_frame : forall fuel b0 h1 body1 h2 f2 body2,
  Z.land b0 136 = 8 -> av1_w_of b0 = 2 ->
  blen (h1 :: body1) < 128 ->
  Z.shiftr (Z.land h1 56) 3 = 1 ->
  Z.shiftr (Z.land h2 56) 3 = 3 \/ Z.shiftr (Z.land h2 56) 3 = 6 ->
  Z.land f2 128 = 0 -> Z.land f2 96 = 0 ->
  keyframe_av1 (S (S fuel))
    (b0 :: blen (h1 :: body1) :: (h1 :: body1) ++ h2 :: f2 :: body2) = Ok (true, true).
Proof. exact av1_seq_then_key_frame. Qed.
Print Assumptions C12_av1_seq_then_key_frame.

(* non-vacuity: concrete packets on which the hypotheses of the two
   conditional theorems hold, and the accessor does panic when asked to *)
Example C12_example :
  keyframe_av1 (fuel_for [40; 2; 10; 0; 50; 16]) [40; 2; 10; 0; 50; 16] = Ok (true, true) /\
  (Z.land 40 136 = 8 /\ av1_w_of 40 = 2 /\ Z.shiftr (Z.land 10 56) 3 = 1 /\
   Z.shiftr (Z.land 50 56) 3 = 6 /\ Z.land 16 128 = 0 /\ Z.land 16 96 = 0) /\
  keyframe_h264 (fuel_for [103; 66]) [103; 66] = Ok (true, true) /\
  1 <= Z.land 103 31 <= 23 /\
  idx [1; 2; 3] 3 = Panic /\ slice [1; 2; 3] 2 4 = Panic /\ slice [1; 2; 3] 2 1 = Panic /\
  keyframe_av1 1 [40; 2; 10; 0; 50; 16] = OutOfFuel.
Proof. vm_compute. repeat split; try reflexivity; discriminate. Qed.

(* ---- RewritePacket and Write (added by the coordinator) ---- *)
From Galene Require Import Model.Rewrite Model.Forward Proofs.RewriteSafe Proofs.ForwardProps.

(* codecs.RewritePacket, for every byte string, codec, marker request, number
   and delta: never out of bounds (the X-bit case was defect F3, fixed) *)
Theorem C12_rewrite_safe : forall vp8 data sm seqno delta,
  (forall b, In b data -> 0 <= b < 256) -> rewrite vp8 data sm seqno delta <> RPanic.
Proof. exact rewrite_safe. Qed.
Print Assumptions C12_rewrite_safe.

(* ... and never changes the length *)
Theorem C12_rewrite_length : forall vp8 data sm seqno delta d,
  (forall b, In b data -> 0 <= b < 256) ->
  rewrite vp8 data sm seqno delta = ROk d -> length d = length data.
Proof. exact rewrite_length. Qed.
Print Assumptions C12_rewrite_length.

(* rtpDownTrack.Write, in every state and for every packet and flags *)
Theorem C12_write_safe : forall vp8 st f buf, bytes_ok buf ->
  snd (fst (write vp8 st f buf)) <> WPanic.
Proof.
  intros vp8 st f buf Hb E. pose proof (write_sent_spec vp8 st f buf Hb) as H.
  cbv zeta in H. rewrite E in H. exact H.
Qed.
Print Assumptions C12_write_safe.

(* ------------------------------------------------------------------ *)
(* Signalling (Model/Signal.v: rtpconn/webclient.go handleClientMessage,
   handleAction, leaveGroup, the end of a connection; tied to the code by the
   drivers `sig` and `sigfuzz`).  The names of that model are used qualified. *)
From Galene Require Model.Signal Proofs.SignalSafe.

(* For ALL sequences of scheduler operations (new groups and connections,
   any message of any type/kind with any field values in any membership
   state, any order of message reads and action-queue services, any
   negotiation outcome, disconnections) the model never reaches Panic. *)
Theorem C12_signalling_safe : forall ops,
  Signal.run_ops Signal.empty_world ops <> None.
Proof. exact SignalSafe.signalling_safe. Qed.
Print Assumptions C12_signalling_safe.

(* ... and from every state in which non-members hold no permission,
   whatever its connection tables contain *)
Theorem C12_signalling_safe_from : forall w ops,
  SignalSafe.Inv w -> Signal.run_ops w ops <> None.
Proof. exact SignalSafe.signalling_safe_from. Qed.
Print Assumptions C12_signalling_safe_from.

(* A message naming a connection id the client does not have (never created,
   already closed, another client's): ice (non-null candidate), renegotiate
   and close change nothing; abort and answer only send `close` to the sender;
   requestStream returns an error, which ends the sender's own connection. *)
Theorem C12_signalling_unknown_id : forall w h c m,
  Signal.get_client w h = Some c -> Signal.is_empty (Signal.m_id m) = false ->
  SignalSafe.no_conn c (Signal.m_id m) ->
  (Signal.m_candidate m = true -> Signal.handle_ice w h c m = Signal.ok w) /\
  Signal.handle_renegotiate w h c m = Signal.ok w /\
  Signal.handle_close w h c m = Signal.ok w /\
  Signal.handle_abort w h c m = Signal.ok (Signal.close_down_conn w h (Signal.m_id m)) /\
  Signal.handle_answer w h c m = Signal.ok (Signal.close_down_conn w h (Signal.m_id m)) /\
  (exists a, Signal.handle_request_stream w h c m = Signal.failed w Signal.EInternal a).
Proof. exact SignalSafe.unknown_id_harmless. Qed.
Print Assumptions C12_signalling_unknown_id.

(* ------------------------------------------------------------------ *)
(* WHIP trickle-ICE bodies (Model/SdpFrag.v: sdpfrag/sdpfrag.go
   SDPFrag.Unmarshal, called by the PATCH handler of webserver/whip.go on the
   request body; tied to the code by the driver `sdpfrag`).  Names qualified. *)
From Galene Require Model.SdpFrag Proofs.SdpFragSafe.

(* For EVERY byte string the parser returns a fragment or the error
   "unexpected mid"; it never goes through its nil media-description pointer. *)
Theorem C12_sdpfrag_safe : forall data, SdpFrag.unmarshal data <> SdpFrag.RPanic.
Proof. exact SdpFragSafe.unmarshal_safe. Qed.
Print Assumptions C12_sdpfrag_safe.

(* The one nil test that is not implied by the shape of the code is needed:
   without it the 7-byte body "a=mid:0" is a nil dereference. *)
Theorem C12_sdpfrag_guard_needed :
  SdpFrag.unmarshal_unguarded (SdpFrag.p_mid ++ [48]) = SdpFrag.RPanic.
Proof. exact SdpFragSafe.unmarshal_unguarded_panics. Qed.
Print Assumptions C12_sdpfrag_guard_needed.

(* The error is returned exactly when an "a=mid:" line precedes the first
   "m=" line, among the lines the scanner delivers ... *)
Theorem C12_sdpfrag_error_iff : forall data,
  SdpFrag.unmarshal data = SdpFrag.RErr <->
  SdpFragSafe.mid_before_m (SdpFrag.scan_lines data) = true.
Proof. exact SdpFragSafe.unmarshal_err_iff. Qed.
Print Assumptions C12_sdpfrag_error_iff.

(* ... and those lines contain no line feed and fit the scanner's buffer
   (a longer line ends the scan: the rest of the body is ignored). *)
Theorem C12_sdpfrag_lines : forall data l, In l (SdpFrag.scan_lines data) ->
  ~ In 10 l /\ SdpFrag.zlen l < SdpFrag.max_token.
Proof. exact SdpFragSafe.scan_lines_wf. Qed.
Print Assumptions C12_sdpfrag_lines.

(* Non-vacuity: a body with a session-level ufrag, one media section, a mid
   and a candidate parses to the expected fragment. *)
Example C12_sdpfrag_example :
  SdpFrag.unmarshal
    (SdpFrag.p_ufrag ++ [117;13;10] ++ SdpFrag.p_m ++ [120;13;10] ++
     SdpFrag.p_mid ++ [48;13;10] ++ SdpFrag.p_cand ++ [99;10])
  = SdpFrag.ROk (SdpFrag.mkFrag [117] [] []
      [SdpFrag.mkMd [120] [48] [] []
         [SdpFrag.mkCand [99] (Some [117]) (Some 0) (Some [48])]]).
Proof. vm_compute. reflexivity. Qed.

(* ------------------------------------------------------------------ *)
(* The rest of package sdpfrag that the PATCH handler runs on the fragment
   parsed from a client's body: SDPFrag.UFragPwd, SDPFrag.AllCandidates, and
   SDPFrag.Marshal (which writes the answer of an ICE restart).  The models
   are total functions without a Panic outcome (there is no pointer, index or
   slice expression in the three functions); they are compared with the real
   functions on every parsed body by the driver `sdpfrag`. *)
From Galene Require Proofs.SdpFragRoundTrip.

(* The linear definitions that are extracted are the buffer / append loops of
   the code. *)
Theorem C12_sdpfrag_marshal_is_buffer : forall f, SdpFrag.marshal_buf f = SdpFrag.marshal f.
Proof. exact SdpFragRoundTrip.marshal_buf_eq. Qed.
Print Assumptions C12_sdpfrag_marshal_is_buffer.

Theorem C12_sdpfrag_all_candidates_is_loop : forall f,
  SdpFrag.all_candidates_loop f = SdpFrag.all_candidates f.
Proof. exact SdpFragRoundTrip.all_candidates_loop_eq. Qed.
Print Assumptions C12_sdpfrag_all_candidates_is_loop.

(* What Unmarshal establishes: no string of the fragment contains '\n', and
   each is short enough for the line it was read from to fit the buffer. *)
Theorem C12_sdpfrag_parsed_ok : forall data f,
  SdpFrag.unmarshal data = SdpFrag.ROk f -> SdpFragRoundTrip.frag_ok f.
Proof. exact SdpFragRoundTrip.unmarshal_frag_ok. Qed.
Print Assumptions C12_sdpfrag_parsed_ok.

(* Marshal: if no string of the fragment contains '\n', no emitted line does
   (no value can add a line to what the server writes) ... *)
Theorem C12_sdpfrag_marshal_lines : forall f, SdpFragRoundTrip.frag_nl f ->
  Forall (fun l => ~ In 10 l) (SdpFrag.marshal_lines f).
Proof. exact SdpFragRoundTrip.marshal_lines_no_nl. Qed.
Print Assumptions C12_sdpfrag_marshal_lines.

(* ... for a parsed fragment the emitted lines are also shorter than 64 KiB ... *)
Theorem C12_sdpfrag_marshal_lines_parsed : forall f, SdpFragRoundTrip.frag_ok f ->
  Forall (fun l => ~ In 10 l /\ SdpFrag.zlen l < SdpFrag.max_token) (SdpFrag.marshal_lines f).
Proof. exact SdpFragRoundTrip.marshal_lines_in. Qed.
Print Assumptions C12_sdpfrag_marshal_lines_parsed.

(* ... and the scanner reads back exactly the emitted lines when each leaves
   room for the '\r' that Marshal adds. *)
Theorem C12_sdpfrag_marshal_scan : forall f,
  Forall (fun l => ~ In 10 l /\ SdpFrag.zlen l + 1 < SdpFrag.max_token) (SdpFrag.marshal_lines f) ->
  SdpFrag.scan_lines (SdpFrag.marshal f) = SdpFrag.marshal_lines f.
Proof. exact SdpFragRoundTrip.scan_marshal. Qed.
Print Assumptions C12_sdpfrag_marshal_scan.

(* Round trip, for ANY fragment (parsed or not) under that condition: if the
   parser ignores the lines "a=<Candidate>" of the session-level candidates,
   Unmarshal (Marshal f) is [renorm f]: ufrag, password and every media section
   with its m-line, mid, ufrag, password and candidate values in order; the
   session-level candidates are gone and the three pointer fields of the
   others are recomputed (ufrag pointer from the session ufrag, m-line index
   = section number mod 2^16, mid = the mid of the section). *)
Theorem C12_sdpfrag_roundtrip : forall f,
  Forall (fun l => ~ In 10 l /\ SdpFrag.zlen l + 1 < SdpFrag.max_token) (SdpFrag.marshal_lines f) ->
  Forall SdpFragRoundTrip.sess_inert (SdpFrag.f_cands f) ->
  SdpFrag.unmarshal (SdpFrag.marshal f) = SdpFrag.ROk (SdpFragRoundTrip.renorm f).
Proof. exact SdpFragRoundTrip.roundtrip. Qed.
Print Assumptions C12_sdpfrag_roundtrip.

(* For a fragment parsed from a body only the lengths have to be assumed. *)
Theorem C12_sdpfrag_roundtrip_parsed : forall data f,
  SdpFrag.unmarshal data = SdpFrag.ROk f ->
  Forall (fun l => SdpFrag.zlen l + 1 < SdpFrag.max_token) (SdpFrag.marshal_lines f) ->
  Forall SdpFragRoundTrip.sess_inert (SdpFrag.f_cands f) ->
  SdpFrag.unmarshal (SdpFrag.marshal f) = SdpFrag.ROk (SdpFragRoundTrip.renorm f).
Proof. exact SdpFragRoundTrip.roundtrip_parsed. Qed.
Print Assumptions C12_sdpfrag_roundtrip_parsed.

(* In a parsed fragment the candidates of section i already carry the ufrag
   pointer and the index that [renorm] computes ... *)
Theorem C12_sdpfrag_parsed_norm : forall data f,
  SdpFrag.unmarshal data = SdpFrag.ROk f ->
  SdpFragRoundTrip.mds_norm (SdpFragRoundTrip.uf_of (SdpFrag.f_ufrag f)) 0 (SdpFrag.f_mds f).
Proof. exact SdpFragRoundTrip.unmarshal_norm. Qed.
Print Assumptions C12_sdpfrag_parsed_norm.

(* ... so a parsed fragment without session-level candidates, whose candidates
   carry the mid of their section, is read back unchanged. *)
Theorem C12_sdpfrag_roundtrip_exact : forall data f,
  SdpFrag.unmarshal data = SdpFrag.ROk f ->
  Forall (fun l => SdpFrag.zlen l + 1 < SdpFrag.max_token) (SdpFrag.marshal_lines f) ->
  SdpFrag.f_cands f = [] -> SdpFragRoundTrip.mids_consistent f ->
  SdpFrag.unmarshal (SdpFrag.marshal f) = SdpFrag.ROk f.
Proof. exact SdpFragRoundTrip.roundtrip_exact. Qed.
Print Assumptions C12_sdpfrag_roundtrip_exact.

(* UFragPwd (trickle or restart) does not see the difference. *)
Theorem C12_sdpfrag_roundtrip_ufrag_pwd : forall f,
  SdpFrag.ufrag_pwd (SdpFragRoundTrip.renorm f) = SdpFrag.ufrag_pwd f.
Proof. exact SdpFragRoundTrip.ufrag_pwd_renorm. Qed.
Print Assumptions C12_sdpfrag_roundtrip_ufrag_pwd.

(* None of the hypotheses can be dropped.  Full statement, refuted: *)
Definition C12_sdpfrag_roundtrip_full_statement : Prop :=
  forall data f, SdpFrag.unmarshal data = SdpFrag.ROk f ->
                 SdpFrag.unmarshal (SdpFrag.marshal f) = SdpFrag.ROk f.

Theorem C12_sdpfrag_roundtrip_refuted : ~ C12_sdpfrag_roundtrip_full_statement.
Proof. exact SdpFragRoundTrip.roundtrip_refuted. Qed.
Print Assumptions C12_sdpfrag_roundtrip_refuted.

(* the body "a=candidate:c": Marshal writes the session-level candidate as
   "a=c" (media sections: "a=candidate:c"), which Unmarshal ignores *)
Theorem C12_sdpfrag_roundtrip_session_refuted :
  SdpFrag.unmarshal SdpFragRoundTrip.w_session
    = SdpFrag.ROk (SdpFrag.mkFrag [] [] [SdpFrag.mkCand [99] None None None] []) /\
  SdpFrag.marshal (SdpFrag.mkFrag [] [] [SdpFrag.mkCand [99] None None None] []) = [97; 61; 99; 13; 10] /\
  SdpFrag.unmarshal [97; 61; 99; 13; 10] = SdpFrag.ROk SdpFrag.empty_frag.
Proof. exact SdpFragRoundTrip.roundtrip_session_refuted. Qed.
Print Assumptions C12_sdpfrag_roundtrip_session_refuted.

(* "a=candidate:ice-ufrag:x" comes back as the session ufrag "x";
   Unmarshal rejects what Marshal wrote for "a=candidate:mid:0" *)
Theorem C12_sdpfrag_roundtrip_session_reinterpreted :
  (exists f, SdpFrag.unmarshal SdpFragRoundTrip.w_inject = SdpFrag.ROk f /\ SdpFrag.f_ufrag f = [] /\
             SdpFrag.unmarshal (SdpFrag.marshal f) = SdpFrag.ROk (SdpFrag.mkFrag [120] [] [] [])) /\
  (exists f, SdpFrag.unmarshal SdpFragRoundTrip.w_reject = SdpFrag.ROk f /\
             SdpFrag.unmarshal (SdpFrag.marshal f) = SdpFrag.RErr).
Proof. exact SdpFragRoundTrip.roundtrip_session_reinterpreted. Qed.
Print Assumptions C12_sdpfrag_roundtrip_session_reinterpreted.

(* "m=x / a=candidate:c / a=mid:0": the candidate was recorded with the mid
   the section had when its line was read *)
Theorem C12_sdpfrag_roundtrip_mid_refuted :
  SdpFrag.unmarshal SdpFragRoundTrip.w_mid
    = SdpFrag.ROk (SdpFrag.mkFrag [] [] []
        [SdpFrag.mkMd [120] [48] [] [] [SdpFrag.mkCand [99] None (Some 0) (Some [])]]) /\
  (forall f, SdpFrag.unmarshal SdpFragRoundTrip.w_mid = SdpFrag.ROk f ->
     SdpFrag.unmarshal (SdpFrag.marshal f) =
     SdpFrag.ROk (SdpFrag.mkFrag [] [] []
        [SdpFrag.mkMd [120] [48] [] [] [SdpFrag.mkCand [99] None (Some 0) (Some [48])]])).
Proof. exact SdpFragRoundTrip.roundtrip_mid_refuted. Qed.
Print Assumptions C12_sdpfrag_roundtrip_mid_refuted.

(* a candidate line of 65535 bytes ended by a bare '\n' is parsed; written
   back with "\r\n" it no longer fits the scanner's buffer and is lost *)
Theorem C12_sdpfrag_roundtrip_long_refuted :
  match SdpFrag.unmarshal SdpFragRoundTrip.w_long with
  | SdpFrag.ROk f =>
      length (SdpFrag.all_candidates f) = 1%nat /\
      match SdpFrag.unmarshal (SdpFrag.marshal f) with
      | SdpFrag.ROk f' =>
          length (SdpFrag.all_candidates f') = 0%nat /\ length (SdpFrag.f_mds f') = 1%nat
      | _ => False
      end
  | _ => False
  end.
Proof. exact SdpFragRoundTrip.roundtrip_long_refuted. Qed.
Print Assumptions C12_sdpfrag_roundtrip_long_refuted.

(* AllCandidates of a parsed body (what the handler feeds to
   GotICECandidate): exactly the values of the "a=candidate:" lines among the
   lines the scanner delivers, in the order of the lines ... *)
Theorem C12_sdpfrag_all_candidates : forall data f,
  SdpFrag.unmarshal data = SdpFrag.ROk f ->
  map SdpFrag.cd_cand (SdpFrag.all_candidates f)
  = SdpFragRoundTrip.cand_values (SdpFrag.scan_lines data).
Proof. exact SdpFragRoundTrip.all_candidates_parsed. Qed.
Print Assumptions C12_sdpfrag_all_candidates.

(* ... the session-level ones being those of the lines before the first "m="
   line, the others those of the media sections in order. *)
Theorem C12_sdpfrag_all_candidates_levels : forall data f,
  SdpFrag.unmarshal data = SdpFrag.ROk f ->
  map SdpFrag.cd_cand (SdpFrag.f_cands f)
  = SdpFragRoundTrip.cand_values (SdpFragRoundTrip.before_m (SdpFrag.scan_lines data)) /\
  map SdpFrag.cd_cand (flat_map SdpFrag.md_cands (SdpFrag.f_mds f))
  = SdpFragRoundTrip.cand_values (SdpFragRoundTrip.from_m (SdpFrag.scan_lines data)).
Proof. exact SdpFragRoundTrip.all_candidates_levels. Qed.
Print Assumptions C12_sdpfrag_all_candidates_levels.

(* Non-vacuity: the fragment of C12_sdpfrag_example satisfies the hypotheses
   of C12_sdpfrag_roundtrip_exact; its Marshal, UFragPwd and AllCandidates. *)
Definition c12_frag : SdpFrag.frag :=
  SdpFrag.mkFrag [117] [] []
    [SdpFrag.mkMd [120] [48] [] [] [SdpFrag.mkCand [99] (Some [117]) (Some 0) (Some [48])]].

Example C12_sdpfrag_roundtrip_example :
  SdpFrag.marshal c12_frag =
    SdpFrag.p_ufrag ++ [117;13;10] ++ SdpFrag.p_m ++ [120;13;10] ++
    SdpFrag.p_mid ++ [48;13;10] ++ SdpFrag.p_cand ++ [99;13;10] /\
  SdpFrag.unmarshal (SdpFrag.marshal c12_frag) = SdpFrag.ROk c12_frag /\
  SdpFrag.ufrag_pwd c12_frag = ([117], []) /\
  map SdpFrag.cd_cand (SdpFrag.all_candidates c12_frag) = [[99]] /\
  SdpFrag.f_cands c12_frag = [] /\ SdpFragRoundTrip.mids_consistent c12_frag /\
  Forall (fun l => SdpFrag.zlen l + 1 < SdpFrag.max_token) (SdpFrag.marshal_lines c12_frag).
Proof.
  repeat split; try (vm_compute; reflexivity).
  - repeat constructor.
  - vm_compute. repeat constructor.
Qed.

(* C09  A token authorises only its own group scope, validity window and
   permissions.  Statements only; every proof is [exact lemma].
   Model: Model/Token.v (tied to token/stateful.go, token/jwt.go,
   token/token.go, group.GetPermission and webserver.checkGlobalAdminToken by
   the `token` correspondence driver).

   Every theorem is quantified over all strings, instants, key sets, claims
   and over the oracles [verify] (signature verification) and
   [valid_group_name]; nothing is assumed of the oracles. *)
From Coq Require Import ZArith List Bool String Ascii.
From Galene Require Import Model.Token.
From Galene Require Import Proofs.TokenScope Proofs.TokenAuth Proofs.TokenExamples.
Import ListNotations.
Open Scope string_scope.
Open Scope Z_scope.

(* ------------------------------------------------------------------ *)
(* scope                                                               *)

(* [covers tg sub g]:  g = tg \/ (sub /\ (tg = "" \/ exists rest, g = tg ++ "/" ++ rest)) *)

(* a stateful token for group tg authorises a (non-root) group g exactly when
   it names g, or covers subgroups and is the root token or g = tg/rest *)
Theorem C09_scope : forall t g, g <> "" ->
  (stateful_match t g = true <->
   g = st_group t \/
   (st_sub t = true /\ (st_group t = "" \/ exists rest, g = st_group t ++ "/" ++ rest))).
Proof. exact stateful_match_nonroot. Qed.
Print Assumptions C09_scope.

(* the direction that matters holds for every requested group, "" included *)
Theorem C09_scope_sound : forall t g,
  stateful_match t g = true -> covers (st_group t) (st_sub t) g.
Proof. exact stateful_match_sound. Qed.
Print Assumptions C09_scope_sound.

(* the root scope "" (asked for by the global-administrator check) is only
   authorised by a root token that covers subgroups ... *)
Theorem C09_scope_root : forall t,
  stateful_match t "" = true <-> st_sub t = true /\ st_group t = "".
Proof. exact stateful_match_root. Qed.
Print Assumptions C09_scope_root.

(* ... so the equivalence of C09_scope does not extend to g = "": a root
   token without the subgroup flag names "" and is refused (stricter than the
   property; witness in Proofs/TokenExamples.v) *)
Theorem C09_scope_iff_at_root_refuted :
  exists t g, covers (st_group t) (st_sub t) g /\ stateful_match t g = false.
Proof. exact scope_iff_fails_at_root. Qed.
Print Assumptions C09_scope_iff_at_root_refuted.

(* signed tokens: the audience path p authorises g exactly when it is
   /group/g/, or the token covers subgroups and p is /group/ or /group/tg/
   with g = tg/rest *)
Theorem C09_scope_jwt : forall p g incl,
  match_group p g incl = true <->
  p = "/group/" ++ g ++ "/" \/
  (incl = true /\ (p = "/group/" \/
                   exists tg rest, p = "/group/" ++ tg ++ "/" /\ g = tg ++ "/" ++ rest)).
Proof. exact match_group_spec. Qed.
Print Assumptions C09_scope_jwt.

Theorem C09_scope_jwt_named : forall tg g incl,
  match_group ("/group/" ++ tg ++ "/") g incl = true <->
  g = tg \/ (incl = true /\ exists rest, g = tg ++ "/" ++ rest).
Proof. exact match_group_named. Qed.
Print Assumptions C09_scope_jwt_named.

(* component form: matching is by whole path components (strings.Split on
   "/"): the components of the token group are those of g, or a proper list
   prefix of them when subgroups are covered *)
Theorem C09_scope_components : forall t g, g <> "" -> st_group t <> "" ->
  (stateful_match t g = true <->
   components g = components (st_group t) \/
   (st_sub t = true /\ exists l, l <> [] /\ components g = (components (st_group t) ++ l)%list)).
Proof. exact stateful_match_components. Qed.
Print Assumptions C09_scope_components.

Theorem C09_scope_jwt_components : forall tg g incl,
  match_group ("/group/" ++ tg ++ "/") g incl = true <->
  components g = components tg \/
  (incl = true /\ exists l, l <> [] /\ components g = (components tg ++ l)%list).
Proof. exact match_group_components. Qed.
Print Assumptions C09_scope_jwt_components.

(* "a" never covers "ab": a token for a single-component name never
   authorises another single-component name, with or without subgroups *)
Theorem C09_scope_whole_components : forall t y,
  components (st_group t) = [st_group t] -> components y = [y] ->
  st_group t <> "" -> y <> "" -> st_group t <> y ->
  stateful_match t y = false /\
  forall incl, match_group ("/group/" ++ st_group t ++ "/") y incl = false.
Proof. exact single_never_covers. Qed.
Print Assumptions C09_scope_whole_components.

(* ------------------------------------------------------------------ *)
(* validity window                                                     *)

(* Stateful.Check accepts exactly when the scope matches, the token HAS an
   expiry e with now <= e (now.After(e) rejects), and now is not before the
   not-before time (n <= now); it then returns the token's username and
   permissions *)
Theorem C09_window : forall now t g u p,
  stateful_check now t g = Accept u p <->
  stateful_match t g = true /\
  ((exists e, st_expires t = Some e /\ now <= e) /\
   (forall n, st_notbefore t = Some n -> n <= now)) /\
  u = match st_username t with Some x => x | None => "" end /\
  p = st_perms t.
Proof. exact stateful_check_accept. Qed.
Print Assumptions C09_window.

Theorem C09_no_expiry_never : forall now t g u p,
  st_expires t = None -> stateful_check now t g <> Accept u p.
Proof. exact stateful_no_expiry_never. Qed.
Print Assumptions C09_no_expiry_never.

(* ------------------------------------------------------------------ *)
(* signed tokens: key, algorithm, expiry                               *)

(* A signed token parses as valid only if the header names a registered
   algorithm alg, some CONFIGURED key declares exactly that algorithm (and
   the header's kid when there is one), that key parses -- so its key type
   is the one of the algorithm --, the signature verifies under that key with
   that algorithm, the token has an expiry e with now < e + 5 s, and nbf/iat
   (when present) are not more than 5 s in the future. *)
Theorem C09_jwt_key : forall (tokdata : Type) (verify : key -> string -> tokdata -> bool)
    now keys (j : jwt tokdata),
  jwt_parse tokdata verify now keys j = PValid ->
  exists alg k,
    h_alg (j_header tokdata j) = Some alg /\
    In alg jwt_methods /\
    In k keys /\ k_alg k = Some alg /\
    (h_kid (j_header tokdata j) <> "" -> k_kid k = Some (h_kid (j_header tokdata j))) /\
    parse_key k = true /\ key_alg_consistent k /\
    verify k alg (j_data tokdata j) = true /\
    ((exists e, c_exp (j_claims tokdata j) = NDate e /\ now < e + leeway) /\
     notbefore_holds now (c_nbf (j_claims tokdata j)) /\
     notbefore_holds now (c_iat (j_claims tokdata j))).
Proof. exact jwt_parse_valid. Qed.
Print Assumptions C09_jwt_key.

Theorem C09_jwt_none_rejected : forall (tokdata : Type) verify now keys (j : jwt tokdata),
  h_alg (j_header tokdata j) = Some "none" ->
  jwt_parse tokdata verify now keys j <> PValid.
Proof. exact jwt_none_rejected. Qed.
Print Assumptions C09_jwt_none_rejected.

Theorem C09_jwt_undeclared_alg_rejected : forall (tokdata : Type) verify now keys (j : jwt tokdata) alg,
  h_alg (j_header tokdata j) = Some alg ->
  (forall k, In k keys -> k_alg k <> Some alg) ->
  jwt_parse tokdata verify now keys j = PUnverifiable.
Proof. exact jwt_undeclared_alg_rejected. Qed.
Print Assumptions C09_jwt_undeclared_alg_rejected.

(* The literal window "only until its expiry time" is FALSE for signed
   tokens: parseJWT configures a 5 s leeway (jwt.WithLeeway), so a token is
   accepted up to 5 s after exp (witness: exp = 1000 s, now = 1003 s). *)
Theorem C09_window_jwt_strict_refuted :
  exists (verify : key -> string -> Z -> bool) now keys (j : jwt Z) e,
    jwt_parse Z verify now keys j = PValid /\
    c_exp (j_claims Z j) = NDate e /\ e < now.
Proof. exact jwt_strict_window_fails. Qed.
Print Assumptions C09_window_jwt_strict_refuted.

(* ------------------------------------------------------------------ *)
(* audience                                                            *)

(* JWT.Check accepts exactly when some audience entry parses as a URL, its
   host equals the canonical host up to ASCII case when one is configured,
   and its path covers the requested group (C09_scope_jwt); the username and
   permissions returned are the sub and permissions claims *)
Theorem C09_audience : forall host group c u p,
  jwt_check host group c = Accept u p <->
  c_sub_ok c = true /\ c_aud_ok c = true /\
  (exists a, In a (c_aud c) /\
     au_ok a = true /\
     (host <> "" -> lower (au_host a) = lower host) /\
     covers_path (au_path a) (c_incl c) group) /\
  c_perms_ok c = true /\ u = c_sub c /\ p = c_perms c.
Proof. exact jwt_check_accept. Qed.
Print Assumptions C09_audience.

(* ------------------------------------------------------------------ *)
(* permissions and username                                            *)

(* GetPermission with a token grants exactly the token's permissions; the
   username is the token's when it has one (overriding the client's), and
   otherwise the client's, which is then not a configured user *)
Theorem C09_exact_perms_username : forall (tokdata : Type) verify valid_group_name
    now host keys users group (ct : cred_token tokdata) cu u p,
  get_permission tokdata verify valid_group_name now host keys users group ct cu = GPOk u p ->
  exists tok,
    parse_token tokdata verify now keys ct = Some tok /\
    token_check tokdata now host group tok =
      Accept (token_user tokdata tok) (token_perms tokdata tok) /\
    p = token_perms tokdata tok /\
    ((token_user tokdata tok <> "" /\ u = token_user tokdata tok) \/
     (token_user tokdata tok = "" /\
      ((cu = Some u /\ ~ In u users) \/ (cu = None /\ u = "")))) /\
    valid_username valid_group_name u = true.
Proof. exact get_permission_ok. Qed.
Print Assumptions C09_exact_perms_username.

(* a client-chosen username never shadows a configured user: if the client
   asks for the name of a configured user, either it is refused or that name
   is the one written in the token *)
Theorem C09_no_shadow : forall (tokdata : Type) verify valid_group_name
    now host keys users group (ct : cred_token tokdata) c u p,
  In c users ->
  get_permission tokdata verify valid_group_name now host keys users group ct (Some c) = GPOk u p ->
  exists tok, parse_token tokdata verify now keys ct = Some tok /\
              token_user tokdata tok <> "" /\ u = token_user tokdata tok.
Proof. exact get_permission_no_shadow. Qed.
Print Assumptions C09_no_shadow.

Theorem C09_shadow_refused : forall (tokdata : Type) verify valid_group_name
    now host keys users group (ct : cred_token tokdata) c tok p,
  parse_token tokdata verify now keys ct = Some tok ->
  token_check tokdata now host group tok = Accept "" p ->
  In c users ->
  get_permission tokdata verify valid_group_name now host keys users group ct (Some c) = GPDuplicate.
Proof. exact get_permission_shadow. Qed.
Print Assumptions C09_shadow_refused.

(* ------------------------------------------------------------------ *)
(* global administrator                                                *)

(* a bearer token is a global administrator exactly when it is a stored
   (stateful) token for the root scope that covers subgroups, is within its
   window and carries "admin"; no signed token ever is (no keys are
   consulted) *)
Theorem C09_global_admin : forall (tokdata : Type) verify now host (ct : cred_token tokdata),
  check_global_admin tokdata verify now host ct = true <->
  exists s, ct = COpaque tokdata (Some s) /\
            st_group s = "" /\ st_sub s = true /\
            ((exists e, st_expires s = Some e /\ now <= e) /\
             (forall n, st_notbefore s = Some n -> n <= now)) /\
            In "admin" (st_perms s).
Proof. exact check_global_admin_spec. Qed.
Print Assumptions C09_global_admin.

(* ------------------------------------------------------------------ *)
(* non-vacuity                                                         *)

(* scope: "a/b" with subgroups covers a/b and a/b/c, not a/bc, not a; "a"
   never covers "ab"; the hypotheses of C09_scope_whole_components hold for
   "a" and "ab" *)
Example C09_example_scope :
  let t := mkStateful "a/b" true None [] (Some 0) None in
  let a := mkStateful "a" true None [] (Some 0) None in
  stateful_match t "a/b" = true /\ stateful_match t "a/b/c" = true /\
  stateful_match t "a/bc" = false /\ stateful_match t "a" = false /\
  stateful_match a "ab" = false /\ stateful_match a "a/b" = true /\
  match_group "/group/a/" "ab" true = false /\ match_group "/group/a/" "a/b" true = true /\
  match_group "/group/a/" "a/b" false = false /\ match_group "/group/" "x/y" true = true /\
  components "a" = ["a"] /\ components "ab" = ["ab"] /\ components "a/b" = ["a"; "b"] /\
  stateful_match (mkStateful "" true None [] (Some 0) None) "" = true.
Proof. vm_compute. repeat split; reflexivity. Qed.

(* window: expiry 100, not-before 50: accepted at 50 and at 100, refused at
   49 and at 101; without expiry refused *)
Example C09_example_window :
  let t := mkStateful "g" false (Some "u") ["present"] (Some 100) (Some 50) in
  stateful_check 50 t "g" = Accept "u" ["present"] /\
  stateful_check 100 t "g" = Accept "u" ["present"] /\
  stateful_check 49 t "g" = Reject RFuture /\
  stateful_check 101 t "g" = Reject RExpired /\
  stateful_check 60 (mkStateful "g" false None [] None None) "g" = Reject RExpired.
Proof. vm_compute. repeat split; reflexivity. Qed.

(* keys: [HS256 key with kid k1; RS256 key]; a token signed with key 0 and
   header HS256 (with and without kid) is valid; the same signature under
   header HS384, RS256, none, or with another kid, or with an expiry more
   than 5 s ago, or without expiry, is not *)
Example C09_example_jwt_key :
  let keys := [ex_key; ex_rsa] in
  let far := NDate (2000 * 1000000000) in
  let now := 1000 * 1000000000 in
  jwt_parse Z ex_verify now keys (ex_jwt "HS256" "k1" far) = PValid /\
  jwt_parse Z ex_verify now keys (ex_jwt "HS256" "" far) = PValid /\
  jwt_parse Z ex_verify now keys (ex_jwt "HS384" "" far) = PUnverifiable /\
  jwt_parse Z ex_verify now keys (ex_jwt "RS256" "" far) = PSignature /\
  jwt_parse Z ex_verify now keys (ex_jwt "none" "" far) = PUnverifiable /\
  jwt_parse Z ex_verify now keys (ex_jwt "HS256" "k2" far) = PUnverifiable /\
  jwt_parse Z ex_verify now keys (ex_jwt "HS256" "" (NDate (now - 6 * 1000000000))) = PClaims /\
  jwt_parse Z ex_verify now keys (ex_jwt "HS256" "" (NDate (now - 3 * 1000000000))) = PValid /\
  jwt_parse Z ex_verify now keys (ex_jwt "HS256" "" NAbsent) = PClaims.
Proof. vm_compute. repeat split; reflexivity. Qed.

(* audience: host compared without case, group by whole components *)
Example C09_example_audience :
  let c := ex_claims NAbsent in
  jwt_check "Galene.org:8443" "a" c = Accept "john" ["present"] /\
  jwt_check "" "a" c = Accept "john" ["present"] /\
  jwt_check "galene.org" "a" c = Reject RBadGroup /\
  jwt_check "galene.org:8443" "ab" c = Reject RBadGroup /\
  jwt_check "galene.org:8443" "a/b" c = Reject RBadGroup.
Proof. vm_compute. repeat split; reflexivity. Qed.

(* username rules: users = [alice]; a token without username lets the client
   choose "bob" but not "alice"; a token for "carol" overrides; a stateful
   token without username needs one *)
Example C09_example_username :
  let vg := fun _ : string => true in
  let tok u := COpaque Z (Some (mkStateful "g" false u ["present"] (Some 100) None)) in
  get_permission Z ex_verify vg 10 "" [] ["alice"] "g" (tok None) (Some "bob") = GPOk "bob" ["present"] /\
  get_permission Z ex_verify vg 10 "" [] ["alice"] "g" (tok None) (Some "alice") = GPDuplicate /\
  get_permission Z ex_verify vg 10 "" [] ["alice"] "g" (tok (Some "carol")) (Some "alice") = GPOk "carol" ["present"] /\
  get_permission Z ex_verify vg 10 "" [] ["alice"] "g" (tok (Some "alice")) (Some "bob") = GPOk "alice" ["present"] /\
  get_permission Z ex_verify vg 10 "" [] ["alice"] "g" (tok None) None = GPUsernameRequired /\
  get_permission Z ex_verify vg 10 "" [] ["alice"] "h" (tok None) (Some "bob") = GPNotAuthorised.
Proof. vm_compute. repeat split; reflexivity. Qed.

(* global administrator *)
Example C09_example_global_admin :
  let tok g sub p := COpaque Z (Some (mkStateful g sub None p (Some 100) None)) in
  check_global_admin Z ex_verify 10 "" (tok "" true ["admin"]) = true /\
  check_global_admin Z ex_verify 10 "" (tok "" false ["admin"]) = false /\
  check_global_admin Z ex_verify 10 "" (tok "a" true ["admin"]) = false /\
  check_global_admin Z ex_verify 10 "" (tok "" true ["op"]) = false /\
  check_global_admin Z ex_verify 101 "" (tok "" true ["admin"]) = false /\
  check_global_admin Z ex_verify 10 "" (CJWT Z (ex_jwt "HS256" "" (NDate 100000000000))) = false.
Proof. vm_compute. repeat split; reflexivity. Qed.

(* C15: "Every chat or user message a client receives carries as source and
   username either the true id and username of the member that sent it or
   nothing, is marked privileged exactly when the sender was an operator at
   that time, and is delivered to exactly the named destination or, if
   broadcast, to every member (minus the sender when it asked for no echo); a
   message claiming another client's id or name is rejected and closes the
   offending connection.  Broadcast chat is replayed in order to later joiners
   from a history that never exceeds 50 entries nor the configured age, from
   which operators can remove one message, one user's messages, or
   everything."

   PART 1 (group-level history, 14 theorems).  Model: Model/History.v, tied to
   group/group.go and group/description.go by the `history` correspondence
   driver and Generated/HistoryConsts.v.  Histories are ARBITRARY lists of
   operations (add / get / clear in every mode / description change / join)
   from an empty history, with arbitrary times, ids, sources and configured
   ages; no well-formedness hypothesis.  Proofs: Proofs/History.v.

   PART 2 (message level, below).  Model: Model/Signal.v (handleClientMessage,
   handleAction, the end of a connection), tied to rtpconn/webclient.go by the
   `chat` and `sig` correspondence drivers and Generated/Guards.v.  Statements
   are over ALL operation sequences of the scheduler model ([reach ops w]).
   Proofs: Proofs/SignalChat*.v.

   Statements only; every proof is [exact lemma]. *)
From Coq Require Import ZArith List Bool Sorted.
From Galene Require Import Generated.HistoryConsts Model.History Proofs.History.
Import ListNotations.
Open Scope Z_scope.

(* The stored history, every list GetChatHistory returns and every replay
   sent to a joiner have at most 50 entries, after every operation sequence. *)
Theorem C15_history_bound : forall n ops,
  zlen (st_hist (run (init n) ops)) <= 50 /\
  forall o, match snd (step (run (init n) ops) o) with
            | RHist h => zlen h <= 50
            | RMsgs l => zlen l <= 50
            | RUnit | RPanic => True
            end.
Proof. exact history_bound_50. Qed.
Print Assumptions C15_history_bound.

(* AddToChatHistory never panics *)
Theorem C15_history_no_panic : forall n ops o,
  snd (step (run (init n) ops) o) <> RPanic.
Proof. exact history_no_panic. Qed.
Print Assumptions C15_history_no_panic.

(* The history is an in-order subsequence of the entries added, in arrival
   order: nothing is reordered, duplicated or invented. *)
Theorem C15_history_fifo : forall n ops,
  Subseq (st_hist (run (init n) ops)) (added ops).
Proof. exact history_fifo. Qed.
Print Assumptions C15_history_fifo.

(* An add to a full history evicts exactly the head -- the entry that
   arrived first among those present -- and appends the new one; an add to a
   non-full history evicts nothing. *)
Theorem C15_history_evicts_oldest : forall n ops e,
  let h := st_hist (run (init n) ops) in
  st_hist (run (init n) (ops ++ [OAdd e])) =
  if zlen h <? maxChatHistory then h ++ [e] else tl h ++ [e].
Proof. exact history_fifo_evicts_oldest. Qed.
Print Assumptions C15_history_evicts_oldest.

(* With adds only the history is exactly the last maxChatHistory entries. *)
Theorem C15_history_last_50 : forall n ops, Forall is_add ops ->
  st_hist (run (init n) ops) = lastn (Z.to_nat maxChatHistory) (added ops).
Proof. exact history_fifo_adds_only. Qed.
Print Assumptions C15_history_last_50.

(* Age.  For additions whose times are in arrival order, GetChatHistory at
   clock reading [now] returns no entry e with time.Since(e.Time) greater
   than the age in force (description field * 1 s, 4 h when 0); an entry of
   exactly that age is still returned. *)
Theorem C15_history_age : forall n ops now h,
  time_ordered (added ops) ->
  snd (step (run (init n) ops) (OGet now)) = RHist h ->
  forall e, In e h ->
  since now (e_time e) <= max_history_age (st_age (run (init n) ops)).
Proof. exact history_age. Qed.
Print Assumptions C15_history_age.

(* Times out of order by at most d (two clients read the clock, then take
   the group lock in the other order): at most age + d. *)
Theorem C15_history_age_skew : forall d n ops now h,
  0 <= d -> ordered_within d (added ops) ->
  snd (step (run (init n) ops) (OGet now)) = RHist h ->
  forall e, In e h ->
  since now (e_time e) <= max_history_age (st_age (run (init n) ops)) + d.
Proof. exact history_age_skew. Qed.
Print Assumptions C15_history_age_skew.

(* No assumption on times: exactly the maximal obsolete prefix is dropped;
   the first returned entry is never obsolete. *)
Theorem C15_history_age_any_times : forall s now h,
  snd (step s (OGet now)) = RHist h ->
  let dur := max_history_age (st_age s) in
  exists dropped, st_hist s = dropped ++ h /\
    Forall (fun e => dur < since now (e_time e)) dropped /\
    match h with [] => True | e :: _ => since now (e_time e) <= dur end.
Proof. exact history_age_any_times. Qed.
Print Assumptions C15_history_age_any_times.

(* the configured number is seconds; a positive configuration is never
   exceeded by the effective age *)
Theorem C15_history_age_configured : forall n,
  0 < n -> max_history_age n <= n * 1000000000.
Proof. exact max_history_age_le_configured. Qed.
Print Assumptions C15_history_age_configured.

Theorem C15_history_clear_all : forall h, clear_history [] [] h = [].
Proof. exact history_clear_all. Qed.
Print Assumptions C15_history_clear_all.

Theorem C15_history_clear_user : forall uid h, uid <> [] ->
  clear_history [] uid h = filter (fun e => negb (from_user uid e)) h.
Proof. exact history_clear_user. Qed.
Print Assumptions C15_history_clear_user.

Theorem C15_history_clear_one : forall id uid h, id <> [] ->
  clear_history id uid h = filter (fun e => negb (is_message id uid e)) h.
Proof. exact history_clear_one. Qed.
Print Assumptions C15_history_clear_one.

(* cleared entries never come back *)
Theorem C15_history_clear_persistent : forall n ops1 id uid ops2,
  Subseq (st_hist (run (init n) (ops1 ++ OClear id uid :: ops2)))
         (clear_history id uid (st_hist (run (init n) ops1)) ++ added ops2).
Proof. exact history_clear_persistent. Qed.
Print Assumptions C15_history_clear_persistent.

(* a joiner is sent exactly GetChatHistory, in order, field by field *)
Theorem C15_history_replay_in_order : forall s now,
  exists h,
    snd (step s (OGet now)) = RHist h /\
    snd (step s (OJoin now)) = RMsgs (map chathistory_msg h) /\
    fst (step s (OJoin now)) = fst (step s (OGet now)).
Proof. exact history_replay_in_order. Qed.
Print Assumptions C15_history_replay_in_order.

(* ---- non-vacuity ---- *)

(* 53 adds: the three oldest are evicted, the order is kept *)
Example C15_history_example_eviction :
  Forall is_add (ex_adds 53) /\
  map e_id (st_hist (run (init 0) (ex_adds 53))) =
    map (fun i => [Z.of_nat i]) (seq 3 50) /\
  zlen (st_hist (run (init 0) (ex_adds 49))) = 49 /\
  zlen (st_hist (run (init 0) (ex_adds 50))) = 50 /\
  zlen (st_hist (run (init 0) (ex_adds 51))) = 50.
Proof.
  split; [|vm_compute; repeat split; reflexivity].
  unfold ex_adds. apply Forall_forall. intros o Ho.
  apply in_map_iff in Ho. destruct Ho as (i & <- & _). exact I.
Qed.

(* age: the hypotheses of C15_history_age hold for a history in which the
   age (2 h, configured after the adds) actually cuts: at 3 h 30 the entries
   of 0 h and 1 h are gone, the one of 3 h is returned; an entry exactly 2 h
   old is returned, one nanosecond older is not *)
Example C15_history_example_age :
  let ops := [OAdd (ex_entry 0 [97] 0); OAdd (ex_entry 1 [98] hour);
              OAdd (ex_entry 2 [97] (3 * hour)); OSetAge 7200] in
  time_ordered (added ops) /\
  snd (step (run (init 0) ops) (OGet (3 * hour + hour / 2)))
    = RHist [ex_entry 2 [97] (3 * hour)] /\
  snd (step (run (init 0) ops) (OGet (3 * hour))) =
    RHist [ex_entry 1 [98] hour; ex_entry 2 [97] (3 * hour)] /\
  snd (step (run (init 0) ops) (OGet (3 * hour + 1))) =
    RHist [ex_entry 2 [97] (3 * hour)].
Proof.
  cbv zeta. split; [|vm_compute; repeat split; reflexivity].
  unfold time_ordered. cbn [added].
  repeat (constructor; [|repeat (constructor; [vm_compute; discriminate|]); constructor]).
  constructor.
Qed.

(* the time-order hypothesis is necessary: behind a fresh entry an obsolete
   one (3 h 30 old under a 2 h limit) is kept and returned *)
Example C15_history_example_out_of_order :
  let old := ex_entry 1 [98] 0 in
  let ops := [OSetAge 7200; OAdd (ex_entry 0 [97] (3 * hour)); OAdd old] in
  let now := 3 * hour + hour / 2 in
  snd (step (run (init 0) ops) (OGet now)) = RHist [ex_entry 0 [97] (3 * hour); old] /\
  max_history_age 7200 < since now (e_time old).
Proof. vm_compute. split; reflexivity. Qed.

(* the three clear modes on a history with a duplicated id and the same id
   from two users *)
Example C15_history_example_clear :
  let a1 := ex_entry 1 [97] 10 in let b1 := ex_entry 1 [98] 20 in
  let a1' := ex_entry 1 [97] 30 in let a2 := ex_entry 2 [97] 40 in
  let anon := ex_entry 1 [] 50 in
  let ops := [OAdd a1; OAdd b1; OAdd a1'; OAdd a2; OAdd anon] in
  let h := st_hist (run (init 0) ops) in
  clear_history [1] [97] h = [b1; a2; anon] /\
  clear_history [] [97] h = [b1; anon] /\
  clear_history [7] [97] h = h /\
  clear_history [1] [] h = [a1; b1; a1'; a2] /\
  clearchat_accepted [1] [] = false /\
  clear_history [] [] h = [].
Proof. vm_compute. repeat split; reflexivity. Qed.

(* the description field is an unvalidated int: a value beyond 292 years
   wraps (here to 0.29 s), a negative one makes every past entry obsolete *)
Example C15_history_example_age_wrap :
  max_history_age 18446744074 = 290448384 /\
  max_history_age (-1) = -1000000000 /\
  max_history_age 0 = defaultMaxHistoryAge /\
  max_history_age 3600 = hour.
Proof. vm_compute. repeat split; reflexivity. Qed.


(* ====================================================================== *)
(* PART 2: message level (Model/Signal.v)                                  *)
(* ====================================================================== *)
From Coq Require Import String Arith.
From Galene Require Import Generated.Guards Model.Signal Proofs.SignalFrame
  Proofs.SignalChatFrame Proofs.SignalChatInv Proofs.SignalChat Proofs.SignalChatMain
  Proofs.SignalChatHist Proofs.SignalChatEx.
Module H := Galene.Model.History.
Open Scope string_scope.
Open Scope list_scope.
Open Scope nat_scope.

(* Vocabulary (definitions in Proofs/SignalChat*.v):
     reach ops w        run_ops empty_world ops = Some w
     out_of w i         the outbox of connection i; hist_of w g the history of group g
     sent_in ops P      ops = ops1 ++ OpMsg h m :: ops2, the prefix ops1 reaches w1, connection
                        h is open there with record c, and P w1 h c m
     authentic_fields c m   (m.source = "" or c's id) and (m.username absent or c's username)
     chat_out c m       the forwarded message: type, kind, source, dest, username, value of m
                        verbatim, id = m's or fresh, privileged = c holds op
     forwarded x        x = chat_out c m for a chat/usermessage m with authentic fields of a
                        member c holding the permission chat_perm m
     stored g e         e = chat_entry m for a BROADCAST message m of type chat with authentic
                        fields of a member c of g holding the permission
     server_msg x       x is one of the server's own messages (enumerated in
                        C15_server_messages_privileged)
     delivers w w' L    w' is w with L i appended to the outbox of every connection i *)

(* ---- authenticity ---- *)

Theorem C15_authentic : forall ops w i x,
  reach ops w -> In x (out_of w i) -> is_chatlike x = true ->
  server_msg x = true \/
  sent_in ops (forwarded x) \/
  (exists g e, sent_in ops (stored g e) /\ x = out_chathistory e).
Proof. exact authentic. Qed.
Print Assumptions C15_authentic.

(* the reading of the property text *)
Theorem C15_authentic_source_username : forall ops w i x,
  reach ops w -> In x (out_of w i) -> is_chatlike x = true -> server_msg x = false ->
  exists ops1 h m ops2 w1 c,
    ops = ops1 ++ OpMsg h m :: ops2 /\ reach ops1 w1 /\
    get_client w1 h = Some c /\ c_closed c = false /\ c_group c <> None /\
    (o_source x = "" \/ o_source x = c_id c) /\
    (o_user x = None \/ o_user x = Some (c_username c)) /\
    o_kind x = m_kind m /\ o_value x = value_text (m_value m).
Proof. exact authentic_source_username. Qed.
Print Assumptions C15_authentic_source_username.

(* ---- the privileged flag ---- *)

Theorem C15_privileged_iff_op : forall ops w i x,
  reach ops w -> In x (out_of w i) ->
  (o_type x = "chat" \/ o_type x = "usermessage") -> server_msg x = false ->
  exists ops1 h m ops2 w1 c,
    ops = ops1 ++ OpMsg h m :: ops2 /\ reach ops1 w1 /\
    get_client w1 h = Some c /\ c_closed c = false /\
    x = chat_out c m /\ o_priv x = mem "op" (c_perms c).
Proof. exact privileged_iff_op. Qed.
Print Assumptions C15_privileged_iff_op.

(* every field of a relayed message that is not copied from the sender's
   message is the server's.  The model's message record has no privileged /
   time / permissions / status / error field at all: a client's claims there
   cannot reach any step (the `chat` driver sends them, untraced) *)
Theorem C15_relayed_fields : forall c m,
  let x := chat_out c m in
  o_priv x = mem "op" (c_perms c) /\
  o_perms x = [] /\ o_group x = "" /\ o_error x = "" /\ o_locked x = false /\
  o_id x = (if String.eqb (m_type m) "chat" && Signal.is_empty (m_dest m) && Signal.is_empty (m_id m)
            then "?" else m_id m) /\
  o_type x = m_type m /\ o_kind x = m_kind m /\ o_source x = m_source m /\
  o_dest x = m_dest m /\ o_user x = m_username m /\ o_value x = value_text (m_value m).
Proof. exact relayed_fields. Qed.
Print Assumptions C15_relayed_fields.

Theorem C15_privileged_independent_of_message : forall c m m',
  o_priv (chat_out c m) = o_priv (chat_out c m').
Proof. exact privileged_independent_of_message. Qed.
Print Assumptions C15_privileged_independent_of_message.

(* the server's own messages: no source; its usermessages (error, kicked,
   warning, userinfo, token, tokenlist, clearchat) are privileged by
   construction; its only chat message (the subgroup listing sent to the
   operator who asked, username "Server") is not *)
Theorem C15_server_messages_privileged : forall x, server_msg x = true ->
  o_source x = "" /\
  ((o_type x = "usermessage" /\ o_priv x = true /\
    In (o_kind x) ["error"; "kicked"; "warning"; "userinfo"; "token"; "tokenlist"; "clearchat"]) \/
   (o_type x = "chat" /\ o_priv x = false /\ o_user x = Some "Server")).
Proof. exact server_privileged. Qed.
Print Assumptions C15_server_messages_privileged.

(* REFUTED for replayed messages: the operator's broadcast is privileged when
   delivered live and not privileged when replayed to a later joiner (the
   stored entry has no such field); witness replayed on the implementation by
   the `chat` driver (corpus history replay-not-privileged) *)
Theorem C15_privileged_replay_refuted :
  exists ops w live e,
    reach ops w /\
    sent_in ops (stored "g" e) /\
    sent_in ops (forwarded live) /\
    o_id live = h_id e /\ o_source live = h_source e /\ o_value live = h_value e /\
    o_priv live = true /\
    In (out_chathistory e) (out_of w 4) /\ o_priv (out_chathistory e) = false.
Proof. exact privileged_replay_refuted. Qed.
Print Assumptions C15_privileged_replay_refuted.

(* ---- addressing ---- *)

Theorem C15_addressing : forall ops w h c g m,
  reach ops w -> get_client w h = Some c -> c_closed c = false ->
  chat_type m -> authentic_fields c m ->
  c_group c = Some g -> mem (chat_perm m) (c_perms c) = true ->
  exists w', Signal.step w (OpMsg h m) = Running w' (RAuth Passed ENone) /\
    delivers w w' (chat_targets w h c g m) /\
    (forall g', hist_of w' g' =
       if stores m && String.eqb g' g then hist_add (hist_of w g') (chat_entry m) else hist_of w g') /\
    (forall g', members w' g' = members w g').
Proof. exact addressing. Qed.
Print Assumptions C15_addressing.

(* broadcast: every connection whose group is the sender's, minus the sender
   iff noecho; nobody else *)
Theorem C15_addressing_broadcast : forall w h c g m i, m_dest m = "" ->
  chat_targets w h c g m i =
  if member_of w i g && negb (m_noecho m && Nat.eqb i h) then [chat_out c m] else [].
Proof. exact targets_broadcast. Qed.
Print Assumptions C15_addressing_broadcast.

Theorem C15_member_of : forall w i g,
  member_of w i g = true <-> exists ci, get_client w i = Some ci /\ c_group ci = Some g.
Proof. exact member_of_spec. Qed.
Print Assumptions C15_member_of.

(* directed: THE member of the sender's group with that id and nobody else,
   or "user unknown" to the sender alone when the sender's group has no such
   member (a member of another group is not found) *)
Theorem C15_addressing_directed : forall ops w h c g m,
  reach ops w -> m_dest m <> "" ->
  (exists j cj, get_client w j = Some cj /\ c_group cj = Some g /\ c_id cj = m_dest m /\
     (forall j' cj', get_client w j' = Some cj' -> c_group cj' = Some g ->
                     c_id cj' = m_dest m -> j' = j) /\
     forall i, chat_targets w h c g m i = if Nat.eqb i j then [chat_out c m] else []) \/
  ((forall j cj, get_client w j = Some cj -> c_group cj = Some g -> c_id cj <> m_dest m) /\
   forall i, chat_targets w h c g m i =
             if Nat.eqb i h then [out_error (c_id c) "user unknown"] else []).
Proof. exact targets_directed. Qed.
Print Assumptions C15_addressing_directed.

(* ---- spoofing ---- *)

Theorem C15_spoof_closes : forall ops w h c m,
  reach ops w -> get_client w h = Some c -> c_closed c = false ->
  ((m_source m <> "" /\ m_source m <> c_id c) \/
   (m_type m <> "join" /\ exists u, m_username m = Some u /\ u <> c_username c)) ->
  exists s, (s = "spoofed client id" \/ s = "spoofed username") /\
  let w' := error_close w h (EProto s) in
  Signal.step w (OpMsg h m) = Running w' (RAuth Invalid (EProto s)) /\
  (exists c', get_client w' h = Some c' /\ c_closed c' = true /\ c_group c' = None /\
              c_out c' = c_out c ++ [out_error (c_id c) s; close_msg "protocol"]) /\
  (forall i, i <> h -> out_of w' i = out_of w i) /\
  (forall g, hist_of w' g = hist_of w g) /\
  (forall g, ~ In h (members w' g)) /\
  (forall m', Signal.step w' (OpMsg h m') = Running w' RDead).
Proof. exact spoof_closes_reach. Qed.
Print Assumptions C15_spoof_closes.

(* ---- permissions ---- *)

Theorem C15_needs_message : forall ops w h c m,
  reach ops w -> get_client w h = Some c -> c_closed c = false ->
  chat_type m -> authentic_fields c m ->
  (c_group c = None \/ mem (chat_perm m) (c_perms c) = false) ->
  exists v a, (c_group c = None /\ v = "join a group first" /\ a = JoinFirst \/
               c_group c <> None /\ v = "not authorised" /\ a = NotAuth) /\
  let w' := send_error w h c v in
  Signal.step w (OpMsg h m) = Running w' (RAuth a ENone) /\
  delivers w w' (fun i => if Nat.eqb i h then [out_error (c_id c) v] else []) /\
  w_groups w' = w_groups w.
Proof. exact needs_message. Qed.
Print Assumptions C15_needs_message.

(* chat_perm is what the generated guard table of handleClientMessage says *)
Theorem C15_permission_table : forall c m, chat_type m ->
  has_perms c (m_type m) (m_kind m) =
  mem (if String.eqb (m_type m) "chat" && String.eqb (m_kind m) "caption"
       then "caption" else "message") (c_perms c).
Proof. exact has_perms_chat_type. Qed.
Print Assumptions C15_permission_table.

(* ---- what is stored ---- *)

Theorem C15_history_only_broadcast_chat : forall ops w g e,
  reach ops w -> In e (hist_of w g) -> sent_in ops (stored g e).
Proof. exact history_only_broadcast_chat. Qed.
Print Assumptions C15_history_only_broadcast_chat.

(* every operation leaves every history as it was, or appends (through
   AddToChatHistory) the broadcast chat it just read, or applies
   ClearChatHistory *)
Theorem C15_history_steps : forall ops w o w' r,
  reach ops w -> Signal.step w o = Running w' r -> hist_step (StepH w o) w w'.
Proof. exact history_steps. Qed.
Print Assumptions C15_history_steps.

Theorem C15_stores_iff : forall m, stores m = true <-> m_type m = "chat" /\ m_dest m = "".
Proof. exact stores_spec. Qed.
Print Assumptions C15_stores_iff.

Theorem C15_stored_id : forall m, stores m = true ->
  h_id (chat_entry m) = if Signal.is_empty (m_id m) then "?" else m_id m.
Proof. exact chat_entry_id. Qed.
Print Assumptions C15_stored_id.

(* ---- clearchat ---- *)

Theorem C15_clearchat : forall ops w h c g m,
  reach ops w -> get_client w h = Some c -> c_closed c = false ->
  m_type m = "groupaction" -> m_kind m = "clearchat" -> authentic_fields c m ->
  c_group c = Some g ->
  (mem "op" (c_perms c) = false ->
     let w' := send_error w h c "not authorised" in
     Signal.step w (OpMsg h m) = Running w' (RAuth NotAuth ENone) /\
     delivers w w' (fun i => if Nat.eqb i h then [out_error (c_id c) "not authorised"] else []) /\
     w_groups w' = w_groups w) /\
  (mem "op" (c_perms c) = true ->
     match clearchat_args (m_value m) with
     | None =>
         let w' := send_error w h c "bad value in clearchat" in
         Signal.step w (OpMsg h m) = Running w' (RAuth Passed ENone) /\
         delivers w w' (fun i => if Nat.eqb i h then [out_error (c_id c) "bad value in clearchat"] else []) /\
         w_groups w' = w_groups w
     | Some (id, uid) =>
         exists w', Signal.step w (OpMsg h m) = Running w' (RAuth Passed ENone) /\
           (forall g', hist_of w' g' =
              if String.eqb g' g then hist_clear (hist_of w g') id uid else hist_of w g') /\
           (forall g', members w' g' = members w g') /\
           delivers w w' (fun i => if member_of w i g then [clearchat_msg (m_value m)] else [])
     end).
Proof. exact clearchat. Qed.
Print Assumptions C15_clearchat.

Theorem C15_clearchat_args :
  clearchat_args VNone = Some ("", "") /\
  (forall l, clearchat_args (VMap l) =
     if Signal.is_empty (map_get l "userId") && negb (Signal.is_empty (map_get l "id")) then None
     else Some (map_get l "id", map_get l "userId")) /\
  (forall s, clearchat_args (VStr s) = None) /\ clearchat_args VOther = None /\
  (forall t, clearchat_args (VTok t) = None).
Proof. exact clearchat_args_spec. Qed.
Print Assumptions C15_clearchat_args.

(* ---- replay on join ---- *)

Theorem C15_join_queues_replay : forall ops w h c m w' r c' g,
  reach ops w -> get_client w h = Some c -> c_closed c = false -> c_group c = None ->
  m_type m = "join" ->
  Signal.step w (OpMsg h m) = Running w' r -> get_client w' h = Some c' -> c_group c' = Some g ->
  g = m_group m /\
  exists rest, queue_of w' h = queue_of w h ++ AJoined g "join" :: rest /\ Forall is_push rest.
Proof. exact join_queues_replay. Qed.
Print Assumptions C15_join_queues_replay.

Theorem C15_replay_on_join : forall w h c g gr,
  g <> "" -> find_group w g = Some gr ->
  exists w', handle_action w h c (AJoined g "join") = Signal.Ok (mkRes w' ENone Passed) /\
    delivers w w' (fun i => if Nat.eqb i h
       then out_joined "join" g (c_username c) (c_perms c) "" ""
                       (match g_locked gr with Some _ => true | None => false end)
            :: map out_chathistory (hist_of w g)
       else []) /\
    w_groups w' = w_groups w.
Proof. exact replay_on_join. Qed.
Print Assumptions C15_replay_on_join.

Theorem C15_chathistory_fields : forall e,
  let x := out_chathistory e in
  o_type x = "chathistory" /\ o_id x = h_id e /\ o_source x = h_source e /\
  o_user x = h_user e /\ o_kind x = h_kind e /\ o_value x = h_value e /\
  o_dest x = "" /\ o_priv x = false.
Proof. exact out_chathistory_fields. Qed.
Print Assumptions C15_chathistory_fields.

(* ---- the one server message that carries a member's id and name ---- *)

(* a kick queues the kicker's claimed source and username, which passed the
   same check, at the target; the `kicked` message copies them *)
Theorem C15_kick_fields : forall w h c m g t,
  m_type m = "useraction" -> m_kind m = "kick" ->
  spoof_source c m = false -> spoof_user c m = false ->
  c_group c = Some g -> mem "op" (c_perms c) = true ->
  get_member w g (m_dest m) = Some t ->
  handle_client_message w h c m =
    ok (enq w t (AKick (m_source m) (m_username m)
                       (match m_value m with VStr s => s | _ => "" end))) /\
  authentic_fields c m.
Proof. exact kick_fields. Qed.
Print Assumptions C15_kick_fields.

Theorem C15_kicked_message : forall c id user message,
  err_msgs c (EKick id user message) =
  [mkOut "usermessage" "kicked" id "" (c_id c) user true []
         (if Signal.is_empty message then "you have been kicked out" else message) "" "" false].
Proof. exact kicked_message. Qed.
Print Assumptions C15_kicked_message.

(* ---- the two history models agree; the theorems of PART 1 transfer ---- *)

Theorem C15_hist_add_agrees : forall hs Hs e E, hrel hs Hs -> rel e E ->
  exists Hs', H.add_to_history Hs E = H.Ok Hs' /\ hrel (hist_add hs e) Hs'.
Proof. exact hist_add_agrees. Qed.
Print Assumptions C15_hist_add_agrees.

Theorem C15_hist_clear_agrees : forall hs Hs id uid, hrel hs Hs ->
  hrel (hist_clear hs id uid) (H.clear_history (enc id) (enc uid) Hs).
Proof. exact hist_clear_agrees. Qed.
Print Assumptions C15_hist_clear_agrees.

(* the history of every group in every reachable state of the signalling
   model is the history of a run of the History state machine *)
Theorem C15_signal_history_refines : forall ops w, reach ops w -> forall g n,
  exists hops, Forall add_or_clear hops /\
               hrel (hist_of w g) (H.st_hist (H.run (H.init n) hops)).
Proof. exact hist_refines. Qed.
Print Assumptions C15_signal_history_refines.

Theorem C15_signal_history_bound : forall ops w g, reach ops w ->
  (List.length (hist_of w g) <= 50)%nat.
Proof. exact signal_history_bound. Qed.
Print Assumptions C15_signal_history_bound.

(* ---- the membership invariant behind "exactly the members" ---- *)

Theorem C15_membership_invariant : forall ops w, reach ops w -> MInv w.
Proof. exact reach_minv. Qed.
Print Assumptions C15_membership_invariant.

(* ---- non-vacuity: the hypotheses hold on a concrete reachable state and
   the conclusions are what one expects (computed) ---- *)

Example C15_example_hypotheses : exists w ca cb cm,
  reach ex_setup w /\
  get_client w 0 = Some ca /\ get_client w 1 = Some cb /\ get_client w 3 = Some cm /\
  c_closed ca = false /\ c_group ca = Some "g" /\ c_group cb = Some "g" /\ c_group cm = Some "g" /\
  mem "op" (c_perms ca) = true /\ mem "op" (c_perms cb) = false /\
  mem "message" (c_perms cb) = true /\ mem "message" (c_perms cm) = false /\
  member_of w 2 "g" = false /\ member_of w 2 "k" = true /\
  authentic_fields ca (ex_chat "chat" "" "i1" "a" "" (Some "oper") "hello" false) /\
  spoofed cb (ex_chat "chat" "" "i1" "a" "" None "fake" false) /\
  spoofed cb (ex_chat "chat" "" "s" "" "" (Some "oper") "fake" false).
Proof. exact ex_hypotheses. Qed.

Example C15_example_broadcast :
  let ops := ex_setup ++ [OpMsg 0 (ex_chat "chat" "" "i1" "a" "" (Some "oper") "hello" false)] in
  let x := ("chat", "", "i1", "a", "", Some "oper", true, "hello") in
  outs ops = [[x]; [x]; []; [x]] /\
  hists ops = ([mkChat "i1" "a" (Some "oper") "" "hello"], []).
Proof. exact ex_broadcast. Qed.

Example C15_example_directed :
  let ops := ex_setup ++
    [OpMsg 0 (ex_chat "chat" "" "d1" "a" "b" None "psst" false);
     OpMsg 0 (ex_chat "usermessage" "note" "" "" "z" None "x" false);
     OpMsg 0 (ex_chat "usermessage" "note" "" "" "" None "all" false)] in
  let n := ("usermessage", "note", "", "", "", None, true, "all") in
  outs ops =
    [[("usermessage", "error", "", "", "a", None, true, "user unknown"); n];
     [("chat", "", "d1", "a", "b", None, true, "psst"); n]; []; [n]] /\
  hists ops = ([], []).
Proof. exact ex_directed. Qed.

Example C15_example_clear_and_replay :
  let cc := ("usermessage", "clearchat", "", "", "", None, true, "?") in
  let ud := ("user", "add", "d", "", "", Some "user", false, "") in
  outs ex_hist_ops =
    [[cc; ud]; [cc; ud]; []; [cc; ud];
     [("joined", "join", "", "", "", Some "user", false, "");
      ("chathistory", "", "i2", "a", "", Some "oper", false, "two");
      ("chathistory", "", "i1", "b", "", None, false, "three");
      ud; ("user", "add", "a", "", "", Some "oper", false, "");
      ("user", "add", "b", "", "", Some "user", false, "");
      ("user", "add", "m", "", "", Some "mute", false, "")]] /\
  hists ex_hist_ops =
    ([mkChat "i2" "a" (Some "oper") "" "two"; mkChat "i1" "b" None "" "three"], []).
Proof. exact ex_clear_and_replay. Qed.

Example C15_example_eviction :
  let ops := ex_setup ++
    map (fun n => OpMsg 1 (ex_chat "chat" "" (tokname n) "b" "" None "x" false)) (seq 0 53) in
  List.length (fst (hists ops)) = 50 /\ map h_id (firstn 2 (fst (hists ops))) = ["T003"; "T004"].
Proof. exact ex_eviction. Qed.

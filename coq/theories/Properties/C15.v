(* C15 (HISTORY PART ONLY -- PROVISIONAL FILE).
   "Broadcast chat is replayed in order to later joiners from a history that
   never exceeds 50 entries nor the configured age, from which operators can
   remove one message, one user's messages, or everything."

   This file is provisional: it exists so that the history builder can run
   `./check C15`; the coordinator assembles the final Properties/C15.v from
   this part and the message-level part (authenticity, addressing, only
   broadcast chat is stored) built on the signalling model.

   Statements only; every proof is [exact lemma] (Proofs/History.v).  Model:
   Model/History.v, tied to group/group.go and group/description.go by the
   `history` correspondence driver and Generated/HistoryConsts.v.
   Histories are ARBITRARY lists of operations (add / get / clear in every
   mode / description change / join) from an empty history, with arbitrary
   times, ids, sources and configured ages; no well-formedness hypothesis. *)
From Coq Require Import ZArith List Bool Sorted.
From Galene Require Import Generated.HistoryConsts Model.History Proofs.History.
Import ListNotations.
Open Scope Z_scope.

(* The stored history, every list GetChatHistory returns and every replay
   sent to a joiner have at most 50 entries, after every operation sequence. *)
Theorem C15_history_bound : forall n ops,
  zlen (st_hist (run (init n) ops)) <= 50 /\
  forall o, match snd (step (run (init n) ops) o) with
            | RHist h => zlen h <= 50
            | RMsgs l => zlen l <= 50
            | RUnit | RPanic => True
            end.
Proof. exact history_bound_50. Qed.
Print Assumptions C15_history_bound.

(* AddToChatHistory never panics *)
Theorem C15_history_no_panic : forall n ops o,
  snd (step (run (init n) ops) o) <> RPanic.
Proof. exact history_no_panic. Qed.
Print Assumptions C15_history_no_panic.

(* The history is an in-order subsequence of the entries added, in arrival
   order: nothing is reordered, duplicated or invented. *)
Theorem C15_history_fifo : forall n ops,
  Subseq (st_hist (run (init n) ops)) (added ops).
Proof. exact history_fifo. Qed.
Print Assumptions C15_history_fifo.

(* An add to a full history evicts exactly the head -- the entry that
   arrived first among those present -- and appends the new one; an add to a
   non-full history evicts nothing. *)
Theorem C15_history_evicts_oldest : forall n ops e,
  let h := st_hist (run (init n) ops) in
  st_hist (run (init n) (ops ++ [OAdd e])) =
  if zlen h <? maxChatHistory then h ++ [e] else tl h ++ [e].
Proof. exact history_fifo_evicts_oldest. Qed.
Print Assumptions C15_history_evicts_oldest.

(* With adds only the history is exactly the last maxChatHistory entries. *)
Theorem C15_history_last_50 : forall n ops, Forall is_add ops ->
  st_hist (run (init n) ops) = lastn (Z.to_nat maxChatHistory) (added ops).
Proof. exact history_fifo_adds_only. Qed.
Print Assumptions C15_history_last_50.

(* Age.  For additions whose times are in arrival order, GetChatHistory at
   clock reading [now] returns no entry e with time.Since(e.Time) greater
   than the age in force (description field * 1 s, 4 h when 0); an entry of
   exactly that age is still returned. *)
Theorem C15_history_age : forall n ops now h,
  time_ordered (added ops) ->
  snd (step (run (init n) ops) (OGet now)) = RHist h ->
  forall e, In e h ->
  since now (e_time e) <= max_history_age (st_age (run (init n) ops)).
Proof. exact history_age. Qed.
Print Assumptions C15_history_age.

(* Times out of order by at most d (two clients read the clock, then take
   the group lock in the other order): at most age + d. *)
Theorem C15_history_age_skew : forall d n ops now h,
  0 <= d -> ordered_within d (added ops) ->
  snd (step (run (init n) ops) (OGet now)) = RHist h ->
  forall e, In e h ->
  since now (e_time e) <= max_history_age (st_age (run (init n) ops)) + d.
Proof. exact history_age_skew. Qed.
Print Assumptions C15_history_age_skew.

(* No assumption on times: exactly the maximal obsolete prefix is dropped;
   the first returned entry is never obsolete. *)
Theorem C15_history_age_any_times : forall s now h,
  snd (step s (OGet now)) = RHist h ->
  let dur := max_history_age (st_age s) in
  exists dropped, st_hist s = dropped ++ h /\
    Forall (fun e => dur < since now (e_time e)) dropped /\
    match h with [] => True | e :: _ => since now (e_time e) <= dur end.
Proof. exact history_age_any_times. Qed.
Print Assumptions C15_history_age_any_times.

(* the configured number is seconds; a positive configuration is never
   exceeded by the effective age *)
Theorem C15_history_age_configured : forall n,
  0 < n -> max_history_age n <= n * 1000000000.
Proof. exact max_history_age_le_configured. Qed.
Print Assumptions C15_history_age_configured.

Theorem C15_history_clear_all : forall h, clear_history [] [] h = [].
Proof. exact history_clear_all. Qed.
Print Assumptions C15_history_clear_all.

Theorem C15_history_clear_user : forall uid h, uid <> [] ->
  clear_history [] uid h = filter (fun e => negb (from_user uid e)) h.
Proof. exact history_clear_user. Qed.
Print Assumptions C15_history_clear_user.

Theorem C15_history_clear_one : forall id uid h, id <> [] ->
  clear_history id uid h = filter (fun e => negb (is_message id uid e)) h.
Proof. exact history_clear_one. Qed.
Print Assumptions C15_history_clear_one.

(* cleared entries never come back *)
Theorem C15_history_clear_persistent : forall n ops1 id uid ops2,
  Subseq (st_hist (run (init n) (ops1 ++ OClear id uid :: ops2)))
         (clear_history id uid (st_hist (run (init n) ops1)) ++ added ops2).
Proof. exact history_clear_persistent. Qed.
Print Assumptions C15_history_clear_persistent.

(* a joiner is sent exactly GetChatHistory, in order, field by field *)
Theorem C15_history_replay_in_order : forall s now,
  exists h,
    snd (step s (OGet now)) = RHist h /\
    snd (step s (OJoin now)) = RMsgs (map chathistory_msg h) /\
    fst (step s (OJoin now)) = fst (step s (OGet now)).
Proof. exact history_replay_in_order. Qed.
Print Assumptions C15_history_replay_in_order.

(* ---- non-vacuity ---- *)

(* 53 adds: the three oldest are evicted, the order is kept *)
Example C15_history_example_eviction :
  Forall is_add (ex_adds 53) /\
  map e_id (st_hist (run (init 0) (ex_adds 53))) =
    map (fun i => [Z.of_nat i]) (seq 3 50) /\
  zlen (st_hist (run (init 0) (ex_adds 49))) = 49 /\
  zlen (st_hist (run (init 0) (ex_adds 50))) = 50 /\
  zlen (st_hist (run (init 0) (ex_adds 51))) = 50.
Proof.
  split; [|vm_compute; repeat split; reflexivity].
  unfold ex_adds. apply Forall_forall. intros o Ho.
  apply in_map_iff in Ho. destruct Ho as (i & <- & _). exact I.
Qed.

(* age: the hypotheses of C15_history_age hold for a history in which the
   age (2 h, configured after the adds) actually cuts: at 3 h 30 the entries
   of 0 h and 1 h are gone, the one of 3 h is returned; an entry exactly 2 h
   old is returned, one nanosecond older is not *)
Example C15_history_example_age :
  let ops := [OAdd (ex_entry 0 [97] 0); OAdd (ex_entry 1 [98] hour);
              OAdd (ex_entry 2 [97] (3 * hour)); OSetAge 7200] in
  time_ordered (added ops) /\
  snd (step (run (init 0) ops) (OGet (3 * hour + hour / 2)))
    = RHist [ex_entry 2 [97] (3 * hour)] /\
  snd (step (run (init 0) ops) (OGet (3 * hour))) =
    RHist [ex_entry 1 [98] hour; ex_entry 2 [97] (3 * hour)] /\
  snd (step (run (init 0) ops) (OGet (3 * hour + 1))) =
    RHist [ex_entry 2 [97] (3 * hour)].
Proof.
  cbv zeta. split; [|vm_compute; repeat split; reflexivity].
  unfold time_ordered. cbn [added].
  repeat (constructor; [|repeat (constructor; [vm_compute; discriminate|]); constructor]).
  constructor.
Qed.

(* the time-order hypothesis is necessary: behind a fresh entry an obsolete
   one (3 h 30 old under a 2 h limit) is kept and returned *)
Example C15_history_example_out_of_order :
  let old := ex_entry 1 [98] 0 in
  let ops := [OSetAge 7200; OAdd (ex_entry 0 [97] (3 * hour)); OAdd old] in
  let now := 3 * hour + hour / 2 in
  snd (step (run (init 0) ops) (OGet now)) = RHist [ex_entry 0 [97] (3 * hour); old] /\
  max_history_age 7200 < since now (e_time old).
Proof. vm_compute. split; reflexivity. Qed.

(* the three clear modes on a history with a duplicated id and the same id
   from two users *)
Example C15_history_example_clear :
  let a1 := ex_entry 1 [97] 10 in let b1 := ex_entry 1 [98] 20 in
  let a1' := ex_entry 1 [97] 30 in let a2 := ex_entry 2 [97] 40 in
  let anon := ex_entry 1 [] 50 in
  let ops := [OAdd a1; OAdd b1; OAdd a1'; OAdd a2; OAdd anon] in
  let h := st_hist (run (init 0) ops) in
  clear_history [1] [97] h = [b1; a2; anon] /\
  clear_history [] [97] h = [b1; anon] /\
  clear_history [7] [97] h = h /\
  clear_history [1] [] h = [a1; b1; a1'; a2] /\
  clearchat_accepted [1] [] = false /\
  clear_history [] [] h = [].
Proof. vm_compute. repeat split; reflexivity. Qed.

(* the description field is an unvalidated int: a value beyond 292 years
   wraps (here to 0.29 s), a negative one makes every past entry obsolete *)
Example C15_history_example_age_wrap :
  max_history_age 18446744074 = 290448384 /\
  max_history_age (-1) = -1000000000 /\
  max_history_age 0 = defaultMaxHistoryAge /\
  max_history_age 3600 = hour.
Proof. vm_compute. repeat split; reflexivity. Qed.

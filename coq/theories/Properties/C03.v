(* C03  A NACK retransmits exactly the packet originally sent under that
   number.  gotNACK = Reverse of the packet map, lookup in the publisher's
   cache, Write again (Model/Forward.v, [nack1]). *)
From Coq Require Import ZArith List Bool.
From Galene Require Import Lib.Word Generated.Consts Model.PacketMap Model.PacketMapL1 Model.Cache Model.Forward.
From Galene Require Import Proofs.PacketMapGhost Proofs.PacketMapView Proofs.PacketMapSpec.
From Galene Require Import Proofs.CacheSound Proofs.ForwardProps Proofs.ReverseStable.
From Galene Require Import Proofs.RewriteMarker Proofs.ForwardNack Proofs.ForwardNackEx.
Import ListNotations.
Open Scope Z_scope.

(* Reverse, in every reachable state of the packet map (any history of
   Map/Drop/Reverse, [sat_outs] of C01): an answer for outgoing number o names
   a source number S that was NOT withheld and whose outgoing number is o.
   This is the Reverse clause of the specification that the L0 model refines
   (C01_refines_spec); restated here for a single final Reverse. *)
Theorem C03_reverse_owner : forall ops o,
  Forall wf_op16 ops -> 0 <= o < 65536 ->
  sat_outs SInit (ops ++ [OReverse o]) (run0 pm_init (ops ++ [OReverse o])).
Proof.
  intros ops o Hops Ho. apply L0_refines_spec.
  apply Forall_app. split; [exact Hops|]. constructor; [exact Ho|constructor].
Qed.
Print Assumptions C03_reverse_owner.

(* and a late copy of S is forwarded, if at all, under exactly that number
   again (the late-arrival clause of the same specification): a duplicate or a
   retransmission cannot come out under another number.  Both clauses are
   read off [spec_step]: *)
Theorem C03_spec_clauses : forall Next D o s,
  (let '(_, P) := spec_step (SRun Next D) (OReverse o) in
   forall ok src p, P (RTriple ok src p) -> ok = true ->
     exists S, w16 S = src /\ ~ In S D /\ w16 (out D S) = o) /\
  (let r := unwrap Next s in
   (window <? r - Next) || (window <? Next - r) = false -> (Next <=? r) = false ->
   let '(_, P) := spec_step (SRun Next D) (OMap s 0) in
   forall ok o' p, P (RTriple ok o' p) ->
     if mem r D then ok = false else ok = true -> o' = w16 (out D r)).
Proof.
  intros Next D o s. split.
  - cbn. intros ok src p (ok' & s' & p' & E & H) Hok. inversion E as [[E1 E2 E3]].
    rewrite E1 in Hok. destruct (H Hok) as (S & A & B & C). exists S. repeat split; auto; congruence.
  - cbn zeta. intros Hw Hlt. cbn [spec_step]. rewrite Hw, Hlt.
    intros ok o' p (ok' & o'' & p' & E & H). inversion E as [[E1 E2 E3]]. try rewrite E1; try rewrite E2; exact H.
Qed.
Print Assumptions C03_spec_clauses.

(* gotNACK hands to Write exactly the bytes the cache returns for the source
   number named by Reverse, or sends nothing *)
Theorem C03_nack_source : forall vp8 st o st' rs stop,
  nack1 vp8 st o = (st', rs, stop) ->
  rs = [] \/
  exists s p n bytes,
    pm_reverse (fs_map st) o = (true, s, p) /\ get (fs_cache st) s = (n, bytes) /\ n <> 0 /\
    (rs = [WPanic] \/ exists f, find_flags s (fs_flags st) = Some f /\
                                rs = [snd (fst (write vp8 st f bytes))]).
Proof. exact nack1_source. Qed.
Print Assumptions C03_nack_source.

(* and those bytes are byte-exactly a packet stored under that number (C05) *)
Theorem C03_cache_exact : forall cap ops s n bytes,
  Forall wf_op ops ->
  get (run_hist (new_cache cap) ops) s = (n, bytes) ->
  (n = 0 /\ bytes = []) \/
  (n = zlen bytes /\ 1 <= n <= BufSize /\ stored_packet (rev ops) s bytes).
Proof. intros cap ops s n bytes Hwf. exact (get_sound _ _ s n bytes (reachable_Inv cap ops Hwf)). Qed.
Print Assumptions C03_cache_exact.

(* The marker bit of a retransmission is recomputed from the CURRENT spatial
   layer: it can differ from the original after a layer change.  Full
   statement (refuted by the witness below; known finding F13): *)
Definition C03_marker_full_statement : Prop :=
  forall vp8 st1 st2 f buf d1 d2,
    fs_map st1 = fs_map st2 ->
    snd (fst (write vp8 st1 f buf)) = WSent d1 ->
    snd (fst (write vp8 st2 f buf)) = WSent d2 -> nth 1 d1 0 = nth 1 d2 0.

Definition f13_flags : Layers.flags := Layers.mkFlags 7 false false true false 0 0 0 false false false.
Definition f13_buf : list Z := [128;96;0;7; 0;0;0;1; 0;0;18;52; 1;2;3].
Definition f13_state (w : Z) : fstate := mkF w pm_init (new_cache 4) [] 0 524288.

Theorem C03_marker_refuted : ~ C03_marker_full_statement.
Proof.
  intros H.
  (* spatial layer 0 selected: marker set; spatial layer 1 selected: not set *)
  specialize (H false (f13_state 256) (f13_state 257) f13_flags f13_buf
                [128;224;0;7; 0;0;0;1; 0;0;18;52; 1;2;3] f13_buf eq_refl).
  assert (H1 : snd (fst (write false (f13_state 256) f13_flags f13_buf))
               = WSent [128;224;0;7; 0;0;0;1; 0;0;18;52; 1;2;3]) by (vm_compute; reflexivity).
  assert (H2 : snd (fst (write false (f13_state 257) f13_flags f13_buf)) = WSent f13_buf)
    by (vm_compute; reflexivity).
  specialize (H H1 H2). vm_compute in H. discriminate.
Qed.
Print Assumptions C03_marker_refuted.

(* NACKs for numbers within 8192 of the newest outgoing number are answered
   EXACTLY: after any history, Reverse on the (list-model) state names the one
   source packet S whose unwrapped outgoing number is O (no aliasing modulo
   2^16), which was not withheld and lies before next -- or nothing.  The
   state of the L0 model is this state read through the ring (C01_ring_is_list). *)
Theorem C03_window_exact : forall ops O, Forall wf_op16 ops ->
  match spec_after SInit ops with
  | SInit => True
  | SRun Next D =>
      let a := l1_after PacketMapL1.l1_init ops in
      PacketMapL1.l_nil a = false ->
      Next - zl D - 8192 <= O < Next - zl D ->
      let '(ok, s, _) := PacketMapL1.l1_reverse a (w16 O) in
      ok = true -> exists S, w16 S = s /\ ~ In S D /\ out D S = O /\ S < Next
  end.
Proof. exact reverse_window_reachable. Qed.
Print Assumptions C03_window_exact.

(* A retransmission goes through Map again (gotNACK -> Write).  Whatever
   Reverse answers with is a packet that Map treats as a late copy: the map is
   exactly as before, so answering a NACK - for any number, in any state -
   never restarts the numbering of the packets that follow (C01) and never
   forgets what was withheld.  (Finding F31, repaired: a NACK for a packet
   more than 8192 numbers old used to reset the map.) *)
Theorem C03_retransmission_keeps_map : forall m o s p pid,
  is16 (m_next m) -> is16 s ->
  pm_reverse m o = (true, s, p) -> snd (pm_map m s pid) = m.
Proof. exact retransmission_keeps_map. Qed.
Print Assumptions C03_retransmission_keeps_map.

(* ---- end to end, over histories of the composed forwarding model ---- *)
(* Model/Forward.v: layer selection, packet map, RewritePacket and the
   publisher's cache, driven by a history of operations from [f_init cap].

   Hypotheses, and why the code guarantees them:
   - [Forall wf_fop ops]: sequence numbers are uint16; the flags recorded with
     a stored packet are the flags of that packet; Cache.Store receives
     between 1 and BufSize bytes; the cache is resized to >= 1 entries.
   - [bytes_ok buf], [hdr_seq buf = f_seqno f]: a packet is bytes, and the
     flags' sequence number is the one in its header.
   - [only_store ops s f buf]: whatever the publisher stored under the source
     number s is this packet (duplicates are byte-identical).  rtpUpTrack
     stores a packet and then hands the same bytes to the writers; without
     this the cache could hold two different packets under one 16-bit number
     and Get returns the first slot that matches.
   - [insync_all ...] and the last hypothesis ("recently"): after the original
     transmission no packet arrives more than 8192 numbers away from the
     number expected next (the map does not re-synchronise; [track] computes
     that number from the source numbers of the Writes alone), and when the
     NACK arrives the packet is at most 8192 numbers behind it.  Both are
     necessary: see C03_resync_refuted below.

   Conclusion: gotNACK for the outgoing number of that transmission (bytes
   2-3 of what was sent) leaves the packet map unchanged and answers nothing,
   or exactly one result r of Write on the SAME source packet (Reverse names
   f_seqno f, the cache returns buf, the recorded flags are f); r is never a
   panic, and if r is a packet d' it has the length of d and equals d at
   every byte except possibly bit 7 of byte 1 (the marker, recomputed from the
   current spatial layer: finding F13, C03_marker_refuted) - so the same
   outgoing number, picture id and payload - and d' = d outright when Write
   selects the same spatial layer as at the original transmission. *)
Theorem C03_same_or_nothing : forall vp8 cap pre f buf post d,
  let ops := pre ++ OWrite f buf :: post in
  let st_i := frun vp8 (f_init cap) pre in
  let st := frun vp8 (f_init cap) ops in
  let n_i := track None pre in
  let R := src n_i (Layers.f_seqno f) in
  Forall wf_fop ops -> bytes_ok buf -> hdr_seq buf = Layers.f_seqno f ->
  only_store ops (Layers.f_seqno f) f buf ->
  snd (fst (write vp8 st_i f buf)) = WSent d ->
  insync_all (nxt n_i (Layers.f_seqno f)) post ->
  match track None ops with Some N => N - R <= 8192 | None => False end ->
  forall st' rs stop, nack1 vp8 st (hdr_seq d) = (st', rs, stop) ->
    fs_map st' = fs_map st /\
    (rs = [] \/
     exists r p n,
       rs = [r] /\
       pm_reverse (fs_map st) (hdr_seq d) = (true, Layers.f_seqno f, p) /\
       get (fs_cache st) (Layers.f_seqno f) = (n, buf) /\
       find_flags (Layers.f_seqno f) (fs_flags st) = Some f /\
       r = snd (fst (write vp8 st f buf)) /\
       r <> WPanic /\
       forall d', r = WSent d' ->
         agree_but_marker d d' /\
         (Layers.sid (fst (fst (write_decision st f))) =
          Layers.sid (fst (fst (write_decision st_i f))) -> d' = d)).
Proof. exact nack_same_or_nothing. Qed.
Print Assumptions C03_same_or_nothing.

(* A packet that Write withheld (the layer part asked for it and Drop
   succeeded) is never sent in answer to a NACK, under the same window
   hypotheses: whatever number is requested, if Reverse names that packet's
   source number, gotNACK sends nothing. *)
Theorem C03_never_withheld : forall vp8 cap pre f buf post,
  let ops := pre ++ OWrite f buf :: post in
  let st_i := frun vp8 (f_init cap) pre in
  let st := frun vp8 (f_init cap) ops in
  let n_i := track None pre in
  let R := src n_i (Layers.f_seqno f) in
  Forall wf_fop ops ->
  snd (fst (write_decision st_i f)) = true ->
  fst (pm_drop (fs_map st_i) (Layers.f_seqno f) (Layers.f_pid f)) = true ->
  insync_all (nxt n_i (Layers.f_seqno f)) post ->
  match track None ops with Some N => N - R <= 8192 | None => False end ->
  snd (fst (write vp8 st_i f buf)) = WNone /\
  forall o st' rs stop, nack1 vp8 st o = (st', rs, stop) ->
    forall p, pm_reverse (fs_map st) o = (true, Layers.f_seqno f, p) -> rs = [] \/ rs = [WNone].
Proof. exact nack_never_withheld. Qed.
Print Assumptions C03_never_withheld.

(* non-vacuity (VP8, 15-bit picture ids; Proofs/ForwardNackEx.v): the rate
   estimate is far above the allowed maximum; packet 100 (temporal layer 0) is
   forwarded; packet 101 (temporal layer 1) is withheld; packet 102 is
   forwarded under number 101 with picture id 12 - 1 = 11 and the marker set;
   103 is forwarded as 102; then NACKs for 101, 100, 103 and 99: the first two
   are answered with the identical bytes, the other two (103: not sent yet;
   99: never sent) with nothing. *)
Example C03_example_history :
  fouts true (f_init 8) (ex_ops ++ [ONack [101; 100; 103; 99]]) =
  [RNone; RNone; RWrite (WSent ex_sent100) 0 false;
   RNone; RWrite WNone 16777216 false;
   RNone; RWrite (WSent ex_sent101) 16777216 false;
   RLayer 16777216; RNone;
   RWrite (WSent [128; 224; 0; 102; 0;0;0;1; 0;0;18;52; 128; 128; 128; 12; 7;7;103]) 16777216 false;
   RNack [WSent ex_sent101; WSent ex_sent100] 16777216].
Proof. vm_compute. reflexivity. Qed.

(* and the hypotheses of C03_same_or_nothing hold of that history, for the
   transmission of packet 102, whose NACK is answered with the same bytes *)
Example C03_example_hypotheses :
  Forall wf_fop ex_ops /\ bytes_ok (ex_buf 102 12) /\ hdr_seq (ex_buf 102 12) = 102 /\
  only_store ex_ops 102 ex_f102 (ex_buf 102 12) /\
  snd (fst (write true (frun true (f_init 8) ex_pre) ex_f102 (ex_buf 102 12))) = WSent ex_sent101 /\
  insync_all (nxt (track None ex_pre) 102) ex_post /\
  track None ex_ops = Some 104 /\ src (track None ex_pre) 102 = 102 /\
  nack1 true (frun true (f_init 8) ex_ops) (hdr_seq ex_sent101)
    = (frun true (f_init 8) ex_ops, [WSent ex_sent101], false).
Proof. exact example_hypotheses. Qed.

(* The hypothesis that the map does not re-synchronise is necessary.  Full
   statements without it: *)
Definition C03_same_without_sync_statement : Prop :=
  forall vp8 cap pre f buf post d,
  let ops := pre ++ OWrite f buf :: post in
  let st_i := frun vp8 (f_init cap) pre in
  let st := frun vp8 (f_init cap) ops in
  let R := src (track None pre) (Layers.f_seqno f) in
  Forall wf_fop ops -> bytes_ok buf -> hdr_seq buf = Layers.f_seqno f ->
  only_store ops (Layers.f_seqno f) f buf ->
  snd (fst (write vp8 st_i f buf)) = WSent d ->
  match track None ops with Some N => N - R <= 8192 | None => False end ->
  forall st' rs stop, nack1 vp8 st (hdr_seq d) = (st', rs, stop) ->
  forall d', rs = [WSent d'] -> agree_but_marker d d'.

Definition C03_withheld_without_sync_statement : Prop :=
  forall vp8 cap pre f buf post,
  let ops := pre ++ OWrite f buf :: post in
  let st_i := frun vp8 (f_init cap) pre in
  let st := frun vp8 (f_init cap) ops in
  let R := src (track None pre) (Layers.f_seqno f) in
  Forall wf_fop ops ->
  snd (fst (write_decision st_i f)) = true ->
  fst (pm_drop (fs_map st_i) (Layers.f_seqno f) (Layers.f_pid f)) = true ->
  match track None ops with Some N => N - R <= 8192 | None => False end ->
  forall o st' rs stop, nack1 vp8 st o = (st', rs, stop) ->
    forall p, pm_reverse (fs_map st) o = (true, Layers.f_seqno f, p) -> rs = [] \/ rs = [WNone].

(* Refuted by the history [rs_ops] of Proofs/ForwardNackEx.v: as in the
   example, 100 forwarded, 101 withheld, 102 forwarded as 101; then the
   publisher's numbers jump to 30000 and back to 103.  Each jump is more than
   8192, so Map restarts the numbering twice and forgets that 101 was withheld
   and that 102 went out as 101; next is 104 again, so 101 and 102 count as
   recent.  A NACK for 101 is then answered with source packet 101 - the
   packet that was deliberately withheld - instead of 102 ([rs_nack]). *)
Theorem C03_resync_refuted :
  ~ C03_same_without_sync_statement /\ ~ C03_withheld_without_sync_statement.
Proof. exact resync_refuted. Qed.
Print Assumptions C03_resync_refuted.

Example C03_resync_witness :
  snd (fst (nack1 true (frun true (f_init 8) rs_ops) 101))
  = [WSent [128; 224; 0; 101; 0;0;0;1; 0;0;18;52; 128; 128; 128; 11; 7;7;101]] /\
  ex_sent101 = [128; 224; 0; 101; 0;0;0;1; 0;0;18;52; 128; 128; 128; 11; 7;7;102].
Proof. split; [exact rs_nack|reflexivity]. Qed.

(* C03  A NACK retransmits exactly the packet originally sent under that
   number.  gotNACK = Reverse of the packet map, lookup in the publisher's
   cache, Write again (Model/Forward.v, [nack1]). *)
From Coq Require Import ZArith List Bool.
From Galene Require Import Lib.Word Generated.Consts Model.PacketMap Model.PacketMapL1 Model.Cache Model.Forward.
From Galene Require Import Proofs.PacketMapGhost Proofs.PacketMapView Proofs.PacketMapSpec.
From Galene Require Import Proofs.CacheSound Proofs.ForwardProps Proofs.ReverseStable.
Import ListNotations.
Open Scope Z_scope.

(* Reverse, in every reachable state of the packet map (any history of
   Map/Drop/Reverse, [sat_outs] of C01): an answer for outgoing number o names
   a source number S that was NOT withheld and whose outgoing number is o.
   This is the Reverse clause of the specification that the L0 model refines
   (C01_refines_spec); restated here for a single final Reverse. *)
Theorem C03_reverse_owner : forall ops o,
  Forall wf_op16 ops -> 0 <= o < 65536 ->
  sat_outs SInit (ops ++ [OReverse o]) (run0 pm_init (ops ++ [OReverse o])).
Proof.
  intros ops o Hops Ho. apply L0_refines_spec.
  apply Forall_app. split; [exact Hops|]. constructor; [exact Ho|constructor].
Qed.
Print Assumptions C03_reverse_owner.

(* and a late copy of S is forwarded, if at all, under exactly that number
   again (the late-arrival clause of the same specification): a duplicate or a
   retransmission cannot come out under another number.  Both clauses are
   read off [spec_step]: *)
Theorem C03_spec_clauses : forall Next D o s,
  (let '(_, P) := spec_step (SRun Next D) (OReverse o) in
   forall ok src p, P (RTriple ok src p) -> ok = true ->
     exists S, w16 S = src /\ ~ In S D /\ w16 (out D S) = o) /\
  (let r := unwrap Next s in
   (window <? r - Next) || (window <? Next - r) = false -> (Next <=? r) = false ->
   let '(_, P) := spec_step (SRun Next D) (OMap s 0) in
   forall ok o' p, P (RTriple ok o' p) ->
     if mem r D then ok = false else ok = true -> o' = w16 (out D r)).
Proof.
  intros Next D o s. split.
  - cbn. intros ok src p (ok' & s' & p' & E & H) Hok. inversion E as [[E1 E2 E3]].
    rewrite E1 in Hok. destruct (H Hok) as (S & A & B & C). exists S. repeat split; auto; congruence.
  - cbn zeta. intros Hw Hlt. cbn [spec_step]. rewrite Hw, Hlt.
    intros ok o' p (ok' & o'' & p' & E & H). inversion E as [[E1 E2 E3]]. try rewrite E1; try rewrite E2; exact H.
Qed.
Print Assumptions C03_spec_clauses.

(* gotNACK hands to Write exactly the bytes the cache returns for the source
   number named by Reverse, or sends nothing *)
Theorem C03_nack_source : forall vp8 st o st' rs stop,
  nack1 vp8 st o = (st', rs, stop) ->
  rs = [] \/
  exists s p n bytes,
    pm_reverse (fs_map st) o = (true, s, p) /\ get (fs_cache st) s = (n, bytes) /\ n <> 0 /\
    (rs = [WPanic] \/ exists f, find_flags s (fs_flags st) = Some f /\
                                rs = [snd (fst (write vp8 st f bytes))]).
Proof. exact nack1_source. Qed.
Print Assumptions C03_nack_source.

(* and those bytes are byte-exactly a packet stored under that number (C05) *)
Theorem C03_cache_exact : forall cap ops s n bytes,
  Forall wf_op ops ->
  get (run_hist (new_cache cap) ops) s = (n, bytes) ->
  (n = 0 /\ bytes = []) \/
  (n = zlen bytes /\ 1 <= n <= BufSize /\ stored_packet (rev ops) s bytes).
Proof. intros cap ops s n bytes Hwf. exact (get_sound _ _ s n bytes (reachable_Inv cap ops Hwf)). Qed.
Print Assumptions C03_cache_exact.

(* The marker bit of a retransmission is recomputed from the CURRENT spatial
   layer: it can differ from the original after a layer change.  Full
   statement (refuted by the witness below; known finding F13): *)
Definition C03_marker_full_statement : Prop :=
  forall vp8 st1 st2 f buf d1 d2,
    fs_map st1 = fs_map st2 ->
    snd (fst (write vp8 st1 f buf)) = WSent d1 ->
    snd (fst (write vp8 st2 f buf)) = WSent d2 -> nth 1 d1 0 = nth 1 d2 0.

Definition f13_flags : Layers.flags := Layers.mkFlags 7 false false true false 0 0 0 false false false.
Definition f13_buf : list Z := [128;96;0;7; 0;0;0;1; 0;0;18;52; 1;2;3].
Definition f13_state (w : Z) : fstate := mkF w pm_init (new_cache 4) [] 0 524288.

Theorem C03_marker_refuted : ~ C03_marker_full_statement.
Proof.
  intros H.
  (* spatial layer 0 selected: marker set; spatial layer 1 selected: not set *)
  specialize (H false (f13_state 256) (f13_state 257) f13_flags f13_buf
                [128;224;0;7; 0;0;0;1; 0;0;18;52; 1;2;3] f13_buf eq_refl).
  assert (H1 : snd (fst (write false (f13_state 256) f13_flags f13_buf))
               = WSent [128;224;0;7; 0;0;0;1; 0;0;18;52; 1;2;3]) by (vm_compute; reflexivity).
  assert (H2 : snd (fst (write false (f13_state 257) f13_flags f13_buf)) = WSent f13_buf)
    by (vm_compute; reflexivity).
  specialize (H H1 H2). vm_compute in H. discriminate.
Qed.
Print Assumptions C03_marker_refuted.

(* NACKs for numbers within 8192 of the newest outgoing number are answered
   EXACTLY: after any history, Reverse on the (list-model) state names the one
   source packet S whose unwrapped outgoing number is O (no aliasing modulo
   2^16), which was not withheld and lies before next -- or nothing.  The
   state of the L0 model is this state read through the ring (C01_ring_is_list). *)
Theorem C03_window_exact : forall ops O, Forall wf_op16 ops ->
  match spec_after SInit ops with
  | SInit => True
  | SRun Next D =>
      let a := l1_after PacketMapL1.l1_init ops in
      PacketMapL1.l_nil a = false ->
      Next - zl D - 8192 <= O < Next - zl D ->
      let '(ok, s, _) := PacketMapL1.l1_reverse a (w16 O) in
      ok = true -> exists S, w16 S = s /\ ~ In S D /\ out D S = O /\ S < Next
  end.
Proof. exact reverse_window_reachable. Qed.
Print Assumptions C03_window_exact.

(* A retransmission goes through Map again (gotNACK -> Write).  Whatever
   Reverse answers with is a packet that Map treats as a late copy: the map is
   exactly as before, so answering a NACK - for any number, in any state -
   never restarts the numbering of the packets that follow (C01) and never
   forgets what was withheld.  (Finding F31, repaired: a NACK for a packet
   more than 8192 numbers old used to reset the map.) *)
Theorem C03_retransmission_keeps_map : forall m o s p pid,
  is16 (m_next m) -> is16 s ->
  pm_reverse m o = (true, s, p) -> snd (pm_map m s pid) = m.
Proof. exact retransmission_keeps_map. Qed.
Print Assumptions C03_retransmission_keeps_map.

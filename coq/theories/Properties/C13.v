(* C13  Group and client lifecycle is free of data races, deadlocks and lost
   wake-ups.  Statements only; every proof is [exact lemma].

   Part A (Model/Unbounded.v, tied to unbounded/unbounded.go by the `unbsched`
   correspondence driver and the `unbounded` concurrency driver): the action
   queue of a client under EVERY interleaving of any number of producers
   (Put = [locked section]; [non-blocking send on Ch when the queue was
   empty]) with the consumer loop ([receive from Ch]; [Get]) and stray Gets.
   A schedule is a list of atomic steps [l]; [exec init l = Some s] says that
   every step of l was enabled when it was taken.

   Part B (Generated/Locks.v, regenerated from /repo on every run by
   gen/locks.go): the lock discipline of the code, as finite tables, and the
   abstract lock model Lib/LockOrder.v. *)
From Coq Require Import ZArith List String Bool Relations.
From Galene Require Import Model.Unbounded Proofs.UnboundedProofs.
From Galene Require Import Lib.LockOrder Generated.Locks Proofs.Locks.
Import ListNotations.
Open Scope list_scope.

(* ------------------------------------------------------------------ Part A *)

(* No lost wake-up, as an invariant of all schedules: whenever the queue is
   non-empty, a token is in Ch, or a producer that saw the queue empty has
   not yet done its send, or the consumer is between its receive and Get. *)
Theorem C13_no_lost_wakeup : forall l s, exec init l = Some s ->
  queue s <> [] ->
  chan s = true \/ (exists p, lookup p (prods s) = Some true) \/ cons s = CGot.
Proof. exact no_lost_wakeup_inv. Qed.
Print Assumptions C13_no_lost_wakeup.

(* hence the consumer is never blocked for ever with a non-empty queue: when
   no producer is inside a Put, the consumer can take a step *)
Theorem C13_consumer_not_stuck : forall l s, exec init l = Some s ->
  queue s <> [] -> prods s = [] ->
  exists a s', (a = LRecv \/ a = LGet) /\ step s a = Some s'.
Proof. exact consumer_not_stuck. Qed.
Print Assumptions C13_consumer_not_stuck.

(* and as long as something is queued some step of the drain is enabled *)
Theorem C13_drain_progress : forall l s, exec init l = Some s -> queue s <> [] ->
  exists a s', loop_label a /\ step s a = Some s'.
Proof. exact drain_progress. Qed.
Print Assumptions C13_drain_progress.

(* Exactly once and in order: the concatenation of the Get results followed
   by what is still queued IS the sequence of values in the order in which
   their Puts took the lock -- so the results are a prefix of that order,
   nothing is lost, duplicated or reordered. *)
Theorem C13_exactly_once_in_order : forall l s, exec init l = Some s ->
  List.concat (gots s) ++ queue s = put_order l.
Proof. exact exactly_once_in_order. Qed.
Print Assumptions C13_exactly_once_in_order.

Theorem C13_delivered_is_prefix : forall l s, exec init l = Some s ->
  exists rest, put_order l = List.concat (gots s) ++ rest.
Proof. exact delivered_prefix. Qed.
Print Assumptions C13_delivered_is_prefix.

Theorem C13_nothing_twice : forall l s, exec init l = Some s ->
  NoDup (put_order l) -> NoDup (List.concat (gots s)).
Proof. exact delivered_nodup. Qed.
Print Assumptions C13_nothing_twice.

(* equality at quiescence (no token, nobody inside Put, consumer waiting) *)
Theorem C13_quiescent_all_delivered : forall l s, exec init l = Some s ->
  prods s = [] /\ chan s = false /\ cons s = CWait ->
  queue s = [] /\ List.concat (gots s) = put_order l.
Proof. exact quiescent_all_delivered. Qed.
Print Assumptions C13_quiescent_all_delivered.

(* "eventually seen": once no new Put starts, every continuation of the
   schedule has at most [measure s] further steps (3 per pending producer,
   2 for the token, 1 for the consumer), and when no step is left everything
   that was ever put has been handed to the consumer, in order. *)
Theorem C13_eventually_delivered : forall l s, exec init l = Some s ->
  forall l' s', Forall loop_label l' -> exec s l' = Some s' ->
  (List.length l' <= measure s)%nat /\
  ((forall a, loop_label a -> step s' a = None) ->
   queue s' = [] /\ List.concat (gots s') = put_order l).
Proof. exact drain_terminates_delivered. Qed.
Print Assumptions C13_eventually_delivered.

(* ------------------------------------------------------------------ Part B *)

Open Scope string_scope.

(* Every read and write of a group's clients / locked / description /
   history / timestamp / data, of the group registry, of a Channel's queue,
   of every field of packetcache.Cache, packetmap.Map and the token store
   happens with the guarding mutex certainly held (in the must-hold set of
   the dataflow); every "called locked" function (annotated or inferred) is
   called with its lock, the single known exception being named in
   [obligation_exceptions] (it concerns no listed state); for the locks of
   the listed state there is no exception; and the translator met no shape
   it does not understand. *)
Theorem C13_guarded :
  (forall field kind fn pos held required inst,
     In (field, kind, fn, pos, held, required, inst) accesses -> In required held) /\
  (forall callee why caller pos held required inst,
     In (callee, why, caller, pos, held, required, inst) call_obligations ->
     In required held \/ In (callee, caller) obligation_exceptions) /\
  (forall callee why caller pos held required inst,
     In (callee, why, caller, pos, held, required, inst) call_obligations ->
     In required guard_locks -> In required held) /\
  unknown = [].
Proof. exact (conj guarded_accesses (conj called_locked (conj called_locked_guard nothing_unknown))). Qed.
Print Assumptions C13_guarded.

(* The lock held is the lock of the SAME object: the mutex was taken through
   the expression through which the field is accessed (g.mu.Lock() ...
   g.clients), resp. on which the "called locked" callee works, or is assumed
   on entry for that receiver/parameter -- except in the two named methods of
   the token store, which lock the package-level instance and work on their
   receiver (the only instance there is). *)
Theorem C13_guarded_same_object :
  (forall field kind fn pos held required inst,
     In (field, kind, fn, pos, held, required, inst) accesses ->
     inst = "same" \/ In fn instance_exceptions) /\
  (forall callee why caller pos held required inst,
     In (callee, why, caller, pos, held, required, inst) call_obligations ->
     inst = "same" \/ In caller instance_exceptions).
Proof. exact same_object. Qed.
Print Assumptions C13_guarded_same_object.

(* Guarded slices and maps do not leave their critical section as aliases:
   what a caller gets (the chat history a joining client replays, the client
   list, the data map, a drained action queue) is a copy or has been handed
   over, so that reading it with the lock released touches no shared state. *)
Theorem C13_no_escaping_state : escaping_guarded_state = [].
Proof. exact no_escaping_state. Qed.
Print Assumptions C13_no_escaping_state.

(* Atomicity of the operations with respect to their own lock: no function
   releases an object's mutex and takes it again, so there is no window
   inside an operation (e.g. between "detach the connections" and "mark the
   client closed" of a teardown) in which a concurrent operation on the same
   object can run. *)
Theorem C13_atomic_sections : split_critical_sections = [].
Proof. exact atomic_sections. Qed.
Print Assumptions C13_atomic_sections.

(* A rank on lock classes that increases strictly along every extracted
   edge (lock possibly held -> lock acquired, through the call graph with
   interface dispatch expanded) exists ... *)
Theorem C13_lock_order_acyclic :
  exists rank : string -> nat,
    forall a b w, In (a, b, w) lock_edges -> (rank a < rank b)%nat.
Proof. exact rank_exists. Qed.
Print Assumptions C13_lock_order_acyclic.

(* ... so the edge relation has no cycle and no self-edge (no lock is taken
   while a lock of the same class is held: not the same group twice, not two
   different groups) ... *)
Theorem C13_no_edge_cycle : forall a, ~ clos_trans string Edge a a.
Proof. exact lock_order_acyclic. Qed.
Print Assumptions C13_no_edge_cycle.

(* ... and threads that acquire mutexes only along these edges can never
   reach a state with a cycle of waits (Lib/LockOrder.v: any number of
   threads, any number of mutex instances per class). *)
Theorem C13_no_deadlock : forall (T I : Type) (cls : I -> string) (s : lstate T I),
  lreachable T I string cls Edge s ->
  forall x, ~ clos_trans (T * I) (waits_for T I s) x x.
Proof. exact no_wait_cycle. Qed.
Print Assumptions C13_no_deadlock.

(* ------------------------------------------------------------------ non-vacuity *)

Open Scope Z_scope.

(* A concrete interleaving of two producers and the consumer that goes
   through the delicate window: producer 1 has appended to the empty queue
   and not yet signalled (the consumer cannot move: no token), producer 2
   appends meanwhile (sees non-empty, will not signal), producer 1 signals,
   the consumer receives and gets both items in lock order; producer 2's
   late return changes nothing; a third Put after the drain signals again. *)
Example C13_example_interleaving :
  let l := [LPutLock 1 10; LPutLock 2 20; LPutSend 1; LRecv; LGet; LPutSend 2;
            LPutLock 2 30; LPutSend 2; LRecv; LGet] in
  (exists s1, exec init [LPutLock 1 10] = Some s1 /\ queue s1 = [10] /\
              step s1 LRecv = None /\ lookup 1 (prods s1) = Some true) /\
  (exists s, exec init l = Some s /\
             gots s = [[10; 20]; [30]] /\ queue s = [] /\
             prods s = [] /\ chan s = false /\ cons s = CWait /\
             put_order l = [10; 20; 30]) /\
  Forall loop_label [LPutSend 1; LRecv; LGet; LPutSend 2].
Proof.
  cbv zeta. split; [|split].
  - eexists. split; [vm_compute; reflexivity|]. vm_compute. repeat split; reflexivity.
  - eexists. split; [vm_compute; reflexivity|]. vm_compute. repeat split; reflexivity.
  - repeat constructor.
Qed.

(* the lock model is not vacuous either: two threads, two mutexes of
   different classes taken in rank order reach a state where one thread
   waits for the other -- a wait, not a cycle *)
Example C13_example_lock_model :
  exists s : lstate nat nat,
    lreachable nat nat string ex_cls Edge s /\
    waiting nat nat s 0%nat 1%nat /\ held nat nat s 1%nat 1%nat /\ held nat nat s 0%nat 0%nat.
Proof. exact lock_model_example. Qed.

(* and the generated tables are populated (see Proofs/Locks.v) *)
Example C13_tables_populated :
  has_access "group.Group.clients" "write" "group.AddClient" = true /\
  has_edge "group.groups.mu" "group.Group.mu" = true /\
  has_obligation "group.autoLockKick" "group.DelClient" "group.Group.mu" = true.
Proof.
  destruct tables_populated as (H1 & _ & _ & _ & _ & _ & H2 & _ & _ & H3 & _).
  exact (conj H1 (conj H2 H3)).
Qed.

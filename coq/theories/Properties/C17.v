(* C17  The admin API acts only for administrators and never reveals secrets.
   Statements only; every proof is [exact lemma].
   Model: Model/Api.v (tied to webserver/api.go, group/description.go and the
   checks of webserver.go/util.go by the `api` correspondence driver, which
   runs the real handler through net/http/httptest), and the route table
   Generated/Routes.v (regenerated from webserver/api.go on every run).
   [H] is the password-hash oracle (type, clear text) -> stored key. *)
From Coq Require Import List String Bool ZArith.
From Galene Require Import Generated.Routes Model.Api.
From Galene Require Import Proofs.ApiGate Proofs.ApiAuth Proofs.ApiSecret Proofs.ApiPreserve Proofs.ApiCurrent.
Import ListNotations.
Open Scope string_scope.

(* ------------------------------------------------------------------ *)
(* 1. the gate, on the code's own branch structure (finite)             *)

(* Every row of the table extracted from api.go -- every call into the
   packages group/token/stats, every sendJSON, every other call that is not
   known to be harmless, every 404/405 leaf, every delegation -- satisfies
   [route_ok]: it is a 404 leaf, or a delegation to a handler that is itself
   in the table (and checked from no guard), or it is dominated by
   checkAdmin of the right scope ("" for server-wide data, g for data of
   group g; a token fetched by name only after its group was compared with
   g); the password endpoint of a named user alone accepts
   checkAdminOrExplicitPassword.  And it comes after the preflight
   short-cut.  An added endpoint without a check makes this fail. *)
Theorem C17_gate : forall r, In r routes -> route_ok r = true /\ cors_ok r = true.
Proof. exact routes_ok. Qed.
Print Assumptions C17_gate.

Theorem C17_gate_meaning : forall r, route_ok r = true ->
  rt_guard r <> g_unknown /\
  (is_notfound r = true \/ is_delegation r = true \/
   admin_guard (rt_guard r) = true \/
   (rt_guard r = g_admin_or_own_password /\ rt_nonwild r = true /\
    (rt_effect r = "group.SetUserPassword" \/ rt_effect r = "methodNotAllowed"))).
Proof. exact route_ok_meaning. Qed.
Print Assumptions C17_gate_meaning.

(* the table is about the handler mounted at /galene-api/, every handler it
   reaches has rows, checkAdmin asks isAdminOrExplicitPassword for no user and
   checkAdminOrExplicitPassword for the addressed user *)
Theorem C17_gate_table : table_ok = true.
Proof. exact table_ok_true. Qed.
Print Assumptions C17_gate_table.

(* ------------------------------------------------------------------ *)
(* 2. refused requests: for ALL environments, requests and credentials  *)

(* A request other than a preflight whose credentials do not pass the check
   of its route is answered 401 or 404 with a fixed body, and nothing is
   changed. *)
Theorem C17_refuse : forall H e req,
  r_method req <> "OPTIONS" ->
  authorised H e (route_of_path (r_path req)) (r_creds req) = false ->
  refused e (handle H e req).
Proof. intros H e req Hm Ha. exact (refuse H e _ _ _ _ Hm Ha). Qed.
Print Assumptions C17_refuse.

(* a preflight has no effect and carries no data *)
Theorem C17_preflight : forall H e req,
  r_method req = "OPTIONS" ->
  fst (handle H e req) = e /\
  (rs_body (snd (handle H e req)) = BOEmpty \/ rs_body (snd (handle H e req)) = BOFixed).
Proof. intros H e req Hm. exact (preflight H e _ _ _ _ Hm). Qed.
Print Assumptions C17_preflight.

(* ------------------------------------------------------------------ *)
(* 3. which credentials pass the check, for which scope                 *)

Theorem C17_credentials_none : forall H e g, is_admin H e g CNone = false.
Proof. exact cred_none. Qed.
Print Assumptions C17_credentials_none.

(* a server administrator passes everywhere *)
Theorem C17_credentials_server_admin : forall H e g user u p,
  global_admin_match H e u p = Some true ->
  is_admin_or_explicit H e g user (CBasic u p) = true.
Proof. exact cred_server_admin. Qed.
Print Assumptions C17_credentials_server_admin.

(* at the server scope (.stats, the list of groups, global tokens) Basic
   credentials count only through config.json: no group administrator *)
Theorem C17_credentials_server_scope : forall H e u p,
  is_admin H e "" (CBasic u p) = true <-> global_admin_match H e u p = Some true.
Proof. exact cred_basic_global. Qed.
Print Assumptions C17_credentials_server_scope.

(* at a group scope, exactly a user (or the wildcard user) of the description
   the group resolves to, with matching password, valid name and "admin" *)
Theorem C17_credentials_group_scope : forall H e g u p,
  g <> "" -> global_admin_match H e u p = Some false ->
  is_admin H e g (CBasic u p) =
  match get_description e g with
  | None => false
  | Some (d, _) =>
      match get_password_permission H d u p with
      | Some ps => valid_username u && mem "admin" (perm_list (Some d) ps)
      | None => false
      end
  end.
Proof. exact cred_basic_group. Qed.
Print Assumptions C17_credentials_group_scope.

(* never an ordinary user of the group *)
Theorem C17_credentials_ordinary_user : forall H e g u p d sub ud,
  global_admin_match H e u p = Some false ->
  get_description e g = Some (d, sub) ->
  assoc_get (d_users d) u = Some ud ->
  mem "admin" (perm_list (Some d) (u_perms ud)) = false ->
  is_admin H e g (CBasic u p) = false.
Proof. exact cred_ordinary_user. Qed.
Print Assumptions C17_credentials_ordinary_user.

(* never another group's administrator: the decision for g reads only
   config.json, the token store and the description g resolves to ... *)
Theorem C17_credentials_local : forall H e1 e2 g user c,
  e_conf e1 = e_conf e2 -> e_tokens e1 = e_tokens e2 ->
  get_description e1 g = get_description e2 g ->
  is_admin_or_explicit H e1 g user c = is_admin_or_explicit H e2 g user c.
Proof. exact cred_local. Qed.
Print Assumptions C17_credentials_local.

(* ... so a name that is neither in config.json nor a user of g, where the
   wildcard user of g (if any) is no administrator, is refused *)
Theorem C17_credentials_foreign_user : forall H e g u p,
  assoc_get (e_conf e) u = None ->
  (forall d sub, get_description e g = Some (d, sub) ->
     assoc_get (d_users d) u = None /\
     match d_wildcard d with
     | Some w => mem "admin" (perm_list (Some d) (u_perms w)) = false
     | None => True end) ->
  is_admin H e g (CBasic u p) = false.
Proof. exact cred_foreign_user. Qed.
Print Assumptions C17_credentials_foreign_user.

(* bearer tokens at a group scope *)
Theorem C17_credentials_bearer : forall H e g b,
  g <> "" ->
  is_admin H e g (CBearer b) =
  match get_description e g with
  | None => false
  | Some (d, _) =>
      let r := parse_token e (d_keys d) b in
      negb (needs_username r) &&
      match tok_check r g with
      | Some (un, ps) => valid_username un && mem "admin" ps
      | None => false
      end
  end.
Proof. exact cred_bearer_group. Qed.
Print Assumptions C17_credentials_bearer.

(* never an out-of-scope, expired or non-admin stored token; never an unknown one *)
Theorem C17_credentials_token_scope : forall H e g s t,
  find_token (e_tokens e) s = Some t ->
  st_match t g = false \/ st_time_ok t = false \/ mem "admin" (st_perms t) = false ->
  is_admin H e g (CBearer (BName s)) = false.
Proof. exact cred_token_out_of_scope. Qed.
Print Assumptions C17_credentials_token_scope.

Theorem C17_credentials_token_unknown : forall H e g s,
  find_token (e_tokens e) s = None -> is_admin H e g (CBearer (BName s)) = false.
Proof. exact cred_token_unknown. Qed.
Print Assumptions C17_credentials_token_unknown.

(* a JWT: only under a key of the addressed group, with that group in its
   audience and "admin"; never at the server scope *)
Theorem C17_credentials_jwt : forall H e g j,
  is_admin H e g (CBearer (BJwt j)) = true ->
  g <> "" /\ exists d sub, get_description e g = Some (d, sub) /\
  mem (j_key j) (d_keys d) = true /\ j_claims_ok j = true /\
  existsb (fun a => fst a && match_group (snd a) g (j_subgroups j)) (j_aud j) = true /\
  mem "admin" (j_perms j) = true.
Proof. exact cred_jwt. Qed.
Print Assumptions C17_credentials_jwt.

(* the only exception: the password endpoint of a named user also accepts
   Basic credentials that present the current password of that user *)
Theorem C17_credentials_own_password : forall H e g user c,
  is_admin_or_explicit H e g user c = true -> is_admin H e g c = false ->
  user <> "" /\ g <> "" /\ has_basic c = true /\
  exists d sub ud, get_description e g = Some (d, sub) /\
    assoc_get (d_users d) user = Some ud /\
    pw_match H (u_password ud) (cred_password c) = Some true.
Proof. exact cred_own_password. Qed.
Print Assumptions C17_credentials_own_password.

(* without Basic credentials (no Authorization header, or a bearer token) the
   exception never applies: the password check is the administrator check,
   whatever the stored password of the user is -- type "wildcard" and the
   empty password included (F25, fixed by b111378) *)
Theorem C17_own_password_needs_credentials : forall H e g user c,
  has_basic c = false ->
  is_admin_or_explicit H e g user c = is_admin H e g c.
Proof. exact own_password_needs_credentials. Qed.
Print Assumptions C17_own_password_needs_credentials.

Theorem C17_own_password_no_credentials : forall H e g user,
  is_admin_or_explicit H e g user CNone = false.
Proof. exact own_password_no_credentials. Qed.
Print Assumptions C17_own_password_no_credentials.

(* ------------------------------------------------------------------ *)
(* 4. secrecy                                                           *)

(* every description placed in a response has no users, wildcard user or
   keys; every user value has its password cleared *)
Theorem C17_no_secret_out : forall H e req, body_clean (rs_body (snd (handle H e req))).
Proof. intros H e req. exact (no_secret_out H e _ _ _ _). Qed.
Print Assumptions C17_no_secret_out.

(* the whole response depends on the passwords and keys of the environment
   only through the outcome of the route's check *)
Theorem C17_response_public : forall H e1 e2 s m c1 c2 b,
  public_env e1 = public_env e2 ->
  authorised H e1 s c1 = authorised H e2 s c2 ->
  snd (dispatch H e1 s m c1 b) = snd (dispatch H e2 s m c2 b).
Proof. exact response_public. Qed.
Print Assumptions C17_response_public.

(* ------------------------------------------------------------------ *)
(* 5. updates keep what they do not address: all sequences              *)

Theorem C17_preserve : forall l d,
  (forall name, never (fun x => addresses_user x name) l ->
     assoc_get (d_users (run_upds d l)) name = assoc_get (d_users d) name) /\
  (never addresses_wildcard l -> d_wildcard (run_upds d l) = d_wildcard d) /\
  (never addresses_keys l -> d_keys (run_upds d l) = d_keys d) /\
  (forall name pw, never (fun x => changes_password_of x name) l ->
     user_password d name = Some pw -> user_password (run_upds d l) name = Some pw) /\
  (forall pw, never changes_wildcard_password l ->
     wildcard_password d = Some pw -> wildcard_password (run_upds d l) = Some pw).
Proof.
  intros l d.
  exact (conj (fun name => preserve_users l d name)
        (conj (preserve_wildcard l d)
        (conj (preserve_keys l d)
        (conj (fun name pw => preserve_password l d name pw)
              (fun pw => preserve_wildcard_password l d pw))))).
Qed.
Print Assumptions C17_preserve.

(* and the handlers change the stored groups in no other way: a request
   leaves config.json alone, and either leaves the group files alone, or
   deletes the addressed group (DELETE .groups/g), or creates it without
   users and keys, or replaces it by the result of ONE update of [upd] *)
Theorem C17_updates_only : forall H e s m c b,
  let e' := fst (dispatch H e s m c b) in
  e_conf e' = e_conf e /\ e_writable e' = e_writable e /\
  match target s with
  | Some g => group_change e g (e_groups e')
  | None => e_groups e' = e_groups e
  end.
Proof. exact dispatch_step. Qed.
Print Assumptions C17_updates_only.

(* ... also when the update FAILS: if the store step fails (the temporary
   file cannot be created, written in full or synced, or the rename fails --
   [e_store_ok e = false]) no group file is altered, whatever the request; the
   only change left is the deletion of the addressed group, which writes
   nothing.  (C17_updates_only covers both outcomes: a creation or an update
   [gc_create], [gc_update] requires [e_store_ok e = true].) *)
Theorem C17_store_failure : forall H e s m c b,
  e_store_ok e = false ->
  let e' := fst (dispatch H e s m c b) in
  e_groups e' = e_groups e \/
  exists g, target s = Some g /\ e_groups e' = assoc_del (e_groups e) (clean_name g).
Proof. exact store_failure. Qed.
Print Assumptions C17_store_failure.

(* and the failed store step is answered with an error, not 2xx *)
Theorem C17_store_failure_status : forall e g d r,
  e_writable e = true -> e_store_ok e = false -> rewrite_file e g d r = (e, r500).
Proof. exact rewrite_file_fails. Qed.
Print Assumptions C17_store_failure_status.

(* concurrent requests: the model takes a request as one atomic step.  The
   tie for that is the regenerated table: every function of
   group/description.go that rewrites or removes a group file takes
   groups.mu before it reads the description and releases it only on return
   (and the driver's lock-step and concurrent-pair streams).  Under it every
   concurrent execution of accepted updates is one of the sequences that
   C17_preserve quantifies over. *)
Theorem C17_updates_atomic : forall n l, In (n, l) update_functions -> l = true.
Proof. exact update_functions_locked. Qed.
Print Assumptions C17_updates_atomic.

(* ------------------------------------------------------------------ *)
(* 6. the check reads the CURRENT stored description                    *)

(* a revoked password no longer works: after an accepted password change of
   user u only a password that the new stored password matches passes *)
Theorem C17_revoked_password : forall H e g u pw p d d',
  g <> "" -> e_writable e = true -> e_store_ok e = true ->
  file_lookup e g = Some d -> set_password d u false pw = Some d' ->
  let e' := fst (do_set_password e g u false pw) in
  global_admin_match H e' u p = Some false ->
  pw_match H pw p <> Some true ->
  is_admin H e' g (CBasic u p) = false.
Proof. exact revoked_password. Qed.
Print Assumptions C17_revoked_password.

(* revoked permissions no longer work *)
Theorem C17_revoked_permission : forall H e g u nu p d d',
  g <> "" -> e_writable e = true -> e_store_ok e = true ->
  file_lookup e g = Some d -> update_user d u false nu = Some d' ->
  mem "admin" (perm_list (Some d') (u_perms nu)) = false ->
  let e' := set_groups e (assoc_set (e_groups e) (clean_name g) d') in
  global_admin_match H e' u p = Some false ->
  is_admin H e' g (CBasic u p) = false.
Proof. exact revoked_permission. Qed.
Print Assumptions C17_revoked_permission.

(* ------------------------------------------------------------------ *)
(* non-vacuity                                                          *)

Definition exH (t pw : string) : string := t ++ ":" ++ pw.
Definition plain (s : string) : password := Build_password "plain" (Some s) "" "" 0.
Definition ex_pub : pubdesc := Build_pubdesc "c" false false false.
Definition ex_g1 : description :=
  {| d_pub := ex_pub;
     d_users := [("alice", Build_user_desc (plain "SECRET-alice") (PNamed "op"));
                 ("bob", Build_user_desc (Build_password "bcrypt" (Some (exH "bcrypt" "SECRET-bob")) "" "" 0)
                           (PNamed "admin"))];
     d_wildcard := Some (Build_user_desc (Build_password "wildcard" None "" "" 0) (PNamed "present"));
     d_keys := ["KEY-1"] |}.
Definition ex_g2 : description :=
  {| d_pub := ex_pub;
     d_users := [("carol", Build_user_desc (plain "SECRET-carol") (PNamed "admin"))];
     d_wildcard := None; d_keys := [] |}.
Definition ex_env : env :=
  {| e_conf := [("root", Build_user_desc (plain "SECRET-root") (PNamed "admin"))];
     e_writable := true; e_store_ok := true;
     e_groups := [("g1", ex_g1); ("g2", ex_g2)];
     e_tokens := [Build_stoken "t1" "g1" false (Some "x") ["admin"] true;
                  Build_stoken "t2" "g2" false (Some "x") ["admin"] true] |}.
Definition ex_req (m p : string) (c : creds) (b : body_in) : request :=
  Build_request m p c b.
Definition nobody : body_in := Build_body_in CTNone PNothing.

(* the hypotheses of C17_refuse hold for an ordinary user, another group's
   administrator and an out-of-scope token, and do not hold for the group's
   administrator, the server administrator and the in-scope token, who get
   the sanitised description *)
Example C17_example_gate :
  let get c := handle exH ex_env (ex_req "GET" "/galene-api/v0/.groups/g1" c nobody) in
  let clean := resp 200 (BODesc (sanitise_desc ex_g1)) in
  authorised exH ex_env (SGroup "g1") (CBasic "alice" "SECRET-alice") = false /\
  get (CBasic "alice" "SECRET-alice") = (ex_env, r401) /\
  get (CBasic "carol" "SECRET-carol") = (ex_env, r401) /\
  get (CBearer (BName "t2")) = (ex_env, r401) /\
  get CNone = (ex_env, r401) /\
  get (CBasic "bob" "SECRET-bob") = (ex_env, clean) /\
  get (CBasic "root" "SECRET-root") = (ex_env, clean) /\
  get (CBearer (BName "t1")) = (ex_env, clean) /\
  handle exH ex_env (ex_req "GET" "/galene-api/v0/.groups/g1/.users" CNone nobody) = (ex_env, r404) /\
  handle exH ex_env (ex_req "OPTIONS" "/galene-api/v0/.groups/g1" CNone nobody) = (ex_env, r_options).
Proof. vm_compute. repeat split; reflexivity. Qed.

(* the password exception: alice may set her own password with her current
   one, not bob's; nothing else of the group changes *)
Example C17_example_password :
  let put u c := handle exH ex_env
     (ex_req "PUT" ("/galene-api/v0/.groups/g1/.users/" ++ u ++ "/.password") c
             (Build_body_in CTJson (PPassword (plain "new")))) in
  snd (put "alice" (CBasic "alice" "SECRET-alice")) = r204 /\
  (exists d, assoc_get (e_groups (fst (put "alice" (CBasic "alice" "SECRET-alice")))) "g1" = Some d /\
     user_password d "alice" = Some (plain "new") /\
     assoc_get (d_users d) "bob" = assoc_get (d_users ex_g1) "bob" /\
     d_wildcard d = d_wildcard ex_g1 /\ d_keys d = d_keys ex_g1) /\
  put "bob" (CBasic "alice" "SECRET-alice") = (ex_env, r401).
Proof.
  cbv zeta. split; [vm_compute; reflexivity|]. split.
  - eexists. split; [vm_compute; reflexivity|]. vm_compute. repeat split; reflexivity.
  - vm_compute. reflexivity.
Qed.

(* a sequence of updates that satisfies the hypotheses of C17_preserve for
   bob, the wildcard user and the keys *)
Example C17_example_preserve :
  let l := [UDesc (Build_desc_body (Build_pubdesc "new" true false false) false false false);
            UUser "alice" false (Build_user_desc empty_password (PNamed "present"));
            UPassword "alice" false (plain "p2");
            UUser "dave" false (Build_user_desc empty_password (PNamed "op"));
            UDelUser "dave" false;
            UDesc (Build_desc_body ex_pub true false false)] in
  never (fun x => addresses_user x "bob") l /\ never addresses_wildcard l /\
  never addresses_keys l /\ never (fun x => changes_password_of x "bob") l /\
  assoc_get (d_users (run_upds ex_g1 l)) "bob" = assoc_get (d_users ex_g1) "bob" /\
  user_password (run_upds ex_g1 l) "alice" = Some (plain "p2") /\
  u_perms (match assoc_get (d_users (run_upds ex_g1 l)) "alice" with
           | Some u => u | None => Build_user_desc empty_password PNone end) = PNamed "present" /\
  d_pub (run_upds ex_g1 l) = Build_pubdesc "new" true false false.
Proof.
  cbv zeta.
  assert (N : forall (P : upd -> bool) (l : list upd), forallb (fun x => negb (P x)) l = true -> never P l).
  { intros P l Hf x Hx. rewrite forallb_forall in Hf. specialize (Hf x Hx).
    destruct (P x); [discriminate|reflexivity]. }
  repeat split; try (apply N; vm_compute; reflexivity); vm_compute; reflexivity.
Qed.

(* regression for F25: a user whose stored password has type "wildcard" (or
   is the empty plain password) cannot have it replaced by a request without
   credentials or with a bearer token of another group; with Basic
   credentials any password is that user's current one *)
Example C17_example_wildcard_password_user :
  let d := {| d_pub := ex_pub;
              d_users := [("w", Build_user_desc (Build_password "wildcard" None "" "" 0) (PNamed "present"));
                          ("e", Build_user_desc (plain "") (PNamed "present"))];
              d_wildcard := None; d_keys := [] |} in
  let e := {| e_conf := []; e_writable := true; e_store_ok := true; e_groups := [("g", d)];
              e_tokens := [Build_stoken "t2" "g2" false (Some "x") ["admin"] true] |} in
  let put u c := handle exH e (ex_req "PUT" ("/galene-api/v0/.groups/g/.users/" ++ u ++ "/.password") c
                        (Build_body_in CTJson (PPassword (plain "taken")))) in
  put "w" CNone = (e, r401) /\ put "e" CNone = (e, r401) /\
  put "w" (CBearer (BName "t2")) = (e, r401) /\
  snd (put "w" (CBasic "w" "anything")) = r204 /\
  snd (put "e" (CBasic "e" "")) = r204.
Proof. vm_compute. repeat split; reflexivity. Qed.

(* a revoked password: bob (administrator of g1) gets a new password; the old
   one is refused afterwards, the new one accepted *)
Example C17_example_revoked_password :
  let e' := fst (handle exH ex_env
     (ex_req "PUT" "/galene-api/v0/.groups/g1/.users/bob/.password" (CBasic "root" "SECRET-root")
             (Build_body_in CTJson (PPassword (plain "fresh"))))) in
  is_admin exH ex_env "g1" (CBasic "bob" "SECRET-bob") = true /\
  is_admin exH e' "g1" (CBasic "bob" "SECRET-bob") = false /\
  is_admin exH e' "g1" (CBasic "bob" "fresh") = true.
Proof. vm_compute. repeat split; reflexivity. Qed.

(* a failing store step: the administrator's password update is answered 500
   and everything stored is as before *)
Example C17_example_store_failure :
  let e := {| e_conf := e_conf ex_env; e_writable := true; e_store_ok := false;
              e_groups := e_groups ex_env; e_tokens := e_tokens ex_env |} in
  handle exH e (ex_req "PUT" "/galene-api/v0/.groups/g1/.users/bob/.password" (CBasic "root" "SECRET-root")
                  (Build_body_in CTJson (PPassword (plain "fresh")))) = (e, r500) /\
  snd (handle exH ex_env (ex_req "PUT" "/galene-api/v0/.groups/g1/.users/bob/.password" (CBasic "root" "SECRET-root")
                  (Build_body_in CTJson (PPassword (plain "fresh"))))) = r204.
Proof. vm_compute. split; reflexivity. Qed.

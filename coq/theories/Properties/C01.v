(* C01  Forwarded sequence numbers stay gap-free, unique and ordered under drops.

   Model: Model/PacketMap.v, the statement-by-statement L0 transcription of
   packetmap/packetmap.go (ring of at most maxEntries intervals, every uint16
   wrap explicit), run against the real packetmap.Map by the `pmap` driver.

   Specification (Proofs/PacketMapSpec.v, [spec_step]): unbounded numbers.  The
   state is the unwrapped next expected number and the set D of withheld
   numbers; an arrival with 16-bit number s denotes the number r congruent to
   s closest to next (the server sees 16 bits only).  If r is more than the
   re-synchronisation window away the numbering restarts; otherwise
     - Drop succeeds exactly when r = next, and then r joins D;
     - an arrival r >= next is forwarded as (out D r) mod 2^16, where
       out D r = r - |{d in D | d < r}|;
     - a late arrival or duplicate r < next is never forwarded if r is in D,
       and if it is forwarded it carries (out D r) mod 2^16, the same number as
       any other copy;
     - Reverse(o) answers nothing, or a source number S not in D with
       (out D S) mod 2^16 = o.
   Statements only; proofs are [exact]. *)
From Coq Require Import ZArith List Bool.
From Galene Require Import Lib.Word Generated.Consts Model.Layers Model.Forward Proofs.ForwardProps.
From Galene Require Import Model.PacketMap.
From Galene Require Import Proofs.PacketMapGhost Proofs.PacketMapView Proofs.PacketMapSpec Proofs.PacketMapOut.
Import ListNotations.
Open Scope Z_scope.

(* For EVERY sequence of Map/Drop/Reverse calls with 16-bit arguments, from a
   fresh map, every result of the L0 model is one the specification allows:
   any start number, wrap-around, loss, duplicates, reordering, any drop
   pattern, any number of intervals, with the numbering restarting at each
   re-synchronisation. *)
Theorem C01_refines_spec : forall ops,
  Forall wf_op16 ops -> sat_outs SInit ops (run0 pm_init ops).
Proof. exact L0_refines_spec. Qed.
Print Assumptions C01_refines_spec.

(* the ring of intervals is only a representation: L0 and the list model L1
   produce the same results *)
Theorem C01_ring_is_list : forall ops m, WfRing m -> run0 m ops = run1 (abs m) ops.
Proof. exact L0_refines_L1. Qed.
Print Assumptions C01_ring_is_list.

(* What the specification's numbering means. *)
(* withheld packets leave no gap, forwarded ones take consecutive numbers *)
Theorem C01_no_gap : forall D r, NoDup D ->
  out D (r + 1) = out D r + (if existsb (Z.eqb r) D then 0 else 1).
Proof. exact out_succ. Qed.
Print Assumptions C01_no_gap.

(* source order is preserved *)
Theorem C01_order_preserved : forall D a b, NoDup D -> a < b -> ~ In a D -> out D a < out D b.
Proof. exact out_strict. Qed.
Print Assumptions C01_order_preserved.

(* two different forwarded packets never share a number *)
Theorem C01_injective : forall D a b, NoDup D -> ~ In a D -> ~ In b D -> out D a = out D b -> a = b.
Proof. exact out_inj. Qed.
Print Assumptions C01_injective.

(* rtpDownTrack.Write (Model/Forward.v): the number in bytes 2-3 of a packet
   that is sent is the number the packet map assigned to it by Map, after a
   Drop attempt that did not withhold it; so the statements above are about
   the numbers receivers see *)
Theorem C01_write_number : forall vp8 st f buf d, bytes_ok buf ->
  nth 2 buf 0 * 256 + nth 3 buf 0 = f_seqno f ->
  snd (fst (write vp8 st f buf)) = WSent d ->
  exists m1 newseq pd m2,
    (m1 = fs_map st \/ exists p, pm_drop (fs_map st) (f_seqno f) (f_pid f) = (false, m1) /\ p = tt) /\
    pm_map m1 (f_seqno f) (f_pid f) = ((true, newseq, pd), m2) /\
    (0 <= newseq < 65536 -> nth 2 d 0 * 256 + nth 3 d 0 = newseq).
Proof. exact write_number. Qed.
Print Assumptions C01_write_number.

(* the constants the proofs were made for are the ones in the source *)
Theorem C01_constants : window = 8192 /\ retireAge = 16384 /\ 1 <= maxEntries /\
  forallb (Z.eqb window) window_literals = true.
Proof. exact (conj window_val (conj retireAge_val (conj maxEntries_pos window_literals_ok))). Qed.
Print Assumptions C01_constants.

(* non-vacuity: a concrete history across the wrap: 65534 forwarded, 65535
   withheld, 0 forwarded as 65535, the late copy of 65535 refused, a duplicate
   of 0 gets 65535 again, 1 forwarded as 0; NACK of 65535 names source 0. *)
Example C01_example :
  run0 pm_init [OMap 65534 7; ODrop 65535 8; OMap 0 9; OMap 65535 8; OMap 0 9; OMap 1 9; OReverse 65535]
  = [RTriple true 65534 0; RBool true; RTriple true 65535 1; RTriple false 0 0;
     RTriple true 65535 1; RTriple true 0 1; RTriple true 0 1].
Proof. vm_compute. reflexivity. Qed.

(* C11  Every privileged action requires its permission; non-members hold none.
   Statements only; every proof is [exact lemma].  Model: Model/Signal.v
   (rtpconn/webclient.go handleClientMessage/handleAction/leaveGroup and the
   group functions they call; tied to the code by the `sig` correspondence
   driver and by the translator gen/guards.go -> Generated/Guards.v) and
   Model/Whip.v (webserver/whip.go).  The SPECIFICATION table [spec] in
   Proofs/SignalAuth.v is written by hand from the property text; the
   permissions the model tests come from the generated table. *)
From Coq Require Import ZArith List Bool String.
From Galene Require Import Generated.Guards Model.Signal Model.Whip.
From Galene Require Import Proofs.SignalFrame Proofs.SignalSafe Proofs.SignalAuth Proofs.WhipAuth.
Import ListNotations.
Open Scope string_scope.

(* The finite table: for all 2^6 subsets P of {op, present, message, caption,
   record, token} given to the subject by the group description, for all six
   membership states (never joined; join refused because the group is locked,
   the password is wrong, or the id is taken; member; left), the state being
   REACHED BY RUNNING THE MODEL, and for all (type, kind) pairs the code
   distinguishes (the rows of the generated table): if the model gets past
   the guards of a privileged message, the sender is a member and holds what
   the specification demands. *)
Theorem C11_table : forall P st t k w c r req,
  In P (sublists all_perms) -> In (t, k) msg_kinds ->
  run_ops empty_world (scenario_ops P st) = Some w ->
  get_client w subject = Some c ->
  spec_required t k = Some req ->
  handle_client_message w subject c (canon_msg t k) = Ok r ->
  r_auth r = Passed ->
  c_group c <> None /\ subset req (c_perms c) = true.
Proof. exact table. Qed.
Print Assumptions C11_table.

(* The same for EVERY reachable state (any groups, clients, histories,
   schedules, negotiation outcomes), every client and every message: *)
Theorem C11_guarded : forall ops w h c m r req,
  run_ops empty_world ops = Some w -> get_client w h = Some c ->
  handle_client_message w h c m = Ok r -> r_auth r = Passed ->
  spec_required (m_type m) (m_kind m) = Some req ->
  c_group c <> None /\ subset req (c_perms c) = true.
Proof. exact guarded_reachable. Qed.
Print Assumptions C11_guarded.

(* A client that is not currently a member (never joined, join refused for
   whatever reason, left, kicked, moderated after leaving) holds no
   permission: invariant over all operation sequences. *)
Theorem C11_nonmember_none : forall ops w h c,
  run_ops empty_world ops = Some w -> get_client w h = Some c ->
  c_group c = None -> c_perms c = [].
Proof. exact nonmember_none. Qed.
Print Assumptions C11_nonmember_none.

(* Tokens.  Whatever message a client sends in whatever state, the token
   store is unchanged, or one token is appended by `maketoken` - for the
   creator's own group, under a name chosen by the server, with an expiry,
   granting only permissions the creator holds (and the creator holds what
   the generated table requires for maketoken), for a username that is not a
   configured user -, or one token OF THE MEMBER'S OWN GROUP has its validity
   window edited by `edittoken`. *)
Theorem C11_delegate : forall w h c m r,
  handle_client_message w h c m = Ok r -> tok_change w c m (r_world r).
Proof. exact message_tokens. Qed.
Print Assumptions C11_delegate.

(* Token listing and editing reach only tokens of the member's own group:
   the tokens of every other group are the same before and after any
   message, and the reply to listtokens is the list of the own group. *)
Theorem C11_token_scope : forall w h c m r g',
  handle_client_message w h c m = Ok r -> c_group c <> Some g' ->
  tokens_of g' (r_world r) = tokens_of g' w.
Proof. exact token_scope. Qed.
Print Assumptions C11_token_scope.

Theorem C11_token_list : forall w h c m r g,
  c_group c = Some g -> m_kind m = "listtokens" ->
  handle_groupaction w h c m = Ok r -> r_auth r = Passed ->
  r_world r = send w h (mkOut "usermessage" "tokenlist" "" "" "" None true
                              (map t_name (tokens_of g w)) "" "" "" false).
Proof. exact listtokens_reply. Qed.
Print Assumptions C11_token_list.

(* Revocation.  (1) Only the loop of client h changes the group and the
   permissions of h: whatever another client's loop does (in particular an
   operator's useraction) leaves them alone - the change is queued. *)
Theorem C11_revocation_own_loop : forall w h w' r o,
  (o = OpPump h \/ o = OpDisconnect h \/ exists m, o = OpMsg h m) ->
  step w o = Running w' r -> gp_frame (Some h) w w'.
Proof. exact own_loop_only. Qed.
Print Assumptions C11_revocation_own_loop.

(* (2) When the target serves the queued change in the group in which it was
   issued, its permission set IS the new set from that moment (every guard
   reads c_perms), and the notification is queued right behind; in any other
   group, or in none, the change is ignored. *)
Theorem C11_revocation_applied : forall w h c g kind r,
  get_client w h = Some c -> c_group c = Some g ->
  handle_action w h c (AChangePerms g kind) = Ok r -> r_err r = ENone ->
  exists p' c',
    change_perms (match find_group w g with Some gr => d_allowrec (g_desc gr) | None => false end)
                 kind (c_perms c) = Some p' /\
    get_client (r_world r) h = Some c' /\
    c_perms c' = p' /\ c_group c' = Some g /\ c_queue c' = app (c_queue c) [APermsChanged].
Proof. exact change_applied. Qed.
Print Assumptions C11_revocation_applied.

Theorem C11_revocation_other_group : forall w h c g kind r,
  c_group c <> Some g ->
  handle_action w h c (AChangePerms g kind) = Ok r -> r_world r = w /\ r_err r = ENone.
Proof. exact change_ignored_elsewhere. Qed.
Print Assumptions C11_revocation_other_group.

(* (3) The notification (joined/change) carries exactly the set the guards
   read, and a client whose set lacks `present` has no up stream left once
   it has been notified. *)
Theorem C11_revocation_notified : forall w h c g r,
  get_client w h = Some c -> c_group c = Some g ->
  handle_action w h c APermsChanged = Ok r ->
  let w1 := send w h (out_joined "change" g (c_username c) (c_perms c) "" "" (locked_flag w g)) in
  let w2 := if mem "present" (c_perms c) then w1 else drop_all_ups (c_up c) w1 h c in
  r_world r = push_client_all w2 g (members w2 g) "change" (c_id c) (c_username c) (c_perms c) (c_data c) /\
  r_err r = ENone /\
  exists c', get_client (r_world r) h = Some c' /\
    c_perms c' = c_perms c /\
    (mem "present" (c_perms c) = false -> c_up c' = []).
Proof. exact notified. Qed.
Print Assumptions C11_revocation_notified.

(* (4) The revocation is effective (b21f80e): once the target's loop has
   applied unpresent / shutup / unop, the permission is not in its list, for
   EVERY previous list, lists with duplicated entries included (a token made
   by maketoken may grant [present; present]). *)
Theorem C11_revocation_effective : forall w h c g kind r,
  get_client w h = Some c -> c_group c = Some g ->
  handle_action w h c (AChangePerms g kind) = Ok r -> r_err r = ENone ->
  exists c', get_client (r_world r) h = Some c' /\
    (kind = "unpresent" -> mem "present" (c_perms c') = false) /\
    (kind = "shutup" -> mem "message" (c_perms c') = false) /\
    (kind = "unop" -> mem "op" (c_perms c') = false /\ mem "record" (c_perms c') = false).
Proof. exact revocation_effective. Qed.
Print Assumptions C11_revocation_effective.

(* X3: the list a member holds after joining with a token minted with
   duplicated permissions *)
Example C11_example_X3 :
  change_perms false "unpresent" ["present"; "present"; "message"; "message"]
    = Some ["message"; "message"] /\
  change_perms false "shutup" ["present"; "present"; "message"; "message"]
    = Some ["present"; "present"] /\
  change_perms true "unop" ["op"; "record"; "op"; "message"; "record"] = Some ["message"].
Proof. vm_compute. repeat split; reflexivity. Qed.

(* WHIP: an ingest session is created only with credentials that were
   let in with `present` (every refusal leaves no session), and a later
   request on a session created with a bearer token is served only if it
   carries that token. *)
Theorem C11_whip_create : forall st g tok adm sdp id st' s,
  whip_create st g tok adm sdp id = (st', s) ->
  (s = W201 /\ st' = mkSession id g tok :: st /\
   exists perms, adm = Some perms /\ In "present" perms) \/
  (s <> W201 /\ st' = st).
Proof. exact whip_create_needs_present. Qed.
Print Assumptions C11_whip_create.

Theorem C11_whip_resource : forall st g id bearer meth st' s sess,
  find_session st g id = Some sess -> ws_token sess <> "" ->
  whip_resource st g id bearer meth = (st', s) ->
  s = WServed -> bearer = ws_token sess.
Proof. exact whip_resource_needs_token. Qed.
Print Assumptions C11_whip_resource.

(* The full statement of the property for WHIP ("later requests must present
   the same bearer token") is FALSE of the code for sessions created without
   a bearer token (user "whip" let in with an empty password): they are
   served whatever token a request carries. *)
Definition C11_whip_full_statement : Prop :=
  forall st g id bearer meth st' s sess,
    find_session st g id = Some sess ->
    whip_resource st g id bearer meth = (st', s) ->
    s = WServed -> bearer = ws_token sess.
Theorem C11_whip_tokenless_open : forall st g id bearer sess,
  find_session st g id = Some sess -> ws_token sess = "" ->
  snd (whip_resource st g id bearer MPatch) = WServed.
Proof. exact whip_tokenless_session_open. Qed.
Print Assumptions C11_whip_tokenless_open.

(* Non-vacuity.  The hypotheses of C11_table are satisfiable with a
   non-trivial outcome: an operator member locks the group (guards passed);
   a presenter refused by a locked group holds nothing and its offer is
   refused; the generated table is the expected size. *)
Example C11_example :
  (exists w c r,
     run_ops empty_world (scenario_ops ["op"; "message"] SMember) = Some w /\
     get_client w subject = Some c /\ c_group c = Some "g" /\ c_perms c = ["op"; "message"] /\
     handle_client_message w subject c (canon_msg "groupaction" "lock") = Ok r /\
     r_auth r = Passed /\ locked_flag (r_world r) "g" = true /\ locked_flag w "g" = false) /\
  (exists w c r,
     run_ops empty_world (scenario_ops ["present"; "message"] SRefusedLocked) = Some w /\
     get_client w subject = Some c /\ c_group c = None /\ c_perms c = [] /\
     c_username c = "subj" /\
     handle_client_message w subject c (canon_msg "offer" "") = Ok r /\ r_auth r = NotAuth) /\
  (exists w c r,
     run_ops empty_world (scenario_ops ["token"; "message"] SMember) = Some w /\
     get_client w subject = Some c /\
     handle_client_message w subject c (canon_msg "groupaction" "maketoken") = Ok r /\
     r_auth r = Passed /\ List.length (w_tokens (r_world r)) = 1%nat) /\
  List.length guards = 36%nat /\ List.length (sublists all_perms) = 64%nat /\
  spec_required "groupaction" "edittoken" = Some ["op"; "token"] /\
  spec_required "join" "join" = None.
Proof.
  split; [|split; [|split]].
  - eexists. eexists. eexists. vm_compute. repeat split; reflexivity.
  - eexists. eexists. eexists. vm_compute. repeat split; reflexivity.
  - eexists. eexists. eexists. vm_compute. repeat split; reflexivity.
  - vm_compute. repeat split; reflexivity.
Qed.

(* C04  Layers above the selection are withheld; switches occur only at legal
   points.  Model/Layers.v (the layerInfo word, the layer part of
   rtpDownTrack.Write, adjustLayer, updateRate, the layer update of
   replaceTracks), Model/Forward.v.  The code changes the layer word only
   through updateLayerInfo (compare-and-swap), so every schedule of the three
   goroutines that touch it is a list of the atomic events of
   Proofs/LayersAtomic.v; [C04_schedules], [C04_schedule_steps] and
   [C04_limit_never_lost] quantify over all such lists.  (Before the fix of
   finding F14 the word was updated by load-modify-store and a request could
   be lost.) *)
From Coq Require Import ZArith List Bool.
From Galene Require Import Lib.Word Generated.Consts Model.PacketMap Model.Layers Model.Forward.
From Galene Require Import Proofs.Layers Proofs.LayersAtomic Proofs.ForwardProps.
From Galene Require Import Model.Rewrite Model.Flags Proofs.FlagsCodec.
Import ListNotations.
Open Scope Z_scope.

(* Over ALL interleaved lists of packets (any flags with tid, sid < 16),
   bandwidth-feedback adjustments (any rate and maximum) and request changes:
   the selected layers never exceed the highest layers seen, everything fits
   the 4-bit fields, and a low-quality request keeps wantedSid = 0. *)
Theorem C04_bounds : forall es, Forall wf_event es -> LInv (lrun layer0 es).
Proof. intros es H. exact (lrun_LInv es layer0 H LInv_layer0). Qed.
Print Assumptions C04_bounds.

(* One packet, in any reachable state: the spatial layer changes only at the
   first packet of a keyframe (or eagerly when a new top layer first appears
   and the receiver is at the top); the temporal layer falls only at the start
   of a frame and rises only at a keyframe or at an up-switch point for a layer
   not above the wanted one (or eagerly); what is marked for withholding is
   exactly what lies above the selection (or is a non-reference lower spatial
   layer). *)
Theorem C04_switch_points : forall l f r m,
  LInv l -> 0 <= f_tid f < 16 -> 0 <= f_sid f < 16 ->
  let '(l', drop, kf) := write_layer l f r m in
  LInv l' /\
  (sid l' <> sid l -> (f_start f = true /\ f_keyframe f = true) \/ eager_s l f) /\
  (tid l' < tid l -> f_start f = true) /\
  (tid l < tid l' -> eager_t l f \/
      (f_start f = true /\ (f_keyframe f = true \/
                            (f_tidUpSync f = true /\ tid l' = f_tid f /\ f_tid f <= wantedTid l')))) /\
  (maxSid l <= maxSid l' /\ maxTid l <= maxTid l') /\
  limitSid l' = limitSid l /\
  drop = ((tid l' <? f_tid f) || (sid l' <? f_sid f) || ((f_sid f <? sid l') && f_sidNonReference f)).
Proof. exact write_layer_spec. Qed.
Print Assumptions C04_switch_points.

(* feedback and request changes never move the current layers *)
Theorem C04_only_packets_switch : forall l e, (forall f r m, e <> EWrite f r m) ->
  sid (lstep l e) = sid l /\ tid (lstep l e) = tid l.
Proof. exact nonwrite_keeps_current. Qed.
Print Assumptions C04_only_packets_switch.

(* a packet above the selection that arrives in order is withheld *)
Theorem C04_withhold : forall vp8 st f buf,
  m_started (fs_map st) = true -> f_seqno f = m_next (fs_map st) ->
  snd (fst (write_decision st f)) = true ->
  snd (fst (write vp8 st f buf)) = WNone.
Proof. exact write_withholds. Qed.
Print Assumptions C04_withhold.

(* low quality from a non-simulcast publisher: the request sets wantedSid = 0,
   it survives every packet, and the first packet of the next keyframe brings
   the receiver to spatial layer 0 *)
Theorem C04_limit : forall l f r m, LInv l -> 0 <= f_tid f < 16 -> 0 <= f_sid f < 16 ->
  limitSid l = true ->
  let l' := fst (fst (write_layer l f r m)) in
  limitSid l' = true /\ wantedSid l' = 0 /\
  (f_start f = true -> f_keyframe f = true -> sid l' = 0).
Proof. exact limit_kept_and_applied. Qed.
Print Assumptions C04_limit.

(* the loss-based bitrate ceiling stays within its fixed bounds for every
   previous value (including "stale" = 2^64-1), loss value and actual rate *)
Theorem C04_rate_bounds : forall rate0 loss actual,
  0 <= rate0 < 18446744073709551616 -> 0 <= loss < 256 ->
  minLossRate <= update_rate rate0 loss actual <= maxLossRate.
Proof. exact update_rate_bounds. Qed.
Print Assumptions C04_rate_bounds.

(* ---- all schedules ---- *)

(* one uninterrupted Write is the atomic events AW1; AAdj; AW2 (AW2 alone
   when no new top layer appears): this ties the atomic events to
   [write_layer], which the correspondence check compares with the code *)
Theorem C04_write_is_atomic_events : forall l f r m,
  LInv l -> 0 <= f_tid f < 16 -> 0 <= f_sid f < 16 ->
  fst (fst (write_layer l f r m)) =
  arun l (if (maxTid l <? f_tid f) || (maxSid l <? f_sid f)
          then [AW1 f; AAdj r m; AW2 f] else [AW2 f]).
Proof. exact write_layer_arun. Qed.
Print Assumptions C04_write_is_atomic_events.

(* over ALL lists of atomic events (every interleaving of the writer's two
   closures with the RTCP listener's adjustments and with request changes):
   the bounds hold *)
Theorem C04_schedules : forall es, Forall wf_aevent es -> LInv (arun layer0 es).
Proof. intros es H. exact (arun_LInv es layer0 H LInv_layer0). Qed.
Print Assumptions C04_schedules.

(* and every single atomic event moves the current layers only at a legal
   point: the spatial layer only in the writer's second closure at the first
   packet of a keyframe (or eagerly in its first closure), the temporal layer
   down only at the start of a frame, up only at a keyframe or an up-switch
   point not above the wanted layer (or eagerly); the low-quality request
   changes only when the client changes it *)
Theorem C04_schedule_steps : forall l e, wf_aevent e -> LInv l ->
  let l' := astep l e in
  (sid l' <> sid l ->
     (exists f, e = AW2 f /\ f_start f = true /\ f_keyframe f = true) \/
     (exists f, e = AW1 f /\ eager_s l f)) /\
  (tid l' < tid l -> exists f, e = AW2 f /\ f_start f = true) /\
  (tid l < tid l' ->
     (exists f, e = AW1 f /\ eager_t l f) \/
     (exists f, e = AW2 f /\ f_start f = true /\
        (f_keyframe f = true \/ (f_tidUpSync f = true /\ tid l' = f_tid f /\ f_tid f <= wantedTid l')))) /\
  (limitSid l' <> limitSid l -> exists b, e = ALim b) /\
  maxSid l <= maxSid l' /\ maxTid l <= maxTid l'.
Proof. exact astep_switch. Qed.
Print Assumptions C04_schedule_steps.

(* a low-quality request is never lost, whatever is interleaved after it, and
   the first packet of any later keyframe brings the receiver to layer 0 *)
Theorem C04_limit_never_lost : forall es l f,
  Forall wf_aevent es -> Forall not_unlimit es -> LInv l -> 0 <= f_tid f < 16 ->
  let l' := arun (astep l (ALim true)) es in
  limitSid l' = true /\ wantedSid l' = 0 /\
  (f_start f = true -> f_keyframe f = true -> sid (astep l' (AW2 f)) = 0).
Proof. exact limit_never_lost. Qed.
Print Assumptions C04_limit_never_lost.

(* ---- what the flags mean on the wire ---- *)

(* For EVERY VP8 payload descriptor (RFC 7741: N, S, partition index, optional
   7- or 15-bit picture id, TL0PICIDX, TID/Y, KEYIDX, any reserved bits), every
   RTP header without extension or padding (any CSRC count) and every codec
   payload: the flags that PacketFlags hands to Write are the descriptor's
   fields - a frame starts at S = 1 with partition index 0, a keyframe is a
   frame start whose first payload octet has its low bit clear, the temporal
   layer is TID, an up-switch point is a keyframe or Y = 1. *)
Theorem C04_flags_vp8 : forall b0 b1 b2 b3 cc tail d jt jk pl,
  hdr_ok b0 cc tail -> v8_wf d -> 0 <= jt < 8 -> 0 <= jk < 32 ->
  let start := e_s d && (e_partid d =? 0) in
  let kf := start && match pl with [] => false | h :: _ => negb (bit h 0) end in
  packet_flags CVP8 (b0 :: b1 :: b2 :: b3 :: tail ++ vp8_encode d jt jk ++ pl) =
  FOk (mkFlags (b2 * 256 + b3) (bit b1 7) start (bit b1 7) kf
               (match e_pic d with Some (_, p) => p | None => 0 end)
               (match e_tid d with Some (t, _) => t | None => 0 end) 0
               (kf || match e_tid d with Some (_, y) => y | None => false end) kf false)
      (e_n d).
Proof. exact packet_flags_vp8. Qed.
Print Assumptions C04_flags_vp8.

(* The same for VP9 (descriptor without scalability structure: I, P, L, F, B,
   E, Z, picture id, layer indices in both modes, one to three reference
   indices): start = B, end = E, layers = TID/SID, temporal up-switch = U,
   spatial up-switch = not inter-picture predicted. *)
Theorem C04_flags_vp9 : forall b0 b1 b2 b3 cc tail d pl,
  hdr_ok b0 cc tail -> v9_wf d ->
  let kf :=
    match pl with
    | h :: _ =>
      if n_b d && (bits h 6 2 =? 2) then
        if negb (bits h 4 2 =? 3) then bits h 2 2 =? 0 else bits h 1 2 =? 0
      else false
    | [] => false
    end in
  packet_flags CVP9 (b0 :: b1 :: b2 :: b3 :: tail ++ vp9_encode d ++ pl) =
  FOk (mkFlags (b2 * 256 + b3) (bit b1 7) (n_b d) (n_e d) kf 0
               (match n_layer d with Some (t, _, _, _, _) => t | None => 0 end)
               (match n_layer d with Some (_, _, s, _, _) => s | None => 0 end)
               (kf || match n_layer d with Some (_, u, _, _, _) => u | None => false end)
               (kf || negb (n_p d)) (n_z d))
      false.
Proof. exact packet_flags_vp9. Qed.
Print Assumptions C04_flags_vp9.

(* non-vacuity of the two: a first packet of a VP8 key frame on temporal
   layer 2 with a 15-bit picture id, and a VP9 packet on layers (1, 2) *)
Example C04_flags_example :
  let hdr := [128; 224; 1; 2] in let tail := [0; 0; 0; 1; 0; 0; 18; 52] in
  let d8 := mkV8d false true 0 false false 0 (Some (true, 300)) None (Some (2, true)) None in
  let d9 := mkV9d true false true false true (Some (false, 5)) (Some (1, true, 2, false, 9)) [1] in
  hdr_ok 128 0 tail /\ v8_wf d8 /\ v9_wf d9 /\
  packet_flags CVP8 (hdr ++ tail ++ vp8_encode d8 0 0 ++ [16; 1]) =
    FOk (mkFlags 258 true true true true 300 2 0 true true false) false /\
  packet_flags CVP9 (hdr ++ tail ++ vp9_encode d9 ++ [130]) =
    FOk (mkFlags 258 true true false true 0 1 2 true true true) false.
Proof.
  cbv zeta. split; [|split; [|split; [|split]]].
  - unfold hdr_ok. vm_compute. repeat split; discriminate.
  - unfold v8_wf. cbn. repeat split; try discriminate; auto.
  - unfold v9_wf. cbn. repeat split; try discriminate; auto.
    repeat constructor; discriminate.
  - vm_compute. reflexivity.
  - vm_compute. reflexivity.
Qed.

(* non-vacuity: two temporal layers, congestion, the receiver goes down to
   tid 0 at the next frame start and the in-order tid-1 packet is marked *)
Example C04_example :
  let f1 := mkFlags 1 false true true false 5 1 0 false false false in
  let l := mkLayer 0 0 0 1 1 1 false in
  LInv l /\ write_layer (adjust l 4000000 1) f1 4000000 1 = (mkLayer 0 0 0 0 0 1 false, true, false).
Proof. split; [unfold LInv; cbn; repeat split; try discriminate; intro; discriminate|vm_compute; reflexivity]. Qed.

(* C18  Group definitions: conditional updates are exclusive and file writes
   are atomic.  Statements only; every proof is [exact lemma].
   Models: Model/Etag.v (webserver/precondition.go, driver `etag`),
   Model/DescStore.v (group/description.go + the handlers of webserver/api.go,
   driver `descstore`).  The header grammar and semantics the theorems refer to
   ([entity_tag], [offers], [matches], [render]) are defined in
   Proofs/EtagSpec.v independently of the scanning code. *)
From Coq Require Import ZArith List Bool.
From Galene Require Import Model.Etag Proofs.EtagSpec.
From Galene Require Import Model.DescStore Proofs.DescStoreTag Proofs.DescStoreExcl Proofs.DescStoreAtomic.
From Galene Require Import Generated.Routes Proofs.DescStoreLock.
Import ListNotations.
Open Scope Z_scope.

(* ---------------------------------------------------------------- headers *)

(* etagMatch decides the specification for ALL current tags and ALL header
   strings (lists, weak tags, "*", malformed), and its loop never runs out of
   the fuel it is given. *)
Theorem C18_header_semantics : forall etag header,
  etag_match etag header <> None /\
  (etag_match etag header = Some true <-> matches etag header) /\
  (etag_match etag header = Some false <-> ~ matches etag header).
Proof.
  intros etag header.
  exact (conj (etag_match_total etag header)
              (conj (etag_match_spec etag header) (etag_match_false etag header))).
Qed.
Print Assumptions C18_header_semantics.

(* What [matches] means on a well-formed header (1#entity-tag with arbitrary
   separators): membership of the current tag in the list under byte identity,
   i.e. the strong comparison; the absent object (empty tag) matches nothing. *)
Theorem C18_header_list : forall l trail etag,
  l <> [] -> Forall wf_elem l -> Forall sepc trail ->
  etag = [] \/ entity_tag etag ->
  (matches etag (render l trail) <-> In etag (map snd l)).
Proof. exact matches_list. Qed.
Print Assumptions C18_header_list.

(* "*" (alone, or after separators, whatever follows) matches exactly when the
   object exists *)
Theorem C18_header_star : forall seps rest etag,
  Forall sepc seps -> etag = [] \/ entity_tag etag ->
  (matches etag (seps ++ 42 :: rest) <-> etag <> []).
Proof. exact matches_star. Qed.
Print Assumptions C18_header_star.

(* weak tags: W/"x" never matches the strong tag "x", in If-Match and in
   If-None-Match alike (the code has one comparison, byte identity) *)
Theorem C18_weak_never_matches_strong : forall o seps trail,
  opaque_tag o -> Forall sepc seps -> Forall sepc trail ->
  ~ matches o (seps ++ (87 :: 47 :: o) ++ trail).
Proof. exact weak_never_matches_strong. Qed.
Print Assumptions C18_weak_never_matches_strong.

(* checkPreconditions is exactly RFC 7232 section 6 restricted to the two
   headers, for every method, tag and pair of header values *)
Theorem C18_preconditions_exact : forall method etag im inm,
  cp_spec method etag im inm (check_preconditions method etag im inm).
Proof. exact check_preconditions_spec. Qed.
Print Assumptions C18_preconditions_exact.

(* A request carrying If-Match is refused with 412 unless the header matches
   the current tag; one that is let through presented the current tag. *)
Theorem C18_if_match : forall m etag im inm,
  im <> [] ->
  (~ matches etag im -> check_preconditions m etag im inm = CpDone 412) /\
  (check_preconditions m etag im inm = CpNotDone -> matches etag im).
Proof. exact if_match_exact. Qed.
Print Assumptions C18_if_match.

(* If-None-Match (If-Match absent or satisfied): a match answers 304 to
   GET/HEAD and 412 to every other method; no match lets the request through.
   With "*": a write is let through only if the object does not exist. *)
Theorem C18_if_none_match : forall m etag im inm,
  im = [] \/ matches etag im -> inm <> [] ->
  (matches etag inm ->
   check_preconditions m etag im inm = CpDone (if is_get_or_head m then 304 else 412)) /\
  (~ matches etag inm -> check_preconditions m etag im inm = CpNotDone).
Proof. exact if_none_match_exact. Qed.
Print Assumptions C18_if_none_match.

(* 304 is answered exactly to a GET/HEAD whose If-None-Match matches the
   current tag (and whose If-Match, if any, does too) *)
Theorem C18_304_iff_current : forall m etag im inm,
  check_preconditions m etag im inm = CpDone 304 <->
  (get_or_head m /\ (im = [] \/ matches etag im) /\ inm <> [] /\ matches etag inm).
Proof. exact status_304_iff. Qed.
Print Assumptions C18_304_iff_current.

(* ---------------------------------------------------------------- the store *)

(* The tag served for a definition (makeETag of size and mtime) is a
   well-formed strong entity-tag, never empty, and determines the stamp: the
   header theorems above apply to it, and two versions carry the same tag only
   if they have the same size and mtime. *)
Theorem C18_tag_wellformed : forall s1 s2,
  entity_tag (make_etag s1) /\ make_etag s1 <> [] /\
  (make_etag s1 = make_etag s2 -> s1 = s2).
Proof.
  intros s1 s2.
  exact (conj (make_etag_entity s1) (conj (make_etag_nonempty s1) (make_etag_inj s1 s2))).
Qed.
Print Assumptions C18_tag_wellformed.

(* "If-Match: <one tag>" can only be satisfied by that tag *)
Theorem C18_single_tag_header : forall e t, entity_tag t -> matches e t -> e = t.
Proof. exact matches_single_tag. Qed.
Print Assumptions C18_single_tag_header.

(* EXCLUSIVE.  Any number of concurrent requests (GET/PUT/DELETE on the group
   and its users, password and key updates), every interleaving of their
   steps [read the tag] [checkPreconditions + locked update], every initial
   file, writable or not; hypothesis of the property: the stamps of the
   versions are pairwise different ([Fresh]).  Of the writers whose If-Match
   can only be satisfied by the same tag t, at most one is acknowledged. *)
Theorem C18_exclusive : forall wr reqs f0 sched t i j,
  Fresh f0 sched -> i <> j -> holder t reqs i -> holder t reqs j ->
  okdone reqs (w_ws (run wr reqs f0 sched)) i ->
  okdone reqs (w_ws (run wr reqs f0 sched)) j -> False.
Proof. exact exclusive_same_tag. Qed.
Print Assumptions C18_exclusive.

(* NO LOST UPDATE.  In every such run, every acknowledged write (an event of
   the log) passed checkPreconditions with the tag its handler had read,
   replaced exactly the version of its object carrying that tag (the re-check
   under the lock), and -- if it carried an If-Match satisfiable only by t --
   replaced a version whose tag is t; the versions form a chain from the
   initial file to the current one; all versions that ever existed carry
   pairwise different tags.  So a writer holding the tag of an older version
   never replaces a newer one. *)
Theorem C18_exclusive_no_lost_update : forall wr reqs f0 sched,
  Fresh f0 sched ->
  let w := run wr reqs f0 sched in
  Forall (ev_sound reqs) (w_log w) /\
  chainN f0 (w_log w) (w_file w) /\
  NoDup (map make_etag (vs f0 (w_log w))).
Proof. exact no_lost_update. Qed.
Print Assumptions C18_exclusive_no_lost_update.

(* THE TAG SERVED WITH A DEFINITION IS THE TAG OF THAT DEFINITION.  A reader
   (GetDescription, GetSanitisedDescription, the GET handlers) takes the
   definition and the stamp from ONE open file ([read_description] is one step
   of the model -- an explicit assumption about readDescription, checked on
   the implementation by the monitor C18.content_matches_tag).  Then, in
   every run: what a reader gets is a version that was written together with
   the tag of that very version, and among all versions that ever existed a
   tag belongs to one definition only. *)
Theorem C18_content_matches_tag : forall wr reqs f0 sched,
  Fresh f0 sched ->
  let w := run wr reqs f0 sched in
  (forall c t, read_description (w_file w) = Some (c, t) ->
     exists s, In (Some (c, s)) (versions f0 (w_log w)) /\ t = make_etag s) /\
  (forall c1 s1 c2 s2,
     In (Some (c1, s1)) (versions f0 (w_log w)) ->
     In (Some (c2, s2)) (versions f0 (w_log w)) ->
     make_etag s1 = make_etag s2 -> c1 = c2 /\ s1 = s2).
Proof. exact content_matches_tag. Qed.
Print Assumptions C18_content_matches_tag.

(* A LOADED GROUP.  Whatever earlier version of the file the running server
   holds in memory for a loaded group, GetDescription (cached copy if
   descriptionUnchanged: size AND mtime equal, else the file) returns the
   current definition, with its tag: an acknowledged update is visible to the
   next GET, and 304 is answered only for the current tag. *)
Theorem C18_cache_transparent : forall wr reqs f0 sched cache,
  Fresh f0 sched ->
  let w := run wr reqs f0 sched in
  In cache (versions f0 (w_log w)) ->
  get_description cache (w_file w) = w_file w.
Proof. exact cache_transparent. Qed.
Print Assumptions C18_cache_transparent.

(* EVERY UPDATE FUNCTION IS EXCLUSIVE.  The table the translator regenerates
   from group/description.go on every run (Generated/Routes.v: every function
   that rewrites or removes a group file, and whether groups.mu is taken
   before its first access to the file) says "locked" for every function, and
   its functions are exactly the ones Model/DescStore.v makes one atomic step
   ([modelled_updates]).  This is what lets C18_exclusive and
   C18_exclusive_no_lost_update speak about UpdateDescription,
   DeleteDescription, UpdateUser, DeleteUser, SetUserPassword and SetKeys. *)
Theorem C18_update_functions_exclusive :
  (forall n l, In (n, l) update_functions -> l = true /\ In n modelled_updates) /\
  (forall n, In n modelled_updates -> In (n, true) update_functions).
Proof. exact update_functions_exclusive. Qed.
Print Assumptions C18_update_functions_exclusive.

(* CREATE ONCE.  A write carrying "If-None-Match: *" (any value every existing
   object matches) is acknowledged only if its object did not exist at the
   moment of the locked update; needs no hypothesis on stamps. *)
Theorem C18_exclusive_create : forall wr reqs f0 sched ev r,
  In ev (w_log (run wr reqs f0 sched)) ->
  nth_error reqs (ev_writer ev) = Some r -> star_only (req_inm r) ->
  ev_etag ev = [] /\ obj_tag r (ev_old ev) = [].
Proof. exact create_found_absent. Qed.
Print Assumptions C18_exclusive_create.

(* ... and the group file is created at most once more often than it is
   deleted (at most once if nobody deletes it) *)
Theorem C18_exclusive_create_once : forall wr reqs f0 sched,
  let log := w_log (run wr reqs f0 sched) in
  (n_created log <= n_deleted log + b2n (is_none f0))%nat.
Proof. exact creations_bounded. Qed.
Print Assumptions C18_exclusive_create_once.

(* The hypothesis cannot be weakened to "successive versions differ": with
   stamps that differ between successive versions only, two writers holding
   the same tag are both acknowledged (the second silently replaces a version
   it never saw: v1 and v3 have the same size and mtime).  [adjacent_differ l]:
   no two neighbours of the list of version stamps are equal. *)
Theorem C18_successive_stamps_insufficient :
  exists reqs f0 sched t,
    adjacent_differ (vs f0 (w_log (run true reqs f0 sched))) /\
    holder t reqs 0%nat /\ holder t reqs 2%nat /\
    okdone reqs (w_ws (run true reqs f0 sched)) 0%nat /\
    okdone reqs (w_ws (run true reqs f0 sched)) 2%nat.
Proof. exact successive_stamps_insufficient. Qed.
Print Assumptions C18_successive_stamps_insufficient.

(* ---------------------------------------------------------------- atomic replacement *)

(* ATOMIC.  For every operating system (state, read function, step function)
   satisfying [os_ok] -- a call affects only the names it is given; rename is
   one step after which the target reads as the source did -- a crash or a
   reader after any number k of the system calls of rewriteDescriptionFile
   (create temp, write in any number of chunks, fsync, close, rename) sees for
   group g the complete old or the complete new definition, never a partial
   one; the new one exactly from the rename on; other groups are untouched. *)
Theorem C18_atomic : forall D rd ex, os_ok D rd ex ->
  forall d g r chunks k,
    let tgt := group_file g in
    let tmp := temp_name r in
    let dk := fold_left ex (firstn k (rewrite_steps tgt tmp chunks)) d in
    (rd dk tgt = rd d tgt \/ rd dk tgt = Some (concat chunks)) /\
    ((length (rewrite_steps tgt tmp chunks) <= k)%nat -> rd dk tgt = Some (concat chunks)) /\
    ((k < length (rewrite_steps tgt tmp chunks))%nat -> rd dk tgt = rd d tgt) /\
    (forall n, is_group_file n = true -> n <> tgt -> rd dk n = rd d n).
Proof. exact rewrite_atomic. Qed.
Print Assumptions C18_atomic.

(* the error path (call number k fails, then Close/Remove of the temp file):
   at every point the definitions are the old ones; the temp file is removed *)
Theorem C18_atomic_on_error : forall D rd ex, os_ok D rd ex ->
  forall d g r chunks k j,
    let tgt := group_file g in
    let tmp := temp_name r in
    (k < length (rewrite_steps tgt tmp chunks))%nat ->
    let steps := rewrite_steps_failing tgt tmp chunks k in
    (forall n, is_group_file n = true ->
       rd (fold_left ex (firstn j steps) d) n = rd d n) /\
    rd (fold_left ex steps d) tmp = None.
Proof. exact rewrite_failure_keeps_old. Qed.
Print Assumptions C18_atomic_on_error.

(* a leftover <random>.temp file is not a group definition: it is neither
   opened as <group>.json nor listed by GetDescriptionNames *)
Theorem C18_temp_is_not_a_group : forall d r,
  is_group_file (temp_name r) = false /\ ~ In (temp_name r) (group_files d).
Proof. intros d r. exact (conj (is_group_file_temp r) (group_files_no_temp d r)). Qed.
Print Assumptions C18_temp_is_not_a_group.

(* the assumptions on the operating system are satisfiable: the reference
   semantics of the model (a directory as an association list) meets them *)
Theorem C18_os_assumptions_satisfiable : os_ok dir (fun d n => lookup n d) exec_sys.
Proof. exact exec_sys_os_ok. Qed.
Print Assumptions C18_os_assumptions_satisfiable.

(* non-vacuity: a concrete run.  Initial file with stamp (10,100); writers 0
   and 1 PUT the group with If-Match: "10-100", writer 2 creates user 1 with
   If-None-Match: *.  Both holders read the tag, then both write: the stamps
   are fresh, both are holders of the tag, writer 0 is acknowledged, writer 1
   passes checkPreconditions but is refused under the lock (tag mismatch, HTTP
   500), the user is created, and the log has the two acknowledged writes. *)
Example C18_example :
  let c0 := mkContent 7 [] None 0 in
  let f0 : file := Some (c0, (10, 100)) in
  let t0 := make_etag (10, 100) in
  let reqs := [PutGroup t0 [] 1; PutGroup t0 [] 2; PutUser (TUser 1) [] [42] 3] in
  let sched := [(0%nat, (1, 1)); (1%nat, (1, 2)); (0%nat, (11, 101)); (1%nat, (11, 102));
                (2%nat, (1, 5)); (2%nat, (40, 103))] in
  let w := run true reqs f0 sched in
  Fresh f0 sched /\ holder t0 reqs 0%nat /\ holder t0 reqs 1%nat /\
  star_only (req_inm (PutUser (TUser 1) [] [42] 3)) /\
  okdone reqs (w_ws w) 0%nat /\
  nth_error (w_ws w) 1%nat = Some (WDone (HRes RMismatch false)) /\
  okdone reqs (w_ws w) 2%nat /\
  w_file w = Some (mkContent 1 [(1, mkUser 3 0)] None 0, (40, 103)) /\
  length (w_log w) = 2%nat.
Proof. exact example_run. Qed.

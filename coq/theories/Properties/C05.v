(* C05  The packet cache returns a stored packet byte-exactly or nothing.
   Statements only; every proof is [exact lemma].  Model: Model/Cache.v
   (tied to packetcache/packetcache.go by the `cache` correspondence driver).
   Histories are arbitrary lists of operations from a fresh cache;
   [wf_op] is the caller contract of the Go code (packets of 1..1504 bytes,
   capacities >= 1). *)
From Coq Require Import ZArith List Bool.
From Galene Require Import Lib.Word Model.Cache.
From Galene Require Import Proofs.CacheSound Proofs.CacheRing Proofs.CacheExtra.
Import ListNotations.
Open Scope Z_scope.

(* A lookup by number returns nothing, or exactly the length and bytes of a
   packet stored under that number in the history -- never bytes of another
   packet, a mixture, a truncated or a padded copy. *)
Theorem C05_get_sound : forall cap ops s n bytes,
  Forall wf_op ops ->
  get (run_hist (new_cache cap) ops) s = (n, bytes) ->
  (n = 0 /\ bytes = []) \/
  (n = zlen bytes /\ 1 <= n <= BufSize /\ stored_packet (rev ops) s bytes).
Proof. intros cap ops s n bytes Hwf. exact (get_sound _ _ s n bytes (reachable_Inv cap ops Hwf)). Qed.
Print Assumptions C05_get_sound.

(* the same for lookups by number and slot *)
Theorem C05_get_at_sound : forall cap ops s i n bytes,
  Forall wf_op ops ->
  get_at (run_hist (new_cache cap) ops) s i = (n, bytes) ->
  (n = 0 /\ bytes = []) \/
  (n = zlen bytes /\ 1 <= n <= BufSize /\ stored_packet (rev ops) s bytes).
Proof. intros cap ops s i n bytes Hwf. exact (get_at_sound _ _ s i n bytes (reachable_Inv cap ops Hwf)). Qed.
Print Assumptions C05_get_at_sound.

(* length, bytes, timestamp and marker all come from ONE Store *)
Theorem C05_no_mixture : forall cap ops s n ts mk bytes,
  Forall wf_op ops ->
  get_entries s (c_entries (run_hist (new_cache cap) ops)) = (n, ts, mk, bytes) ->
  n = 0 \/ exists kf, In (OStore s ts kf mk bytes) (rev ops) /\ n = zlen bytes.
Proof. intros cap ops s n ts mk bytes Hwf. exact (get_entries_sound _ _ s n ts mk bytes (reachable_Inv cap ops Hwf)). Qed.
Print Assumptions C05_no_mixture.

(* The most recently stored packets, up to the capacity, are retrievable:
   K = k_run follows the history (one more per Store, cut to the capacity at
   every operation, hence also by shrinking); among the last K stored packets
   one whose number is not shared by a different packet among them is
   returned exactly, with its timestamp and marker. *)
Theorem C05_recent_retrievable : forall cap ops s ts m buf,
  1 <= cap -> Forall wf_op ops ->
  let c0 := new_cache cap in
  let c := run_hist c0 ops in
  let K := k_run c0 0 ops in
  let L := log_run [] ops in
  1 <= zlen buf <= BufSize ->
  In (entry_of s ts m buf) (firstn K L) ->
  (forall e, In e (firstn K L) -> e_seq e = s -> e = entry_of s ts m buf) ->
  get c s = (zlen buf, buf) /\ get_entries s (c_entries c) = (zlen buf, ts, m, buf).
Proof.
  intros cap ops s ts m buf Hcap Hwf c0 c K L.
  destruct (Rel_new cap Hcap) as (HR & HS).
  exact (recent_retrievable c K L s ts m buf (proj1 (run_Rel ops c0 0%nat [] Hwf HS HR))).
Qed.
Print Assumptions C05_recent_retrievable.

(* without resizes K is min(number of stores, capacity) *)
Theorem C05_K_steady : forall cap ops,
  1 <= cap -> Forall no_resize ops ->
  k_run (new_cache cap) 0 ops = Nat.min (count_stores ops) (Z.to_nat cap).
Proof.
  intros cap ops Hcap Hn.
  rewrite (k_run_no_resize ops (new_cache cap) 0%nat Hn (Nat.le_0_l _)).
  unfold new_cache; cbn [c_entries]. rewrite repeat_length. reflexivity.
Qed.
Print Assumptions C05_K_steady.

(* growing and shrinking keep the ring order and the newest entries: read
   newest-first, the slots after Resize(k) are the first k of the old slots
   followed by empty ones *)
Theorem C05_resize_preserves : forall c k, Shape c -> 1 <= k ->
  view (resize c k) =
  firstn (Z.to_nat k) (view c ++ repeat zero_entry (Z.to_nat k - length (c_entries c))).
Proof. intros c k Hs Hk. exact (proj1 (view_resize c k Hs Hk)). Qed.
Print Assumptions C05_resize_preserves.

(* the index returned by Store designates that packet *)
Theorem C05_index_after_store : forall c s ts kf m buf,
  Shape c -> 1 <= zlen buf <= BufSize ->
  let '((_, i), c') := store c s ts kf m buf in
  i = c_tail c /\ get_at c' s i = (zlen buf, buf).
Proof. exact get_at_after_store. Qed.
Print Assumptions C05_index_after_store.

Theorem C05_indices : forall c s i n bytes,
  get_at c s i = (n, bytes) -> n <> 0 -> 0 <= i ->
  i < zlen (c_entries c) /\ e_seq (nth (Z.to_nat i) (c_entries c) zero_entry) = s.
Proof. exact get_at_index. Qed.
Print Assumptions C05_indices.

(* non-vacuity: a concrete history (capacity 2, wrap-around at 65535, three
   stores so that the first is evicted) meets the hypotheses, and the lookups
   behave as stated *)
Example C05_example :
  let ops := [OStore 65535 10 false true [1;2;3]; OStore 0 20 true false [4];
              OStore 1 30 false false [5;6]] in
  Forall wf_op ops /\
  get (run_hist (new_cache 2) ops) 1 = (2, [5;6]) /\
  get (run_hist (new_cache 2) ops) 0 = (1, [4]) /\
  get (run_hist (new_cache 2) ops) 65535 = (0, []) /\
  k_run (new_cache 2) 0 ops = 2%nat.
Proof.
  cbv zeta. split.
  - repeat constructor; cbn; unfold BufSize; intro; discriminate.
  - vm_compute. repeat split; reflexivity.
Qed.

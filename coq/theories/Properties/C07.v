(* C07 (placeholder while the proofs are being written) *)
From Galene Require Import Model.Subscribe.

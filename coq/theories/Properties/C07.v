(* C07  Subscribers are offered exactly what they requested; teardown reaches
   everyone.

   Statements only; every proof is [exact lemma].  Model: Model/Subscribe.v
   (tied to rtpconn/webclient.go and rtpconn/rtpconn.go by the `subscribe`
   correspondence driver: the REAL requestedTracks / pushDownConn /
   handleAction / delUpConn / gotOffer / leaveGroup, real pion publishers).

   Layer 1 is about requestedTracks alone.  Layer 2 is about all histories:
   a history is a list of events [op] (a client reads a message, a client
   serves one queued action, a connection ends, a delayed push fires, OnTrack
   adds a track), in ANY order: the list is the schedule.  [ok_run w ops] is the
   hypothesis on histories: stream ids are unique (an offer that creates a
   stream uses an id no stream ever had) and `replace` names one of the
   publisher's own streams and comes with the FIRST offer of the replacing
   stream (what the reference client does; Proofs/SubscribeWitness.v shows that
   label identity and teardown fail without either).  WebRTC negotiation, the
   arrival of tracks and the moment at which the delayed push fires are part of
   the events (oracles), not of the model. *)
From Coq Require Import List Bool Arith PeanoNat.
From Galene Require Import Model.Subscribe.
From Galene Require Import Proofs.SubscribeSelect Proofs.SubscribeFrame Proofs.SubscribeInv
  Proofs.SubscribeStep Proofs.SubscribeHeap Proofs.SubscribeOwn Proofs.SubscribeOut
  Proofs.SubscribeProps Proofs.SubscribeTeardown Proofs.SubscribeExact Proofs.SubscribeFresh
  Proofs.SubscribeSync Proofs.SubscribeWitness Proofs.SubscribePinned Proofs.SubscribeNeg
  Proofs.SubscribeTeardownSent.
Import ListNotations.

(* ------------------------------------------------------------------ *)
(* Layer 1: the pure selection                                         *)

(* For ALL request lists and ALL lists of track kinds requestedTracks returns
   the table of the property: the first audio track iff "audio" is requested
   (and there is one), then the first video track iff "video" is requested,
   else the LAST video track iff "video-low" is requested; limitSid iff
   video-low without video and fewer than two video tracks.  [first_idx] and
   [last_idx] are characterised below. *)
Theorem C07_requested_tracks : forall req ks,
  requested_tracks req ks =
  (let audio := if existsb (rk_eqb RAudio) req then opt_list (first_idx KAudio ks) else [] in
   if existsb (rk_eqb RVideo) req then (audio ++ opt_list (first_idx KVideo ks), false)
   else if existsb (rk_eqb RVideoLow) req then
          (audio ++ opt_list (last_idx KVideo ks), Nat.ltb (count_kind KVideo ks) 2)
        else (audio, false)).
Proof. exact requested_tracks_spec. Qed.
Print Assumptions C07_requested_tracks.

Theorem C07_first_track : forall k ks i,
  first_idx k ks = Some i <->
  (nth_error ks i = Some k /\ forall j, j < i -> nth_error ks j <> Some k).
Proof. exact first_idx_spec. Qed.
Print Assumptions C07_first_track.

Theorem C07_last_track : forall k ks i,
  last_idx k ks = Some i <->
  (nth_error ks i = Some k /\ forall j, i < j -> nth_error ks j <> Some k).
Proof. exact last_idx_spec. Qed.
Print Assumptions C07_last_track.

Theorem C07_no_track_of_kind : forall k ks, first_idx k ks = None <-> ~ In k ks.
Proof. exact first_idx_none. Qed.
Print Assumptions C07_no_track_of_kind.

(* nothing else: every chosen track is of a requested kind and is the first /
   last of its kind; at most two tracks; an empty request selects nothing *)
Theorem C07_requested_tracks_nothing_else : forall req ks i,
  In i (fst (requested_tracks req ks)) ->
  (In RAudio req /\ is_first KAudio ks i) \/
  (In RVideo req /\ is_first KVideo ks i) \/
  (~ In RVideo req /\ In RVideoLow req /\ is_last KVideo ks i).
Proof. exact requested_tracks_sound. Qed.
Print Assumptions C07_requested_tracks_nothing_else.

Theorem C07_requested_tracks_limit : forall req ks,
  snd (requested_tracks req ks) = true <->
  (~ In RVideo req /\ In RVideoLow req /\ count_kind KVideo ks < 2).
Proof. exact requested_tracks_limit. Qed.
Print Assumptions C07_requested_tracks_limit.

Theorem C07_requested_tracks_empty : forall ks, requested_tracks [] ks = ([], false).
Proof. exact requested_tracks_empty. Qed.
Print Assumptions C07_requested_tracks_empty.

(* ------------------------------------------------------------------ *)
(* Layer 2: all histories                                              *)

(* The structural invariant (unique ids, tables, queues, timers) holds along
   every history that satisfies the hypothesis. *)
Theorem C07_invariant : forall n ops,
  ok_run (init n) ops -> Inv (run (init n) ops).
Proof. intros n ops H. exact (Inv_run ops (init n) (Inv_init n) H). Qed.
Print Assumptions C07_invariant.

(* label identity: every offer a step sends carries the id, the label and the
   owner of THE stream with that id, and the owner's username *)
Theorem C07_label_identity : forall w o m id lab rep src usr,
  reachable w -> ok_op w o ->
  sent w o m (OOffer id lab rep src usr) ->
  exists u, u < w_nup w /\ uo_id (w_up w u) = id /\
            uo_owner (w_up w u) = src /\ uo_label (w_up w u) = lab /\
            usr = c_user (w_cl w src) /\
            (forall v, v < w_nup w -> uo_id (w_up w v) = id -> v = u).
Proof. exact label_identity. Qed.
Print Assumptions C07_label_identity.

(* same group only: a client that holds a down stream is a member of the group
   in which the stream was published (uo_group: the publisher's group when it
   offered the stream), is not the publisher, and while the stream lives the
   publisher is a member of the same group *)
Theorem C07_same_group_only : forall w m d,
  reachable w -> In d (c_down (w_cl w m)) ->
  c_group (w_cl w m) = Some (uo_group (w_up w (d_remote d))) /\
  uo_owner (w_up w (d_remote d)) <> m /\
  (uo_closed (w_up w (d_remote d)) = false ->
   c_group (w_cl w (uo_owner (w_up w (d_remote d)))) = c_group (w_cl w m)).
Proof. exact same_group_downs. Qed.
Print Assumptions C07_same_group_only.

(* ... and an offer is only ever sent to a member of the stream's group (never
   to a member of another group, never to a client that has not joined) *)
Theorem C07_same_group_only_offers : forall w o m id lab rep src usr,
  reachable w -> ok_op w o ->
  sent w o m (OOffer id lab rep src usr) ->
  exists u, u < w_nup w /\ uo_id (w_up w u) = id /\
            c_group (w_cl w m) = Some (uo_group (w_up w u)) /\ uo_owner (w_up w u) <> m.
Proof. exact same_group_offer. Qed.
Print Assumptions C07_same_group_only_offers.

(* teardown reaches everyone, step by step: whenever a step removes a down
   stream from a client that stays a live member of a group - whatever the
   reason: the publisher closed or replaced the stream, lost `present`, left,
   was kicked or disconnected, nothing of the stream is requested any more, or
   the client's own abort / failed answer - that very step SENT the client a
   `close` for that id or an offer whose `replace` field is that id.  (A client
   that leaves its group or whose connection ends drops all its down streams
   without being told: the two hypotheses on the state after the step.)
   The one corner that needs more than the step itself: negotiate sends no
   offer while an earlier offer of the same down connection is unanswered, and
   the deferred renegotiation carries no `replace`; a push (u, replace r)
   served in that state by a client that still held r would drop r silently.
   Proofs/SubscribeTeardownSent.v excludes it by the queue order (QInv: the
   pushes of u queued for one client carry r, .., r, 0, .., 0, then u's current
   `replace`) and HInv (who holds the stream of u while a push (u, r) is
   pending does not hold r); corner_reached (below) shows the state itself is
   reachable. *)
Theorem C07_teardown_sent : forall w o m id,
  reachable w -> ok_op w o ->
  get_down id (c_down (w_cl w m)) <> None ->
  get_down id (c_down (w_cl (step w o) m)) = None ->
  c_group (w_cl (step w o) m) <> None -> c_dead (w_cl (step w o) m) = false ->
  sent w o m (OClose id) \/ exists i l s u, sent w o m (OOffer i l id s u).
Proof. exact teardown_sent. Qed.
Print Assumptions C07_teardown_sent.

(* ... and at quiescence (every live client has served its queue, no delayed
   push is pending) no live client holds a down stream whose publisher stream
   has ended - whether it ended by close, replace, unpresent, leave, kick or
   the end of the publisher's connection, in every interleaving.  (Formerly
   C07_teardown_partial; with C07_teardown_sent the property text is covered:
   C07_teardown_eventually combines the two.) *)
Theorem C07_teardown_quiescent : forall n ops,
  ok_run (init n) ops ->
  let w := run (init n) ops in
  quiescentb w = true ->
  forall m d, c_dead (w_cl w m) = false -> In d (c_down (w_cl w m)) ->
              uo_closed (w_up w (d_remote d)) = false.
Proof.
  intros n ops H w Hq.
  exact (teardown_quiescent w (proj1 (reach_init n ops H)) (proj1 (proj2 (reach_init n ops H)))
                            (proj2 (proj2 (reach_init n ops H))) Hq).
Qed.
Print Assumptions C07_teardown_quiescent.

(* teardown reaches everyone, eventually: for every history ops1 ++ ops2 that
   ends in a quiescent world, a client m that held a down stream with the id of
   a stream that has ended by the end of the history (after ops1), is alive at
   the end and has not sent `leave` during ops2 (so it is still a member of the
   group it held the stream in: a live client leaves its group only by its own
   `leave`), no longer holds it and was sent, by some step of ops2, a `close`
   for that id or an offer with `replace` = that id.  Without the hypothesis on
   `leave` the statement is false: leaveGroup drops the down streams without a
   `close`, and the client may join the same group again. *)
Theorem C07_teardown_eventually : forall n ops1 ops2 m id,
  ok_run (init n) (ops1 ++ ops2) ->
  let w1 := run (init n) ops1 in
  let w := run (init n) (ops1 ++ ops2) in
  quiescentb w = true ->
  get_down id (c_down (w_cl w1 m)) <> None ->
  ended w id ->
  c_dead (w_cl w m) = false ->
  Forall (fun o => forall g, o <> OpMsg m (MLeave g)) ops2 ->
  get_down id (c_down (w_cl w m)) = None /\
  exists p o s, ops2 = p ++ o :: s /\
    (sent (run w1 p) o m (OClose id) \/ exists i l s' u, sent (run w1 p) o m (OOffer i l id s' u)).
Proof. exact teardown_eventually. Qed.
Print Assumptions C07_teardown_eventually.

(* close only when: a `close` is sent to a client only as the answer to its own
   abort, or to its own answer (unknown stream, or the negotiation failed), or
   when it serves a queued push and the stream with that id has ended (closed
   by the publisher, replaced, the publisher left / was kicked / lost
   `present`), or the tracks the stream had when it was pushed contain none that
   the client requests (this includes the stream it was never offered) *)
Theorem C07_close_only_when : forall w o m id,
  reachable w -> ok_op w o -> sent w o m (OClose id) ->
  o = OpMsg m (MAbort id) \/
  (exists ok, o = OpMsg m (MAnswer id ok)) \/
  (o = OpPump m /\
   (ended w id \/
    exists u ts r, u < w_nup w /\ uo_id (w_up w u) = id /\
                   (exists l, uo_tracks (w_up w u) = ts ++ l) /\
                   fst (requested_tracks (push_req w m u r) ts) = [])).
Proof. exact close_only_when. Qed.
Print Assumptions C07_close_only_when.

(* own abort local: whatever message a client sends (abort, request,
   requestStream, answer, ...), the down streams and the outbox of every OTHER
   client are unchanged by that step ... *)
Theorem C07_own_abort_local : forall w c msg m,
  m <> c ->
  c_down (w_cl (step w (OpMsg c msg)) m) = c_down (w_cl w m) /\
  c_out (w_cl (step w (OpMsg c msg)) m) = c_out (w_cl w m).
Proof. intros w c msg m H. exact (msg_local w c msg m H). Qed.
Print Assumptions C07_own_abort_local.

(* ... and the request it triggers is served by pushes to the requester only:
   handling requestConnsAction changes nobody's down streams or outbox and
   nobody's queue but the requester's (and the handler's own) *)
Theorem C07_request_reaches_only_requester : forall w p g t id q,
  c_queue (w_cl w p) = AReqConns g t id :: q ->
  p < w_n w -> c_dead (w_cl w p) = false ->
  let w' := step w (OpPump p) in
  (forall m, c_down (w_cl w' m) = c_down (w_cl w m) /\ c_out (w_cl w' m) = c_out (w_cl w m)) /\
  (forall m, m <> t -> m <> p -> c_queue (w_cl w' m) = c_queue (w_cl w m)).
Proof. exact request_reaches_only_requester. Qed.
Print Assumptions C07_request_reaches_only_requester.

(* every single evaluation of a pushed stream leaves
   the subscriber with exactly the tracks that requestedTracks selects from the
   tracks the stream had when it was pushed, under the request in force (the
   per-stream request, else the entry of the stream's label, else the default
   entry; an entry that is present and empty means "nothing") - or without the
   stream if nothing is selected or the stream has ended.  ts is the oracle
   "the stream has tracks of kinds ts". *)
Theorem C07_offer_exact : forall m id u ts r w g,
  Inv w -> action_ok w m (APush g id (Some u) ts r) -> c_group (w_cl w m) = Some g ->
  let w' := fst (push_down_conn m id (Some u) ts r w) in
  let sel := requested_tracks (push_req w m u r) ts in
  snd (push_down_conn m id (Some u) ts r w) = false /\
  match get_down (uo_id (w_up w u)) (c_down (w_cl w' m)) with
  | None => fst sel = [] \/ uo_closed (w_up w u) = true
  | Some d =>
      fst sel <> [] /\ d_remote d = u /\
      (forall p, In p (d_tracks d) <-> In p (map (fun i => (u, i)) (fst sel))) /\
      d_limit d = snd sel
  end.
Proof. exact push_exact. Qed.
Print Assumptions C07_offer_exact.

(* offered iff requested: at quiescence, for every history and every schedule,
   a live member m of a group and a live stream u of ANOTHER member of that
   group: m holds a down stream for u if and only if requestedTracks selects
   something from u's tracks under m's request for u's label (the entry of the
   label if there is one, even an empty one, else the default entry), and then
   it is attached to u and carries exactly the selected tracks, with limitSid
   as selected.  uo_tracks u is the oracle "the stream has tracks of kinds K".
   Hypothesis on m's own behaviour: m sent no abort / requestStream / answer
   (these change or drop its own down stream: C07_own_abort_local).  No
   hypothesis on OnTrack timing or on the moment at which delayed pushes fire.
   (Before the repair of finding F26 this was false: driver streams
   corpus-late-joiner*, example late_joiner_offered.) *)
Theorem C07_offered_iff_requested : forall n ops m u,
  ok_run (init n) ops ->
  Forall (fun o => match o with
                   | OpMsg c (MRequestStream _ _) | OpMsg c (MAbort _) | OpMsg c (MAnswer _ _) => c <> m
                   | _ => True
                   end) ops ->
  let w := run (init n) ops in
  quiescentb w = true ->
  c_dead (w_cl w m) = false ->
  u < w_nup w -> uo_closed (w_up w u) = false -> uo_owner (w_up w u) <> m ->
  c_group (w_cl w m) = Some (uo_group (w_up w u)) ->
  let sel := requested_tracks (base_req (w_cl w m) (uo_label (w_up w u))) (uo_tracks (w_up w u)) in
  match get_down (uo_id (w_up w u)) (c_down (w_cl w m)) with
  | None => fst sel = []
  | Some d => fst sel <> [] /\ d_remote d = u /\
              (forall p, In p (d_tracks d) <-> In p (map (fun i => (u, i)) (fst sel))) /\
              d_limit d = snd sel
  end.
Proof. exact offered_iff_requested. Qed.
Print Assumptions C07_offered_iff_requested.

(* what a subscriber was last offered is what its down connection holds, or an
   offer is outstanding whose answer triggers the next one: negotiate defers a
   renegotiation (d_neg) only while the previous offer is unanswered
   (d_havelocal), for every client along every history; the `answer` handler
   sends the deferred offer (Model handle_msg MAnswer; driver stream
   corpus-change-while-offer-outstanding, monitor C07.offer_carries_selection
   compares the contents of the last offer with the down connection) *)
Theorem C07_deferred_only_while_outstanding : forall n ops m d,
  ok_run (init n) ops ->
  In d (c_down (w_cl (run (init n) ops) m)) -> d_neg d = true -> d_havelocal d = true.
Proof. exact deferred_only_while_outstanding. Qed.
Print Assumptions C07_deferred_only_while_outstanding.

(* The delayed push: the driver fires it through a hook that re-states the body
   of the goroutine of rtpconn.pushConn, and the model transcribes it.  The text
   of pushConn, re-read from /repo on every run, is the text both were written
   against (any edit of pushConn fails here until hook and model follow). *)
Theorem C07_pushConn_source_pinned :
  Generated.PushConn.pushConn_text = pushConn_text_expected.
Proof. exact pushConn_text_pinned. Qed.
Print Assumptions C07_pushConn_source_pinned.

(* ------------------------------------------------------------------ *)
(* Non-vacuity: a history that satisfies the hypothesis, reaches quiescence,
   and in which a subscriber holds a real stream with two tracks, a member
   without request holds nothing, and a close tears the stream down. *)
Example C07_example :
  ok_run (init 3) good_close /\ ok_run (init 2) late_joiner /\
  (let w := run (init 2) late_joiner in
   quiescentb w = true /\
   map (fun d => (d_id d, d_remote d, d_tracks d)) (c_down (w_cl w 1)) = [(1, 0, [(0, 0)])]) /\
  quiescentb (run (init 3) good_history) = true /\
  map (fun d => (d_id d, d_remote d, d_tracks d)) (c_down (w_cl (run (init 3) good_history) 1))
    = [(1, 0, [(0, 0); (0, 1)])] /\
  c_out (w_cl (run (init 3) good_history) 1) = [OOffer 1 1 0 0 1] /\
  c_down (w_cl (run (init 3) good_history) 2) = [] /\
  quiescentb (run (init 3) good_close) = true /\
  c_down (w_cl (run (init 3) good_close) 1) = [] /\
  c_out (w_cl (run (init 3) good_close) 1) = [OOffer 1 1 0 0 1; OClose 1].
Proof.
  split; [exact good_close_ok|]. split; [exact late_joiner_ok|]. vm_compute. repeat split.
Qed.

(* Non-vacuity of C07_teardown_sent / C07_teardown_eventually: concrete steps
   that remove a down stream from a client that stays a live member, and what
   they send.  (a) the publisher closed stream 1: the step of client 1 that
   removes it appends `close 1`; (b) the publisher replaced stream 1 by stream
   2: the step of client 1 that removes stream 1 appends the offer of stream 2
   with replace = 1; both satisfy every hypothesis of C07_teardown_sent.  (c)
   the corner state (a push with replace = 1 served while the offer of stream 2
   is unanswered: nothing is sent) is reachable, with stream 1 already removed.
   (d) the hypotheses of C07_teardown_eventually hold for good_close with
   ops1 = good_history. *)
Example C07_teardown_example :
  (let w := run (init 3) close_prefix in
   reachable w /\ ok_op w (OpPump 1) /\
   get_down 1 (c_down (w_cl w 1)) <> None /\
   get_down 1 (c_down (w_cl (step w (OpPump 1)) 1)) = None /\
   c_group (w_cl (step w (OpPump 1)) 1) <> None /\ c_dead (w_cl (step w (OpPump 1)) 1) = false /\
   c_out (w_cl (step w (OpPump 1)) 1) = c_out (w_cl w 1) ++ [OClose 1]) /\
  (let w := run (init 3) replace_prefix in
   reachable w /\ ok_op w (OpPump 1) /\
   get_down 1 (c_down (w_cl w 1)) <> None /\
   get_down 1 (c_down (w_cl (step w (OpPump 1)) 1)) = None /\
   c_group (w_cl (step w (OpPump 1)) 1) <> None /\ c_dead (w_cl (step w (OpPump 1)) 1) = false /\
   c_out (w_cl (step w (OpPump 1)) 1) = c_out (w_cl w 1) ++ [OOffer 2 1 1 0 1]) /\
  (ok_run (init 3) (corner_prefix ++ [OpPump 1]) /\
   let w := run (init 3) corner_prefix in
   c_queue (w_cl w 1) = [APush 1 2 (Some 1) [KAudio; KVideo] 1] /\
   map (fun d => (d_id d, d_havelocal d)) (c_down (w_cl w 1)) = [(2, true)] /\
   c_out (w_cl (step w (OpPump 1)) 1) = c_out (w_cl w 1)) /\
  (ok_run (init 3) (good_history ++ [OpMsg 0 (MClose 1); OpPump 1; OpPump 2]) /\
   quiescentb (run (init 3) (good_history ++ [OpMsg 0 (MClose 1); OpPump 1; OpPump 2])) = true /\
   get_down 1 (c_down (w_cl (run (init 3) good_history) 1)) <> None /\
   ended (run (init 3) (good_history ++ [OpMsg 0 (MClose 1); OpPump 1; OpPump 2])) 1 /\
   c_dead (w_cl (run (init 3) (good_history ++ [OpMsg 0 (MClose 1); OpPump 1; OpPump 2])) 1) = false /\
   Forall (fun o => forall g, o <> OpMsg 1 (MLeave g)) [OpMsg 0 (MClose 1); OpPump 1; OpPump 2]).
Proof.
  split; [|split; [|split]].
  - split; [exists 3, close_prefix; split; [apply ok_runb_sound; vm_compute|]; reflexivity|].
    split; [exact I|]. vm_compute. repeat split; discriminate.
  - split; [exists 3, replace_prefix; split; [apply ok_runb_sound; vm_compute|]; reflexivity|].
    split; [exact I|]. vm_compute. repeat split; discriminate.
  - destruct corner_reached as [H1 [H2 [H3 [_ [H5 _]]]]]. auto.
  - split; [exact good_close_ok|]. split; [vm_compute; reflexivity|].
    split; [vm_compute; discriminate|]. split; [exists 0; vm_compute; repeat split; repeat constructor|].
    split; [vm_compute; reflexivity|]. repeat constructor; discriminate.
Qed.

(* Without unique ids label identity fails; without `replace` on the first
   offer teardown fails (the hypotheses are needed). *)
Example C07_hypotheses_needed :
  ok_runb (init 3) collision = false /\
  (let w := run (init 3) collision in
   map (fun d => (d_id d, uo_owner (w_up w (d_remote d)), d_tracks d)) (c_down (w_cl w 2)) = [(1, 0, [(1, 0)])]) /\
  ok_runb (init 2) replace_on_existing = false /\
  (let w := run (init 2) replace_on_existing in
   quiescentb w = true /\ uo_closed (w_up w 1) = true /\ map d_id (c_down (w_cl w 1)) = [1; 2]).
Proof. vm_compute. repeat split. Qed.

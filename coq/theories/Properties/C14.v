(* C14: every member's view of the user list converges to the true membership.

   Model: Model/Signal.v (the signalling layer with per-connection FIFO action
   queues; the scheduler operations OpMsg / OpPump / OpDisconnect / OpQuiesce /
   OpDrain are every interleaving of the real event loops) and
   Model/SignalUsers.v (the client-side fold of static/protocol.js:
   [fold_user_events]; [received w s h] = everything connection h was ever
   sent: what the scheduler has already read from its outbox, then the
   outbox).  Every theorem quantifies over ALL operation sequences from the
   empty world: any number of groups and connections, any interleaving.
   [op_ok] only says that no connection uses the recorder's placeholder id
   "?" (the real recorder id is random).  [quiescent w]: no live connection
   has a queued action ("once activity stops"); that it is REACHED by
   serving the queues alone is C14_quiescence_reachable below. *)
From Coq Require Import ZArith List Bool String Arith Permutation.
From Galene Require Import Generated.Guards Model.Signal Model.SignalUsers
  Proofs.SignalUsersBase Proofs.SignalUsersInv Proofs.SignalUsersLeave Proofs.SignalUsersJoin
  Proofs.SignalUsersThms Proofs.SignalUsersDeliver Proofs.SignalUsersC14
  Generated.Locks Proofs.SignalUsersAtomic Proofs.SignalUsersSteps Proofs.SignalUsersQuiesce.
Import ListNotations.
Open Scope string_scope.
Open Scope list_scope.

(* A client that joins is told about itself and about every current member
   (and the recorder), and every other member is told about it -- with the
   joiner's actual id, username, permissions and data -- and nobody else is
   told anything. *)
Theorem C14_join_symmetry : forall ops w s,
  Forall op_ok ops -> run_log empty_world no_log ops = Some (w, s) ->
  forall h c m r c' g,
  get_client w h = Some c -> c_closed c = false -> c_group c = None ->
  handle_join w h c m = Ok r -> get_client (r_world r) h = Some c' -> c_group c' = Some g ->
  let w' := r_world r in
  let announce := add_act g c' in
  members w' g = members w g ++ [h] /\
  c_queue c' = c_queue c ++ [AJoined g "join"; announce] ++
               (if recording w g then [rec_act g] else []) ++ adds_for w g (members w g) /\
  (forall x cx, In x (members w g) -> get_client w x = Some cx ->
     In (add_act g cx) (adds_for w g (members w g))) /\
  (forall x cx, In x (members w g) -> get_client w x = Some cx ->
     get_client w' x = Some (set_queue cx (c_queue cx ++ [announce]))) /\
  (forall x, x <> h -> ~ In x (members w g) -> get_client w' x = get_client w x).
Proof. exact c14_join_symmetry. Qed.
Print Assumptions C14_join_symmetry.

(* When a member leaves ([leave_group]: the `leave` request) or its
   connection ends ([error_close] with any reason: kicked, disconnected,
   protocol error), it is removed from its group and the user events queued
   for every remaining member grow by exactly one `delete` for it; nobody
   else gets a user event. *)
Theorem C14_delete_once : forall ops w s,
  Forall op_ok ops -> run_log empty_world no_log ops = Some (w, s) ->
  forall h c g e, get_client w h = Some c -> c_group c = Some g ->
  let del := APushClient g "delete" (c_id c) (c_username c) [] [] in
  forall w', w' = leave_group w h \/ w' = error_close w h e ->
  (forall g2, members w' g2 = if String.eqb g2 g then filter (not_h h) (members w g) else members w g2) /\
  (forall M cm, M <> h -> get_client w M = Some cm ->
     exists cm', get_client w' M = Some cm' /\
       pushes (c_queue cm') = pushes (c_queue cm) ++
         (if existsb (Nat.eqb M) (members w g) then [del] else [])).
Proof. exact c14_delete_once. Qed.
Print Assumptions C14_delete_once.

(* op / unop / present / unpresent / shutup / unshutup are applied by the
   target's own loop, which queues the announcement behind everything
   already queued; serving it tells every member (the target included) the
   permissions of that moment; setdata is announced at once with the new
   data. *)
Theorem C14_changes_announced : forall ops w s,
  Forall op_ok ops -> run_log empty_world no_log ops = Some (w, s) ->
  forall h c g, get_client w h = Some c -> c_group c = Some g ->
  (forall kind res, is_perm_kind kind = true ->
     handle_action w h c (AChangePerms g kind) = Ok res ->
     exists p, change_perms (match find_group w g with
                             | Some gr => d_allowrec (g_desc gr) | None => false end)
                            kind (c_perms c) = Some p /\
       r_err res = ENone /\
       get_client (r_world res) h = Some (set_queue (set_perms c p) (c_queue c ++ [APermsChanged])) /\
       forall i, i <> h -> get_client (r_world res) i = get_client w i) /\
  (forall res, handle_action w h c APermsChanged = Ok res ->
     r_err res = ENone /\
     forall M cm, get_client w M = Some cm ->
       exists cm', get_client (r_world res) M = Some cm' /\
         pushes (c_queue cm') = pushes (c_queue cm) ++
           (if existsb (Nat.eqb M) (members w g)
            then [APushClient g "change" (c_id c) (c_username c) (c_perms c) (c_data c)] else [])) /\
  (forall m l res, m_kind m = "setdata" -> m_value m = VMap l ->
     handle_useraction w h c m = Ok res -> r_auth res = Passed ->
     let d := update_data_all (c_data c) l in
     r_err res = ENone /\
     get_client (r_world res) h =
       Some (set_queue (set_data c d)
               (c_queue c ++ [APushClient g "change" (c_id c) (c_username c) (c_perms c) d])) /\
     forall M cm, M <> h -> get_client w M = Some cm ->
       get_client (r_world res) M =
         Some (if existsb (Nat.eqb M) (members w g)
               then set_queue cm (c_queue cm ++ [APushClient g "change" (c_id c) (c_username c) (c_perms c) d])
               else cm)).
Proof. exact c14_changes_announced. Qed.
Print Assumptions C14_changes_announced.

(* Event order, as a property of every member's outbox + queue at EVERY
   moment: replaying what it received and then what is queued for it, in
   queue order, gives for every id the true entry of that id in its group,
   unless the client with that id still has the announcement of its latest
   permission change in its own queue.  (An event queued out of order, as
   with the asynchronous broadcast of F15, breaks exactly this.) *)
Theorem C14_event_order : forall ops w s,
  Forall op_ok ops -> run_log empty_world no_log ops = Some (w, s) ->
  forall g h, In h (members w g) ->
  exists c, get_client w h = Some c /\ c_group c = Some g /\ c_closed c = false /\
    forall id, key_view id (Some g) (received w s h) (c_queue c) = truth w g id \/
               change_pending w g id.
Proof. exact c14_event_order. Qed.
Print Assumptions C14_event_order.

(* Event order and group isolation at the level of single steps, from ANY
   state: the only way a `user` message reaches an outbox is its owner
   serving its queue; the messages delivered are exactly the user events of
   the owner's OWN group among the served prefix of the queue (all of it
   unless an action fails), in queue order; no other outbox gains a `user`
   message; reading a message or a disconnection delivers none at all. *)
Theorem C14_delivery_in_queue_order : forall w h c w' r,
  get_client w h = Some c -> c_closed c = false -> step w (OpPump h) = Running w' r ->
  exists served rest, c_queue c = served ++ rest /\
    delivered h (own_events (c_group c) served) w w' /\
    (r = RPumped ENone -> rest = []).
Proof. exact deliver_step_pump. Qed.
Print Assumptions C14_delivery_in_queue_order.

Theorem C14_no_delivery_otherwise : forall w h m w' r,
  step w (OpMsg h m) = Running w' r \/ step w (OpDisconnect h) = Running w' r ->
  delivered h [] w w'.
Proof. exact deliver_step_other. Qed.
Print Assumptions C14_no_delivery_otherwise.

(* Convergence: once activity stops, the user list that every member of
   every group has built from the add, change and delete events it received
   IS the group's membership with the actual usernames and permissions:
   as lists up to order, and key by key. *)
Theorem C14_convergence : forall ops w s,
  Forall op_ok ops -> run_log empty_world no_log ops = Some (w, s) -> quiescent w ->
  forall g h, In h (members w g) ->
    Permutation (fold_user_events (received w s h)) (true_list w g) /\
    forall id, view_lookup id (fold_user_events (received w s h)) = truth w g id.
Proof. exact c14_convergence. Qed.
Print Assumptions C14_convergence.

(* "Once activity stops" is not a hypothesis that could fail to come true:
   from every reachable world, serving the queues alone ([is_pump]: OpPump
   only -- no message is read, nobody disconnects, nobody new arrives)
   ENDS in a quiescent world.  Serving an action can queue new actions, also
   for OTHER connections (C14_queue_length_not_a_measure), but only actions
   of a lower level (AChangePerms > APermsChanged, AKick, ARequestConns >
   the rest), so three rounds over the connections always suffice
   (C14_three_rounds_suffice, from ANY world).  Serving the queues can
   change the membership in one way only: a member with a queued kick
   ([kick_queued]) is gone afterwards; everybody else stays, in the same
   order.  The log of what the connections have read is untouched. *)
Theorem C14_quiescence_reachable : forall ops w s,
  Forall op_ok ops -> run_log empty_world no_log ops = Some (w, s) ->
  exists pumps w',
    forallb is_pump pumps = true /\
    run_log empty_world no_log (ops ++ pumps) = Some (w', s) /\
    quiescent w' /\
    (forall g, members w' g = filter (fun x => negb (kick_queued w x)) (members w g)) /\
    ((forall x, kick_queued w x = false) -> forall g, members w' g = members w g).
Proof. exact quiescence_reachable. Qed.
Print Assumptions C14_quiescence_reachable.

(* The model's own scheduler operation OpQuiesce (round-robin pumping with
   fuel 1000) never runs out of fuel: it always ends in a quiescent world. *)
Theorem C14_three_rounds_suffice : forall fuel w, (3 <= fuel)%nat ->
  exists w', quiesce fuel w = Some w' /\ quiescent w'.
Proof. exact quiesce_reaches. Qed.
Print Assumptions C14_three_rounds_suffice.

Theorem C14_op_quiesce_reaches_quiescence : forall ops w s,
  Forall op_ok ops -> run_log empty_world no_log ops = Some (w, s) ->
  exists w',
    run_log empty_world no_log (ops ++ [OpQuiesce]) = Some (w', s) /\
    quiescent w' /\
    (forall g, members w' g = filter (fun x => negb (kick_queued w x)) (members w g)).
Proof. exact quiescence_by_op_quiesce. Qed.
Print Assumptions C14_op_quiesce_reaches_quiescence.

(* The total length of the live queues is not a termination measure: a
   concrete reachable world in which one pump turns 12 queued actions into 14. *)
Theorem C14_queue_length_not_a_measure :
  exists w w' r, run_ops empty_world (nq_ops ++ [OpPump 1]) = Some w /\
    step w (OpPump 1) = Running w' r /\
    total_queue w = 12%nat /\ total_queue w' = 14%nat.
Proof. exact total_queue_can_grow. Qed.
Print Assumptions C14_queue_length_not_a_measure.

(* Eventual convergence: every reachable world has a continuation by
   deliveries only after which the user list of every member of every group
   IS the group's membership (which is the membership of before, without the
   members that had a kick queued). *)
Theorem C14_eventual_convergence : forall ops w s,
  Forall op_ok ops -> run_log empty_world no_log ops = Some (w, s) ->
  exists pumps w',
    forallb is_pump pumps = true /\
    run_log empty_world no_log (ops ++ pumps) = Some (w', s) /\
    quiescent w' /\
    (forall g, members w' g = filter (fun x => negb (kick_queued w x)) (members w g)) /\
    forall g h, In h (members w' g) ->
      Permutation (fold_user_events (received w' s h)) (true_list w' g) /\
      forall id, view_lookup id (fold_user_events (received w' s h)) = truth w' g id.
Proof. exact eventual_convergence. Qed.
Print Assumptions C14_eventual_convergence.

(* No event about one group reaches a member of another: a queued user event
   of group g is dropped by a connection whose group is not g (the group
   test of pushClientAction), and consequently every entry of a member's
   list is a member of ITS group (or its recorder). *)
Theorem C14_foreign_event_dropped : forall w h c g kind id u p d,
  c_group c <> Some g -> handle_action w h c (APushClient g kind id u p d) = ok w.
Proof. exact push_other_group_dropped. Qed.
Print Assumptions C14_foreign_event_dropped.

Theorem C14_no_cross_group : forall ops w s,
  Forall op_ok ops -> run_log empty_world no_log ops = Some (w, s) -> quiescent w ->
  forall g h, In h (members w g) ->
  forall i u p, In (i, u, p) (fold_user_events (received w s h)) ->
    (exists x cx, In x (members w g) /\ get_client w x = Some cx /\
                  c_id cx = i /\ c_username cx = u /\ c_perms cx = p) \/
    (recording w g = true /\ (i, (u, p)) = (rec_id, rec_entry)).
Proof. exact c14_no_cross_group. Qed.
Print Assumptions C14_no_cross_group.

(* The step granularity the theorems above rest on, as a fact about the CODE
   (the lock table regenerated from /repo on every run): a join (snapshot of
   the members, admission, insertion, announcements both ways) and a
   departure are each ONE critical section of the group -- no function
   releases a mutex and takes it again, and Group.clients is read and
   written by AddClient and DelClient only under Group.mu.  (AddClient
   unlocking the group around the credential check, and then announcing to
   the member list it read before, breaks the first conjunct.) *)
Theorem C14_membership_steps_atomic :
  split_critical_sections = [] /\
  (forall kind fn pos held required inst,
     In ("group.Group.clients", kind, fn, pos, held, required, inst) accesses ->
     required = "group.Group.mu" /\ In "group.Group.mu" held) /\
  existsb (clients_access "read" "group.AddClient") accesses = true /\
  existsb (clients_access "write" "group.AddClient") accesses = true /\
  existsb (clients_access "read" "group.DelClient") accesses = true /\
  existsb (clients_access "write" "group.DelClient") accesses = true.
Proof. exact membership_steps_atomic. Qed.
Print Assumptions C14_membership_steps_atomic.

(* ------------------------------------------------------------------ *)
(* Non-vacuity.  [ex_ops]: two groups, four connections; an operator and two
   plain users join g, a fourth joins the other group; one member serves its
   queue early and is then made presenter; its outbox is read; another
   member leaves and is refused on the way back (wrong password); the rest
   is served.  The hypotheses of the theorems hold of it: the run does not
   crash, it is quiescent, g has two members, the other group one. *)
Example C14_history_nontrivial :
  Forall op_ok ex_ops /\
  exists w s, run_log empty_world no_log ex_ops = Some (w, s) /\ quiescent w /\
    members w "g" = [0; 1]%nat /\ members w "other" = [3]%nat /\
    fold_user_events (received w s 1) =
      [("idb", "ann", ["message"; "present"]); ("ida", "oper", ["op"; "present"; "message"])] /\
    true_list w "g" =
      [("ida", "oper", ["op"; "present"; "message"]); ("idb", "ann", ["message"; "present"])] /\
    fold_user_events (received w s 2) = [].
Proof.
  split; [exact ex_ops_ok|].
  destruct (run_log empty_world no_log ex_ops) as [[w s]|] eqn:E; [|vm_compute in E; discriminate].
  exists w, s. split; [reflexivity|].
  assert (Hall : quiescentb w = true /\ members w "g" = [0; 1]%nat /\ members w "other" = [3]%nat /\
    fold_user_events (received w s 1) =
      [("idb", "ann", ["message"; "present"]); ("ida", "oper", ["op"; "present"; "message"])] /\
    true_list w "g" =
      [("ida", "oper", ["op"; "present"; "message"]); ("idb", "ann", ["message"; "present"])] /\
    fold_user_events (received w s 2) = []).
  { vm_compute in E. inversion E; subst. vm_compute. repeat split. }
  destruct Hall as (Hq & H). split; [apply quiescentb_ok; exact Hq | exact H].
Qed.

(* the hypotheses of C14_join_symmetry and C14_delete_once: a reachable state
   in which a third connection joins a group with two members, and one in
   which a member of a group with three members leaves *)
Example C14_join_leave_nontrivial :
  exists w s, run_log empty_world no_log (firstn 8 ex_ops) = Some (w, s) /\
    members w "g" = [0; 1]%nat /\
    (exists c r c', get_client w 2 = Some c /\ c_closed c = false /\ c_group c = None /\
        handle_join w 2 c (ex_join "g" "bob" "pwb") = Ok r /\
        get_client (r_world r) 2 = Some c' /\ c_group c' = Some "g" /\
        members (r_world r) "g" = [0; 1; 2]%nat) /\
    (exists c, get_client w 1 = Some c /\ c_group c = Some "g" /\
        members (leave_group w 1) "g" = [0]%nat).
Proof.
  destruct (run_log empty_world no_log (firstn 8 ex_ops)) as [[w s]|] eqn:E; [|vm_compute in E; discriminate].
  exists w, s. split; [reflexivity|].
  vm_compute in E. inversion E; subst. clear E.
  split; [vm_compute; reflexivity|]. split.
  - eexists. eexists. eexists. split; [vm_compute; reflexivity|].
    split; [reflexivity|]. split; [reflexivity|].
    split; [vm_compute; reflexivity|]. split; [vm_compute; reflexivity|].
    split; [reflexivity|]. vm_compute. reflexivity.
  - eexists. split; [vm_compute; reflexivity|]. split; [reflexivity|]. vm_compute. reflexivity.
Qed.

(* the hypotheses of C14_quiescence_reachable / C14_eventual_convergence in a
   NON-quiescent world: [nq_ops] = three members of g and one of `other`
   have joined and nothing has been served; the operator has made idb a
   presenter and has kicked idc.  16 actions are queued, among them a
   permission change (for 1) and a kick (for 2).  Three rounds of pumps end
   in a quiescent world in which g has lost exactly the kicked member and
   the two others hold the true list. *)
Example C14_quiescence_nontrivial :
  Forall op_ok nq_ops /\
  exists w s, run_log empty_world no_log nq_ops = Some (w, s) /\
    ~ quiescent w /\ total_queue w = 16%nat /\
    members w "g" = [0; 1; 2]%nat /\ kick_queued w 2 = true /\
    filter (fun x => negb (kick_queued w x)) (members w "g") = [0; 1]%nat /\
    forallb is_pump nq_pumps = true /\
    exists w', run_log empty_world no_log (nq_ops ++ nq_pumps) = Some (w', s) /\
      quiescent w' /\ members w' "g" = [0; 1]%nat /\
      fold_user_events (received w' s 0) =
        [("ida", "oper", ["op"; "present"; "message"]); ("idb", "ann", ["message"; "present"])] /\
      fold_user_events (received w' s 1) =
        [("idb", "ann", ["message"; "present"]); ("ida", "oper", ["op"; "present"; "message"])] /\
      true_list w' "g" =
        [("ida", "oper", ["op"; "present"; "message"]); ("idb", "ann", ["message"; "present"])].
Proof.
  split; [exact nq_ops_ok|].
  destruct (run_log empty_world no_log nq_ops) as [[w s]|] eqn:E; [|vm_compute in E; discriminate].
  exists w, s. split; [reflexivity|].
  destruct (run_log empty_world no_log (nq_ops ++ nq_pumps)) as [[w' s']|] eqn:E'; [|vm_compute in E'; discriminate].
  assert (Es : s' = s).
  { rewrite run_log_app, E in E'.
    assert (Hw : run_ops w nq_pumps = Some w') by (eapply run_log_world; exact E').
    rewrite (run_log_pumps nq_pumps w s w' eq_refl Hw) in E'. inversion E'. reflexivity. }
  subst s'.
  vm_compute in E. inversion E; subst w s. clear E.
  split. { intro Hq. pose proof (Hq 0%nat _ eq_refl eq_refl) as X. discriminate X. }
  split; [vm_compute; reflexivity|]. split; [vm_compute; reflexivity|].
  split; [vm_compute; reflexivity|]. split; [vm_compute; reflexivity|]. split; [reflexivity|].
  exists w'. split; [reflexivity|].
  vm_compute in E'. inversion E'; subst w'. clear E'.
  split; [apply quiescentb_ok; vm_compute; reflexivity|].
  vm_compute. repeat split.
Qed.

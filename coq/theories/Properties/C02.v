(* C02  Forwarding rewrites only seqno, marker and VP8 picture id; ids stay
   consecutive.  Models: Model/Rewrite.v (codecs.RewritePacket, byte level,
   bounds-checked), Model/Forward.v (rtpDownTrack.Write), Model/PacketMapL1.v
   (picture-id bookkeeping of packetmap).  Tied to the code by the `forward`
   driver (real rtpDownTrack over a capturing sink, real VP8/VP9 packets).
   pion's TrackLocalStaticRTP rewrites SSRC and payload type (session-level
   fields, outside the property). *)
From Coq Require Import ZArith List Bool.
From Galene Require Import Lib.Word Model.Rewrite Model.Layers Model.Forward Model.PacketMapL1.
From Galene Require Import Proofs.RewriteSafe Proofs.ForwardProps Proofs.PidFrames Proofs.Layers.
Import ListNotations.
Open Scope Z_scope.

(* For every packet (any bytes), codec, marker request, sequence number and
   picture-id delta: RewritePacket either fails or returns a packet of the
   same length that differs from the input at most at byte 1, bytes 2-3 and,
   for VP8, the two bytes where the picture id lives (payload_offset follows
   RFC 3550: 12 + 4*CC + header extension).  So timestamp, SSRC, CSRCs,
   extension and payload are untouched. *)
Theorem C02_frame : forall vp8 data sm seqno delta,
  (forall b, In b data -> 0 <= b < 256) ->
  match rewrite vp8 data sm seqno delta with
  | RPanic => False
  | RErr => True
  | ROk d =>
      same_except (if vp8 then [payload_offset data + 3; payload_offset data + 2; 3; 2; 1]
                   else [3; 2; 1]) data d
  end.
Proof. exact rewrite_spec. Qed.
Print Assumptions C02_frame.

Theorem C02_length : forall vp8 data sm seqno delta d,
  (forall b, In b data -> 0 <= b < 256) ->
  rewrite vp8 data sm seqno delta = ROk d -> length d = length data.
Proof. exact rewrite_length. Qed.
Print Assumptions C02_length.

(* bytes 2-3 carry the new sequence number; in byte 1 only the marker bit can
   change, and only from clear to set *)
Theorem C02_header_values : forall vp8 data sm seqno delta d,
  (forall b, In b data -> 0 <= b < 256) ->
  rewrite vp8 data sm seqno delta = ROk d ->
  nth 1 d 0 = (if sm && negb (hibit (nth 1 data 0)) then nth 1 data 0 + 128 else nth 1 data 0) /\
  nth 2 d 0 = seqno / 256 /\ nth 3 d 0 = seqno mod 256.
Proof. exact rewrite_values. Qed.
Print Assumptions C02_header_values.

(* What Write sends: same length; only those bytes; the marker is only ever
   set, and only on the last packet (End) of a frame of the forwarded spatial
   layer whose marker was clear. *)
Theorem C02_write : forall vp8 st f buf, bytes_ok buf ->
  let l3 := fst (fst (write_decision st f)) in
  match snd (fst (write vp8 st f buf)) with
  | WPanic => False
  | WSent d =>
      same_except (if vp8 then [payload_offset buf + 3; payload_offset buf + 2; 3; 2; 1] else [3; 2; 1]) buf d /\
      (nth 1 d 0 = nth 1 buf 0 \/
       (nth 1 d 0 = nth 1 buf 0 + 128 /\ hibit (nth 1 buf 0) = false /\
        f_end f = true /\ f_sid f = sid l3 /\ f_marker f = false))
  | _ => True
  end.
Proof. exact write_sent_spec. Qed.
Print Assumptions C02_write.

(* VP8 picture ids (RFC 7741: X and I set; M selects 15 or 7 bits): the id
   becomes (id + delta) mod 2^15, resp. 2^7, and the M bit is kept; without
   the extension octets nothing is touched. *)
Theorem C02_pid15 : forall data o delta b0 b1 b2 b3,
  rd data o = Some b0 -> hibit b0 = true ->
  rd data (o + 1) = Some b1 -> hibit b1 = true ->
  rd data (o + 2) = Some b2 -> hibit b2 = true ->
  rd data (o + 3) = Some b3 ->
  let pid' := ((b2 mod 128) * 256 + b3 + delta) mod 32768 in
  exists d, rewrite_vp8 data o delta = ROk d /\
    nth (Z.to_nat (o + 2)) d 0 = 128 + pid' / 256 /\
    nth (Z.to_nat (o + 3)) d 0 = pid' mod 256.
Proof. exact rewrite_vp8_pid15. Qed.
Print Assumptions C02_pid15.

Theorem C02_pid7 : forall data o delta b0 b1 b2,
  rd data o = Some b0 -> hibit b0 = true ->
  rd data (o + 1) = Some b1 -> hibit b1 = true ->
  rd data (o + 2) = Some b2 -> hibit b2 = false ->
  exists d, rewrite_vp8 data o delta = ROk d /\
    nth (Z.to_nat (o + 2)) d 0 = (b2 + delta) mod 128.
Proof. exact rewrite_vp8_pid7. Qed.
Print Assumptions C02_pid7.

(* Consecutive ids.  The packet map keeps (nextPid, pidDelta); for an in-order
   packet Drop maps them by [pstep _ (pid, true)] (lemma drop_scalars) and Map
   by [pstep _ (pid, false)]; Write hands -pidDelta to RewritePacket.  For
   every in-order history whose source ids are consecutive per frame, with an
   arbitrary pattern of withheld packets, a forwarded packet with source id
   pid carries pid minus the number of withheld frames, modulo 2^7 or 2^15:
   forwarded frames keep consecutive ids and the packets of one frame one id. *)
Theorem C02_pids_consecutive : forall w, (w = 7 \/ w = 15) ->
  forall hist np pid, 0 <= np < 2 ^ w -> ids_consecutive w np hist ->
  let '(_, pd') := fold_left pstep hist (np, 0) in
  forwarded_id w pid pd' = (pid - dropped_frames w np hist) mod 2 ^ w.
Proof. exact forwarded_id_after. Qed.
Print Assumptions C02_pids_consecutive.

Theorem C02_drop_bookkeeping : forall a s pid, l_started a = true -> s = l_next a ->
  fst (l1_drop a s pid) = true /\
  (l_nextPid (snd (l1_drop a s pid)), l_pidDelta (snd (l1_drop a s pid)))
  = pstep (l_nextPid a, l_pidDelta a) (pid, true).
Proof. exact drop_scalars. Qed.
Print Assumptions C02_drop_bookkeeping.

(* non-vacuity: a VP8 packet with a 15-bit id 0x7FFF, delta -1 (65535): the id
   becomes 0x7FFE, the marker is set, the number replaced, nothing else moves;
   and ids 100,101(withheld),102 are forwarded as 100,101 *)
Example C02_example :
  rewrite true [128;96;0;5; 0;0;0;1; 0;0;18;52; 144;128;255;255;7;1;2] true 258 65535
  = ROk [128;224;1;2; 0;0;0;1; 0;0;18;52; 144;128;255;254;7;1;2] /\
  (let '(_, pd) := fold_left pstep [(100, false); (101, true); (101, true); (102, false)] (99, 0) in
   (forwarded_id 15 100 0, forwarded_id 15 102 pd)) = (100, 101).
Proof. vm_compute. split; reflexivity. Qed.

(* C20  Recordings contain exactly the frames that were sent, in order, intact.
   Statements only; every proof is [exact lemma].  Model: Model/Disk.v, tied
   to diskwriter/diskwriter.go, rtptime/rtptime.go and codecs.Keyframe(VP8) by
   the `disk` correspondence driver (real diskwriter.Client, files parsed
   back with ebml-go).

   What is proved is galene's own logic, for every delivery history:
   what diskTrack.Write hands to the sample builder (identity of the bytes,
   recovery from the cache, treatment of duplicates, late packets and jumps),
   the container timestamp arithmetic, and, RELATIVE TO A SPECIFICATION OF
   THE SAMPLE BUILDER (an oracle: complete frames, in order, once), which
   frames reach the file.  The builder (jech/samplebuilder) and the container
   writer (at-wat/ebml-go) are dependencies: checked differentially only.

   [parse] is pion's rtp.Packet.Unmarshal (any function), a cache is any
   function from 16-bit numbers to optional packets; histories let the cache
   change between deliveries. *)
From Coq Require Import ZArith List Bool Lia.
From Galene Require Import Lib.Word Model.Disk.
From Galene Require Import Proofs.DiskGap Proofs.DiskTime Proofs.DiskFrames.
Import ListNotations.
Open Scope Z_scope.

(* Every packet handed to the builder, in every history, is byte-identical
   to a published packet: it is the delivered buffer itself, or exactly what
   the cache holds under a number that was fetched during that Write (the
   first n bytes of the scratch buffer ARE the cached packet: no padding, no
   truncation), and it is the unmarshalling of exactly those bytes. *)
Theorem C20_pushed_identical : forall parse h last k cache buf evs b p,
  nth_error h k = Some (cache, buf) ->
  nth_error (snd (run_writes parse last h)) k = Some evs ->
  In (b, p) (pushes evs) ->
  parse b = Some p /\
  (b = buf \/ exists s, In s (map fst (fetches evs)) /\ cache s = Some b /\ 0 < dlen b).
Proof. exact history_pushed. Qed.
Print Assumptions C20_pushed_identical.

(* fetch: the four outcomes; a hit pushes the cached bytes and nothing else *)
Theorem C20_fetch_exact : forall parse cache s,
  (cache s = None /\ fetch parse cache s = [EFetch s 0]) \/
  (exists b, cache s = Some b /\ dlen b = 0 /\ fetch parse cache s = [EFetch s 0]) \/
  (exists b, cache s = Some b /\ 0 < dlen b /\ parse b = None /\
             fetch parse cache s = [EFetch s (dlen b)]) \/
  (exists b p, cache s = Some b /\ 0 < dlen b /\ parse b = Some p /\
             fetch parse cache s = [EFetch s (dlen b); EPush b p]).
Proof. exact fetch_cases. Qed.
Print Assumptions C20_fetch_exact.

(* One Write ahead of the newest number M (unwrapped; the state holds
   M mod 2^16) by less than 256, every number in between held by the cache:
   the builder receives M+1, ..., N in order, each once, without a gap; the
   numbers asked for are exactly M+1 .. N-1; no keyframe is requested. *)
Theorem C20_recovery_step : forall parse cache M N buf p,
  parse buf = Some p -> p_seq p = w16 N ->
  0 < N - M < 256 ->
  (forall K, M < K < N -> holds parse cache K) ->
  let '(last', evs) := write parse cache (Some (w16 M)) buf in
  last' = Some (w16 N) /\
  pushed_seqs evs = map w16 (zrange M N) /\
  kfreqs evs = [] /\
  map fst (fetches evs) = map w16 (zrange M (N - 1)).
Proof. exact write_recovers. Qed.
Print Assumptions C20_recovery_step.

(* Whole histories (each delivery annotated with the unwrapped number of its
   packet): if every delivery is either less than 256 ahead of the newest
   number with everything in between in the cache at that moment, or at most
   511 behind it (reordering, duplicates), then the state follows the newest
   number, no keyframe is ever requested, and what the builder receives at
   each step is exactly [expected]: the whole run M+1..N when the delivery is
   ahead, the delivered packet alone when it is late or a duplicate. *)
Theorem C20_recovery : forall parse h M,
  Recoverable parse M h ->
  fst (run_writes parse (Some (w16 M)) (strip h)) = Some (w16 (newest M h)) /\
  map pushed_seqs (snd (run_writes parse (Some (w16 M)) (strip h))) =
  map (map w16) (expected M h) /\
  Forall (fun evs => kfreqs evs = []) (snd (run_writes parse (Some (w16 M)) (strip h))).
Proof. exact history_recovers. Qed.
Print Assumptions C20_recovery.

(* The numbers that are new at some step are exactly M+1 .. newest in
   increasing order, each once (nothing is skipped, nothing is fetched
   twice), and all of them are among the pushed numbers: no gap. *)
Theorem C20_no_gap : forall h M,
  news M h = zrange M (newest M h) /\
  forall K, In K (news M h) -> In K (concat (expected M h)).
Proof. intros h M. split; [exact (news_contiguous h M)|exact (news_in_expected h M)]. Qed.
Print Assumptions C20_no_gap.

(* Duplicates: "no packet is pushed twice" is FALSE of the code.  The recorder
   does not filter: every delivered packet that unmarshals is pushed, as the
   last push of its Write, whatever was delivered before ... *)
Theorem C20_delivered_is_pushed : forall parse cache last buf p,
  parse buf = Some p ->
  exists pre, pushes (snd (write parse cache last buf)) = pre ++ [(buf, p)] /\
              forall b q, In (b, q) pre -> exists s, cache s = Some b.
Proof. exact write_delivered_last. Qed.
Print Assumptions C20_delivered_is_pushed.

(* ... a packet up to 511 numbers behind the newest one (or the newest one
   again) is handed to the builder as it is, nothing is fetched, the state is
   kept; rejecting it is left to the builder, whose window is 32 (audio) or
   256 (video): finding N1 ... *)
Theorem C20_late_or_duplicate : forall parse cache M N buf p,
  parse buf = Some p -> p_seq p = w16 N ->
  0 <= M - N < 512 ->
  write parse cache (Some (w16 M)) buf = (Some (w16 M), [EPush buf p]).
Proof. exact write_late. Qed.
Print Assumptions C20_late_or_duplicate.

(* ... and the same packet delivered twice is pushed twice (witness) *)
Theorem C20_no_duplicate_push_refuted : forall parse cache buf p,
  parse buf = Some p ->
  map pushed_seqs (snd (run_writes parse None [(cache, buf); (cache, buf)])) =
  [[p_seq p]; [p_seq p]].
Proof. exact duplicate_pushed_twice. Qed.
Print Assumptions C20_no_duplicate_push_refuted.

(* jumps: 256 or more ahead: nothing is fetched, a keyframe is requested;
   512 or more behind: the state is forgotten, a keyframe is requested *)
Theorem C20_jump_forward : forall M N,
  256 <= N - M < 32768 ->
  gap_step (Some (w16 M)) (w16 N) = (Some (w16 N), [], true).
Proof. exact gap_step_far. Qed.
Print Assumptions C20_jump_forward.
Theorem C20_jump_backward : forall M N,
  512 <= M - N <= 32768 ->
  gap_step (Some (w16 M)) (w16 N) = (None, [], true).
Proof. exact gap_step_reset. Qed.
Print Assumptions C20_jump_backward.

(* Container timestamps: for an origin O and RTP timestamps T1 <= T2 (all
   unwrapped; the code sees them mod 2^32) with T1 at or after the origin and
   T2 less than 2^31 ticks after it, neither sample is dropped as "before the
   origin", the timestamps written do not decrease, and they are
   (T - O) / (clockrate / 1000) -- wherever the 32-bit wrap falls. *)
Theorem C20_ts_monotone : forall O T1 T2 rate,
  1000 <= rate -> 0 <= T1 - O -> T1 <= T2 -> T2 - O < 2147483648 ->
  before_origin (w32 O) (w32 T1) = false /\
  before_origin (w32 O) (w32 T2) = false /\
  tm_of (w32 O) rate (w32 T1) <= tm_of (w32 O) rate (w32 T2) /\
  tm_of (w32 O) rate (w32 T1) = (T1 - O) / (rate / 1000).
Proof. exact tm_monotone. Qed.
Print Assumptions C20_ts_monotone.

(* ... but the origin itself moves when a sender report arrives (finding N3):
   video keyframe and first audio packet arrive together; audio frame 9 is
   written with timestamp 180; the first audio sender report says the audio
   started 100 ms later; frame 10 is written with timestamp 100. *)
Theorem C20_ts_sender_report_refuted :
  origin_of n3_conn1 0 = Some 48000 /\
  origin_of n3_conn2 0 = Some 52800 /\
  before_origin 48000 56640 = false /\ before_origin 52800 57600 = false /\
  tm_of 48000 48000 56640 = 180 /\ tm_of 52800 48000 57600 = 100.
Proof. exact n3_witness. Qed.
Print Assumptions C20_ts_sender_report_refuted.

(* Frames, relative to the builder specification.  One video track of any
   codec [cd] (clock rate >= 1000, keyframes of dimensions w x h), any
   builder: a run is the list of pushed packets with the samples the builder
   hands out after each push, and the samples of the final forced flush.
   SPECIFICATION of the builder (hypotheses): the samples, in the order they
   are handed out, are the frames pre ++ K :: post of the stream, each
   complete (its data), once, in order -- [Forall2 .. al fs] says exactly
   this -- where K is the first keyframe.  Side conditions on the run: frames
   before K are popped before any keyframe packet was pushed or lie less than
   65536 ticks before K; K is popped while savedKf is its own first packet;
   later frames are less than 2^31 ticks after K and the test
   ts == savedKf.Timestamp answers correctly (no keyframe overtaken by the
   first packet of a later one: N2).
   CONCLUSION: no conn.close()/panic outcome; the file is opened once, with
   K, and holds exactly K :: post: every frame from the first keyframe on,
   byte-identical, in order, once, none missing, with keyframe flags and
   timestamps (T - TK) / (clockrate/1000). *)
Theorem C20_frames : forall (cd : codec),
  cd_video cd = true -> 1000 <= cd_rate cd ->
  forall (w h : Z) steps final al_pre pre ak K al_post post TK,
  DimsOK cd w h steps ->
  annot cd None None steps
    ++ map (fun s => (final_org cd None steps, final_cur cd None steps, s)) final
    = al_pre ++ ak :: al_post ->
  Forall2 (PreOK TK) al_pre pre -> KeyOK TK ak K -> Forall2 (PostOK TK) al_post post ->
  exists cn1 e1 cn2 e2,
    sink_run (new_conn [cd]) steps = (cn1, e1, FlContinue) /\
    process_samples cn1 0 final = (cn2, e2, FlContinue) /\
    e1 ++ e2 = FOpen w h :: map (written cd TK) (K :: post).
Proof. exact frames_written. Qed.
Print Assumptions C20_frames.

(* the written timestamps do not decrease along the stream *)
Theorem C20_frames_ts : forall (cd : codec), 1000 <= cd_rate cd ->
  forall TK f g, TK <= sf_T f <= sf_T g ->
  (sf_T f - TK) / (cd_rate cd / 1000) <= (sf_T g - TK) / (cd_rate cd / 1000).
Proof. exact written_monotone. Qed.
Print Assumptions C20_frames_ts.

(* the recorder (any builder B) is sink_run over the builder's answers to
   the pushes of diskTrack.Write, as long as the loop is not left *)
Theorem C20_pipeline_is_sink : forall (B : Type) bpush bdrain (b0 : B) cd ps r now b r' n evs,
  one_track cd (r_conn B r) -> r_builders B r = [b] ->
  gpush_all B bpush bdrain b0 r 0 now ps = (r', n, evs, FlContinue) ->
  sink_run (r_conn B r) (fst (answers B bpush bdrain cd b now ps)) = (r_conn B r', evs, FlContinue) /\
  r_builders B r' = [snd (answers B bpush bdrain cd b now ps)] /\ one_track cd (r_conn B r').
Proof. exact gpush_all_sink. Qed.
Print Assumptions C20_pipeline_is_sink.

(* "none missing after the first keyframe" is FALSE of the code without the
   N2 side condition: keyframes K0 = packets 1000..1002 and K1 = 1003..1005,
   delta frame 1006; delivery 1000,1001,1003,1002,1004,1005,1006 (everything
   delivered, reordering by one packet): K0 is dropped. *)
Theorem C20_first_keyframe_overtaken_refuted :
  record (map pk [1000; 1001; 1002; 1003; 1004; 1005; 1006]) =
  [FOpen 320 240; FWrite 0 true 0 dataK0; FWrite 0 true 33 dataK1; FWrite 0 false 66 dataD; FClose] /\
  record (map pk [1000; 1001; 1003; 1002; 1004; 1005; 1006]) =
  [FOpen 320 240; FWrite 0 true 0 dataK1; FWrite 0 false 33 dataD; FClose].
Proof. exact (conj record_in_order record_keyframe_overtaken). Qed.
Print Assumptions C20_first_keyframe_overtaken_refuted.

(* file names: the sanitised user name contains no path separator, and a
   name without separators is unchanged *)
Theorem C20_sanitise : forall s,
  (~ In 47 (sanitise s) /\ ~ In 92 (sanitise s)) /\
  (~ In 47 s -> ~ In 92 s -> sanitise s = s).
Proof. intros s. exact (conj (sanitise_no_separator s) (sanitise_plain s)). Qed.
Print Assumptions C20_sanitise.

(* non-vacuity.  (1) a recoverable history across the 16-bit wrap: newest
   number 65534, delivery of 65537 with 65535 and 65536 in the cache, then the
   late 65535 itself, then a duplicate of 65537; (2) the hypotheses of
   C20_frames hold of the in-order run of the three frames above. *)
Definition ex_bytes (N : Z) : list Z := [N mod 65536 / 256; N mod 256; 7].
Definition ex_parse (b : list Z) : option pkt :=
  match b with
  | [hi; lo; _] => Some (mkPkt (hi * 256 + lo) 0 false b)
  | _ => None
  end.
Definition ex_cache : Z -> option (list Z) :=
  fun s => if (s =? 65535) || (s =? 0) then Some (ex_bytes s) else None.
Example C20_example :
  let h : ghist := [(65537, ex_cache, ex_bytes 65537); (65535, ex_cache, ex_bytes 65535);
                    (65537, ex_cache, ex_bytes 65537)] in
  Recoverable ex_parse 65534 h /\
  expected 65534 h = [[65535; 65536; 65537]; [65535]; [65537]] /\
  map pushed_seqs (snd (run_writes ex_parse (Some 65534) (strip h))) = [[65535; 0; 1]; [65535]; [1]] /\
  (DimsOK vp8_codec 320 240 ex_steps /\
   exists ak al_post,
     annot vp8_codec None None ex_steps
       ++ map (fun s => (final_org vp8_codec None ex_steps, final_cur vp8_codec None ex_steps, s)) []
     = [] ++ ak :: al_post /\
     KeyOK 9000 ak (mkSF 9000 true dataK0) /\
     Forall2 (PostOK 9000) al_post [mkSF 12000 true dataK1; mkSF 15000 false dataD]).
Proof.
  cbv zeta. split; [|split; [|split]].
  - cbn [Recoverable].
    split; [exists (mkPkt 1 0 false (ex_bytes 65537)); split; reflexivity|].
    split.
    { left. split; [lia|]. intros K HK.
      assert (K = 65535 \/ K = 65536) as [-> | ->] by lia.
      - exists (ex_bytes 65535), (mkPkt 65535 0 false (ex_bytes 65535)). repeat split; reflexivity.
      - exists (ex_bytes 0), (mkPkt 0 0 false (ex_bytes 0)). repeat split; reflexivity. }
    change (Z.max 65534 65537) with 65537.
    split; [exists (mkPkt 65535 0 false (ex_bytes 65535)); split; reflexivity|].
    split; [right; lia|].
    change (Z.max 65537 65535) with 65537.
    split; [exists (mkPkt 1 0 false (ex_bytes 65537)); split; reflexivity|].
    split; [right; lia|exact I].
  - reflexivity.
  - vm_compute. reflexivity.
  - exact frames_example.
Qed.

(* ================================================================== *)
(* Audio and video share one time origin (the two-track statement).

   Model: set_origin / set_time_offset / adjust_origin of Model/Disk.v (the
   statement-by-statement transcription of diskTrack.setOrigin,
   setTimeOffset, adjustOrigin, compared with the real code by the
   `disktime' component on every run) under the event layer of
   Model/DiskOrigin.v: OFirst i ts now (writeRTP found track i without
   origin and calls setOrigin), OSR i ntp rtp (a sender report:
   SetTimeOffset), OOpen i ts (initWriter opens the file: adjustOrigin),
   OClose (conn.close()).

   [capture_time t ts] is the publisher's NTP time (ns since 1900) at which
   timestamp ts of track t was sampled according to the track's last sender
   report - the code's own expression `remote' in setOrigin.  [Inv k c]
   (Proofs/DiskOriginInv.v) says: every track that has an origin o and a
   sender report satisfies
       | capture_time t o - NTPToTime(originRemote) | <= k * (10^9/rate + 3) ns,
   originRemote <> 0: ALL such tracks measure from ONE publisher instant.
   [hist_ok c es] says that the quantities the code converts along the
   history stay in range (stated on the code's own expressions: samples and
   origins within 2^30 ticks of the sender report, clock skews and
   adjustments below 1000 s, times in NTP era 0, clock rates 1 kHz..1 MHz);
   [hist_okb] is its executable form. *)
From Galene Require Import Model.DiskOrigin Proofs.DiskOriginInv Proofs.DiskOrigin.

(* EVERY history - any number of tracks, any order of first samples, sender
   reports (any number of them, also ones that move an origin), file
   openings and closes: the invariant is kept; only an adjustOrigin costs
   one more tick of slack.  In particular, from a new two-track connection. *)
Theorem C20_common_origin_every_history : forall es k c,
  1 <= k -> Inv k c -> hist_ok c es -> Inv (k + opens es) (orun c es).
Proof. exact run_inv. Qed.
Print Assumptions C20_common_origin_every_history.

Theorem C20_common_origin_two_tracks : forall r0 r1 es,
  rate_ok r0 -> rate_ok r1 -> hist_ok (conn2 r0 r1) es ->
  Inv (1 + opens es) (orun (conn2 r0 r1) es).
Proof. exact fresh_run_inv. Qed.
Print Assumptions C20_common_origin_two_tracks.

(* What the invariant means for the file: two tracks with an origin and a
   sender report each (clock rates multiples of 1000 up to 1 MHz), a sample
   of A and a sample of B that are written: the difference of their
   container timestamps (ms) is the difference of their capture times, up to
   1 ms (rounding down to ms) + 2 ns + k * (one tick + 3 ns) per track.
   For Opus/video and k = 1: 1 000 002 + 20 836 + 11 114 ns. *)
Theorem C20_two_tracks_container_times : forall k c tA tB oA oB sA sB qA qB,
  Inv k c -> In tA (tc_tracks c) -> In tB (tc_tracks c) ->
  tt_origin tA = Some oA -> tt_ntp tA <> 0 ->
  tt_origin tB = Some oB -> tt_ntp tB <> 0 ->
  tt_rate tA = 1000 * qA -> 1 <= qA <= 1000 ->
  tt_rate tB = 1000 * qB -> 1 <= qB <= 1000 ->
  near (i32 (sA - tt_rtp tA)) -> near (i32 (oA - tt_rtp tA)) -> before_origin oA sA = false ->
  near (i32 (sB - tt_rtp tB)) -> near (i32 (oB - tt_rtp tB)) -> before_origin oB sB = false ->
  Z.abs ((tm_of oA (tt_rate tA) sA - tm_of oB (tt_rate tB) sB) * 1000000
         - (capture_time tA sA - capture_time tB sB))
  <= 1000002 + sync_bound k (tt_rate tA) + sync_bound k (tt_rate tB).
Proof. exact two_track_container_times. Qed.
Print Assumptions C20_two_tracks_container_times.

Theorem C20_sync_bound_values :
  sync_bound 1 48000 = 20836 /\ sync_bound 1 90000 = 11114 /\
  sync_bound 2 48000 = 41672 /\ sync_bound 2 90000 = 22228.
Proof. exact sync_bound_values. Qed.
Print Assumptions C20_sync_bound_values.

(* (a) The first sample of each of two tracks and the sender report of each:
   in each of the 12 orders in which both sender reports are known before
   the second origin is set (good_orders = the orders without a sender
   report after the second OFirst), for all values in range: no origin is
   changed after it was set; the track that came first keeps the timestamp
   of its first sample as origin; the two origins were sampled at the same
   publisher time up to one tick of each clock + 6 ns; written samples get
   container timestamps whose difference is the difference of their
   capture times up to 1 ms + one tick of each clock + 8 ns. *)
Theorem C20_two_tracks_reports_before_second_origin :
  forall r0 r1 ts0 now0 ts1 now1 ntp0 rtp0 ntp1 rtp1,
  rate_ok r0 -> rate_ok r1 -> ntp0 <> 0 -> ntp1 <> 0 ->
  0 <= ntp0 < 18446744073709551616 -> 0 <= ntp1 < 18446744073709551616 ->
  near (i32 (ts0 - rtp0)) -> near (i32 (ts1 - rtp1)) ->
  era_ok (cap ntp0 rtp0 r0 ts0) -> era_ok (cap ntp1 rtp1 r1 ts1) ->
  - (999 * second) <= cap ntp0 rtp0 r0 ts0 - cap ntp1 rtp1 r1 ts1 <= 999 * second ->
  forall es, In es (good_orders ts0 now0 ts1 now1 ntp0 rtp0 ntp1 rtp1) ->
  origin_moved (conn2 r0 r1) es = false /\
  exists o0 o1,
    origins (orun (conn2 r0 r1) es) = [Some o0; Some o1] /\ (o0 = ts0 \/ o1 = ts1) /\
    Z.abs (cap ntp0 rtp0 r0 o0 - cap ntp1 rtp1 r1 o1) <= sync_bound 1 r0 + sync_bound 1 r1 /\
    forall q0 q1 s0 s1,
      r0 = 1000 * q0 -> 1 <= q0 <= 1000 -> r1 = 1000 * q1 -> 1 <= q1 <= 1000 ->
      near (i32 (s0 - rtp0)) -> near (i32 (o0 - rtp0)) -> before_origin o0 s0 = false ->
      near (i32 (s1 - rtp1)) -> near (i32 (o1 - rtp1)) -> before_origin o1 s1 = false ->
      Z.abs ((tm_of o0 r0 s0 - tm_of o1 r1 s1) * 1000000
             - (cap ntp0 rtp0 r0 s0 - cap ntp1 rtp1 r1 s1))
      <= 1000002 + sync_bound 1 r0 + sync_bound 1 r1.
Proof. exact good_orders_common_origin. Qed.
Print Assumptions C20_two_tracks_reports_before_second_origin.

(* (b) The other orders.  On concrete values (Opus + video, the audio 20 ms
   later, see w_orders) ALL 24 orders satisfy the range conditions and end
   with two origins in sync (Inv 1) - but an origin is replaced after it was
   set in EXACTLY the 12 orders in which a sender report comes after the
   second first sample: "the origin of a track is fixed once it is set" is
   false of the code in each of them (finding N3). *)
Theorem C20_two_tracks_all_orders : forall es,
  In es w_orders ->
  hist_ok w_conn es /\ Inv 1 (orun w_conn es) /\
  both_origins (orun w_conn es) = true /\
  origin_moved w_conn es = negb (reports_before_second_origin es).
Proof. exact all_orders_characterised. Qed.
Print Assumptions C20_two_tracks_all_orders.

(* what a sender report does to the origin of its own track, exactly: nothing
   while the track has no origin or originRemote is unknown (then
   originRemote is derived from this report); otherwise the origin moves by
   sr_delta = FromDuration((NTP(report) - NTP(originRemote))
                           - ToDuration(rtp - origin)) ticks,
   whatever was written before *)
Theorem C20_sender_report_effect : forall c i ntp rtp t,
  nth_error (tc_tracks c) i = Some t ->
  origin_of (ostep c (OSR i ntp rtp)) i =
  match tt_origin t with
  | None => None
  | Some o => if tc_remote c =? 0 then Some o
              else Some (w32 (o - w32 (sr_delta c t o ntp rtp)))
  end.
Proof. exact sr_effect. Qed.
Print Assumptions C20_sender_report_effect.

(* (c) per-track monotonicity across such a move is FALSE whenever the
   origin moves later (dl < 0) by more than the distance to the next sample
   plus one millisecond: the later sample T2 is written with a smaller
   timestamp than the earlier sample T1 was (all unwrapped) *)
Theorem C20_ts_origin_move_not_monotone : forall O T1 T2 dl rate,
  1000 <= rate -> dl < 0 ->
  0 <= T1 - O < 2147483648 -> T1 <= T2 -> T2 - T1 + rate / 1000 <= - dl ->
  0 <= T2 - O + dl ->
  before_origin (w32 (w32 O - w32 dl)) (w32 T2) = false /\
  tm_of (w32 (w32 O - w32 dl)) rate (w32 T2) < tm_of (w32 O) rate (w32 T1).
Proof. exact sr_move_not_monotone. Qed.
Print Assumptions C20_ts_origin_move_not_monotone.

(* ... and it happens to the FIRST (video) track too: audio sender report
   known early, video keyframe ts 90000, first audio packet 20 ms later
   (sampled 200 ms after the keyframe by the reports): video frame ts 93000
   is written with timestamp 33; then the first video sender report moves
   the video origin from 90000 to 106199: frame ts 96000 is dropped as
   "before the origin", frame ts 108000 is written with timestamp 20.
   (The same numbers come out of the real setOrigin/setTimeOffset.) *)
Theorem C20_ts_sender_report_first_track_refuted :
  reports_before_second_origin n3v_all = false /\
  hist_okb w_conn n3v_all = true /\
  origins (orun w_conn n3v_pre) = [Some 47040; Some 90000] /\
  origins (orun w_conn n3v_all) = [Some 47040; Some 106199] /\
  container_time (orun w_conn n3v_pre) 1 93000 = Some 33 /\
  container_time (orun w_conn n3v_all) 1 96000 = None /\
  container_time (orun w_conn n3v_all) 1 108000 = Some 20.
Proof. exact n3v_witness. Qed.
Print Assumptions C20_ts_sender_report_first_track_refuted.

(* (c) adjustOrigin.  It runs only when initWriter opens a file (while a
   file is open the time state is untouched), so no sample of that file
   precedes it ... *)
Theorem C20_adjust_only_when_opening : forall cn i w h ts,
  cn_time (fst (fst (init_writer cn i w h ts))) =
  if cn_open cn then cn_time cn else adjust_origin (cn_time cn) i ts.
Proof. exact init_writer_time. Qed.
Print Assumptions C20_adjust_only_when_opening.

(* ... the sample that opens the file (not before its origin) is written,
   with timestamp 0 (clock rate >= 2000); the origin of the opening track
   ends at ts or ONE TICK BEFORE ts ... *)
Theorem C20_adjust_origin_hits : forall c i ts t o,
  nth_error (tc_tracks c) i = Some t -> tt_origin t = Some o ->
  rate_ok (tt_rate t) -> 0 <= i32 (ts - o) -> 0 <= ts < 4294967296 ->
  exists o', origin_of (adjust_origin c i ts) i = Some o' /\
             (o' = ts \/ w32 (ts - o') = 1) /\
             before_origin o' ts = false /\
             (2000 <= tt_rate t -> tm_of o' (tt_rate t) ts = 0).
Proof. exact adjust_origin_hits. Qed.
Print Assumptions C20_adjust_origin_hits.

(* ... "so that the origin of track t is equal to ts" (the comment of
   adjustOrigin) is false: FromDuration(ToDuration(1, 90000), 90000) = 0 *)
Theorem C20_adjust_origin_exact_refuted :
  origin_of (adjust_origin (mkTC (Some 0) 0 [mkTT (Some 0) 0 0 90000]) 0 1) 0 = Some 0.
Proof. exact adjust_origin_one_tick_short. Qed.
Print Assumptions C20_adjust_origin_exact_refuted.

(* N4, for every state: a keyframe sample with other dimensions while the
   file is open makes initWriter call conn.close(), which resets every
   origin; adjustOrigin then does nothing, the new file is opened, and the
   keyframe is NOT written ("Invalid origin"); no track has an origin
   afterwards, so nothing at all is written ... *)
Theorem C20_resize_keyframe_dropped : forall c i ts,
  snd (resize_sample c i ts) = None /\
  fst (resize_sample c i ts) = close_origins c /\
  forall j s, container_time (fst (resize_sample c i ts)) j s = None.
Proof. exact resize_keyframe_dropped. Qed.
Print Assumptions C20_resize_keyframe_dropped.

(* ... until the next keyframe: in a connection with a video track and
   without local origin, writeRTP of any packet that is not the start of a
   video keyframe leaves the time state as it is *)
Theorem C20_no_origin_before_keyframe : forall cn i now p t,
  nth_error (cn_tracks cn) i = Some t ->
  cn_hasVideo cn = true -> tc_local (cn_time cn) = None ->
  origin_of (cn_time cn) i = None ->
  (cd_video (k_cd t) = true -> cd_kf (k_cd t) p = false) ->
  cn_time (fst (write_rtp_pre cn i now p)) = cn_time cn.
Proof. exact no_origin_before_keyframe. Qed.
Print Assumptions C20_no_origin_before_keyframe.

(* non-vacuity of the two-track theorems: the hypotheses of
   C20_two_tracks_reports_before_second_origin hold of concrete values
   (Opus + video), the order SR0 SR1 F1 F0 is one of the 12, it ends with
   origins 52800 / 90000, and the samples 100 ms later satisfy the
   hypotheses about samples and are both written with timestamp 100; the
   range conditions hold along the history of the first-track witness. *)
Example C20_origin_example :
  (rate_ok 48000 /\ rate_ok 90000 /\ w_ntp <> 0 /\ 0 <= w_ntp < 18446744073709551616 /\
   near (i32 (48000 - 52800)) /\ near (i32 (90000 - 90000)) /\
   era_ok (cap w_ntp 52800 48000 48000) /\ era_ok (cap w_ntp 90000 90000 90000) /\
   - (999 * second) <= cap w_ntp 52800 48000 48000 - cap w_ntp 90000 90000 90000
   <= 999 * second) /\
  (let es := [OSR 0 w_ntp 52800; OSR 1 w_ntp 90000;
              OFirst 1 90000 3900000000000000000; OFirst 0 48000 3900000000020000000] in
   In es (good_orders 48000 3900000000020000000 90000 3900000000000000000
                      w_ntp 52800 w_ntp 90000) /\
   origins (orun w_conn es) = [Some 52800; Some 90000] /\
   near (i32 (57600 - 52800)) /\ near (i32 (52800 - 52800)) /\
   before_origin 52800 57600 = false /\
   near (i32 (99000 - 90000)) /\ near (i32 (90000 - 90000)) /\
   before_origin 90000 99000 = false /\
   tm_of 52800 48000 57600 = 100 /\ tm_of 90000 90000 99000 = 100 /\
   cap w_ntp 52800 48000 57600 - cap w_ntp 90000 90000 99000 = 0) /\
  hist_ok w_conn n3v_all.
Proof. exact origin_example. Qed.

(* C20  Recordings contain exactly the frames that were sent, in order, intact.
   Statements only; every proof is [exact lemma].  Model: Model/Disk.v, tied
   to diskwriter/diskwriter.go, rtptime/rtptime.go and codecs.Keyframe(VP8) by
   the `disk` correspondence driver (real diskwriter.Client, files parsed
   back with ebml-go).

   What is proved is galene's own logic, for every delivery history:
   what diskTrack.Write hands to the sample builder (identity of the bytes,
   recovery from the cache, treatment of duplicates, late packets and jumps),
   the container timestamp arithmetic, and, RELATIVE TO A SPECIFICATION OF
   THE SAMPLE BUILDER (an oracle: complete frames, in order, once), which
   frames reach the file.  The builder (jech/samplebuilder) and the container
   writer (at-wat/ebml-go) are dependencies: checked differentially only.

   [parse] is pion's rtp.Packet.Unmarshal (any function), a cache is any
   function from 16-bit numbers to optional packets; histories let the cache
   change between deliveries. *)
From Coq Require Import ZArith List Bool Lia.
From Galene Require Import Lib.Word Model.Disk.
From Galene Require Import Proofs.DiskGap Proofs.DiskTime Proofs.DiskFrames.
Import ListNotations.
Open Scope Z_scope.

(* Every packet handed to the builder, in every history, is byte-identical
   to a published packet: it is the delivered buffer itself, or exactly what
   the cache holds under a number that was fetched during that Write (the
   first n bytes of the scratch buffer ARE the cached packet: no padding, no
   truncation), and it is the unmarshalling of exactly those bytes. *)
Theorem C20_pushed_identical : forall parse h last k cache buf evs b p,
  nth_error h k = Some (cache, buf) ->
  nth_error (snd (run_writes parse last h)) k = Some evs ->
  In (b, p) (pushes evs) ->
  parse b = Some p /\
  (b = buf \/ exists s, In s (map fst (fetches evs)) /\ cache s = Some b /\ 0 < dlen b).
Proof. exact history_pushed. Qed.
Print Assumptions C20_pushed_identical.

(* fetch: the four outcomes; a hit pushes the cached bytes and nothing else *)
Theorem C20_fetch_exact : forall parse cache s,
  (cache s = None /\ fetch parse cache s = [EFetch s 0]) \/
  (exists b, cache s = Some b /\ dlen b = 0 /\ fetch parse cache s = [EFetch s 0]) \/
  (exists b, cache s = Some b /\ 0 < dlen b /\ parse b = None /\
             fetch parse cache s = [EFetch s (dlen b)]) \/
  (exists b p, cache s = Some b /\ 0 < dlen b /\ parse b = Some p /\
             fetch parse cache s = [EFetch s (dlen b); EPush b p]).
Proof. exact fetch_cases. Qed.
Print Assumptions C20_fetch_exact.

(* One Write ahead of the newest number M (unwrapped; the state holds
   M mod 2^16) by less than 256, every number in between held by the cache:
   the builder receives M+1, ..., N in order, each once, without a gap; the
   numbers asked for are exactly M+1 .. N-1; no keyframe is requested. *)
Theorem C20_recovery_step : forall parse cache M N buf p,
  parse buf = Some p -> p_seq p = w16 N ->
  0 < N - M < 256 ->
  (forall K, M < K < N -> holds parse cache K) ->
  let '(last', evs) := write parse cache (Some (w16 M)) buf in
  last' = Some (w16 N) /\
  pushed_seqs evs = map w16 (zrange M N) /\
  kfreqs evs = [] /\
  map fst (fetches evs) = map w16 (zrange M (N - 1)).
Proof. exact write_recovers. Qed.
Print Assumptions C20_recovery_step.

(* Whole histories (each delivery annotated with the unwrapped number of its
   packet): if every delivery is either less than 256 ahead of the newest
   number with everything in between in the cache at that moment, or at most
   511 behind it (reordering, duplicates), then the state follows the newest
   number, no keyframe is ever requested, and what the builder receives at
   each step is exactly [expected]: the whole run M+1..N when the delivery is
   ahead, the delivered packet alone when it is late or a duplicate. *)
Theorem C20_recovery : forall parse h M,
  Recoverable parse M h ->
  fst (run_writes parse (Some (w16 M)) (strip h)) = Some (w16 (newest M h)) /\
  map pushed_seqs (snd (run_writes parse (Some (w16 M)) (strip h))) =
  map (map w16) (expected M h) /\
  Forall (fun evs => kfreqs evs = []) (snd (run_writes parse (Some (w16 M)) (strip h))).
Proof. exact history_recovers. Qed.
Print Assumptions C20_recovery.

(* The numbers that are new at some step are exactly M+1 .. newest in
   increasing order, each once (nothing is skipped, nothing is fetched
   twice), and all of them are among the pushed numbers: no gap. *)
Theorem C20_no_gap : forall h M,
  news M h = zrange M (newest M h) /\
  forall K, In K (news M h) -> In K (concat (expected M h)).
Proof. intros h M. split; [exact (news_contiguous h M)|exact (news_in_expected h M)]. Qed.
Print Assumptions C20_no_gap.

(* Duplicates: "no packet is pushed twice" is FALSE of the code.  The recorder
   does not filter: every delivered packet that unmarshals is pushed, as the
   last push of its Write, whatever was delivered before ... *)
Theorem C20_delivered_is_pushed : forall parse cache last buf p,
  parse buf = Some p ->
  exists pre, pushes (snd (write parse cache last buf)) = pre ++ [(buf, p)] /\
              forall b q, In (b, q) pre -> exists s, cache s = Some b.
Proof. exact write_delivered_last. Qed.
Print Assumptions C20_delivered_is_pushed.

(* ... a packet up to 511 numbers behind the newest one (or the newest one
   again) is handed to the builder as it is, nothing is fetched, the state is
   kept; rejecting it is left to the builder, whose window is 32 (audio) or
   256 (video): finding N1 ... *)
Theorem C20_late_or_duplicate : forall parse cache M N buf p,
  parse buf = Some p -> p_seq p = w16 N ->
  0 <= M - N < 512 ->
  write parse cache (Some (w16 M)) buf = (Some (w16 M), [EPush buf p]).
Proof. exact write_late. Qed.
Print Assumptions C20_late_or_duplicate.

(* ... and the same packet delivered twice is pushed twice (witness) *)
Theorem C20_no_duplicate_push_refuted : forall parse cache buf p,
  parse buf = Some p ->
  map pushed_seqs (snd (run_writes parse None [(cache, buf); (cache, buf)])) =
  [[p_seq p]; [p_seq p]].
Proof. exact duplicate_pushed_twice. Qed.
Print Assumptions C20_no_duplicate_push_refuted.

(* jumps: 256 or more ahead: nothing is fetched, a keyframe is requested;
   512 or more behind: the state is forgotten, a keyframe is requested *)
Theorem C20_jump_forward : forall M N,
  256 <= N - M < 32768 ->
  gap_step (Some (w16 M)) (w16 N) = (Some (w16 N), [], true).
Proof. exact gap_step_far. Qed.
Print Assumptions C20_jump_forward.
Theorem C20_jump_backward : forall M N,
  512 <= M - N <= 32768 ->
  gap_step (Some (w16 M)) (w16 N) = (None, [], true).
Proof. exact gap_step_reset. Qed.
Print Assumptions C20_jump_backward.

(* Container timestamps: for an origin O and RTP timestamps T1 <= T2 (all
   unwrapped; the code sees them mod 2^32) with T1 at or after the origin and
   T2 less than 2^31 ticks after it, neither sample is dropped as "before the
   origin", the timestamps written do not decrease, and they are
   (T - O) / (clockrate / 1000) -- wherever the 32-bit wrap falls. *)
Theorem C20_ts_monotone : forall O T1 T2 rate,
  1000 <= rate -> 0 <= T1 - O -> T1 <= T2 -> T2 - O < 2147483648 ->
  before_origin (w32 O) (w32 T1) = false /\
  before_origin (w32 O) (w32 T2) = false /\
  tm_of (w32 O) rate (w32 T1) <= tm_of (w32 O) rate (w32 T2) /\
  tm_of (w32 O) rate (w32 T1) = (T1 - O) / (rate / 1000).
Proof. exact tm_monotone. Qed.
Print Assumptions C20_ts_monotone.

(* ... but the origin itself moves when a sender report arrives (finding N3):
   video keyframe and first audio packet arrive together; audio frame 9 is
   written with timestamp 180; the first audio sender report says the audio
   started 100 ms later; frame 10 is written with timestamp 100. *)
Theorem C20_ts_sender_report_refuted :
  origin_of n3_conn1 0 = Some 48000 /\
  origin_of n3_conn2 0 = Some 52800 /\
  before_origin 48000 56640 = false /\ before_origin 52800 57600 = false /\
  tm_of 48000 48000 56640 = 180 /\ tm_of 52800 48000 57600 = 100.
Proof. exact n3_witness. Qed.
Print Assumptions C20_ts_sender_report_refuted.

(* Frames, relative to the builder specification.  One video track of any
   codec [cd] (clock rate >= 1000, keyframes of dimensions w x h), any
   builder: a run is the list of pushed packets with the samples the builder
   hands out after each push, and the samples of the final forced flush.
   SPECIFICATION of the builder (hypotheses): the samples, in the order they
   are handed out, are the frames pre ++ K :: post of the stream, each
   complete (its data), once, in order -- [Forall2 .. al fs] says exactly
   this -- where K is the first keyframe.  Side conditions on the run: frames
   before K are popped before any keyframe packet was pushed or lie less than
   65536 ticks before K; K is popped while savedKf is its own first packet;
   later frames are less than 2^31 ticks after K and the test
   ts == savedKf.Timestamp answers correctly (no keyframe overtaken by the
   first packet of a later one: N2).
   CONCLUSION: no conn.close()/panic outcome; the file is opened once, with
   K, and holds exactly K :: post: every frame from the first keyframe on,
   byte-identical, in order, once, none missing, with keyframe flags and
   timestamps (T - TK) / (clockrate/1000). *)
Theorem C20_frames : forall (cd : codec),
  cd_video cd = true -> 1000 <= cd_rate cd ->
  forall (w h : Z) steps final al_pre pre ak K al_post post TK,
  DimsOK cd w h steps ->
  annot cd None None steps
    ++ map (fun s => (final_org cd None steps, final_cur cd None steps, s)) final
    = al_pre ++ ak :: al_post ->
  Forall2 (PreOK TK) al_pre pre -> KeyOK TK ak K -> Forall2 (PostOK TK) al_post post ->
  exists cn1 e1 cn2 e2,
    sink_run (new_conn [cd]) steps = (cn1, e1, FlContinue) /\
    process_samples cn1 0 final = (cn2, e2, FlContinue) /\
    e1 ++ e2 = FOpen w h :: map (written cd TK) (K :: post).
Proof. exact frames_written. Qed.
Print Assumptions C20_frames.

(* the written timestamps do not decrease along the stream *)
Theorem C20_frames_ts : forall (cd : codec), 1000 <= cd_rate cd ->
  forall TK f g, TK <= sf_T f <= sf_T g ->
  (sf_T f - TK) / (cd_rate cd / 1000) <= (sf_T g - TK) / (cd_rate cd / 1000).
Proof. exact written_monotone. Qed.
Print Assumptions C20_frames_ts.

(* the recorder (any builder B) is sink_run over the builder's answers to
   the pushes of diskTrack.Write, as long as the loop is not left *)
Theorem C20_pipeline_is_sink : forall (B : Type) bpush bdrain (b0 : B) cd ps r now b r' n evs,
  one_track cd (r_conn B r) -> r_builders B r = [b] ->
  gpush_all B bpush bdrain b0 r 0 now ps = (r', n, evs, FlContinue) ->
  sink_run (r_conn B r) (fst (answers B bpush bdrain cd b now ps)) = (r_conn B r', evs, FlContinue) /\
  r_builders B r' = [snd (answers B bpush bdrain cd b now ps)] /\ one_track cd (r_conn B r').
Proof. exact gpush_all_sink. Qed.
Print Assumptions C20_pipeline_is_sink.

(* "none missing after the first keyframe" is FALSE of the code without the
   N2 side condition: keyframes K0 = packets 1000..1002 and K1 = 1003..1005,
   delta frame 1006; delivery 1000,1001,1003,1002,1004,1005,1006 (everything
   delivered, reordering by one packet): K0 is dropped. *)
Theorem C20_first_keyframe_overtaken_refuted :
  record (map pk [1000; 1001; 1002; 1003; 1004; 1005; 1006]) =
  [FOpen 320 240; FWrite 0 true 0 dataK0; FWrite 0 true 33 dataK1; FWrite 0 false 66 dataD; FClose] /\
  record (map pk [1000; 1001; 1003; 1002; 1004; 1005; 1006]) =
  [FOpen 320 240; FWrite 0 true 0 dataK1; FWrite 0 false 33 dataD; FClose].
Proof. exact (conj record_in_order record_keyframe_overtaken). Qed.
Print Assumptions C20_first_keyframe_overtaken_refuted.

(* file names: the sanitised user name contains no path separator, and a
   name without separators is unchanged *)
Theorem C20_sanitise : forall s,
  (~ In 47 (sanitise s) /\ ~ In 92 (sanitise s)) /\
  (~ In 47 s -> ~ In 92 s -> sanitise s = s).
Proof. intros s. exact (conj (sanitise_no_separator s) (sanitise_plain s)). Qed.
Print Assumptions C20_sanitise.

(* non-vacuity.  (1) a recoverable history across the 16-bit wrap: newest
   number 65534, delivery of 65537 with 65535 and 65536 in the cache, then the
   late 65535 itself, then a duplicate of 65537; (2) the hypotheses of
   C20_frames hold of the in-order run of the three frames above. *)
Definition ex_bytes (N : Z) : list Z := [N mod 65536 / 256; N mod 256; 7].
Definition ex_parse (b : list Z) : option pkt :=
  match b with
  | [hi; lo; _] => Some (mkPkt (hi * 256 + lo) 0 false b)
  | _ => None
  end.
Definition ex_cache : Z -> option (list Z) :=
  fun s => if (s =? 65535) || (s =? 0) then Some (ex_bytes s) else None.
Example C20_example :
  let h : ghist := [(65537, ex_cache, ex_bytes 65537); (65535, ex_cache, ex_bytes 65535);
                    (65537, ex_cache, ex_bytes 65537)] in
  Recoverable ex_parse 65534 h /\
  expected 65534 h = [[65535; 65536; 65537]; [65535]; [65537]] /\
  map pushed_seqs (snd (run_writes ex_parse (Some 65534) (strip h))) = [[65535; 0; 1]; [65535]; [1]] /\
  (DimsOK vp8_codec 320 240 ex_steps /\
   exists ak al_post,
     annot vp8_codec None None ex_steps
       ++ map (fun s => (final_org vp8_codec None ex_steps, final_cur vp8_codec None ex_steps, s)) []
     = [] ++ ak :: al_post /\
     KeyOK 9000 ak (mkSF 9000 true dataK0) /\
     Forall2 (PostOK 9000) al_post [mkSF 12000 true dataK1; mkSF 15000 false dataD]).
Proof.
  cbv zeta. split; [|split; [|split]].
  - cbn [Recoverable].
    split; [exists (mkPkt 1 0 false (ex_bytes 65537)); split; reflexivity|].
    split.
    { left. split; [lia|]. intros K HK.
      assert (K = 65535 \/ K = 65536) as [-> | ->] by lia.
      - exists (ex_bytes 65535), (mkPkt 65535 0 false (ex_bytes 65535)). repeat split; reflexivity.
      - exists (ex_bytes 0), (mkPkt 0 0 false (ex_bytes 0)). repeat split; reflexivity. }
    change (Z.max 65534 65537) with 65537.
    split; [exists (mkPkt 65535 0 false (ex_bytes 65535)); split; reflexivity|].
    split; [right; lia|].
    change (Z.max 65537 65535) with 65537.
    split; [exists (mkPkt 1 0 false (ex_bytes 65537)); split; reflexivity|].
    split; [right; lia|exact I].
  - reflexivity.
  - vm_compute. reflexivity.
  - exact frames_example.
Qed.

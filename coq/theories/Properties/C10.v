(* C10  Admission rules (lock, capacity, time window, autolock/autokick).
   Statements only; every proof is [exact lemma] (after [intros]).
   Model: Model/Admission.v, tied to group/group.go by the `group` driver.

   A schedule is an ARBITRARY list [l] of atomic steps (one step per critical
   section of Group.mu: SAdd, SAddClient, SDelClient, SSetLocked) of any
   number of clients, run from the group as first published by add,
   [created d], for an arbitrary description [d].  A join is the two steps
   SAdd ; SAddClient with anything in between.  [exec g l] lists every step of
   the schedule as (state before, step, output, state after); [run g l] is the
   final state.  "non-operator" below means: not a system client and
   GetPermission gave permissions without "op". *)
From Coq Require Import ZArith List Bool.
From Galene Require Import Model.Admission Proofs.Admission Proofs.AdmissionTable.
Import ListNotations.
Open Scope Z_scope.

(* A non-operator let in by a step of any schedule saw, in the state of
   that very step: group not locked, now inside [not-before, expires], with
   autokick an operator among the members, and fewer than max-clients
   members when max-clients > 0. *)
Theorem C10_entry_conditions : forall d l pre now j o post,
  In (pre, SAddClient now j, o, post) (exec (created d) l) ->
  o_res o = RAccepted ->
  j_sys j = false -> d_auth (g_desc pre) (j_cred j) = Some false ->
  g_locked pre = None /\
  (forall nb, d_not_before (g_desc pre) = Some nb -> nb <= now) /\
  (forall e, d_expires (g_desc pre) = Some e -> now <= e) /\
  (d_autokick (g_desc pre) = true -> has_op (g_clients pre) = true) /\
  (0 < d_max_clients (g_desc pre) -> zlength (g_clients pre) < d_max_clients (g_desc pre)).
Proof.
  intros d l pre now j o post Hin.
  exact (entry_conditions_step pre now j post o (exec_step _ _ _ _ _ _ Hin)).
Qed.
Print Assumptions C10_entry_conditions.

(* Operators (valid credentials giving "op") and system clients are let in
   whatever the lock, window, autokick and capacity, provided the id is not
   empty and not a member's; they become members and are announced. *)
Theorem C10_ops_exempt : forall d l pre now j o post,
  In (pre, SAddClient now j, o, post) (exec (created d) l) ->
  (j_sys j = true \/ d_auth (g_desc pre) (j_cred j) = Some true) ->
  j_id j <> [] -> ~ In (j_id j) (ids (g_clients pre)) ->
  exists c,
    o = mkOut RAccepted (announce j (g_clients pre)) /\
    post = mkGroup (g_locked pre) (g_clients pre ++ [(j_id j, c)]) (g_desc pre) /\
    c_uid c = j_uid j /\ c_sys c = j_sys j /\ (j_sys j = false -> c_op c = true).
Proof.
  intros d l pre now j o post Hin Hp Hid Hf.
  destruct (ops_exempt_step pre now j Hp Hid Hf) as (c & Hst & H).
  rewrite (exec_step _ _ _ _ _ _ Hin) in Hst. inversion Hst; subst.
  exists c. split; [reflexivity|]. split; [reflexivity | exact H].
Qed.
Print Assumptions C10_ops_exempt.

(* Capacity, what the code guarantees: a non-operator is never let in to a
   group that already holds max-clients members, so the step that lets in it
   leaves at most max-clients members ... *)
Theorem C10_capacity : forall d l pre now j o post,
  In (pre, SAddClient now j, o, post) (exec (created d) l) ->
  o_res o = RAccepted ->
  j_sys j = false -> d_auth (g_desc pre) (j_cred j) = Some false ->
  0 < d_max_clients (g_desc pre) ->
  zlength (g_clients post) <= d_max_clients (g_desc pre) /\
  zlength (g_clients post) = zlength (g_clients pre) + 1.
Proof.
  intros d l pre now j o post Hin.
  exact (capacity_step pre now j post o (exec_step _ _ _ _ _ _ Hin)).
Qed.
Print Assumptions C10_capacity.

(* ... and, while every version of the description has max-clients = m > 0,
   the members let in under the non-operator rules never number more than
   m in any reachable state.  (Operators and system clients are not bounded:
   C10_capacity_ops_exceed.) *)
Theorem C10_capacity_invariant : forall d l m,
  0 < m -> d_max_clients d = m ->
  (forall d', In (SAdd (Some d')) l -> d_max_clients d' = m) ->
  n_plain (g_clients (run (created d) l)) <= m.
Proof. exact capacity_invariant. Qed.
Print Assumptions C10_capacity_invariant.

Theorem C10_capacity_ops_exceed :
  let d := demo_desc 1 false false in
  let g := run (created d)
             [SAdd None; SAddClient 0 (mkJoiner 1 [117] false false 2);
              SAdd None; SAddClient 0 (mkJoiner 2 [118] false false 2);
              SAdd None; SAddClient 0 (mkJoiner 3 [111] false false 0);
              SAdd None; SAddClient 0 (mkJoiner 4 [115] true false 9)] in
  ids (g_clients g) = [[117]; [111]; [115]] /\ d_max_clients (g_desc g) = 1 /\
  n_plain (g_clients g) = 1.
Proof. exact capacity_ops_exceed_witness. Qed.
Print Assumptions C10_capacity_ops_exceed.

(* Two clients with the same id are never both members. *)
Theorem C10_unique_ids : forall d l, NoDup (ids (g_clients (run (created d) l))).
Proof. exact unique_ids. Qed.
Print Assumptions C10_unique_ids.

(* A rejected admission step leaves the whole group state (members, lock,
   description) unchanged and calls back nobody. *)
Theorem C10_reject_no_effect : forall d l pre now j o post,
  In (pre, SAddClient now j, o, post) (exec (created d) l) ->
  o_res o <> RAccepted ->
  post = pre /\ o_events o = [].
Proof.
  intros d l pre now j o post Hin.
  exact (reject_no_effect_step pre now j post o (exec_step _ _ _ _ _ _ Hin)).
Qed.
Print Assumptions C10_reject_no_effect.

(* With autolock the group is locked when it is first published (it has no
   member yet, hence no operator). *)
Theorem C10_autolock_initial : forall d,
  d_autolock d = true ->
  g_locked (created d) = Some locked_msg /\ g_clients (created d) = [].
Proof. exact autolock_initial. Qed.
Print Assumptions C10_autolock_initial.

(* The step in which the last operator leaves (or any successful DelClient,
   or any Add, after which no operator is a member) ends with the group
   locked: autoLockKick runs in the same critical section.  No hypothesis on
   the schedule. *)
Theorem C10_autolock_last_op_leaves : forall d l pre id uid o post,
  In (pre, SDelClient id uid, o, post) (exec (created d) l) ->
  o_res o = RDone -> d_autolock (g_desc pre) = true ->
  has_op (g_clients post) = false ->
  g_locked post <> None.
Proof.
  intros d l pre id uid o post Hin.
  exact (autolock_del_step pre id uid post o (exec_step _ _ _ _ _ _ Hin)).
Qed.
Print Assumptions C10_autolock_last_op_leaves.

(* Invariant: in every schedule whose explicit unlocks are made while an
   operator is a member (what the websocket layer enforces, C11), an autolock
   group without operator is locked -- at the end, and before and after every
   step, in particular before every later admission step. *)
Theorem C10_autolock_after_last_op : forall d l,
  guarded_unlocks (created d) l ->
  (forall g, g = run (created d) l \/
             (exists s o g', In (g, s, o, g') (exec (created d) l)) \/
             (exists s o g', In (g', s, o, g) (exec (created d) l)) ->
     d_autolock (g_desc g) = true -> has_op (g_clients g) = false -> g_locked g <> None).
Proof.
  intros d l Hg g Hcase.
  destruct (AL_everywhere d l Hg) as [Hend Hall].
  destruct Hcase as [->|[(s & o & g' & Hin)|(s & o & g' & Hin)]].
  - exact Hend.
  - exact (proj1 (Hall _ _ _ _ Hin)).
  - exact (proj2 (Hall _ _ _ _ Hin)).
Qed.
Print Assumptions C10_autolock_after_last_op.

(* Hence, with autolock, a non-operator is let in only while an operator
   is a member. *)
Theorem C10_autolock_admission : forall d l pre now j o post,
  guarded_unlocks (created d) l ->
  In (pre, SAddClient now j, o, post) (exec (created d) l) ->
  o_res o = RAccepted -> j_sys j = false ->
  d_auth (g_desc pre) (j_cred j) = Some false ->
  d_autolock (g_desc pre) = true ->
  has_op (g_clients pre) = true.
Proof. exact autolock_admission. Qed.
Print Assumptions C10_autolock_admission.

(* The hypothesis is needed: group.SetLocked has no guard of its own. *)
Theorem C10_autolock_unguarded_unlock_refuted :
  exists d l, let g := run (created d) l in
    d_autolock (g_desc g) = true /\ has_op (g_clients g) = false /\ g_locked g = None.
Proof. exists (demo_desc 0 true false), [SSetLocked false []]. exact unguarded_unlock_witness. Qed.
Print Assumptions C10_autolock_unguarded_unlock_refuted.

(* Regression of F4 (fixed by ba2fd43): if DelClient is split into removal
   and a later autoLockKick, as the code was, a non-operator is let in to
   an autolock group after its last operator left (all unlocks guarded). *)
Theorem C10_autolock_split_delclient_refuted :
  let d := demo_desc 0 true false in
  let o := mkJoiner 1 [111] false false 0 in
  let u := mkJoiner 2 [117] false false 2 in
  let l := [OStep (SAdd None); OStep (SAddClient 0 o); OStep (SSetLocked false []);
            OStep (SAdd None); ODelRemove [111] 1; OStep (SAddClient 0 u); ODelAutoLock] in
  exists pre out post,
    In (pre, OStep (SAddClient 0 u), out, post) (old_exec (created d) l) /\
    o_res out = RAccepted /\ d_autolock (g_desc pre) = true /\
    has_op (g_clients pre) = false /\ d_auth (g_desc pre) (j_cred u) = Some false.
Proof. exact f4_split_delclient_witness. Qed.
Print Assumptions C10_autolock_split_delclient_refuted.

(* Autokick.  No non-operator is let in without an operator present (this
   is the fourth conjunct of C10_entry_conditions), and the step after which
   an autokick group has no operator -- the DelClient of the last operator, or
   an Add -- schedules the kick of every remaining member. *)
Theorem C10_autokick_admission : forall d l pre now j o post,
  In (pre, SAddClient now j, o, post) (exec (created d) l) ->
  o_res o = RAccepted ->
  j_sys j = false -> d_auth (g_desc pre) (j_cred j) = Some false ->
  d_autokick (g_desc pre) = true ->
  has_op (g_clients pre) = true.
Proof.
  intros d l pre now j o post Hin Hres Hs Ha.
  exact (proj1 (proj2 (proj2 (proj2
    (entry_conditions_step pre now j post o (exec_step _ _ _ _ _ _ Hin) Hres Hs Ha))))).
Qed.
Print Assumptions C10_autokick_admission.

Theorem C10_autokick_last_op_leaves : forall d l pre id uid o post p,
  In (pre, SDelClient id uid, o, post) (exec (created d) l) ->
  o_res o = RDone -> d_autokick (g_desc pre) = true ->
  has_op (g_clients post) = false ->
  In p (g_clients post) -> In (EKick (c_uid (snd p))) (o_events o).
Proof.
  intros d l pre id uid o post p Hin.
  exact (autokick_del_step pre id uid post o p (exec_step _ _ _ _ _ _ Hin)).
Qed.
Print Assumptions C10_autokick_last_op_leaves.

Theorem C10_autokick_add : forall d l pre r o post p,
  In (pre, SAdd r, o, post) (exec (created d) l) ->
  d_autokick (g_desc post) = true -> has_op (g_clients post) = false ->
  In p (g_clients post) -> In (EKick (c_uid (snd p))) (o_events o).
Proof.
  intros d l pre r o post p Hin.
  exact (autokick_add_step pre r post o p (exec_step _ _ _ _ _ _ Hin)).
Qed.
Print Assumptions C10_autokick_add.

(* ---- Which object the rules are evaluated on.  The rules above hold for
   every *Group object; a client names a group by its NAME.  [texec tinit l]
   runs an arbitrary schedule [l] of file replacements (TWrite, None = the
   description is missing / half-written / unparsable), Add, Delete and
   critical sections of any object ever created under the name (TOn k s),
   from the empty table.

   The object registered under the name is never dropped or replaced while it
   has members -- whatever happens to the description file. *)
Theorem C10_registered_group_kept : forall l pre s r post k g,
  In (pre, s, r, post) (texec tinit l) ->
  t_cur pre = Some k -> nth_error (t_objs pre) k = Some g -> g_clients g <> [] ->
  t_cur post = Some k /\ exists g', nth_error (t_objs post) k = Some g'.
Proof.
  intros l pre s r post k g Hin Hc Hn Hm.
  pose proof (tstep_keeps_members true pre s k g Hc Hn Hm) as H.
  change (tstep_gen true pre s) with (tstep pre s) in H.
  rewrite (texec_step _ _ _ _ _ _ Hin) in H. exact H.
Qed.
Print Assumptions C10_registered_group_kept.

(* Every object of every reachable table, registered or not, is a schedule
   of atomic steps from [created d]: all theorems above apply to it. *)
Theorem C10_every_object_is_a_history : forall l k g,
  nth_error (t_objs (trun tinit l)) k = Some g ->
  exists d l', g = run (created d) l'.
Proof. exact objects_are_histories. Qed.
Print Assumptions C10_every_object_is_a_history.

(* An entry step never runs on an object that is not registered (AddClient
   finds it marked deleted and looks the name up again) ... *)
Theorem C10_no_entry_into_dropped_object : forall t k now j,
  t_cur t <> Some k -> tstep t (TOn k (SAddClient now j)) = (t, TRetry).
Proof. exact no_entry_into_dropped_object. Qed.
Print Assumptions C10_no_entry_into_dropped_object.

(* ... hence, in every reachable table of every schedule, members exist only
   in the registered object: "the members of the group named so" are the
   members of ONE object, and lock, capacity, window, autolock/autokick and
   the uniqueness of ids hold for the name. *)
Theorem C10_rules_hold_for_the_name : forall l j g,
  nth_error (t_objs (trun tinit l)) j = Some g ->
  t_cur (trun tinit l) <> Some j -> g_clients g = [].
Proof. intros l. exact (proj2 (proj1 (members_only_in_registered l))). Qed.
Print Assumptions C10_rules_hold_for_the_name.

(* Regression of F30 (fixed by 35083b1).  Schedule: U's Add returns the
   (empty) object 0; the description becomes unreadable and another Add drops
   object 0; U's entry step; the description is restored; V's Add creates
   object 1 and V enters with the same id, max-clients 1.  With the code
   before the fix both are members, of two objects; now U has to retry. *)
Example C10_F30_regression :
  (let t := trun_prefix tinit orphan_schedule in
   t_cur t = Some 1%nat /\
   map (fun g => ids (g_clients g)) (t_objs t) = [[[117]]; [[117]]] /\
   map (fun g => d_max_clients (g_desc g)) (t_objs t) = [1; 1]) /\
  (let t := trun tinit orphan_schedule in
   map (fun g => ids (g_clients g)) (t_objs t) = [[]; [[117]]] /\
   map (fun x => snd (fst x)) (texec tinit orphan_schedule) =
     [TWritten; TAddOk 0 []; TWritten; TAddErr; TRetry; TWritten; TAddOk 1 [];
      TOut (mkOut RAccepted [EJoined 2 KJoin; EPush 2 true [117]])]).
Proof. split; [exact orphan_witness_prefix | exact orphan_schedule_now]. Qed.

(* Non-vacuity of the table theorems: a member joins, the description is
   unreadable during two Adds (the object is kept), is restored, and the next
   non-operator is refused by the SAME object (too many users); then the
   member leaves, the description is unreadable again and the empty object is
   dropped; after the restore a new object is created. *)
Example C10_table_example :
  let d := demo_desc 1 false false in
  let l := [TWrite (Some d); TAdd; TOn 0 (SAddClient 0 (mkJoiner 1 [117] false false 2));
            TWrite None; TAdd; TAdd;
            TWrite (Some d); TAdd; TOn 0 (SAddClient 0 (mkJoiner 2 [118] false false 2));
            TOn 0 (SDelClient [117] 1); TWrite None; TAdd;
            TWrite (Some d); TAdd] in
  map (fun x => snd (fst x)) (texec tinit l) =
    [TWritten; TAddOk 0 []; TOut (mkOut RAccepted [EJoined 1 KJoin; EPush 1 true [117]]);
     TWritten; TAddErr; TAddErr;
     TWritten; TAddOk 0 [EJoined 1 KChange]; TOut (mkOut RTooMany []);
     TOut (mkOut RDone [EJoined 1 KLeave]); TWritten; TAddErr;
     TWritten; TAddOk 1 []] /\
  t_cur (trun tinit l) = Some 1%nat.
Proof.
  cbv zeta. split.
  - vm_compute. reflexivity.
  - vm_compute. reflexivity.
Qed.

(* Non-vacuity: one schedule on an autolock + autokick group with
   max-clients 2 in which the group starts locked, an operator joins and
   unlocks (guarded), a non-operator is let in, a second one too, a third
   is refused (too many users), a duplicate id is refused, the operator
   leaves: the group is locked again and both members are scheduled to be
   kicked, and the next non-operator is refused.  The hypotheses of the
   theorems above hold of it. *)
Example C10_example :
  let d := demo_desc 2 true true in
  let jo := mkJoiner 1 [111] false false 0 in
  let ju := mkJoiner 2 [117] false false 2 in
  let jv := mkJoiner 3 [118] false false 2 in
  let jw := mkJoiner 4 [119] false false 2 in
  let jd := mkJoiner 5 [117] false false 0 in
  let l := [SAdd None; SAddClient 0 ju;          (* locked *)
            SAdd None; SAddClient 0 jo;          (* operator let in *)
            SSetLocked false [];                 (* guarded unlock *)
            SAdd None; SAddClient 0 ju;          (* let in *)
            SAdd None; SAddClient 0 jv;          (* too many: 2 >= 2 *)
            SDelClient [117] 9;                  (* not the member object *)
            SAdd None; SAddClient 0 jd;          (* duplicate id *)
            SDelClient [111] 1;                  (* last operator leaves *)
            SAdd None; SAddClient 0 jw] in       (* locked again *)
  guarded_unlocks (created d) l /\
  map (fun x => o_res (snd (fst x))) (exec (created d) l) =
    [RDone; RLocked locked_msg; RDone; RAccepted; RDone; RDone; RAccepted; RDone; RTooMany;
     RUnknown; RDone; RDupId; RDone; RDone; RLocked locked_msg] /\
  g_locked (created d) = Some locked_msg /\
  ids (g_clients (run (created d) l)) = [[117]] /\
  g_locked (run (created d) l) = Some locked_msg /\
  (exists pre o post, In (pre, SDelClient [111] 1, o, post) (exec (created d) l) /\
     o_events o = [EJoined 2 KChange; EKick 2; EJoined 1 KLeave; EPush 2 false [111]]).
Proof.
  cbv zeta. split; [|split; [|split; [|split; [|split]]]].
  - apply guarded_b_sound. vm_compute. reflexivity.
  - vm_compute. reflexivity.
  - vm_compute. reflexivity.
  - vm_compute. reflexivity.
  - vm_compute. reflexivity.
  - eexists _, _, _. split.
    + cbn [exec]. do 12 right. left. reflexivity.
    + vm_compute. reflexivity.
Qed.

(* L0 model of token authorisation (property C09).  Executable; no proofs here.

   Transcribed from
     token/stateful.go   Stateful.match, Stateful.Check, NeedsUsername
     token/jwt.go        ParseKey (the kty/alg consistency switch), ParseKeys,
                         parseJWT (key function and the options handed to
                         golang-jwt), matchGroup, JWT.Check, NeedsUsername
     token/token.go      Parse (JWT first, stateful store otherwise)
     group/group.go      Description.GetPermission, token branch; validUsername
     webserver/util.go   checkGlobalAdminToken
     golang-jwt v5.3.1   parser.go ParseWithClaims (order: signing method lookup,
                         key function, signature over the returned key or key
                         set, claim validation), validator.go verifyExpiresAt /
                         verifyNotBefore / verifyIssuedAt as configured by
                         parseJWT (exp required, iat verified, leeway 5 s)

   Strings are Coq [string]s (one [ascii] per byte of the Go string).  Times
   are instants in nanoseconds ([Z]); Go's [a.After(b)] is [a > b] and
   [a.Before(b)] is [a < b].

   What is NOT modelled and enters as data or as a function argument (oracle):
     - the signature check [verify key alg tokendata] (crypto/hmac, ecdsa, rsa
       through golang-jwt's SigningMethod.Verify);
     - decoding of key material (base64, key length, point on curve):
       [k_material_ok];
     - JSON/base64 decoding of the token and golang-jwt's reading of a claim
       (NumericDate truncated to the second, 0 read as absent, aud as string
       or list): the model starts from the parsed header and claims;
     - net/url.Parse of each audience entry: an entry arrives as
       (parsed?, url.Host, url.Path);
     - validGroupName (modelled and proved in the C19 component): argument
       [valid_group_name];
     - the clock: [now] is an argument. *)
From Coq Require Import ZArith List Bool String Ascii.
Import ListNotations.
Open Scope Z_scope.
Open Scope string_scope.

(* ------------------------------------------------------------------ *)
(* strings                                                             *)

(* strings.HasPrefix(s, p) *)
Fixpoint has_prefix (s p : string) {struct p} : bool :=
  match p with
  | EmptyString => true
  | String a p' =>
    match s with
    | EmptyString => false
    | String b s' => Ascii.eqb a b && has_prefix s' p'
    end
  end.

(* strings.HasSuffix(s, suf) *)
Fixpoint has_suffix (s suf : string) : bool :=
  if String.eqb s suf then true
  else match s with
       | EmptyString => false
       | String _ s' => has_suffix s' suf
       end.

(* ASCII lower case; strings.EqualFold on ASCII strings is equality of the
   lower-cased strings (hosts are ASCII: assumption listed in props/C09.json) *)
Definition lower_ascii (c : ascii) : ascii :=
  let n := nat_of_ascii c in
  if (Nat.leb 65 n && Nat.leb n 90)%bool then ascii_of_nat (n + 32) else c.

Fixpoint lower (s : string) : string :=
  match s with
  | EmptyString => EmptyString
  | String c s' => String (lower_ascii c) (lower s')
  end.

Definition equal_fold (a b : string) : bool := String.eqb (lower a) (lower b).

(* slices.Contains *)
Definition mem (x : string) (l : list string) : bool := existsb (String.eqb x) l.

(* ------------------------------------------------------------------ *)
(* outcome of Token.Check                                              *)

Inductive reject :=
| RBadGroup      (* "token for bad group" / "token for wrong group" *)
| RExpired       (* "token has expired" *)
| RFuture        (* "token is in the future" *)
| RBadClaim      (* sub or aud of the wrong JSON type *)
| RBadPerms.     (* "invalid 'permissions' field" *)

Inductive result :=
| Accept (user : string) (perms : list string)
| Reject (r : reject).

(* ------------------------------------------------------------------ *)
(* token/stateful.go                                                   *)

Record stateful := mkStateful {
  st_group : string;            (* Group *)
  st_sub : bool;                (* IncludeSubgroups *)
  st_username : option string;  (* Username (pointer) *)
  st_perms : list string;       (* Permissions *)
  st_expires : option Z;        (* Expires (pointer) *)
  st_notbefore : option Z       (* NotBefore (pointer) *)
}.

(* func (token Stateful) match(group string) bool *)
Definition stateful_match (t : stateful) (group : string) : bool :=
  if String.eqb group "" then st_sub t && String.eqb (st_group t) ""
  else if String.eqb group (st_group t) then true
  else if st_sub t then
         if String.eqb (st_group t) "" then true
         else has_prefix group (st_group t ++ "/")
       else false.

(* func (token Stateful) Check(host, group string); now := time.Now() *)
Definition stateful_check (now : Z) (t : stateful) (group : string) : result :=
  if negb (stateful_match t group) then Reject RBadGroup
  else if match st_expires t with
          | None => true                       (* token.Expires == nil *)
          | Some e => (now >? e)%Z                 (* now.After(Expires) *)
          end then Reject RExpired
  else if match st_notbefore t with
          | None => false
          | Some n => (now <? n)%Z                 (* now.Before(NotBefore) *)
          end then Reject RFuture
  else Accept (match st_username t with Some u => u | None => "" end)
              (st_perms t).

Definition stateful_needs_username (t : stateful) : bool :=
  match st_username t with None => true | Some _ => false end.

(* ------------------------------------------------------------------ *)
(* token/jwt.go: keys                                                  *)

(* one element of desc.AuthKeys: a JWK as map[string]any.  [k_kty], [k_alg],
   [k_kid] are the entries when they are JSON strings, [None] when absent or
   of another type; [k_material_ok] says whether the key material decodes
   (base64, length for oct, P-256 point on curve for EC, n/e for RSA);
   [k_id] only names the key for [verify]. *)
Record key := mkKey {
  k_id : Z;
  k_kty : option string;
  k_alg : option string;
  k_kid : option string;
  k_material_ok : bool
}.

(* func ParseKey(key map[string]any) (any, error): does it succeed? *)
Definition parse_key (k : key) : bool :=
  match k_kty k with
  | None => false                                   (* "kty not found" *)
  | Some kty =>
    match k_alg k with
    | None => false                                 (* "alg not found" *)
    | Some alg =>
      if String.eqb kty "oct" then
        (String.eqb alg "HS256" || String.eqb alg "HS384" || String.eqb alg "HS512")
        && k_material_ok k
      else if String.eqb kty "EC" then
        String.eqb alg "ES256" && k_material_ok k
      else if String.eqb kty "RSA" then
        String.eqb alg "RS256" && k_material_ok k
      else false                                    (* "unknown key type" *)
    end
  end.

(* ky["alg"] != alg  where ky["alg"] is an interface value and alg a string *)
Definition field_is (f : option string) (s : string) : bool :=
  match f with Some x => String.eqb x s | None => false end.

(* func ParseKeys(keys, alg, kid): None = error (a selected key does not
   parse), Some ks = the selected keys in order *)
Fixpoint select_keys (alg kid : string) (keys : list key) : option (list key) :=
  match keys with
  | [] => Some []
  | ky :: rest =>
    if negb (String.eqb alg "") && negb (field_is (k_alg ky) alg) then
      select_keys alg kid rest
    else if negb (String.eqb kid "") && negb (field_is (k_kid ky) kid) then
      select_keys alg kid rest
    else if parse_key ky then
      match select_keys alg kid rest with
      | Some ks => Some (ky :: ks)
      | None => None
      end
    else None
  end.

(* the signing methods registered by golang-jwt v5.3.1 (GetSigningMethod
   returns nil for anything else); compared with jwt.GetAlgorithms() by the
   driver *)
Definition jwt_methods : list string :=
  ["ES256"; "ES384"; "ES512"; "EdDSA"; "HS256"; "HS384"; "HS512";
   "PS256"; "PS384"; "PS512"; "RS256"; "RS384"; "RS512"; "none"].

(* ------------------------------------------------------------------ *)
(* token/jwt.go: claims                                                *)

(* a NumericDate claim as golang-jwt reads it from MapClaims *)
Inductive numclaim :=
| NAbsent            (* key missing, or the number 0 *)
| NInvalid           (* not a number: ErrInvalidType *)
| NDate (t : Z).     (* instant (ns), truncated to the second *)

(* one entry of the aud claim after url.Parse *)
Record aud_entry := mkAud {
  au_ok : bool;        (* url.Parse succeeded *)
  au_host : string;    (* url.Host *)
  au_path : string     (* url.Path *)
}.

Record claims := mkClaims {
  c_exp : numclaim;
  c_nbf : numclaim;
  c_iat : numclaim;
  c_sub_ok : bool;          (* sub absent or a string *)
  c_sub : string;           (* "" when absent *)
  c_aud_ok : bool;          (* aud is not a list with a non-string element *)
  c_aud : list aud_entry;   (* [] when absent or of another type *)
  c_incl : bool;            (* claims["include-subgroups"].(bool) *)
  c_perms_ok : bool;        (* permissions absent, null, or a list of strings *)
  c_perms : list string     (* [] when absent or null *)
}.

Record header := mkHeader {
  h_alg : option string;    (* Header["alg"] when it is a string *)
  h_kid : string            (* Header["kid"].(string), "" when absent *)
}.

(* func matchGroup(pth, group string, includeSubgroups bool) bool *)
Definition match_group (pth group : string) (incl : bool) : bool :=
  if negb incl then String.eqb pth ("/group/" ++ group ++ "/")
  else if negb (has_prefix pth "/group/") then false
  else if negb (has_suffix pth "/") then false
  else has_prefix ("/group/" ++ group ++ "/") pth.

(* body of the loop over aud in JWT.Check: does this entry set ok = true? *)
Definition aud_matches (host group : string) (incl : bool) (a : aud_entry) : bool :=
  if negb (au_ok a) then false                               (* err != nil: continue *)
  else if negb (String.eqb host "") && negb (equal_fold (au_host a) host)
       then false                                            (* continue *)
  else match_group (au_path a) group incl.

(* func (token JWT) Check(host, group string) *)
Definition jwt_check (host group : string) (c : claims) : result :=
  if negb (c_sub_ok c) then Reject RBadClaim
  else if negb (c_aud_ok c) then Reject RBadClaim
  else if negb (existsb (aud_matches host group (c_incl c)) (c_aud c))
       then Reject RBadGroup
  else if negb (c_perms_ok c) then Reject RBadPerms
  else Accept (c_sub c) (c_perms c).

(* jwt.WithLeeway(5*time.Second) *)
Definition leeway : Z := (5 * 1000000000)%Z.

(* Validator.Validate with requireExp, verifyIat and the leeway: every check
   is evaluated and any failure rejects *)
Definition exp_ok (now : Z) (c : numclaim) : bool :=
  match c with
  | NInvalid => false
  | NAbsent => false                          (* WithExpirationRequired *)
  | NDate e => (now <? e + leeway)%Z              (* cmp.Before(exp.Add(+leeway)) *)
  end.

Definition notbefore_ok (now : Z) (c : numclaim) : bool :=
  match c with
  | NInvalid => false
  | NAbsent => true
  | NDate n => negb (now <? n - leeway)%Z       (* !cmp.Before(nbf.Add(-leeway)) *)
  end.

Definition validate_claims (now : Z) (c : claims) : bool :=
  exp_ok now (c_exp c) && notbefore_ok now (c_nbf c) && notbefore_ok now (c_iat c).

Inductive parse_outcome :=
| PValid            (* jwt.Parse returned a valid token *)
| PUnverifiable     (* ErrTokenUnverifiable: no method, key function failed, empty key set *)
| PSignature        (* ErrTokenSignatureInvalid *)
| PClaims.          (* ErrTokenInvalidClaims *)

Section JWT.

(* what the signature is computed over and the signature itself *)
Variable tokdata : Type.
(* SigningMethod(alg).Verify(signing string, signature, parsed key) == nil *)
Variable verify : key -> string -> tokdata -> bool.
(* group.validGroupName *)
Variable valid_group_name : string -> bool.

Record jwt := mkJWT {
  j_header : header;
  j_claims : claims;
  j_data : tokdata
}.

(* parseJWT on a token that splits and decodes (not ErrTokenMalformed) *)
Definition jwt_parse (now : Z) (keys : list key) (j : jwt) : parse_outcome :=
  match h_alg (j_header j) with
  | None => PUnverifiable                     (* "signing method (alg) is unspecified" *)
  | Some alg =>
    if negb (mem alg jwt_methods) then PUnverifiable   (* "(alg) is unavailable" *)
    else if String.eqb alg "" then PUnverifiable       (* key function: "alg not found" *)
    else
      match select_keys alg (h_kid (j_header j)) keys with
      | None => PUnverifiable                 (* key function returned ParseKeys' error *)
      | Some [] => PUnverifiable              (* empty verification key set *)
      | Some ks =>
        (* one key: Verify with it; several: the first that verifies *)
        if existsb (fun k => verify k alg (j_data j)) ks then
          if validate_claims now (j_claims j) then PValid else PClaims
        else PSignature
      end
  end.

(* ------------------------------------------------------------------ *)
(* token/token.go Parse                                                *)

(* the credential string, seen through what Parse does with it *)
Inductive cred_token :=
| CJWT (j : jwt)                       (* splits and decodes as a JWT *)
| COpaque (found : option stateful).   (* anything else: looked up in the store *)

Inductive token :=
| TJWT (j : jwt)
| TStateful (s : stateful).

(* None = Parse returned an error *)
Definition parse_token (now : Z) (keys : list key) (ct : cred_token) : option token :=
  match ct with
  | CJWT j =>
    match jwt_parse now keys j with
    | PValid => Some (TJWT j)
    | _ => None
    end
  | COpaque (Some s) => Some (TStateful s)
  | COpaque None => None                 (* os.ErrNotExist *)
  end.

Definition token_check (now : Z) (host group : string) (t : token) : result :=
  match t with
  | TJWT j => jwt_check host group (j_claims j)
  | TStateful s => stateful_check now s group
  end.

Definition token_needs_username (t : token) : bool :=
  match t with
  | TJWT _ => false
  | TStateful s => stateful_needs_username s
  end.

(* ------------------------------------------------------------------ *)
(* group/group.go GetPermission, token branch                          *)

Definition valid_username (u : string) : bool :=
  String.eqb u "" || valid_group_name u.

Inductive gp_result :=
| GPOk (user : string) (perms : list string)
| GPNotAuthorised        (* &NotAuthorisedError{...} other than the next one *)
| GPUsernameRequired     (* ErrUsernameRequired *)
| GPDuplicate.           (* ErrDuplicateUsername *)

(* [users]: the names in desc.Users; [cu]: creds.Username *)
Definition get_permission (now : Z) (host : string) (keys : list key)
           (users : list string) (group : string)
           (ct : cred_token) (cu : option string) : gp_result :=
  match parse_token now keys ct with
  | None => GPNotAuthorised
  | Some tok =>
    if (match cu with None => true | Some _ => false end) && token_needs_username tok
    then GPUsernameRequired
    else
      match token_check now host group tok with
      | Reject _ => GPNotAuthorised
      | Accept username perms =>
        let after :=
          if String.eqb username "" then
            match cu with
            | Some c => if mem c users then None else Some c
            | None => Some username
            end
          else Some username in
        match after with
        | None => GPDuplicate
        | Some u => if valid_username u then GPOk u perms else GPNotAuthorised
        end
      end
  end.

(* ------------------------------------------------------------------ *)
(* webserver/util.go checkGlobalAdminToken: token.Parse(tok, nil), then
   Check(host, "") and slices.Contains(perms, "admin") *)
Definition check_global_admin (now : Z) (host : string) (ct : cred_token) : bool :=
  match parse_token now [] ct with
  | None => false
  | Some tok =>
    match token_check now host "" tok with
    | Accept _ perms => mem "admin" perms
    | Reject _ => false
    end
  end.

End JWT.

(* ------------------------------------------------------------------ *)
(* specification vocabulary: path components                           *)

(* strings.Split(s, "/") *)
Fixpoint components (s : string) : list string :=
  match s with
  | EmptyString => [EmptyString]
  | String c s' =>
    if Ascii.eqb c "/"%char then EmptyString :: components s'
    else match components s' with
         | [] => [String c EmptyString]
         | x :: r => String c x :: r
         end
  end.

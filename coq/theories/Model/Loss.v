(* C06: the parts of loss accounting and NACK generation that live outside
   packetcache.  Executable; no proofs here.  The loss bitmap, the counters of
   Store, Expect, GetStats, BitmapGet and ToBitmap are the L0 model of
   Model/Cache.v (run against the real packetcache on every check); this file
   adds, statement by statement,

     read_loop_step     rtpconn/rtpreader.go  readLoop: Store, then the
                        delta/packets/unnacked decision, BitmapGet, sendNACK
                        (-> Expect(1 + OnesCount16(bitmap)))
     rr_stats           rtpconn/rtpconn.go    sendUpRTCP: totalLost /
                        fractionLost / LastSequenceNumber of the reception report
     nack_list_to_pairs rtpconn/rtpconn.go    rtpUpTrack.sendNACKs: iterating
                        packetcache.ToBitmap, at most 240 pairs
     nackwriter_filter  rtpconn/rtpwriter.go  nackWriter: cutoff, the two drop
                        tests, the sort

   and the denotation [nums] of a NACK pair (RFC 4585 PID + BLP).  The integer
   literals used here are tied to the Go source by Generated/LossConsts.v and
   Proofs/LossBits.v (loss_literals_ok). *)
From Coq Require Import ZArith List Bool.
From Galene Require Import Lib.Word Model.Cache.
Import ListNotations.
Open Scope Z_scope.

(* ---- denotation of a NACK pair ---- *)
Definition blp_indices : list Z := [0;1;2;3;4;5;6;7;8;9;10;11;12;13;14;15].
Definition nums (first bitmap : Z) : list Z :=
  first :: map (fun i => w16 (first + 1 + i))
               (filter (fun i => Z.testbit bitmap i) blp_indices).
Definition nums_of_pairs (ps : list (Z * Z)) : list Z :=
  concat (map (fun p => nums (fst p) (snd p)) ps).

(* bits.OnesCount16 *)
Definition popcount16 (x : Z) : Z :=
  fold_left (fun a i => if Z.testbit x i then a + 1 else a) blp_indices 0.

(* ---- readLoop ---- *)
(* packets := rate / 50; if packets > 24 {24}; if packets < 2 {2}   (uint32) *)
Definition rl_packets (rate : Z) : Z :=
  let p := rate / 50 in
  let p := if 24 <? p then 24 else p in
  if p <? 2 then 2 else p.
(* unnacked := uint16(4); if unnacked > uint16(packets) { unnacked = uint16(packets) } *)
Definition rl_unnacked (packets : Z) : Z :=
  if w16 packets <? 4 then w16 packets else 4.
(* delta := seqno - first; if (delta & 0x8000) != 0 { delta = 0 } *)
Definition rl_delta (seqno first : Z) : Z :=
  let d := w16 (seqno - first) in if 32768 <=? d then 0 else d.

(* The payload of the packet plays no role in C06; the driver stores one byte.
   [nack_ok]: the track negotiated "nack" feedback and WriteRTCP succeeded.
   Result: the NACK pair handed to WriteRTCP, if any. *)
Definition read_loop_step (c : cache) (seqno ts : Z) (kf marker : bool)
           (buf : list Z) (rate : Z) (nack_ok : bool) : option (Z * Z) * cache :=
  let '((first, _), c1) := store c seqno ts kf marker buf in
  let packets := rl_packets rate in
  let unnacked := rl_unnacked packets in
  if packets <? rl_delta seqno first then
    let '((found, f, bm), c2) := bitmap_get c1 (w16 (seqno - unnacked)) in
    if found && nack_ok
    then (Some (f, bm), expect c2 (1 + popcount16 bm))
    else (None, c2)
  else (None, c1).

(* ---- sendUpRTCP ---- *)
(* (FractionLost uint8, TotalLost uint32, LastSequenceNumber uint32) *)
Definition rr_stats (s : stats) : Z * Z * Z :=
  let totalLost :=
    if s_totalReceived s <? s_totalExpected s
    then w32 (s_totalExpected s - s_totalReceived s) else 0 in
  let fractionLost :=
    if s_received s <? s_expected s then
      let lost := w32 (s_expected s - s_received s) in
      let f := w32 (lost * 256) / s_expected s in
      if 255 <=? f then 255 else f
    else 0 in
  (w8 fractionLost, totalLost, s_eseqno s).

(* ---- rtpUpTrack.sendNACKs ---- *)
Fixpoint nack_pairs_loop (fuel : nat) (count : Z) (l : list Z) : list (Z * Z) :=
  match fuel with
  | O => []
  | S f =>
      match l with
      | [] => []
      | _ =>
          if 240 <=? count then []          (* "NACK: packet overflow" *)
          else match to_bitmap l with
               | None => []
               | Some (first, bm, rest) => (first, bm) :: nack_pairs_loop f (count + 1) rest
               end
      end
  end.
Definition nack_list_to_pairs (l : list Z) : list (Z * Z) :=
  nack_pairs_loop (length l) 0 l.

(* ---- nackWriter ---- *)
(* cutoff: the last keyframe, else last - 256, else give up *)
Definition nackwriter_cutoff (kf last : Z * bool) : option Z :=
  if snd kf then Some (fst kf)
  else if snd last then Some (w16 (fst last - 256))
  else None.
(* kept: not earlier than the cutoff ((nacks[i]-cutoff) & 0x8000 == 0) and
   cache.Get(nacks[i], nil) == 0 *)
Definition nackwriter_keep (in_cache : Z -> bool) (cutoff n : Z) : bool :=
  negb (32768 <=? w16 (n - cutoff)) && negb (in_cache n).
(* sort.Slice by nacks[i]-cutoff (the buffered numbers are pairwise distinct,
   GetPacket never buffers a number twice, so the order is determined) *)
Fixpoint insert_by (key : Z -> Z) (x : Z) (l : list Z) : list Z :=
  match l with
  | [] => [x]
  | y :: l' => if key x <? key y then x :: l else y :: insert_by key x l'
  end.
Definition sort_by (key : Z -> Z) (l : list Z) : list Z :=
  fold_right (insert_by key) [] l.
Definition nackwriter_filter (in_cache : Z -> bool) (cutoff : Z) (nacks : list Z) : list Z :=
  sort_by (fun n => w16 (n - cutoff)) (filter (nackwriter_keep in_cache cutoff) nacks).
(* the whole of nackWriter on a cache: the NACK pairs shipped out *)
Definition cache_holds (c : cache) (n : Z) : bool := 0 <? fst (get c n).
Definition nack_writer (c : cache) (nacks : list Z) : list (Z * Z) :=
  match nackwriter_cutoff (c_keyframeq c) (c_lastq c) with
  | None => []
  | Some cutoff =>
      match nackwriter_filter (cache_holds c) cutoff nacks with
      | [] => []
      | l => nack_list_to_pairs l
      end
  end.
(* rtpUpTrack.GetPacket with nack = true on a number the cache does not hold:
   buffered unless already buffered *)
Definition buffer_nack (buffered : list Z) (seqno : Z) : list Z :=
  if existsb (Z.eqb seqno) buffered then buffered else buffered ++ [seqno].

(* ---- operations as data, for histories ---- *)
Inductive lop :=
| LStore (seqno : Z) (kf : bool)
| LBitmapGet (next : Z)
| LRead (seqno : Z) (kf : bool) (rate : Z) (nack_ok : bool)
| LExpect (n : Z)
| LGetStats (reset : bool).

Inductive lout :=
| LOStore (first : Z)
| LOBitmap (found : bool) (first bitmap : Z)
| LONack (n : option (Z * Z))
| LOUnit
| LOStats (s : stats).

Definition payload : list Z := [0].
Definition lstep (c : cache) (o : lop) : cache * lout :=
  match o with
  | LStore s kf => let '((f, _), c') := store c s 0 kf false payload in (c', LOStore f)
  | LBitmapGet n => let '((fd, f, b), c') := bitmap_get c n in (c', LOBitmap fd f b)
  | LRead s kf rate ok =>
      let '(r, c') := read_loop_step c s 0 kf false payload rate ok in (c', LONack r)
  | LExpect n => (expect c n, LOUnit)
  | LGetStats r => let '(s, c') := get_stats c r in (c', LOStats s)
  end.
Definition lrun (c : cache) (ops : list lop) : cache :=
  fold_left (fun c o => fst (lstep c o)) ops c.

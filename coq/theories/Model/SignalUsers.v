(* C14 (user-list convergence): the CLIENT side of the user list, and the
   ghost bookkeeping needed to state what a client "was sent".  Definitions
   only, no proofs.  The server side is Model/Signal.v.

   static/protocol.js keeps [sc.users], an object keyed by client id:

     joined, kind leave | fail : every entry is deleted
     user,   kind add          : sc.users[id] = {username, permissions, ...}
     user,   kind change       : if id is absent INSERT it, else update it
     user,   kind delete       : delete sc.users[id]

   [fold_user_events] is that fold over the messages a client received. *)
From Coq Require Import ZArith List Bool String Ascii Arith.
From Galene Require Import Generated.Guards Model.Signal.
Import ListNotations.
Open Scope string_scope.

(* one entry of sc.users: (id, username, permissions) *)
Definition uentry := (str * str * list str)%type.
Definition uview := list uentry.

Definition ue_id (e : uentry) : str := fst (fst e).

Definition view_has (id : str) (v : uview) : bool :=
  existsb (fun e => String.eqb (ue_id e) id) v.

(* delete sc.users[id] *)
Definition view_remove (id : str) (v : uview) : uview :=
  filter (fun e => negb (String.eqb (ue_id e) id)) v.

(* assignment to an existing key: the key keeps its place *)
Fixpoint view_update (id u : str) (p : list str) (v : uview) : uview :=
  match v with
  | [] => []
  | e :: r => if String.eqb (ue_id e) id then (id, u, p) :: r
              else e :: view_update id u p r
  end.

(* kind add: sc.users[m.id] = {...} (a warning if the key exists, then the
   assignment all the same) *)
Definition view_add (id u : str) (p : list str) (v : uview) : uview :=
  if view_has id v then view_update id u p v else app v [(id, u, p)].

(* kind change: if(!(m.id in sc.users)) insert; else update the fields *)
Definition view_change (id u : str) (p : list str) (v : uview) : uview :=
  if negb (view_has id v) then app v [(id, u, p)] else view_update id u p v.

Definition view_lookup (id : str) (v : uview) : option (str * list str) :=
  match find (fun e => String.eqb (ue_id e) id) v with
  | Some (_, u, p) => Some (u, p)
  | None => None
  end.

Definition msg_user (m : outmsg) : str :=
  match o_user m with Some u => u | None => "" end.

Definition is_reset (m : outmsg) : bool :=
  String.eqb (o_type m) "joined" &&
  (String.eqb (o_kind m) "leave" || String.eqb (o_kind m) "fail").

Definition user_step (v : uview) (m : outmsg) : uview :=
  if String.eqb (o_type m) "joined" then
    if String.eqb (o_kind m) "leave" || String.eqb (o_kind m) "fail" then [] else v
  else if String.eqb (o_type m) "user" then
    if String.eqb (o_kind m) "add" then view_add (o_id m) (msg_user m) (o_perms m) v
    else if String.eqb (o_kind m) "change" then view_change (o_id m) (msg_user m) (o_perms m) v
    else if String.eqb (o_kind m) "delete" then view_remove (o_id m) v
    else v
  else v.

(* the user list a client has built from the messages it received *)
Definition fold_user_events (l : list outmsg) : uview := fold_left user_step l [].

(* ------------------------------------------------------------------ *)
(* The same fold seen through ONE key: last writer wins                *)

Definition kstate := option (str * list str).      (* username, permissions *)

Definition key_step (id : str) (s : kstate) (m : outmsg) : kstate :=
  if String.eqb (o_type m) "joined" then
    if String.eqb (o_kind m) "leave" || String.eqb (o_kind m) "fail" then None else s
  else if String.eqb (o_type m) "user" then
    if String.eqb (o_id m) id then
      if String.eqb (o_kind m) "add" || String.eqb (o_kind m) "change"
      then Some (msg_user m, o_perms m)
      else if String.eqb (o_kind m) "delete" then None
      else s
    else s
  else s.

Definition key_sent (id : str) (l : list outmsg) : kstate :=
  fold_left (key_step id) l None.

(* what serving one queued action will do to the key, for a client whose
   group is (and stays) [cg]: handle_action sends [out_user] for a
   [APushClient] of its own group and [out_joined] for a [AJoined] *)
Definition act_step (cg : option str) (id : str) (s : kstate) (a : action) : kstate :=
  match a with
  | APushClient g kind i u p _ =>
      match cg with
      | None => s
      | Some g' => if String.eqb g g' then key_step id s (out_user kind i u p) else s
      end
  | AJoined g kind => key_step id s (out_joined kind g "" [] "" "" false)
  | _ => s
  end.

(* the key after everything queued has been served *)
Definition key_view (id : str) (cg : option str) (sent : list outmsg) (q : list action) : kstate :=
  fold_left (act_step cg id) q (key_sent id sent).

(* ------------------------------------------------------------------ *)
(* The true membership                                                 *)

Definition recording (w : world) (g : str) : bool :=
  match find_group w g with Some gr => g_recording gr | None => false end.

(* the recorder is announced under a placeholder id (the real id is random) *)
Definition rec_id : str := "?".
Definition rec_entry : str * list str := ("RECORDING", ["system"]).

Definition truth (w : world) (g id : str) : kstate :=
  match get_member w g id with
  | Some x => match get_client w x with
              | Some c => Some (c_username c, c_perms c)
              | None => None
              end
  | None => if recording w g && String.eqb id rec_id then Some rec_entry else None
  end.

(* the membership as a list of entries (for the Permutation form) *)
Definition member_entries (w : world) (g : str) : uview :=
  flat_map (fun h => match get_client w h with
                     | Some c => [(c_id c, c_username c, c_perms c)]
                     | None => [] end) (members w g).
Definition true_list (w : world) (g : str) : uview :=
  app (member_entries w g)
      (if recording w g then [(rec_id, fst rec_entry, snd rec_entry)] else []).

(* ------------------------------------------------------------------ *)
(* Ghost log: what the scheduler has already read from each outbox      *)

Definition seenlog := nat -> list outmsg.
Definition no_log : seenlog := fun _ => [].

Definition log_step (s : seenlog) (o : op) (r : opres) : seenlog :=
  match o, r with
  | OpDrain h, ROut l => fun i => if Nat.eqb i h then app (s i) l else s i
  | _, _ => s
  end.

Fixpoint run_log (w : world) (s : seenlog) (ops : list op) : option (world * seenlog) :=
  match ops with
  | [] => Some (w, s)
  | o :: r =>
      match step w o with
      | Running w' res => run_log w' (log_step s o res) r
      | Crashed => None
      end
  end.

(* everything client h was ever sent: what was drained, then the outbox *)
Definition received (w : world) (s : seenlog) (h : nat) : list outmsg :=
  app (s h) (match get_client w h with Some c => c_out c | None => [] end).

(* activity has stopped: no live client has a queued action *)
Definition quiescent (w : world) : Prop :=
  forall h c, get_client w h = Some c -> c_closed c = false -> c_queue c = [].

(* the placeholder id of the recorder is not the id of a connection *)
Definition op_ok (o : op) : Prop :=
  match o with OpClient id => id <> rec_id | _ => True end.

(* the user events of a queue *)
Definition is_push (a : action) : bool :=
  match a with APushClient _ _ _ _ _ _ => true | _ => false end.
Definition pushes (q : list action) : list action := filter is_push q.

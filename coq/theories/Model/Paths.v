(* L0 model of the name/path handling that C19 is about.  Executable; no
   proofs here.  Strings are Go strings seen as byte lists ([list Z], one
   element per byte, 0..255); indices and lengths are [nat] (Go [int], never
   near 2^63 for a string in memory, so no wrap is involved).

   Transcribed from
     $GOROOT/src/path/path.go      lazybuf, Clean (go1.24)
     group/group.go                validGroupName, validUsername
     group/description.go          getDescriptionFile (file name, subgroup walk),
                                   UpdateDescription (file name)
     webserver/webserver.go        parseGroupName, splitPath, the delete action
     webserver/api.go              how apiGroupHandler obtains the group name
     diskwriter/diskwriter.go      sanitise, openDiskFile (file name), New (directory)
     path/filepath (unix)          Join of two elements, which is Clean of the
                                   non-empty elements joined by '/'; on unix
                                   filepath.Clean is path.Clean.
   filepath.Separator is '/' (linux): the branches of validGroupName and
   parseGroupName that test another separator are dead and are not modelled.

   A Go panic (index out of range in lazybuf) is the explicit outcome [Panic];
   the loops of Clean run on fuel and may return [OutOfFuel].  Proofs/PathsClean.v
   shows that neither is reachable ([clean_lazy p = Ok (clean_spec p)]), which
   is why the functions built on top use the unwrapped [clean]. *)
From Coq Require Import ZArith List Bool.
Import ListNotations.
Open Scope Z_scope.

Definition str := list Z.

Definition SLASH : Z := 47.
Definition DOT : Z := 46.
Definition BACKSLASH : Z := 92.

Fixpoint str_eqb (a b : str) : bool :=
  match a, b with
  | [], [] => true
  | x :: a', y :: b' => (x =? y) && str_eqb a' b'
  | _, _ => false
  end.

(* strings.ContainsRune(s, c) for an ASCII c: a byte search *)
Definition contains (c : Z) (s : str) : bool := existsb (Z.eqb c) s.

Inductive result (A : Type) : Type :=
| Ok (a : A)
| Panic
| OutOfFuel.
Arguments Ok {A} a.
Arguments Panic {A}.
Arguments OutOfFuel {A}.

(* ------------------------------------------------------------------ *)
(* path.lazybuf                                                        *)

Record lazybuf := mkLB {
  lb_s : str;               (* s   string *)
  lb_buf : option str;      (* buf []byte, nil until the output diverges *)
  lb_w : nat                (* w   int *)
}.

Definition lb_set_w (b : lazybuf) (w : nat) : lazybuf :=
  mkLB (lb_s b) (lb_buf b) w.

(* func (b *lazybuf) index(i int) byte; None = index out of range *)
Definition lb_index (b : lazybuf) (i : nat) : option Z :=
  match lb_buf b with
  | Some bf => nth_error bf i
  | None => nth_error (lb_s b) i
  end.

Fixpoint set_nth (n : nat) (x : Z) (l : str) : str :=
  match l, n with
  | [], _ => []
  | _ :: t, O => x :: t
  | h :: t, S n' => h :: set_nth n' x t
  end.

(* b.buf[b.w] = c; b.w++ *)
Definition lb_store (s : str) (bf : str) (w : nat) (c : Z) : option lazybuf :=
  if (w <? length bf)%nat
  then Some (mkLB s (Some (set_nth w c bf)) (S w))
  else None.

(* b.buf = make([]byte, len(b.s)); copy(b.buf, b.s[:b.w]) and the store *)
Definition lb_alloc_store (b : lazybuf) (c : Z) : option lazybuf :=
  if (length (lb_s b) <? lb_w b)%nat then None      (* b.s[:b.w] out of range *)
  else
    let bf := firstn (lb_w b) (lb_s b)
              ++ repeat 0 (length (lb_s b) - lb_w b) in
    lb_store (lb_s b) bf (lb_w b) c.

(* func (b *lazybuf) append(c byte); None = panic *)
Definition lb_append (b : lazybuf) (c : Z) : option lazybuf :=
  match lb_buf b with
  | None =>
    match nth_error (lb_s b) (lb_w b) with    (* b.w < len(b.s) && b.s[b.w] == c *)
    | Some c' =>
      if c' =? c then Some (mkLB (lb_s b) None (S (lb_w b)))
      else lb_alloc_store b c
    | None => lb_alloc_store b c
    end
  | Some bf => lb_store (lb_s b) bf (lb_w b) c
  end.

(* func (b *lazybuf) string() string *)
Definition lb_string (b : lazybuf) : str :=
  match lb_buf b with
  | None => firstn (lb_w b) (lb_s b)
  | Some bf => firstn (lb_w b) bf
  end.

(* ------------------------------------------------------------------ *)
(* path.Clean.  The read side (path, r) is kept as the suffix path[r:]:
   path[r] is its head, r+1 == n says that its tail is empty. *)

(* for out.w > dotdot && out.index(out.w) != '/' { out.w-- } *)
Fixpoint backtrack (fuel : nat) (out : lazybuf) (dotdot : nat) : result lazybuf :=
  match fuel with
  | O => OutOfFuel
  | S f =>
    if (dotdot <? lb_w out)%nat then
      match lb_index out (lb_w out) with
      | None => Panic
      | Some c =>
        if c =? SLASH then Ok out
        else backtrack f (lb_set_w out (pred (lb_w out))) dotdot
      end
    else Ok out
  end.

(* for ; r < n && path[r] != '/'; r++ { out.append(path[r]) } *)
Fixpoint copy_elem (out : lazybuf) (rest : str) : option (lazybuf * str) :=
  match rest with
  | [] => Some (out, [])
  | c :: t =>
    if c =? SLASH then Some (out, rest)
    else match lb_append out c with
         | None => None
         | Some out' => copy_elem out' t
         end
  end.

(* r+k == n || path[r+k] == '/' on the suffix that starts at r+k *)
Definition at_end_or_slash (t : str) : bool :=
  match t with
  | [] => true
  | c :: _ => c =? SLASH
  end.

Definition is_dot_elem (rest : str) : bool :=
  match rest with
  | c :: t => (c =? DOT) && at_end_or_slash t
  | [] => false
  end.

Definition is_dotdot_elem (rest : str) : bool :=
  match rest with
  | c :: c1 :: t2 => (c =? DOT) && (c1 =? DOT) && at_end_or_slash t2
  | _ => false
  end.

(* the body of `for r < n { switch {...} }` *)
Fixpoint clean_loop (fuel : nat) (rooted : bool) (out : lazybuf)
         (dotdot : nat) (rest : str) : result lazybuf :=
  match fuel with
  | O => OutOfFuel
  | S f =>
    match rest with
    | [] => Ok out
    | c :: t =>
      if c =? SLASH then
        (* empty path element *)
        clean_loop f rooted out dotdot t
      else if is_dot_elem rest then
        (* . element *)
        clean_loop f rooted out dotdot t
      else if is_dotdot_elem rest then
        (* .. element: remove to last / *)
        let t2 := tl t in
        if (dotdot <? lb_w out)%nat then
          (* can backtrack *)
          match backtrack (lb_w out) (lb_set_w out (pred (lb_w out))) dotdot with
          | Ok out' => clean_loop f rooted out' dotdot t2
          | Panic => Panic
          | OutOfFuel => OutOfFuel
          end
        else if negb rooted then
          (* cannot backtrack, but not rooted, so append .. element *)
          match (if (0 <? lb_w out)%nat then lb_append out SLASH else Some out) with
          | None => Panic
          | Some o1 =>
            match lb_append o1 DOT with
            | None => Panic
            | Some o2 =>
              match lb_append o2 DOT with
              | None => Panic
              | Some o3 => clean_loop f rooted o3 (lb_w o3) t2
              end
            end
          end
        else clean_loop f rooted out dotdot t2
      else
        (* real path element: add slash if needed, copy element *)
        match (if (rooted && negb (lb_w out =? 1)%nat)
                  || (negb rooted && negb (lb_w out =? 0)%nat)
               then lb_append out SLASH else Some out) with
        | None => Panic
        | Some o1 =>
          match copy_elem o1 rest with
          | None => Panic
          | Some (o2, rest') => clean_loop f rooted o2 dotdot rest'
          end
        end
    end
  end.

Definition clean_lazy (path : str) : result str :=
  match path with
  | [] => Ok [DOT]
  | c0 :: t0 =>
    let rooted := c0 =? SLASH in
    let out0 := mkLB path None 0 in
    match (if rooted then lb_append out0 SLASH else Some out0) with
    | None => Panic
    | Some out1 =>
      let rest := if rooted then t0 else path in
      let dotdot := if rooted then 1%nat else 0%nat in
      match clean_loop (S (length path)) rooted out1 dotdot rest with
      | Ok out =>
        if (lb_w out =? 0)%nat then Ok [DOT] else Ok (lb_string out)
      | Panic => Panic
      | OutOfFuel => OutOfFuel
      end
    end
  end.

(* the value of path.Clean; [] stands for an outcome that Proofs/PathsClean.v
   proves unreachable *)
Definition clean (path : str) : str :=
  match clean_lazy path with
  | Ok s => s
  | _ => []
  end.

(* ------------------------------------------------------------------ *)
(* group/group.go *)

Definition valid_group_name (name : str) : bool :=
  if contains BACKSLASH name then false
  else
    let s := clean (SLASH :: name) in
    if str_eqb s [SLASH] then false
    else str_eqb s (SLASH :: name).

Definition valid_username (username : str) : bool :=
  match username with
  | [] => true
  | _ => valid_group_name username
  end.

(* ------------------------------------------------------------------ *)
(* webserver/webserver.go *)

(* strings.HasPrefix + p[len(prefix):] *)
Fixpoint strip_prefix (prefix p : str) : option str :=
  match prefix, p with
  | [], _ => Some p
  | x :: prefix', y :: p' => if x =? y then strip_prefix prefix' p' else None
  | _ :: _, [] => None
  end.

Definition parse_group_name (prefix p : str) : str :=
  match strip_prefix prefix p with
  | None => []
  | Some name =>
    match name with
    | [] => []
    | c :: _ =>
      if c =? DOT then []
      else if contains BACKSLASH name then []
      else tl (clean (SLASH :: name))         (* name[1:] *)
    end
  end.

Fixpoint has_prefix (pat s : str) : bool :=
  match pat, s with
  | [], _ => true
  | x :: pat', y :: s' => (x =? y) && has_prefix pat' s'
  | _ :: _, [] => false
  end.

(* strings.Index(s, pat); None = -1 *)
Fixpoint index_sub (pat s : str) : option nat :=
  if has_prefix pat s then Some O
  else match s with
       | [] => None
       | _ :: t => match index_sub pat t with
                   | Some i => Some (S i)
                   | None => None
                   end
       end.

Definition split_path (pth : str) : str * str * str :=
  match index_sub [SLASH; DOT] pth with
  | None => (pth, [], [])
  | Some index =>
    let after := skipn (index + 1) pth in
    match index_sub [SLASH] after with
    | None => (firstn index pth, after, [])
    | Some index2 => (firstn index pth, firstn index2 after, skipn index2 after)
    end
  end.

(* webserver/api.go, apiGroupHandler: first, kind, rest := splitPath(pth);
   g := ""; if first != "" { g = first[1:] }.  [pth] is what follows
   "/galene-api/v0/.groups" in the (already unescaped) URL path. *)
Definition api_group_name (pth : str) : str :=
  let '(first, _, _) := split_path pth in tl first.

(* ------------------------------------------------------------------ *)
(* path/filepath on unix: Join(a, b) *)

Definition join2 (a b : str) : str :=
  match a, b with
  | [], [] => []
  | [], _ => clean b
  | _, [] => clean a
  | _, _ => clean (a ++ SLASH :: b)
  end.

(* ------------------------------------------------------------------ *)
(* group/description.go *)

Definition JSON_EXT : str := [46; 106; 115; 111; 110].   (* ".json" *)

(* filepath.Join(Directory, path.Clean("/"+name)+".json") *)
Definition desc_file (directory name : str) : str :=
  join2 directory (clean (SLASH :: name) ++ JSON_EXT).

(* path.Split(name): (name[:i+1], name[i+1:]) for the last '/' *)
Fixpoint split_last_slash (s : str) : str * str :=
  match s with
  | [] => ([], [])
  | c :: t =>
    let '(d, f) := split_last_slash t in
    if contains SLASH t then (c :: d, f)
    else if c =? SLASH then ([c], t)
    else ([], s)
  end.

(* strings.TrimRight(s, "/") *)
Fixpoint trim_right_slash (s : str) : str :=
  match s with
  | [] => []
  | c :: t =>
    match trim_right_slash t with
    | [] => if c =? SLASH then [] else [c]
    | t' => c :: t'
    end
  end.

(* name, _ = path.Split(name); name = strings.TrimRight(name, "/") *)
Definition parent_name (name : str) : str :=
  trim_right_slash (fst (split_last_slash name)).

(* the file names getDescriptionFile passes to [get] when none of them
   exists, in order (allowSubgroups = true walks up to the ancestors) *)
Fixpoint desc_candidates (fuel : nat) (directory name : str)
         (allow_subgroups : bool) : list str :=
  match fuel with
  | O => []
  | S f =>
    match name with
    | [] => []
    | _ =>
      desc_file directory name ::
      (if allow_subgroups
       then desc_candidates f directory (parent_name name) true
       else [])
    end
  end.

Definition desc_files (directory name : str) (allow_subgroups : bool) : list str :=
  desc_candidates (S (length name)) directory name allow_subgroups.

(* ------------------------------------------------------------------ *)
(* diskwriter/diskwriter.go *)

Definition SLASH_WORD : str := [45; 115; 108; 97; 115; 104; 45].  (* "-slash-" *)
Definition BACKSLASH_WORD : str :=
  [45; 98; 97; 99; 107; 115; 108; 97; 115; 104; 45].              (* "-backslash-" *)

(* strings.NewReplacer("/", "-slash-", "\\", "-backslash-").Replace(s):
   all old strings are single bytes, every byte is replaced independently *)
Definition sanitise (s : str) : str :=
  flat_map (fun c => if c =? SLASH then SLASH_WORD
                     else if c =? BACKSLASH then BACKSLASH_WORD
                     else [c]) s.

Definition DASH : Z := 45.

(* %02d for 0 <= counter < 100 (the loop bound of openDiskFile) *)
Definition two_digits (counter : Z) : str :=
  [48 + counter / 10; 48 + counter mod 10].

(* the name openDiskFile passes to root.OpenFile: [stamp] is
   time.Now().Format(filenameFormat) *)
Definition rec_file_name (stamp username : str) (counter : Z) (extension : str) : str :=
  let filename :=
    match username with
    | [] => stamp
    | _ => stamp ++ DASH :: sanitise username
    end in
  if counter =? 0 then filename ++ DOT :: extension
  else filename ++ DASH :: two_digits counter ++ DOT :: extension.

(* diskwriter.New: filepath.Join(Directory, g.Name()) *)
Definition rec_dir (directory group : str) : str := join2 directory group.

(* the file lives at <rec_dir>/<rec_file_name> (opened through os.Root) *)
Definition rec_path (directory group stamp username : str) (counter : Z)
           (extension : str) : str :=
  rec_dir directory group ++ SLASH :: rec_file_name stamp username counter extension.

(* webserver.handleGroupAction, q=delete: the checks on the form field and
   the name given to root.Remove (relative to the recordings directory).
   None = refused with 400. *)
Definition delete_target (group filename : str) : option str :=
  match group, filename with
  | [], _ => None
  | _, [] => None
  | _, _ =>
    if contains SLASH filename then None
    else Some (join2 group (clean (SLASH :: filename)))
  end.

(* ------------------------------------------------------------------ *)
(* group/group.go, Description.GetPermission: the username a join ends up
   with, for every way a username enters (password credentials, a token that
   carries a username -- stateful token or the `sub` of a JWT --, a token
   without username plus a client-chosen name).  The token machinery and the
   password match are oracles:
     tok_present   creds.Token != ""
     parse_ok      token.Parse succeeded
     needs         tok.NeedsUsername()
     check         tok.Check: None = error, Some u = the username it returns
     cuser         creds.Username (None = nil)
     user_exists   desc.userExists( *creds.Username)
     password_ok   getPasswordPermission succeeded
   Result: None = the join is refused, Some u = (username, perms) returned. *)
Definition get_permission_username (tok_present parse_ok needs : bool)
           (check : option str) (cuser : option str)
           (user_exists password_ok : bool) : option str :=
  let r :=
    if tok_present then
      if negb parse_ok then None
      else if (match cuser with None => true | Some _ => false end) && needs then None
      else match check with
           | None => None
           | Some tu =>
             match tu, cuser with
             | [], Some cu => if user_exists then None else Some cu
             | _, _ => Some tu
             end
           end
    else
      match cuser with
      | Some cu => if password_ok then Some cu else None
      | None => None
      end in
  match r with
  | Some username => if valid_username username then Some username else None
  | None => None
  end.

(* L0 model of codecs.RewritePacket (codecs/codecs.go).  The packet is a list
   of bytes; every indexed access is bounds-checked and yields [RPanic] where
   Go would panic.  The Go function mutates its argument in place and may
   return an error after having written the marker and the sequence number;
   the caller (rtpDownTrack.Write) discards the buffer in that case, so [RErr]
   carries no data. *)
From Coq Require Import ZArith List Bool.
From Galene Require Import Lib.Word.
Import ListNotations.
Open Scope Z_scope.

Inductive rres := ROk (data : list Z) | RErr | RPanic.

Definition blen (l : list Z) : Z := Z.of_nat (length l).

(* data[i] *)
Definition rd (l : list Z) (i : Z) : option Z :=
  if (0 <=? i) && (i <? blen l) then nth_error l (Z.to_nat i) else None.

(* data[i] = v *)
Fixpoint upd (l : list Z) (n : nat) (v : Z) : list Z :=
  match l, n with
  | [], _ => []
  | _ :: t, O => v :: t
  | h :: t, S n' => h :: upd t n' v
  end.
Definition wr (l : list Z) (i : Z) (v : Z) : option (list Z) :=
  if (0 <=? i) && (i <? blen l) then Some (upd l (Z.to_nat i) v) else None.

Definition bind_rd (l : list Z) (i : Z) (k : Z -> rres) : rres :=
  match rd l i with Some v => k v | None => RPanic end.
Definition bind_wr (l : list Z) (i v : Z) (k : list Z -> rres) : rres :=
  match wr l i v with Some l' => k l' | None => RPanic end.

Definition hibit (b : Z) : bool := 128 <=? b.     (* b & 0x80 != 0 *)

(* the VP8 part: rewrite the picture id found after the RTP header *)
Definition rewrite_vp8 (data : list Z) (offset delta : Z) : rres :=
  bind_rd data offset (fun b0 =>
  if negb (hibit b0) then ROk data else               (* X *)
  let offset := offset + 1 in
  if blen data <=? offset then RErr else
  bind_rd data offset (fun b1 =>
  if negb (hibit b1) then ROk data else               (* I *)
  let offset := offset + 1 in
  if blen data <=? offset then RErr else
  bind_rd data offset (fun b2 =>
  if hibit b2 then                                    (* M: 15-bit picture id *)
    if blen data <=? offset + 1 then RErr else
    bind_rd data (offset + 1) (fun b3 =>
    let pid := (b2 mod 128) * 256 + b3 in
    let pid' := (pid + delta) mod 32768 in
    bind_wr data offset (128 + (pid' / 256) mod 128) (fun d1 =>
    bind_wr d1 (offset + 1) (pid' mod 256) (fun d2 => ROk d2)))
  else
    bind_wr data offset ((b2 + delta mod 256) mod 128) (fun d1 => ROk d1)))).

Definition rewrite (vp8 : bool) (data : list Z) (setMarker : bool) (seqno delta : Z) : rres :=
  if blen data <? 12 then RErr else
  bind_rd data 1 (fun b1 =>
  bind_wr data 1 (if setMarker && negb (hibit b1) then b1 + 128 else b1) (fun d1 =>
  bind_wr d1 2 (seqno / 256) (fun d2 =>
  bind_wr d2 3 (seqno mod 256) (fun d3 =>
  if delta =? 0 then ROk d3 else
  bind_rd d3 0 (fun b0 =>
  let offset := 12 + (b0 mod 16) * 4 in
  if blen d3 <=? offset then RErr else
  let k (offset : Z) : rres :=
    if vp8 then rewrite_vp8 d3 offset delta else ROk d3 in
  if Z.odd (b0 / 16) then                             (* X bit of the RTP header *)
    if blen d3 <? offset + 4 then RErr else
    bind_rd d3 (offset + 2) (fun l1 =>
    bind_rd d3 (offset + 3) (fun l2 =>
    let length := l1 * 256 + l2 in
    let offset := offset + 4 + length * 4 in
    if blen d3 <? offset + 4 then RErr else k offset))
  else k offset))))).

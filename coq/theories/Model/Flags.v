(* L0 model of codecs.PacketFlags (codecs/codecs.go) together with the parts of
   pion/rtp v1.10.4 it calls: rtp.Packet.Unmarshal for packets WITHOUT a
   header extension, codecs.VP8Packet.Unmarshal and codecs.VP9Packet.Unmarshal.
   A packet is a list of bytes.  Packets whose RTP extension bit is set are
   not modelled ([FUnmodelled]): galene's receive loop strips the extension
   before a packet reaches the cache and Write (rtpreader.go).  Errors are
   one value ([FErr]): PacketFlags' callers only test err != nil. *)
From Coq Require Import ZArith List Bool.
From Galene Require Import Lib.Word Model.Layers Model.Rewrite.
Import ListNotations.
Open Scope Z_scope.

Definition bit (b k : Z) : bool := (b / 2 ^ k) mod 2 =? 1.    (* (b >> k) & 1 *)
Definition bits (b k n : Z) : Z := (b / 2 ^ k) mod 2 ^ n.     (* (b >> k) & (2^n - 1) *)

(* p[i:] *)
Definition drop (l : list Z) (i : Z) : list Z := skipn (Z.to_nat i) l.

(* rtp.Packet.Unmarshal, header without extension: the payload *)
Definition rtp_payload (buf : list Z) : option (list Z) :=
  if blen buf <? 12 then None else
  match rd buf 0 with
  | None => None
  | Some b0 =>
    let n := 12 + bits b0 0 4 * 4 in
    if blen buf <? n then None else
    if bit b0 5 then                       (* padding *)
      if blen buf <=? n then None else
      match rd buf (blen buf - 1) with
      | None => None
      | Some pad =>
        if pad =? 0 then None else
        let e := blen buf - pad in
        if e <? n then None else
        Some (firstn (Z.to_nat (e - n)) (drop buf n))
      end
    else Some (drop buf n)
  end.

(* ---- VP8 payload descriptor (RFC 7741), as VP8Packet.Unmarshal reads it ---- *)
Record vp8d := mkVp8 {
  v8_n : bool; v8_s : bool; v8_partid : Z;
  v8_picid : Z; v8_tid : Z; v8_y : bool;
  v8_payload : list Z }.

Definition vp8_parse (p : list Z) : option vp8d :=
  match rd p 0 with
  | None => None
  | Some b0 =>
    let x := bit b0 7 in
    let i1 := 1 in
    (* extension byte *)
    let ext := if x then rd p i1 else Some 0 in
    match ext with
    | None => None
    | Some b1 =>
      let i2 := if x then i1 + 1 else i1 in
      let fI := bit b1 7 in let fL := bit b1 6 in let fT := bit b1 5 in let fK := bit b1 4 in
      (* picture id *)
      let pic :=
        if fI then
          match rd p i2 with
          | None => None
          | Some m =>
            if bit m 7 then
              match rd p (i2 + 1) with
              | None => None
              | Some lo => Some ((m mod 128) * 256 + lo, i2 + 2)
              end
            else Some (m, i2 + 1)
          end
        else Some (0, i2) in
      match pic with
      | None => None
      | Some (picid, i3) =>
        (* TL0PICIDX *)
        let tl := if fL then match rd p i3 with None => None | Some _ => Some (i3 + 1) end
                  else Some i3 in
        match tl with
        | None => None
        | Some i4 =>
          if fT || fK then
            match rd p i4 with
            | None => None
            | Some t =>
              Some (mkVp8 (bit b0 5) (bit b0 4) (bits b0 0 3) picid
                          (if fT then bits t 6 2 else 0) (if fT then bit t 5 else false)
                          (drop p (i4 + 1)))
            end
          else
            Some (mkVp8 (bit b0 5) (bit b0 4) (bits b0 0 3) picid 0 false (drop p i4))
        end
      end
    end
  end.

(* ---- VP9 payload descriptor, as VP9Packet.Unmarshal reads it ---- *)
Record vp9d := mkVp9 {
  v9_p : bool; v9_b : bool; v9_e : bool;
  v9_tid : Z; v9_u : bool; v9_sid : Z;
  v9_payload : list Z }.

(* parseRefIndices: up to three P_DIFF bytes; returns the new position *)
Definition vp9_refs (p : list Z) (pos : Z) : option Z :=
  match rd p pos with
  | None => None
  | Some r1 =>
    if negb (bit r1 0) then Some (pos + 1) else
    match rd p (pos + 1) with
    | None => None
    | Some r2 =>
      if negb (bit r2 0) then Some (pos + 2) else
      match rd p (pos + 2) with
      | None => None
      | Some r3 => if negb (bit r3 0) then Some (pos + 3) else None   (* errTooManyPDiff *)
      end
    end
  end.

(* the N_G loop of parseSSData *)
Fixpoint vp9_ss_groups (p : list Z) (pos : Z) (ng : nat) : option Z :=
  match ng with
  | O => Some pos
  | S ng' =>
    match rd p pos with
    | None => None
    | Some g =>
      let reference := bits g 2 2 in
      let pos := pos + 1 in
      if blen p <=? pos + reference - 1 then None
      else vp9_ss_groups p (pos + reference) ng'
    end
  end.

(* the N_S + 1 width/height pairs *)
Fixpoint vp9_ss_sizes (p : list Z) (pos : Z) (ns : nat) : option Z :=
  match ns with
  | O => Some pos
  | S ns' => if blen p <=? pos + 3 then None else vp9_ss_sizes p (pos + 4) ns'
  end.

Definition vp9_ss (p : list Z) (pos : Z) : option Z :=
  match rd p pos with
  | None => None
  | Some s =>
    let ns := bits s 5 3 + 1 in
    let pos := pos + 1 in
    let after_sizes := if bit s 4 then vp9_ss_sizes p pos (Z.to_nat ns) else Some pos in
    match after_sizes with
    | None => None
    | Some pos =>
      if bit s 3 then
        match rd p pos with
        | None => None
        | Some ng => vp9_ss_groups p (pos + 1) (Z.to_nat ng)
        end
      else Some pos
    end
  end.

Definition vp9_parse (p : list Z) : option vp9d :=
  match rd p 0 with
  | None => None
  | Some b0 =>
    let fI := bit b0 7 in let fP := bit b0 6 in let fL := bit b0 5 in let fF := bit b0 4 in
    let fB := bit b0 3 in let fE := bit b0 2 in let fV := bit b0 1 in
    let pos := 1 in
    (* picture id *)
    let p1 :=
      if fI then
        match rd p pos with
        | None => None
        | Some m => if bit m 7 then match rd p (pos + 1) with None => None | Some _ => Some (pos + 2) end
                    else Some (pos + 1)
        end
      else Some pos in
    match p1 with
    | None => None
    | Some pos =>
      (* layer indices *)
      let p2 :=
        if fL then
          match rd p pos with
          | None => None
          | Some l =>
            let sid := bits l 1 3 in
            if 5 <=? sid then None else                       (* errTooManySpatialLayers *)
            if fF then Some (bits l 5 3, bit l 4, sid, pos + 1)
            else match rd p (pos + 1) with                    (* TL0PICIDX *)
                 | None => None
                 | Some _ => Some (bits l 5 3, bit l 4, sid, pos + 2)
                 end
          end
        else Some (0, false, 0, pos) in
      match p2 with
      | None => None
      | Some (tid, u, sid, pos) =>
        let p3 := if fF && fP then vp9_refs p pos else Some pos in
        match p3 with
        | None => None
        | Some pos =>
          let p4 := if fV then vp9_ss p pos else Some pos in
          match p4 with
          | None => None
          | Some pos => Some (mkVp9 fP fB fE tid u sid (drop p pos))
          end
        end
      end
    end
  end.

Inductive codec := CVP8 | CVP9 | COther.

Inductive fres :=
| FErr
| FUnmodelled                                  (* RTP header extension present *)
| FOk (f : flags) (discardable : bool).

(* codecs.PacketFlags *)
Definition packet_flags (c : codec) (buf : list Z) : fres :=
  if blen buf <? 4 then FErr else
  match rd buf 0, rd buf 1, rd buf 2, rd buf 3 with
  | Some b0, Some b1, Some b2, Some b3 =>
    let seqno := b2 * 256 + b3 in
    let marker := bit b1 7 in
    match c with
    | COther => FOk (mkFlags seqno marker false false false 0 0 0 false false false) false
    | CVP8 =>
      if bit b0 4 then FUnmodelled else
      match rtp_payload buf with
      | None => FErr
      | Some pl =>
        match vp8_parse pl with
        | None => FErr
        | Some d =>
          let start := v8_s d && (v8_partid d =? 0) in
          let kf := start &&
                    match v8_payload d with
                    | [] => false
                    | h :: _ => negb (bit h 0)
                    end in
          FOk (mkFlags seqno marker start marker kf (v8_picid d) (v8_tid d) 0
                       (kf || v8_y d) kf false) (v8_n d)
        end
      end
    | CVP9 =>
      if bit b0 4 then FUnmodelled else
      match rtp_payload buf with
      | None => FErr
      | Some pl =>
        match vp9_parse pl with
        | None => FErr
        | Some d =>
          let kf :=
            match v9_payload d with
            | h :: _ =>
              if v9_b d && (bits h 6 2 =? 2) then
                if negb (bits h 4 2 =? 3) then bits h 2 2 =? 0 else bits h 1 2 =? 0
              else false
            | [] => false
            end in
          let nonref := match pl with h :: _ => bit h 0 | [] => false end in
          FOk (mkFlags seqno marker (v9_b d) (v9_e d) kf 0 (v9_tid d) (v9_sid d)
                       (kf || v9_u d) (kf || negb (v9_p d)) nonref) false
        end
      end
    end
  | _, _, _, _ => FErr
  end.

(* The time origin of a recording with several tracks: the event layer over
   the origin arithmetic of Model/Disk.v.  Executable; no proofs.

   Model/Disk.v ALREADY transcribes diskTrack.setOrigin, setTimeOffset and
   adjustOrigin statement by statement for a connection with any number of
   tracks ([set_origin], [set_time_offset], [adjust_origin] over [tconn]: the
   per-track origin/remoteNTP/remoteRTP/clock rate and diskConn.originLocal/
   originRemote), and the `disktime' component of the disk driver compares
   these three functions with the real code on every run.  They are reused
   here unchanged.  What is new in this file:

     - [oev], [ostep], [orun]: the calls that touch the time state of one
       diskConn, in the order in which they happen under conn.mu:
         OFirst i ts now   writeRTP on track i found !valid(t.origin) and
                           calls t.setOrigin(ts, now, Codec().ClockRate)
                           (both call sites of setOrigin are guarded by
                           !valid(t.origin); which packet gets there - the
                           first keyframe of a video track, the first packet
                           of an audio track once the connection has a local
                           origin - is decided by write_rtp_pre of Disk.v)
         OSR i ntp rtp     t.SetTimeOffset(ntp, rtp): a sender report
         OOpen i ts        initWriter(.., track i, ts) opening the file:
                           track.adjustOrigin(ts)
         OClose            conn.close(): originLocal, originRemote and every
                           track's origin are reset (the sender reports stay)
     - [capture_time]: the publisher's NTP time (ns since 1900) at which a
       timestamp of a track was sampled according to the track's last sender
       report; it is the code's own expression `remote' of setOrigin
     - [container_time]: what writeBuffered writes for a sample
     - [resize_sample]: the path of finding N4: initWriter with a file open
       and other dimensions = conn.close(), adjustOrigin, reopen, and then
       the test !valid(t.origin) of writeBuffered
     - the four events of a two-track recording, their 24 orders, and the
       executable predicates used to classify the orders.

   Go arithmetic as in Disk.v: time.Duration and time.Time in nanoseconds
   (Z), the uint32/uint64 wraps as mod, int32/int64 conversions as i32/i64. *)
From Coq Require Import ZArith List Bool.
From Galene Require Import Lib.Word Model.Disk.
Import ListNotations.
Open Scope Z_scope.

Inductive oev :=
| OFirst (i : nat) (ts now : Z)
| OSR (i : nat) (ntp rtp : Z)
| OOpen (i : nat) (ts : Z)
| OClose.

(* t.remote.Codec().ClockRate *)
Definition rate_at (c : tconn) (i : nat) : Z :=
  match nth_error (tc_tracks c) i with Some t => tt_rate t | None => 0 end.

(* conn.close() on the time state *)
Definition close_origins (c : tconn) : tconn :=
  mkTC None 0
       (map (fun t => mkTT None (tt_ntp t) (tt_rtp t) (tt_rate t)) (tc_tracks c)).

Definition ostep (c : tconn) (e : oev) : tconn :=
  match e with
  | OFirst i ts now =>
    match origin_of c i with
    | None => set_origin c i ts now (rate_at c i)
    | Some _ => c
    end
  | OSR i ntp rtp => set_time_offset c i ntp rtp (rate_at c i)
  | OOpen i ts => adjust_origin c i ts
  | OClose => close_origins c
  end.

Definition orun (c : tconn) (es : list oev) : tconn := fold_left ostep es c.

(* rtptime.NTPToTime(t.remoteNTP).Add(sub(ts, t.remoteRTP, clockrate)) *)
Definition capture_time (t : ttrack) (ts : Z) : Z :=
  ntp_to_time (tt_ntp t) + tsub ts (tt_rtp t) (tt_rate t).

(* writeBuffered for a sample with timestamp ts on a track with a writer:
   None = not written (late packet before the origin, 2^31 rollover, or
   "Invalid origin") *)
Definition container_time (c : tconn) (i : nat) (ts : Z) : option Z :=
  match nth_error (tc_tracks c) i with
  | None => None
  | Some t =>
    match tt_origin t with
    | None => None
    | Some o => if before_origin o ts then None else Some (tm_of o (tt_rate t) ts)
    end
  end.

(* a keyframe sample with other dimensions while the file is open:
   initWriter calls conn.close(), then track.adjustOrigin(ts), opens the new
   file and installs the writers; back in writeBuffered the sample is
   written iff valid(t.origin) *)
Definition resize_sample (c : tconn) (i : nat) (ts : Z) : tconn * option Z :=
  let c1 := close_origins c in
  let c2 := adjust_origin c1 i ts in
  (c2, match origin_of c2 i with
       | None => None                               (* "Invalid origin" *)
       | Some o => Some (tm_of o (rate_at c2 i) ts)
       end).

(* ------------------------------------------------------------------ *)
(* the history of the origins along a run                              *)

Definition origins (c : tconn) : list (option Z) := map tt_origin (tc_tracks c).

(* the origins after every prefix of the run (the initial state first) *)
Fixpoint origin_trace (c : tconn) (es : list oev) : list (list (option Z)) :=
  origins c ::
  match es with
  | [] => []
  | e :: es' => origin_trace (ostep c e) es'
  end.

Definition opt_moved (a b : option Z) : bool :=
  match a, b with
  | Some x, Some y => negb (x =? y)
  | _, _ => false
  end.
Fixpoint any2 {A} (f : A -> A -> bool) (l1 l2 : list A) : bool :=
  match l1, l2 with
  | a :: l1', b :: l2' => f a b || any2 f l1' l2'
  | _, _ => false
  end.
(* some track's valid origin is replaced by another valid origin *)
Fixpoint trace_moved (tr : list (list (option Z))) : bool :=
  match tr with
  | a :: ((b :: _) as tr') => any2 opt_moved a b || trace_moved tr'
  | _ => false
  end.
Definition origin_moved (c : tconn) (es : list oev) : bool :=
  trace_moved (origin_trace c es).

(* ------------------------------------------------------------------ *)
(* two tracks, four events                                             *)

Definition conn2 (r0 r1 : Z) : tconn := mkTC None 0 [tt0 r0; tt0 r1].

Fixpoint insert_all {A} (x : A) (l : list A) : list (list A) :=
  match l with
  | [] => [[x]]
  | y :: l' => (x :: l) :: map (cons y) (insert_all x l')
  end.
Fixpoint perms {A} (l : list A) : list (list A) :=
  match l with
  | [] => [[]]
  | x :: l' => flat_map (insert_all x) (perms l')
  end.

Definition is_first (e : oev) : bool := match e with OFirst _ _ _ => true | _ => false end.
Definition is_sr (e : oev) : bool := match e with OSR _ _ _ => true | _ => false end.

(* the order has no sender report after the second OFirst: both sender
   reports were known when the second origin was set *)
Fixpoint reports_before_second_origin_aux (seen : nat) (es : list oev) : bool :=
  match es with
  | [] => true
  | e :: es' =>
    if is_first e then reports_before_second_origin_aux (S seen) es'
    else if is_sr e then
      (match seen with S (S _) => false | _ => true end)
      && reports_before_second_origin_aux seen es'
    else reports_before_second_origin_aux seen es'
  end.
Definition reports_before_second_origin (es : list oev) : bool :=
  reports_before_second_origin_aux 0 es.

(* the 24 orders of: first sample of track 0, first sample of track 1,
   sender report of track 0, sender report of track 1 *)
Definition four_events (ts0 now0 ts1 now1 ntp0 rtp0 ntp1 rtp1 : Z) : list oev :=
  [OFirst 0 ts0 now0; OFirst 1 ts1 now1; OSR 0 ntp0 rtp0; OSR 1 ntp1 rtp1].
Definition all_orders (ts0 now0 ts1 now1 ntp0 rtp0 ntp1 rtp1 : Z) : list (list oev) :=
  perms (four_events ts0 now0 ts1 now1 ntp0 rtp0 ntp1 rtp1).
Definition good_orders (ts0 now0 ts1 now1 ntp0 rtp0 ntp1 rtp1 : Z) : list (list oev) :=
  filter reports_before_second_origin
         (all_orders ts0 now0 ts1 now1 ntp0 rtp0 ntp1 rtp1).
Definition late_report_orders (ts0 now0 ts1 now1 ntp0 rtp0 ntp1 rtp1 : Z) : list (list oev) :=
  filter (fun es => negb (reports_before_second_origin es))
         (all_orders ts0 now0 ts1 now1 ntp0 rtp0 ntp1 rtp1).

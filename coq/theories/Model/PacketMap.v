(* L0 model of packetmap/packetmap.go, statement by statement, including the
   ring of at most maxEntries intervals, [entries == nil] versus an empty
   slice, and every uint16 wrap.  Executable; no proofs here. *)
From Coq Require Import ZArith List Bool.
From Galene Require Import Lib.Word Lib.Ring Generated.Consts.
Import ListNotations.
Open Scope Z_scope.

Record entry := mkE { e_first : Z; e_count : Z; e_delta : Z; e_pidDelta : Z }.

Record pmap := mkM {
  m_started : bool;
  m_next : Z; m_nextPid : Z; m_delta : Z; m_pidDelta : Z;
  m_lastEntry : Z;
  m_entries : option (list entry)      (* None = nil slice *)
}.

Definition pm_init : pmap := mkM false 0 0 0 0 0 None.

Definition entries_of (m : pmap) : list entry :=
  match m_entries m with Some l => l | None => [] end.
Definition zlen {A} (l : list A) : Z := Z.of_nat (length l).
Definition nth_e (l : list entry) (i : Z) : entry :=
  nth (Z.to_nat i) l (mkE 0 0 0 0).

Definition pm_reset (m : pmap) : pmap :=
  mkM (m_started m) 0 0 0 0 0 None.

(* retire: called locked, before next advances *)
Definition pm_retire (m : pmap) : pmap :=
  let es := entries_of m in
  if zlen es =? 0 then m else
  let e := nth_e es (m_lastEntry m) in
  if w16 (m_next m - e_first e) <? retireAge then m else
  let first := w16 (m_next m - window) in
  let end_ := w16 (e_first e + e_count e) in
  let e' :=
    if cmp16 end_ first <=? 0
    then mkE (m_next m) 0 (m_delta m) (m_pidDelta m)
    else mkE first (w16 (end_ - first)) (e_delta e) (e_pidDelta e) in
  mkM (m_started m) (m_next m) (m_nextPid m) (m_delta m) (m_pidDelta m) 0
      (Some [e']).

(* addMapping m seqno delta pidDelta : updates entries and lastEntry *)
Definition add_mapping (m : pmap) (seqno delta pidDelta : Z) : pmap :=
  let es := entries_of m in
  if zlen es =? 0 then m else
  let i := m_lastEntry m in
  let ei := nth_e es i in
  if (delta =? e_delta ei) && (pidDelta =? e_pidDelta ei) then
    let ei' := mkE (e_first ei) (w16 (seqno - e_first ei + 1)) (e_delta ei) (e_pidDelta ei) in
    mkM (m_started m) (m_next m) (m_nextPid m) (m_delta m) (m_pidDelta m) i
        (Some (set_nth (Z.to_nat i) ei' es))
  else
    let d := w16 (e_delta ei - delta) in
    let f :=
      if d <? window then
        let ff := w16 (e_first ei + e_count ei + d) in
        if cmp16 ff seqno <? 0 then ff else seqno
      else seqno in
    let e := mkE f (w16 (seqno - f + 1)) delta pidDelta in
    if zlen es <? maxEntries then
      mkM (m_started m) (m_next m) (m_nextPid m) (m_delta m) (m_pidDelta m)
          (zlen es) (Some (es ++ [e]))
    else
      let j := (i + 1) mod maxEntries in
      mkM (m_started m) (m_next m) (m_nextPid m) (m_delta m) (m_pidDelta m)
          j (Some (set_nth (Z.to_nat j) e es)).

(* the backwards walk of direct / Reverse over the ring.  [fuel] bounds the
   number of entries visited (the Go loop stops when it is back at
   lastEntry, i.e. after len(entries) iterations). *)
Fixpoint walk (fuel : nat) (es : list entry) (last i : Z) (seqno : Z)
         (base : entry -> Z) (res : entry -> Z) : option (Z * Z) :=
  match fuel with
  | O => None
  | S fuel' =>
      let e := nth_e es i in
      let f := base e in
      if 0 <=? cmp16 seqno f then
        if cmp16 seqno (w16 (f + e_count e)) <? 0
        then Some (res e, e_pidDelta e)
        else None
      else
        let i' := if 0 <? i then i - 1 else zlen es - 1 in
        if i' =? last then None
        else walk fuel' es last i' seqno base res
  end.

Definition pm_direct (m : pmap) (seqno : Z) : option (Z * Z) :=
  let es := entries_of m in
  if zlen es =? 0 then None
  else walk (length es) es (m_lastEntry m) (m_lastEntry m) seqno
            e_first (fun e => w16 (seqno + e_delta e)).

(* result: (ok, seqno, pidDelta) as the Go triple *)
Definition triple (r : option (Z * Z)) : bool * Z * Z :=
  match r with Some (s, p) => (true, s, p) | None => (false, 0, 0) end.

Definition pm_map (m : pmap) (seqno pid : Z) : (bool * Z * Z) * pmap :=
  let pristine := (m_delta m =? 0) && match m_entries m with None => true | _ => false end in
  if pristine then
    if negb (m_started m) || (cmp16 (m_next m) seqno <=? 0)
       || (window <? w16 (m_next m - seqno))
    then ((true, seqno, 0),
          mkM true (w16 (seqno + 1)) pid (m_delta m) (m_pidDelta m)
              (m_lastEntry m) (m_entries m))
    else ((true, seqno, 0), m)
  else if cmp16 (m_next m) seqno <=? 0 then
    if window <? w16 (seqno - m_next m) then
      let m1 := pm_reset m in
      ((true, seqno, 0),
       mkM (m_started m1) (w16 (seqno + 1)) pid 0 0 0 None)
    else
      let m0 := pm_retire m in
      let m1 := add_mapping m0 seqno (m_delta m0) (m_pidDelta m0) in
      ((true, w16 (seqno + m_delta m1), m_pidDelta m1),
       mkM (m_started m1) (w16 (seqno + 1)) pid (m_delta m1) (m_pidDelta m1)
           (m_lastEntry m1) (m_entries m1))
  else if window <? w16 (m_next m - seqno) then
    let m1 := pm_reset m in
    ((true, seqno, 0), mkM (m_started m1) (w16 (seqno + 1)) pid 0 0 0 None)
  else (triple (pm_direct m seqno), m).

Definition pm_reverse_raw (m : pmap) (seqno : Z) : bool * Z * Z :=
  match m_entries m with
  | None => if m_delta m =? 0 then (true, seqno, 0) else (false, 0, 0)
  | Some es =>
      (* Go indexes entries[lastEntry] without a length check; an empty
         non-nil slice cannot arise (entries are only ever set to nil or to
         a non-empty slice) *)
      if zlen es =? 0 then (false, 0, 0) else
      triple (walk (length es) es (m_lastEntry m) (m_lastEntry m) seqno
                   (fun e => w16 (e_first e + e_delta e))
                   (fun e => w16 (seqno - e_delta e)))
  end.

(* recent: the number of a packet that Map would treat as a late copy and not
   as the start of a new sequence *)
Definition pm_recent (m : pmap) (s : Z) : bool :=
  m_started m && (cmp16 s (m_next m) <? 0) && (w16 (m_next m - s) <=? window).

(* Reverse: the interval lookup, refused when the source packet is too old to
   go through Map again without restarting it *)
Definition pm_reverse (m : pmap) (seqno : Z) : bool * Z * Z :=
  let '(ok, s, p) := pm_reverse_raw m seqno in
  if ok && pm_recent m s then (true, s, p) else (false, 0, 0).

Definition pm_drop (m : pmap) (seqno pid : Z) : bool * pmap :=
  if negb (m_started m) || negb (seqno =? m_next m) then (false, m)
  else
    let es0 :=
      if zlen (entries_of m) =? 0
      then Some [mkE (w16 (seqno - window)) window 0 0]
      else m_entries m in
    let m0 := pm_retire (mkM (m_started m) (m_next m) (m_nextPid m) (m_delta m)
                             (m_pidDelta m) (m_lastEntry m) es0) in
    (true,
     mkM (m_started m0) (w16 (seqno + 1)) pid (w16 (m_delta m0 - 1))
         (w16 (m_pidDelta m0 + (pid - m_nextPid m0)))
         (m_lastEntry m0) (m_entries m0)).

Inductive op := OMap (seqno pid : Z) | ODrop (seqno pid : Z) | OReverse (seqno : Z).
Inductive out := RTriple (ok : bool) (s p : Z) | RBool (b : bool).

Definition step (m : pmap) (o : op) : pmap * out :=
  match o with
  | OMap s p => let '((ok, s', p'), m') := pm_map m s p in (m', RTriple ok s' p')
  | ODrop s p => let '(ok, m') := pm_drop m s p in (m', RBool ok)
  | OReverse s => let '(ok, s', p') := pm_reverse m s in (m, RTriple ok s' p')
  end.

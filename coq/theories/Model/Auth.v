(* L0 model of password login (property C08).  Executable; no proofs here.

   Transcribed from /repo, statement by statement:
     group/client.go       ConstantTimeCompare, Password.Match
     group/description.go  Permissions.Permissions (role table: Generated/Roles.v)
     group/group.go        getPasswordPermission, userExists, validUsername,
                           validGroupName, Description.GetPermission (the branch
                           creds.Token == ""), AddClient (authentication part)
     rtpconn/webclient.go  the "join" case of handleClientMessage (failure path)
     galenectl/galenectl.go makePassword

   Strings are Coq [string]s read as byte strings (an [ascii] is a byte).
   External functions are explicit arguments (Section variables), never axioms:
     pbkdf2 pw salt iter keylen   PBKDF2-HMAC-SHA256 (golang.org/x/crypto/pbkdf2.Key)
     bcrypt_check hash pw         bcrypt.CompareHashAndPassword, classified
     admission                    the admission checks of AddClient (lock, validity
                                  window, autokick, capacity, client id: property C10)
   Go maps are association lists; a lookup returns the first binding (a Go map
   has at most one).  [valid_group_name] is NOT a transcription of path.Clean
   but the characterisation of its fixed points ("/"+name is clean and is not
   "/"): it is validated against the real function by the `auth` driver. *)
From Coq Require Import ZArith List Bool String Ascii.
From Galene Require Import Generated.Roles.
Import ListNotations.
(* Generated/Roles.v opens Z_scope; this file computes on nat *)
Close Scope Z_scope.
Open Scope string_scope.

(* ------------------------------------------------------------------ bytes *)

Definition hexval (c : ascii) : option nat :=
  let n := nat_of_ascii c in
  if Nat.leb 48 n && Nat.leb n 57 then Some (n - 48)          (* 0-9 *)
  else if Nat.leb 97 n && Nat.leb n 102 then Some (n - 87)    (* a-f *)
  else if Nat.leb 65 n && Nat.leb n 70 then Some (n - 55)     (* A-F *)
  else None.

(* encoding/hex.DecodeString: an error for an odd length or a non-hex byte *)
Fixpoint hex_decode (s : string) : option string :=
  match s with
  | EmptyString => Some EmptyString
  | String _ EmptyString => None
  | String a (String b r) =>
      match hexval a, hexval b, hex_decode r with
      | Some x, Some y, Some t => Some (String (ascii_of_nat (16 * x + y)) t)
      | _, _, _ => None
      end
  end.

Definition hexdigit (n : nat) : ascii :=
  ascii_of_nat (if Nat.ltb n 10 then 48 + n else 87 + n).

(* encoding/hex.EncodeToString (lower case) *)
Fixpoint hex_encode (s : string) : string :=
  match s with
  | EmptyString => EmptyString
  | String c r =>
      let n := nat_of_ascii c in
      String (hexdigit (n / 16)) (String (hexdigit (n mod 16)) (hex_encode r))
  end.

(* bs := make([]byte, n); copy(bs, b) *)
Fixpoint copy_into (n : nat) (b : string) : string :=
  match n with
  | O => EmptyString
  | S n' =>
      match b with
      | EmptyString => String zero (copy_into n' EmptyString)
      | String c r => String c (copy_into n' r)
      end
  end.

(* group.ConstantTimeCompare(a, b) *)
Definition constant_time_compare (a b : string) : bool :=
  let bs := copy_into (String.length a) b in
  let equal := String.eqb a bs in                 (* subtle.ConstantTimeCompare(as, bs) == 1 *)
  Nat.eqb (String.length a) (String.length b) && equal.

(* ------------------------------------------------------------ description *)

(* group.Password (RawPassword); Key is a *string *)
Record password := mkPassword {
  p_type : string; p_hash : string; p_key : option string; p_salt : string; p_iter : Z }.

(* group.Permissions: non-empty name = role, otherwise the raw list *)
Record perm_spec := mkPerms { ps_name : string; ps_perms : list string }.

Record user := mkUser { u_password : password; u_permissions : perm_spec }.

Record description := mkDesc {
  d_users : list (string * user);          (* Users map *)
  d_wildcard : option user;                (* WildcardUser *)
  d_allowRecording : bool;
  d_unrestrictedTokens : bool }.

Fixpoint assoc {A} (k : string) (l : list (string * A)) : option A :=
  match l with
  | [] => None
  | (k', v) :: t => if String.eqb k k' then Some v else assoc k t
  end.

(* desc.userExists *)
Definition user_exists (desc : description) (username : string) : bool :=
  match assoc username (d_users desc) with Some _ => true | None => false end.

(* ------------------------------------------------------------- Password.Match *)

Inductive match_err := EMissingKey | EBadHex | EUnknownHash | EUnknownType | EBcrypt.
Inductive match_res := MOk (b : bool) | MErr (e : match_err).
(* bcrypt.CompareHashAndPassword: nil / ErrMismatchedHashAndPassword / any other error *)
Inductive bcrypt_out := BMatch | BMismatch | BError.

Section Oracles.
Variable pbkdf2 : string -> string -> Z -> Z -> string.
Variable bcrypt_check : string -> string -> bcrypt_out.

Definition pw_match (p : password) (pw : string) : match_res :=
  if p_type p =? "" then MOk false
  else if p_type p =? "plain" then
    match p_key p with
    | None => MErr EMissingKey
    | Some k => MOk (constant_time_compare pw k)
    end
  else if p_type p =? "wildcard" then MOk true
  else if p_type p =? "pbkdf2" then
    match p_key p with
    | None => MErr EMissingKey
    | Some k =>
        match hex_decode k with
        | None => MErr EBadHex
        | Some key =>
            match hex_decode (p_salt p) with
            | None => MErr EBadHex
            | Some salt =>
                if p_hash p =? "sha-256" then
                  let theirKey := pbkdf2 pw salt (p_iter p) (Z.of_nat (String.length key)) in
                  MOk (String.eqb key theirKey)
                else MErr EUnknownHash
            end
        end
    end
  else if p_type p =? "bcrypt" then
    match p_key p with
    | None => MErr EMissingKey
    | Some k =>
        match bcrypt_check k pw with
        | BMismatch => MOk false
        | BMatch => MOk true
        | BError => MErr EBcrypt
        end
    end
  else MErr EUnknownType.

(* -------------------------------------------------- Permissions.Permissions *)

Definition role_perms (name : string) : list string :=
  match assoc name roles with Some l => l | None => [] end.

Definition has (v : string) (l : list string) : bool := existsb (String.eqb v) l.

Definition permissions (desc : option description) (p : perm_spec) : list string :=
  if ps_name p =? "" then ps_perms p
  else
    let perms := role_perms (ps_name p) in
    let op := has "op" perms in
    let present := has "present" perms in
    let token := has "token" perms in
    let record := has "record" perms in
    let perms1 :=
      match desc with
      | Some d => if d_allowRecording d && (op && negb record)
                  then "record" :: perms else perms
      | None => perms
      end in
    let perms2 :=
      match desc with
      | Some d => if d_unrestrictedTokens d && (present && negb token)
                  then "token" :: perms1 else perms1
      | None => perms1
      end in
    perms2.

(* ------------------------------------------------------ validUsername *)

Definition backslash : ascii := ascii_of_nat 92.
Definition slash : ascii := ascii_of_nat 47.

Fixpoint split_on (sep : ascii) (s : string) : list string :=
  match s with
  | EmptyString => [EmptyString]
  | String c r =>
      if Ascii.eqb c sep then EmptyString :: split_on sep r
      else match split_on sep r with
           | h :: t => String c h :: t
           | [] => [String c EmptyString]
           end
  end.

Definition contains_char (ch : ascii) (s : string) : bool :=
  existsb (Ascii.eqb ch) (list_ascii_of_string s).

Definition good_component (c : string) : bool :=
  negb (c =? "") && negb (c =? ".") && negb (c =? "..").

(* validGroupName: no backslash, and path.Clean("/"+name) == "/"+name != "/" *)
Definition valid_group_name (name : string) : bool :=
  negb (contains_char backslash name) && forallb good_component (split_on slash name).

Definition valid_username (username : string) : bool :=
  (username =? "") || valid_group_name username.

(* ------------------------------------- getPasswordPermission, GetPermission *)

Inductive auth_err :=
| ANoUsername                 (* "username not provided" *)
| AMatch (e : match_err)      (* the error of Password.Match, returned as it is *)
| ABadPassword                (* ErrBadPassword *)
| ANoSuchUsername             (* ErrNoSuchUsername *)
| AInvalidUsername            (* NotAuthorisedError{"invalid username"} *)
| ANeither.                   (* "neither username nor token provided" *)

(* ClientCredentials with Token == "" *)
Record creds := mkCreds { cr_username : option string; cr_password : string }.

Definition get_password_permission (desc : description) (cr : creds)
  : perm_spec + auth_err :=
  match cr_username cr with
  | None => inr ANoUsername
  | Some username =>
      match assoc username (d_users desc) with
      | Some c =>
          match pw_match (u_password c) (cr_password cr) with
          | MErr e => inr (AMatch e)
          | MOk true => inl (u_permissions c)
          | MOk false => inr ABadPassword
          end
      | None =>
          match d_wildcard desc with
          | Some w =>
              match pw_match (u_password w) (cr_password cr) with
              | MOk true => inl (u_permissions w)
              | _ => inr ANoSuchUsername            (* ok, _ := ...: the error is dropped *)
              end
          | None => inr ANoSuchUsername
          end
      end
  end.

Definition get_permission (desc : description) (cr : creds)
  : (string * list string) + auth_err :=
  match cr_username cr with
  | Some username =>
      match get_password_permission desc cr with
      | inr e => inr e
      | inl ps =>
          let perms := permissions (Some desc) ps in
          if valid_username username then inl (username, perms)
          else inr AInvalidUsername
      end
  | None => inr ANeither
  end.

(* ---------------------------------------------- AddClient and the join message *)

(* what this property needs of a client (rtpconn.webClient) *)
Record client := mkClient {
  cl_id : string; cl_username : string;
  cl_permissions : list string;          (* an owned copy since 7db3860 (Init) *)
  cl_group : option string }.

Inductive join_err := JAuth (e : auth_err) | JRefused (code : Z).
Inductive join_out := JJoined | JFail (e : join_err) | JProtocol.

Variable admission : list string -> client -> list string -> option Z.

(* group.AddClient: members = ids of g.clients.  Returns the new member list,
   the client (Init may have run) and the error. *)
Definition add_client (desc : description) (members : list string) (c : client)
  (cr : creds) : list string * client * option join_err :=
  if has "system" (cl_permissions c) then
    match admission members c (cl_permissions c) with
    | Some code => (members, c, Some (JRefused code))
    | None => ((members ++ [cl_id c])%list, c, None)
    end
  else
    match get_permission desc cr with
    | inr e => (members, c, Some (JAuth e))
    | inl (username, perms) =>
        let c' := mkClient (cl_id c) username perms (cl_group c) in   (* c.Init *)
        match admission members c' perms with
        | Some code => (members, c', Some (JRefused code))
        | None => ((members ++ [cl_id c'])%list, c', None)
        end
    end.

(* handleClientMessage, case "join" / kind "join" (no redirect) *)
Definition handle_join (desc : description) (gname : string) (members : list string)
  (c : client) (cr : creds) : list string * client * join_out :=
  match cl_group c with
  | Some _ => (members, c, JProtocol)          (* cannot join multiple groups *)
  | None =>
      let '(members', c', r) := add_client desc members c cr in
      match r with
      | Some e =>
          (* c.permissions = nil (since d5987be) *)
          (members', mkClient (cl_id c') (cl_username c') [] None, JFail e)
      | None =>
          (members', mkClient (cl_id c') (cl_username c') (cl_permissions c') (Some gname),
           JJoined)
      end
  end.

(* -------------------------------------------------- galenectl makePassword *)

(* bcrypt.GenerateFromPassword(password, cost) with the random salt it
   draws; None = the library returns an error (it refuses passwords longer
   than 72 bytes) *)
Variable bcrypt_gen : string -> Z -> string -> option string.

Inductive algorithm := AlgPbkdf2 | AlgBcrypt | AlgWildcard.

(* [salt] is the result of rand.Read.  None = makePassword returns an error.
   The password is handed to the hash function as it is. *)
Definition make_password (alg : algorithm) (pw salt : string) (iterations length cost : Z)
  : option password :=
  match alg with
  | AlgPbkdf2 =>
      let key := pbkdf2 pw salt iterations length in
      Some (mkPassword "pbkdf2" "sha-256" (Some (hex_encode key)) (hex_encode salt) iterations)
  | AlgBcrypt =>
      match bcrypt_gen pw cost salt with
      | None => None
      | Some key => Some (mkPassword "bcrypt" "" (Some key) "" 0%Z)
      end
  | AlgWildcard => Some (mkPassword "wildcard" "" None "" 0%Z)
  end.

End Oracles.

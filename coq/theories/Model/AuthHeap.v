(* Heap-level model of who OWNS a permission list (property C08, isolation;
   finding F10).  Executable; no proofs here.  Run by the `auth` driver
   (component authiso, copy = true) against the real webClient.Init, remove
   and addnew: the lists of all clients, the role table and the descriptions'
   raw arrays are compared after every operation.

   A Go slice of strings is (array id, length) with offset 0 over a heap of
   arrays (every slice expression below keeps offset 0); the capacity is the
   length of the array.  A nil slice is a slice over a fresh array of
   capacity 0 (neither has a cell that can be written).  The capacity that
   the runtime gives to a newly allocated array is an oracle [slack]: any
   function of the allocation.

   Transcribed from rtpconn/webclient.go: remove (all occurrences, each shifted
   out in place), addnew (in-place append),
   changePermissionsAction, Init (copy = true: the code since 7db3860;
   copy = false: the code before it), leaveGroup (permissions = nil), and
   from group/description.go Permissions.Permissions, which returns the role
   table's own slice (or the description's own array for a raw list) unless
   it prepends "record"/"token". *)
From Coq Require Import ZArith List Bool String Arith.
From Galene Require Import Generated.Roles Model.Auth.
Import ListNotations.
Close Scope Z_scope.
Open Scope string_scope.

Definition heap := list (list string).
Record slice := mkSlice { s_arr : nat; s_len : nat }.

Definition cells (h : heap) (a : nat) : list string := nth a h [].
Definition view (h : heap) (s : slice) : list string := firstn (s_len s) (cells h (s_arr s)).

Fixpoint upd {A} (n : nat) (x : A) (l : list A) : list A :=
  match l, n with
  | [], _ => []
  | _ :: t, O => x :: t
  | y :: t, S n' => y :: upd n' x t
  end.

Fixpoint index_of (v : string) (l : list string) : option nat :=
  match l with
  | [] => None
  | x :: t => if v =? x then Some O else option_map S (index_of v t)
  end.

Fixpoint index_of_key {A} (k : string) (l : list (string * A)) : option nat :=
  match l with
  | [] => None
  | (k', _) :: t => if k =? k' then Some O else option_map S (index_of_key k t)
  end.

Inductive action := AOp | AUnop | APresent | AUnpresent | AShutup | AUnshutup.

(* where a login takes its permissions from *)
Inductive source :=
| SrcRole (name : string) (allowRecording unrestrictedTokens : bool)
| SrcRaw (k : nat).          (* the k-th raw permission array of the descriptions *)

Inductive op :=
| Login (c : nat) (src : source)
| Act (c : nat) (k : action) (allowRecording : bool)
| Leave (c : nat).

Definition acts_on (o : op) : nat :=
  match o with Login c _ => c | Act c _ _ => c | Leave c => c end.

Record world := mkWorld { w_heap : heap; w_clients : list (nat * slice) }.

Fixpoint cl_get (c : nat) (l : list (nat * slice)) : option slice :=
  match l with
  | [] => None
  | (c', s) :: t => if Nat.eqb c c' then Some s else cl_get c t
  end.

Fixpoint cl_remove (c : nat) (l : list (nat * slice)) : list (nat * slice) :=
  match l with
  | [] => []
  | (c', s) :: t => if Nat.eqb c c' then cl_remove c t else (c', s) :: cl_remove c t
  end.

Section Heap.
Variable slack : nat -> nat.               (* spare capacity of the array allocated as number n *)
Variable raws : list (list string).        (* raw permission arrays of the group descriptions *)

(* the arrays that exist before anybody logs in: the role table, then the
   descriptions' raw arrays *)
Definition statics : heap := (map snd roles ++ raws)%list.
Definition n_static : nat := List.length statics.

Definition alloc (h : heap) (l : list string) : heap * slice :=
  ((h ++ [(l ++ repeat "" (slack (List.length h)))%list])%list,
   mkSlice (List.length h) (List.length l)).

Definition alloc_nil (h : heap) : heap * slice :=
  ((h ++ [[]])%list, mkSlice (List.length h) 0).

(* one round of the loop of remove(v, l): l = append(l[:i], l[i+1:]...) for
   the first i with l[i] == v: cells i+1..len-1 move one down IN PLACE, cell
   len-1 keeps its old value *)
Definition go_remove_one (h : heap) (v : string) (s : slice) : heap * slice :=
  match index_of v (view h s) with
  | None => (h, s)
  | Some i =>
      let cs := cells h (s_arr s) in
      let cs' := (firstn i cs ++ firstn (s_len s - S i) (skipn (S i) cs)
                  ++ skipn (s_len s - 1) cs)%list in
      (upd (s_arr s) cs' h, mkSlice (s_arr s) (s_len s - 1))
  end.

(* remove(v, l) since b21f80e: every occurrence is removed,
     i := 0; for i < len(l) { if l[i] == v { l = append(l[:i], l[i+1:]...) } else { i++ } }
   The elements before i are never equal to v, so each round removes the
   first occurrence that is left; the list gets shorter by one per round, so
   len(l) rounds suffice. *)
Fixpoint go_remove_loop (fuel : nat) (h : heap) (v : string) (s : slice) : heap * slice :=
  match fuel with
  | O => (h, s)
  | S f =>
      match index_of v (view h s) with
      | None => (h, s)
      | Some _ => let '(h1, s1) := go_remove_one h v s in go_remove_loop f h1 v s1
      end
  end.

Definition go_remove (h : heap) (v : string) (s : slice) : heap * slice :=
  go_remove_loop (s_len s) h v s.

(* addnew(v, l): l = append(l, v) unless present: in place when cap > len *)
Definition go_addnew (h : heap) (v : string) (s : slice) : heap * slice :=
  if has v (view h s) then (h, s)
  else
    let cs := cells h (s_arr s) in
    if Nat.ltb (s_len s) (List.length cs)
    then (upd (s_arr s) (upd (s_len s) v cs) h, mkSlice (s_arr s) (S (s_len s)))
    else alloc h (view h s ++ [v])%list.

(* changePermissionsAction *)
Definition apply_action (h : heap) (k : action) (allowRecording : bool) (s : slice)
  : heap * slice :=
  match k with
  | AOp =>
      let '(h1, s1) := go_addnew h "op" s in
      if allowRecording then go_addnew h1 "record" s1 else (h1, s1)
  | AUnop =>
      let '(h1, s1) := go_remove h "op" s in
      go_remove h1 "record" s1
  | APresent => go_addnew h "present" s
  | AUnpresent => go_remove h "present" s
  | AShutup => go_remove h "message" s
  | AUnshutup => go_addnew h "message" s
  end.

(* permissionsMap[name] *)
Definition role_slice (h : heap) (name : string) : heap * slice :=
  match index_of_key name roles with
  | Some i => (h, mkSlice i (List.length (nth i (map snd roles) [])))
  | None => alloc_nil h
  end.

(* Permissions.Permissions on the heap *)
Definition heap_permissions (h : heap) (src : source) : heap * slice :=
  match src with
  | SrcRaw k =>
      if Nat.ltb k (List.length raws)
      then (h, mkSlice (List.length roles + k) (List.length (nth k raws [])))
      else alloc_nil h
  | SrcRole name ar ut =>
      let '(h0, s) := role_slice h name in
      let perms := view h0 s in
      let op := has "op" perms in
      let present := has "present" perms in
      let token := has "token" perms in
      let record := has "record" perms in
      let '(h1, s1) :=
        if ar && (op && negb record) then alloc h0 ("record" :: view h0 s) else (h0, s) in
      if ut && (present && negb token) then alloc h1 ("token" :: view h1 s1) else (h1, s1)
  end.

(* webClient.Init *)
Definition init_perms (copy : bool) (h : heap) (s : slice) : heap * slice :=
  if copy then alloc h (view h s)      (* append([]string(nil), perms...) *)
  else (h, s).                         (* c.permissions = perms *)

Definition step (copy : bool) (w : world) (o : op) : world :=
  match o with
  | Login c src =>
      let '(h1, s) := heap_permissions (w_heap w) src in
      let '(h2, s2) := init_perms copy h1 s in
      mkWorld h2 ((c, s2) :: cl_remove c (w_clients w))
  | Act c k ar =>
      match cl_get c (w_clients w) with
      | None => w
      | Some s =>
          let '(h', s') := apply_action (w_heap w) k ar s in
          mkWorld h' ((c, s') :: cl_remove c (w_clients w))
      end
  | Leave c => mkWorld (w_heap w) (cl_remove c (w_clients w))
  end.

Definition run (copy : bool) (w : world) (ops : list op) : world :=
  fold_left (step copy) ops w.

Definition init_world : world := mkWorld statics [].

(* what a client may do *)
Definition perms_of (w : world) (c : nat) : option (list string) :=
  option_map (view (w_heap w)) (cl_get c (w_clients w)).

(* the role table as the next login will read it *)
Definition role_table (w : world) : list (string * list string) :=
  combine (map fst roles) (map (cells (w_heap w)) (seq 0 (List.length roles))).

End Heap.

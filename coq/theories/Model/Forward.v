(* L0 model of the forwarding path of rtpconn/rtpconn.go: rtpDownTrack.Write
   (layer selection, Drop/Map of the packet map, marker, RewritePacket) and
   gotNACK (Reverse, the publisher's packet cache, Write again).  Composition
   of Model/Layers.v, Model/PacketMap.v, Model/Rewrite.v and Model/Cache.v.
   codecs.PacketFlags (pion's VP8/VP9 depacketisers) is an oracle: the flags
   of every packet are inputs. *)
From Coq Require Import ZArith List Bool.
From Galene Require Import Lib.Word Generated.Consts.
From Galene Require Import Model.PacketMap Model.Layers Model.Rewrite Model.Cache.
Import ListNotations.
Open Scope Z_scope.

Record fstate := mkF {
  fs_layer : Z;                     (* the packed layerInfo word *)
  fs_map : pmap;
  fs_cache : cache;                 (* the publisher's packet cache *)
  fs_flags : list (Z * flags);      (* flags of cached packets, newest first *)
  fs_rate8 : Z;                     (* 8 * estimated byte rate *)
  fs_max : Z                        (* GetMaxBitrate *)
}.

Definition f_init (capacity : Z) : fstate :=
  mkF 0 pm_init (new_cache capacity) [] 0 524288.

Inductive wres :=
| WNone                       (* nothing sent, no error *)
| WSent (data : list Z)
| WErr                        (* RewritePacket returned an error *)
| WPanic.

(* rtpDownTrack.Write, given the packet's flags *)
Definition write (vp8 : bool) (st : fstate) (f : flags) (buf : list Z)
  : fstate * wres * bool (* keyframe requested *) :=
  let '(l3, drop, kfreq) := write_layer (unpack (fs_layer st)) f (fs_rate8 st) (fs_max st) in
  let st1 := mkF (pack l3) (fs_map st) (fs_cache st) (fs_flags st) (fs_rate8 st) (fs_max st) in
  let '(dropped, m1) :=
    if drop then pm_drop (fs_map st) (f_seqno f) (f_pid f) else (false, fs_map st) in
  if dropped then
    (mkF (pack l3) m1 (fs_cache st) (fs_flags st) (fs_rate8 st) (fs_max st), WNone, kfreq)
  else
    let '((ok, newseq, piddelta), m2) := pm_map m1 (f_seqno f) (f_pid f) in
    let st2 := mkF (pack l3) m2 (fs_cache st) (fs_flags st) (fs_rate8 st) (fs_max st) in
    if negb ok then (st2, WNone, kfreq)
    else
      let setMarker := (f_sid f =? sid l3) && f_end f && negb (f_marker f) in
      if negb setMarker && (newseq =? f_seqno f) && (piddelta =? 0)
      then (st2, WSent buf, kfreq)
      else
        match rewrite vp8 buf setMarker newseq (w16 (- piddelta)) with
        | ROk d => (st2, WSent d, kfreq)
        | RErr => (st2, WErr, kfreq)
        | RPanic => (st2, WPanic, kfreq)
        end.

Fixpoint find_flags (s : Z) (l : list (Z * flags)) : option flags :=
  match l with
  | [] => None
  | (s', f) :: l' => if s' =? s then Some f else find_flags s l'
  end.

(* gotNACK for one requested outgoing number *)
Definition nack1 (vp8 : bool) (st : fstate) (o : Z) : fstate * list wres * bool (* stop *) :=
  let '(ok, s, _) := pm_reverse (fs_map st) o in
  if negb ok then (st, [], false) else
  let '(n, bytes) := get (fs_cache st) s in
  if n =? 0 then (st, [], false) else
  match find_flags s (fs_flags st) with
  | None => (st, [WPanic], true)          (* cannot happen: flags are recorded with every store *)
  | Some f =>
      let '(st', r, _) := write vp8 st f bytes in
      (st', [r], match r with WErr => true | _ => false end)
  end.

Fixpoint nacks (vp8 : bool) (st : fstate) (os : list Z) : fstate * list wres :=
  match os with
  | [] => (st, [])
  | o :: os' =>
      let '(st1, rs, stop) := nack1 vp8 st o in
      if stop then (st1, rs)
      else let '(st2, rs2) := nacks vp8 st1 os' in (st2, rs ++ rs2)
  end.

Inductive op :=
| ORates (rate lossmax remb : Z)
| OCStore (seqno ts : Z) (kf marker : bool) (f : flags) (buf : list Z)
| OCResize (capacity : Z)
| OWrite (f : flags) (buf : list Z)
| ONack (os : list Z)
| OAdjust
| OLimit (b : bool)
| OUpdRate (rate0 loss actual : Z).

Inductive out :=
| RNone
| RWrite (r : wres) (layer : Z) (kfreq : bool)
| RNack (rs : list wres) (layer : Z)
| RLayer (layer : Z)
| RRate (r : Z).

Definition with_layer (st : fstate) (w : Z) : fstate :=
  mkF w (fs_map st) (fs_cache st) (fs_flags st) (fs_rate8 st) (fs_max st).

Definition step (vp8 : bool) (st : fstate) (o : op) : fstate * out :=
  match o with
  | ORates rate lossmax remb =>
      (mkF (fs_layer st) (fs_map st) (fs_cache st) (fs_flags st)
           (rate * 8) (get_max_bitrate lossmax remb), RNone)
  | OCStore s ts kf m f buf =>
      let '(_, c') := store (fs_cache st) s ts kf m buf in
      (mkF (fs_layer st) (fs_map st) c' ((s, f) :: fs_flags st) (fs_rate8 st) (fs_max st), RNone)
  | OCResize k =>
      (mkF (fs_layer st) (fs_map st) (resize (fs_cache st) k) (fs_flags st) (fs_rate8 st) (fs_max st), RNone)
  | OWrite f buf =>
      let '(st', r, kf) := write vp8 st f buf in (st', RWrite r (fs_layer st') kf)
  | ONack os =>
      let '(st', rs) := nacks vp8 st os in (st', RNack rs (fs_layer st'))
  | OAdjust =>
      let w := pack (adjust (unpack (fs_layer st)) (fs_rate8 st) (fs_max st)) in
      (with_layer st w, RLayer w)
  | OLimit b =>
      let w := pack (set_limit (unpack (fs_layer st)) b) in
      (with_layer st w, RLayer w)
  | OUpdRate rate0 loss actual => (st, RRate (update_rate rate0 loss actual))
  end.

(* Model of the administrative HTTP API of galene (property C17):
   webserver/api.go (apiHandler and its sub-handlers, checkAdmin,
   checkAdminOrExplicitPassword, isAdminOrExplicitPassword),
   webserver/webserver.go (globalAdminMatch, splitPath),
   webserver/util.go (checkGlobalAdminToken),
   group/description.go (GetDescription and the sub-group walk,
   GetSanitisedDescription, GetSanitisedUser, GetUsers, UpdateDescription,
   DeleteDescription, UpdateUser, DeleteUser, SetUserPassword, SetKeys),
   group/group.go (GetPermission, getPasswordPermission, validUsername),
   group/client.go (Password.Match), token/stateful.go (match, Check),
   token/jwt.go (matchGroup, Check).

   Executable, NO proofs.  What is abstracted (see props/C17.json):
   - password hashing is the explicit argument [H : string -> string -> string]
     (type, clear text) -> stored key; a hashed password matches iff the stored
     key equals [H type clear];
   - a JWT is a record naming its signing key; verification against a key set
     succeeds iff the set contains that key and the time claims are valid;
   - time: a token carries the boolean "inside its validity window";
   - ETags / conditional requests are not modelled (C18); requests carry no
     If-Match / If-None-Match;
   - a request body is already classified (content type + decoded value);
   - file names: [clean_name] removes trailing slashes (path.Clean on the
     names the driver generates: no empty, "." or ".." components; C19 models
     path.Clean itself). *)
From Coq Require Import List String Ascii Bool Arith ZArith.
Import ListNotations.
Open Scope string_scope.

(* ------------------------------------------------------------------ *)
(* strings                                                              *)

Definition sdrop (n : nat) (s : string) : string := substring n (length s - n) s.
Definition stake (n : nat) (s : string) : string := substring 0 n s.

Definition slash : ascii := "/"%char.
Definition is_slash (c : ascii) : bool := Ascii.eqb c slash.

Fixpoint dropwhile {A} (f : A -> bool) (l : list A) : list A :=
  match l with
  | [] => []
  | x :: r => if f x then dropwhile f r else l
  end.

Definition trim_right_slash (s : string) : string :=
  string_of_list_ascii (rev (dropwhile is_slash (rev (list_ascii_of_string s)))).

(* path.Clean("/"+name)[1:] on the generated names *)
Definition clean_name (s : string) : string := trim_right_slash s.

(* name, _ = path.Split(name); name = strings.TrimRight(name, "/") *)
Definition parent (s : string) : string :=
  let l := rev (list_ascii_of_string s) in
  let l' := dropwhile (fun c => negb (is_slash c)) l in
  string_of_list_ascii (rev (dropwhile is_slash l')).

Definition suffix (s1 s2 : string) : bool :=
  let n1 := length s1 in let n2 := length s2 in
  if Nat.leb n1 n2 then String.eqb s1 (sdrop (n2 - n1) s2) else false.

Fixpoint mem (x : string) (l : list string) : bool :=
  match l with [] => false | y :: r => String.eqb x y || mem x r end.

(* strings.Split(s, "/") *)
Fixpoint split_slash_aux (l : list ascii) (cur : list ascii) : list (list ascii) :=
  match l with
  | [] => [rev cur]
  | c :: r => if is_slash c then rev cur :: split_slash_aux r [] else split_slash_aux r (c :: cur)
  end.
Definition split_slash (s : string) : list string :=
  map string_of_list_ascii (split_slash_aux (list_ascii_of_string s) []).

Definition has_backslash (s : string) : bool :=
  existsb (fun c => Ascii.eqb c "\"%char) (list_ascii_of_string s).

(* group.validGroupName: no backslash and path.Clean("/"+name) == "/"+name != "/",
   i.e. every component is non-empty and neither "." nor ".." *)
Definition valid_group_name (s : string) : bool :=
  negb (has_backslash s) &&
  forallb (fun c => negb (String.eqb c "") && negb (String.eqb c ".") && negb (String.eqb c ".."))
          (split_slash s).

Definition valid_username (s : string) : bool := String.eqb s "" || valid_group_name s.

(* webserver.splitPath *)
Definition split_path (pth : string) : string * string * string :=
  match index 0 "/." pth with
  | None => (pth, "", "")
  | Some i =>
      let rest1 := sdrop (i + 1) pth in
      match index 0 "/" rest1 with
      | None => (stake i pth, rest1, "")
      | Some i2 => (stake i pth, stake i2 rest1, sdrop i2 rest1)
      end
  end.

(* ------------------------------------------------------------------ *)
(* data                                                                 *)

(* group.Password (RawPassword) *)
Record password := {
  pw_type : string; pw_key : option string; pw_hash : string; pw_salt : string; pw_iter : Z }.
Definition empty_password : password := Build_password "" None "" "" 0%Z.
Definition password_is_empty (p : password) : bool :=
  String.eqb (pw_type p) "" && match pw_key p with None => true | Some _ => false end.

(* group.Permissions: unset, a named role, or an explicit list *)
Inductive perms := PNone | PNamed (n : string) | PList (l : list string).

Record user_desc := { u_password : password; u_perms : perms }.

Definition key := string.   (* key material of one JWK *)

(* the fields of group.Description that are not users/wildcard/keys *)
Record pubdesc := {
  p_comment : string; p_auto_subgroups : bool; p_allow_recording : bool;
  p_unrestricted_tokens : bool }.

Record description := {
  d_pub : pubdesc;
  d_users : list (string * user_desc);
  d_wildcard : option user_desc;
  d_keys : list key }.

(* token.Stateful *)
Record stoken := {
  st_name : string; st_group : string; st_sub : bool; st_user : option string;
  st_perms : list string; st_time_ok : bool }.

(* a validated-or-not JWT presented by a client *)
Record jwt := {
  j_key : key;                      (* the key it is signed with *)
  j_claims_ok : bool;               (* exp present, exp/nbf/iat valid *)
  j_sub : string;
  j_subgroups : bool;               (* claim include-subgroups *)
  j_perms : list string;
  j_aud : list (bool * string) }.   (* (host matches canonicalHost, URL path) *)

Inductive bearer := BName (s : string) | BJwt (j : jwt).

(* what checkAdmin extracts from the single Authorization header: Basic
   credentials or a bearer token, never both *)
Inductive creds := CNone | CBasic (u p : string) | CBearer (b : bearer).

Record env := {
  e_conf : list (string * user_desc);   (* users of data/config.json *)
  e_writable : bool;                    (* writableGroups *)
  e_store_ok : bool;                    (* writing the temporary file, fsync and rename succeed *)
  e_groups : list (string * description); (* groups/<name>.json *)
  e_tokens : list stoken }.

Fixpoint assoc_get {A} (l : list (string * A)) (k : string) : option A :=
  match l with
  | [] => None
  | (k', v) :: r => if String.eqb k k' then Some v else assoc_get r k
  end.
Fixpoint assoc_del {A} (l : list (string * A)) (k : string) : list (string * A) :=
  match l with
  | [] => []
  | (k', v) :: r => if String.eqb k k' then assoc_del r k else (k', v) :: assoc_del r k
  end.
Definition assoc_set {A} (l : list (string * A)) (k : string) (v : A) : list (string * A) :=
  (k, v) :: assoc_del l k.

(* ------------------------------------------------------------------ *)
(* passwords and permissions                                            *)

Section WithHash.
Variable H : string -> string -> string.

(* Password.Match: None = error *)
Definition pw_match (p : password) (pw : string) : option bool :=
  if String.eqb (pw_type p) "" then Some false
  else if String.eqb (pw_type p) "plain" then
    match pw_key p with None => None | Some k => Some (String.eqb pw k) end
  else if String.eqb (pw_type p) "wildcard" then Some true
  else if String.eqb (pw_type p) "pbkdf2" || String.eqb (pw_type p) "bcrypt" then
    match pw_key p with None => None | Some k => Some (String.eqb k (H (pw_type p) pw)) end
  else None.

(* permissionsMap *)
Definition role_perms (n : string) : list string :=
  if String.eqb n "op" then ["op"; "present"; "message"; "caption"; "token"]
  else if String.eqb n "present" then ["present"; "message"]
  else if String.eqb n "message" then ["message"]
  else if String.eqb n "observe" then []
  else if String.eqb n "caption" then ["caption"]
  else if String.eqb n "admin" then ["admin"]
  else [].

(* Permissions.Permissions(desc) *)
Definition perm_list (d : option description) (p : perms) : list string :=
  match p with
  | PNone => []
  | PList l => l
  | PNamed n =>
      let ps := role_perms n in
      let ps1 := match d with
                 | Some d => if p_allow_recording (d_pub d) && mem "op" ps && negb (mem "record" ps)
                             then "record" :: ps else ps
                 | None => ps end in
      match d with
      | Some d => if p_unrestricted_tokens (d_pub d) && mem "present" ps && negb (mem "token" ps)
                  then "token" :: ps1 else ps1
      | None => ps1
      end
  end.

(* webserver.globalAdminMatch: None = error *)
Definition global_admin_match (e : env) (u p : string) : option bool :=
  match assoc_get (e_conf e) u with
  | Some ud =>
      match pw_match (u_password ud) p with
      | None => None
      | Some false => Some false
      | Some true => Some (mem "admin" (perm_list None (u_perms ud)))
      end
  | None => Some false
  end.

(* ------------------------------------------------------------------ *)
(* descriptions on disk                                                 *)

(* readDescription(name, false) *)
Definition file_lookup (e : env) (name : string) : option description :=
  if String.eqb name "" then None else assoc_get (e_groups e) (clean_name name).

(* GetDescription(name) = readDescription(name, true): walk up to the parent
   while there is no file; a parent counts only with auto-subgroups *)
Fixpoint get_desc_loop (fuel : nat) (e : env) (name : string) (issub : bool)
  : option (description * bool) :=
  match fuel with
  | O => None
  | S f =>
      if String.eqb name "" then None else
      match assoc_get (e_groups e) (clean_name name) with
      | Some d => if issub && negb (p_auto_subgroups (d_pub d)) then None else Some (d, issub)
      | None => get_desc_loop f e (parent name) true
      end
  end.
Definition get_description (e : env) (name : string) : option (description * bool) :=
  get_desc_loop (S (length name)) e name false.

(* ------------------------------------------------------------------ *)
(* tokens                                                               *)

Inductive tokres := TErr | TStateful (t : stoken) | TJwt (j : jwt).

Fixpoint find_token (l : list stoken) (n : string) : option stoken :=
  match l with
  | [] => None
  | t :: r => if String.eqb n (st_name t) then Some t else find_token r n
  end.

(* token.Parse(tok, keys) *)
Definition parse_token (e : env) (keys : list key) (b : bearer) : tokres :=
  match b with
  | BJwt j => if j_claims_ok j && mem (j_key j) keys then TJwt j else TErr
  | BName s => match find_token (e_tokens e) s with Some t => TStateful t | None => TErr end
  end.

(* Stateful.match *)
Definition st_match (t : stoken) (group : string) : bool :=
  if String.eqb group "" then st_sub t && String.eqb (st_group t) ""
  else if String.eqb group (st_group t) then true
  else if st_sub t then
    (if String.eqb (st_group t) "" then true else prefix (st_group t ++ "/") group)
  else false.

(* jwt.matchGroup *)
Definition match_group (pth group : string) (sub : bool) : bool :=
  if negb sub then String.eqb pth ("/group/" ++ group ++ "/")
  else prefix "/group/" pth && suffix "/" pth && prefix pth ("/group/" ++ group ++ "/").

(* Token.Check(host, group): the user name and the permissions, None = error *)
Definition tok_check (r : tokres) (group : string) : option (string * list string) :=
  match r with
  | TErr => None
  | TStateful t =>
      if st_match t group && st_time_ok t
      then Some (match st_user t with Some u => u | None => "" end, st_perms t) else None
  | TJwt j =>
      if existsb (fun a => fst a && match_group (snd a) group (j_subgroups j)) (j_aud j)
      then Some (j_sub j, j_perms j) else None
  end.

Definition needs_username (r : tokres) : bool :=
  match r with
  | TStateful t => match st_user t with None => true | Some _ => false end
  | _ => false
  end.

(* webserver.checkGlobalAdminToken *)
Definition check_global_admin_token (e : env) (b : bearer) : bool :=
  match tok_check (parse_token e [] b) "" with
  | Some (_, ps) => mem "admin" ps
  | None => false
  end.

(* Description.getPasswordPermission *)
Definition get_password_permission (d : description) (u p : string) : option perms :=
  match assoc_get (d_users d) u with
  | Some c =>
      match pw_match (u_password c) p with
      | Some true => Some (u_perms c)
      | _ => None                      (* error, or ErrBadPassword *)
      end
  | None =>
      match d_wildcard d with
      | Some w => match pw_match (u_password w) p with
                  | Some true => Some (u_perms w)
                  | _ => None end
      | None => None
      end
  end.

(* Description.GetPermission(groupname, creds): the permissions, None = error *)
Definition get_permission (e : env) (d : description) (g : string) (c : creds)
  : option (list string) :=
  match c with
  | CBearer b =>
      let r := parse_token e (d_keys d) b in
      match r with
      | TErr => None
      | _ =>
          if needs_username r then None else
          match tok_check r g with
          | Some (username, ps) => if valid_username username then Some ps else None
          | None => None
          end
      end
  | CBasic u p =>
      match get_password_permission d u p with
      | Some ps => if valid_username u then Some (perm_list (Some d) ps) else None
      | None => None
      end
  | CNone => None
  end.

Definition cred_password (c : creds) : string :=
  match c with CBasic _ p => p | _ => "" end.

(* creds.Username != nil *)
Definition has_basic (c : creds) : bool :=
  match c with CBasic _ _ => true | _ => false end.

(* webserver.isAdminOrExplicitPassword(groupname, user, creds) *)
Definition is_admin_or_explicit (e : env) (g user : string) (c : creds) : bool :=
  let continue_ :=
    if String.eqb g "" then
      match c with
      | CBearer b => check_global_admin_token e b
      | _ => false
      end
    else
      match get_description e g with
      | None => false
      | Some (d, _) =>
          if negb (String.eqb user "") && has_basic c &&
             match assoc_get (d_users d) user with
             | Some u => match pw_match (u_password u) (cred_password c) with
                         | Some true => true | _ => false end
             | None => false
             end
          then true
          else match get_permission e d g c with
               | Some ps => mem "admin" ps
               | None => false
               end
      end in
  match c with
  | CBasic u p =>
      match global_admin_match e u p with
      | None => false
      | Some true => true
      | Some false => continue_
      end
  | _ => continue_
  end.

(* checkAdmin(w, r, g) *)
Definition is_admin (e : env) (g : string) (c : creds) : bool :=
  is_admin_or_explicit e g "" c.

(* ------------------------------------------------------------------ *)
(* sanitised projections and the update functions of description.go     *)

Definition sanitise_desc (d : description) : description :=
  {| d_pub := d_pub d; d_users := []; d_wildcard := None; d_keys := [] |}.

Definition sanitise_user (u : user_desc) : user_desc :=
  {| u_password := empty_password; u_perms := u_perms u |}.

(* a decoded group.Description of a request: the public fields and whether
   Users / WildcardUser / AuthKeys are non-nil *)
Record desc_body := { db_pub : pubdesc; db_users : bool; db_wildcard : bool; db_keys : bool }.

(* UpdateDescription: None = "description is not sanitised" *)
Definition update_description (old : option description) (new : desc_body) : option description :=
  if db_users new || db_wildcard new || db_keys new then None
  else Some match old with
            | Some o => {| d_pub := db_pub new; d_users := d_users o;
                           d_wildcard := d_wildcard o; d_keys := d_keys o |}
            | None => {| d_pub := db_pub new; d_users := []; d_wildcard := None; d_keys := [] |}
            end.

Definition find_user (d : description) (u : string) (wild : bool) : option user_desc :=
  if wild then d_wildcard d else assoc_get (d_users d) u.

Definition put_user (d : description) (u : string) (wild : bool) (v : user_desc) : description :=
  if wild
  then {| d_pub := d_pub d; d_users := d_users d; d_wildcard := Some v; d_keys := d_keys d |}
  else {| d_pub := d_pub d; d_users := assoc_set (d_users d) u v; d_wildcard := d_wildcard d;
          d_keys := d_keys d |}.

(* UpdateUser: None = "user description is not sanitised" *)
Definition update_user (d : description) (u : string) (wild : bool) (new : user_desc)
  : option description :=
  if negb (password_is_empty (u_password new)) then None else
  let oldpw := match find_user d u wild with Some o => u_password o | None => empty_password end in
  Some (put_user d u wild {| u_password := oldpw; u_perms := u_perms new |}).

(* SetUserPassword: None = os.ErrNotExist *)
Definition set_password (d : description) (u : string) (wild : bool) (pw : password)
  : option description :=
  match find_user d u wild with
  | None => None
  | Some o => Some (put_user d u wild {| u_password := pw; u_perms := u_perms o |})
  end.

(* SetKeys *)
Definition set_keys (d : description) (ks : list key) : description :=
  {| d_pub := d_pub d; d_users := d_users d; d_wildcard := d_wildcard d; d_keys := ks |}.

(* DeleteUser: None = os.ErrNotExist *)
Definition delete_user (d : description) (u : string) (wild : bool) : option description :=
  match find_user d u wild with
  | None => None
  | Some _ =>
      Some (if wild
            then {| d_pub := d_pub d; d_users := d_users d; d_wildcard := None; d_keys := d_keys d |}
            else {| d_pub := d_pub d; d_users := assoc_del (d_users d) u;
                    d_wildcard := d_wildcard d; d_keys := d_keys d |})
  end.

(* one update of a stored description, as the API can request it *)
Inductive upd :=
| UDesc (b : desc_body)
| UUser (u : string) (wild : bool) (v : user_desc)
| UPassword (u : string) (wild : bool) (p : password)
| UKeys (ks : list key)
| UDelUser (u : string) (wild : bool).

(* None = the update is refused and nothing is written *)
Definition apply_upd (d : description) (x : upd) : option description :=
  match x with
  | UDesc b => update_description (Some d) b
  | UUser u w v => update_user d u w v
  | UPassword u w p => set_password d u w p
  | UKeys ks => Some (set_keys d ks)
  | UDelUser u w => delete_user d u w
  end.

Fixpoint run_upds (d : description) (l : list upd) : description :=
  match l with
  | [] => d
  | x :: r => run_upds (match apply_upd d x with Some d' => d' | None => d end) r
  end.

(* ------------------------------------------------------------------ *)
(* requests and responses                                               *)

Inductive ctype := CTNone | CTJson | CTText | CTJwk | CTOther.

Record tok_body := {
  tb_over : bool;                  (* "token" or "group" present: overspecified *)
  tb_sub : bool; tb_user : option string; tb_perms : list string; tb_time_ok : bool }.

Inductive payload :=
| PNothing
| PMalformed
| PDesc (b : desc_body)
| PUser (u : user_desc)
| PPassword (p : password)
| PText (s : string)
| PKeys (ks : option (list key)) (valid : bool)
| PToken (t : tok_body).

Record body_in := { bi_ctype : ctype; bi_payload : payload }.

Inductive body_out :=
| BOEmpty
| BOFixed                          (* a fixed text: error message, 404 page *)
| BOStats
| BONames (l : list string)
| BODesc (d : description)
| BOUser (u : user_desc)
| BOTokNames (l : list string)
| BOTok (t : stoken).

Record response := { rs_status : Z; rs_body : body_out }.

Definition resp (s : Z) (b : body_out) : response := {| rs_status := s; rs_body := b |}.
Definition r401 := resp 401 BOFixed.
Definition r404 := resp 404 BOFixed.
Definition r405 := resp 405 BOFixed.
Definition r415 := resp 415 BOFixed.
Definition r500 := resp 500 BOFixed.
Definition r400 := resp 400 BOFixed.
Definition r409 := resp 409 BOFixed.
Definition r201 := resp 201 BOEmpty.
Definition r204 := resp 204 BOEmpty.
Definition r_options := resp 200 BOEmpty.

Definition is_get (m : string) : bool := String.eqb m "HEAD" || String.eqb m "GET".

(* sendJSON *)
Definition send_json (m : string) (b : body_out) : response :=
  resp 200 (if String.eqb m "HEAD" then BOEmpty else b).

(* apiCORS returns true exactly for OPTIONS *)
Definition api_cors (m : string) : bool := String.eqb m "OPTIONS".

Definition set_groups (e : env) (gs : list (string * description)) : env :=
  {| e_conf := e_conf e; e_writable := e_writable e; e_store_ok := e_store_ok e; e_groups := gs;
     e_tokens := e_tokens e |}.
Definition set_tokens (e : env) (ts : list stoken) : env :=
  {| e_conf := e_conf e; e_writable := e_writable e; e_store_ok := e_store_ok e;
     e_groups := e_groups e; e_tokens := ts |}.

(* rewriteDescriptionFile: refused with NotAuthorisedError (401) unless
   writableGroups; if creating, writing or syncing the temporary file or the
   rename fails, the temporary file is removed, the group file is left as it
   was and the error is answered (500) *)
Definition rewrite_file (e : env) (name : string) (d : description) (ok : response)
  : env * response :=
  if e_writable e then
    (if e_store_ok e then (set_groups e (assoc_set (e_groups e) (clean_name name) d), ok)
     else (e, r500))
  else (e, r401).

(* getJSON for a body of the expected kind *)
Definition json_body (b : body_in) : response + payload :=
  match bi_ctype b with
  | CTJson => match bi_payload b with PMalformed | PNothing => inl r500 | p => inr p end
  | _ => inl r415
  end.

(* the route: which branch of apiHandler / apiGroupHandler / usersHandler /
   specialUserHandler / tokensHandler a path reaches *)
Inductive shape :=
| SNotFound                          (* http.NotFound before any check *)
| SStats
| SGroupList
| SGroup (g : string)
| SUserList (g : string)
| SUser (g u : string) (wild : bool)
| SPassword (g u : string) (wild : bool)
| SKeys (g : string)
| STokens (g : string)
| SToken (g t : string)
| SAuthNotFound (g : string).        (* checkAdmin(g), then notFound *)

Definition users_route (g pth : string) : shape :=
  if String.eqb pth "" then SNotFound
  else if String.eqb pth "/" then SUserList g
  else
    let '(first2, kind2, rest2) := split_path pth in
    if negb (String.eqb first2 "") && String.eqb kind2 "" then SUser g (sdrop 1 first2) false
    else if negb (String.eqb first2 "") && String.eqb kind2 ".password" && String.eqb rest2 ""
    then SPassword g (sdrop 1 first2) false
    else SAuthNotFound g.

Definition special_user_route (g pth : string) (wild : bool) : shape :=
  if String.eqb pth "" then SUser g "" wild
  else if String.eqb pth "/.password" then SPassword g "" wild
  else SAuthNotFound g.

Definition tokens_route (g pth : string) : shape :=
  if String.eqb pth "" then SNotFound
  else if String.eqb pth "/" then STokens g
  else if prefix "/" pth then SToken g (sdrop 1 pth)
  else SAuthNotFound g.   (* pth[0] != '/': unreachable, rest always starts with "/" *)

Definition group_route (pth : string) : shape :=
  let '(first, kind, rest) := split_path pth in
  let g := if String.eqb first "" then "" else sdrop 1 first in
  if String.eqb g "" && String.eqb kind "" then SGroupList
  else if String.eqb kind ".users" then users_route g rest
  else if String.eqb kind ".empty-user" then special_user_route g rest false
  else if String.eqb kind ".wildcard-user" then special_user_route g rest true
  else if String.eqb kind ".keys" && String.eqb rest "" then SKeys g
  else if String.eqb kind ".tokens" then tokens_route g rest
  else if negb (String.eqb kind "") then SAuthNotFound g
  else SGroup g.

Definition route_of_path (p : string) : shape :=
  if negb (prefix "/galene-api/" p) then SNotFound else
  let '(first, kind, rest) := split_path (sdrop 11 p) in
  if negb (String.eqb first "/v0") then SNotFound
  else if String.eqb kind ".stats" then (if negb (String.eqb rest "") then SNotFound else SStats)
  else if String.eqb kind ".groups" then group_route rest
  else SNotFound.

(* ------------------------------------------------------------------ *)
(* the handlers, after routing                                          *)

Definition stats_handler (e : env) (m : string) (c : creds) : env * response :=
  if api_cors m then (e, r_options) else
  if negb (is_admin e "" c) then (e, r401) else
  if negb (is_get m) then (e, r405) else
  (e, send_json m BOStats).

Definition group_list_handler (e : env) (m : string) (c : creds) : env * response :=
  if api_cors m then (e, r_options) else
  if negb (is_admin e "" c) then (e, r401) else
  if negb (is_get m) then (e, r405) else
  (e, send_json m (BONames (map fst (e_groups e)))).

Definition group_handler (e : env) (m : string) (c : creds) (b : body_in) (g : string)
  : env * response :=
  if api_cors m then (e, r_options) else
  if negb (is_admin e g c) then (e, r401) else
  if is_get m then
    match get_description e g with
    | None => (e, r404)
    | Some (_, true) => (e, r404)
    | Some (d, false) => (e, send_json m (BODesc (sanitise_desc d)))
    end
  else if String.eqb m "PUT" then
    let old := file_lookup e g in
    match json_body b with
    | inl r => (e, r)
    | inr (PDesc nb) =>
        match update_description old nb with
        | None => (e, r500)
        | Some d => rewrite_file e g d (match old with None => r201 | Some _ => r204 end)
        end
    | inr _ => (e, r500)
    end
  else if String.eqb m "DELETE" then
    match file_lookup e g with
    | None => (e, r404)
    | Some _ => (set_groups e (assoc_del (e_groups e) (clean_name g)), r204)
    end
  else (e, r405).

Definition user_list_handler (e : env) (m : string) (c : creds) (g : string) : env * response :=
  if api_cors m then (e, r_options) else
  if negb (is_admin e g c) then (e, r401) else
  if negb (is_get m) then (e, r405) else
  match get_description e g with
  | None => (e, r404)
  | Some (d, _) => (e, send_json m (BONames (map fst (d_users d))))
  end.

(* GetSanitisedUser *)
Definition get_sanitised_user (e : env) (g u : string) (wild : bool) : option user_desc :=
  match get_description e g with
  | None => None
  | Some (d, _) => option_map sanitise_user (find_user d u wild)
  end.

Definition user_handler (e : env) (m : string) (c : creds) (b : body_in) (g u : string) (wild : bool)
  : env * response :=
  if api_cors m then (e, r_options) else
  if negb (is_admin e g c) then (e, r401) else
  if is_get m then
    match get_sanitised_user e g u wild with
    | None => (e, r404)
    | Some su => (e, send_json m (BOUser su))
    end
  else if String.eqb m "PUT" then
    match json_body b with
    | inl r => (e, r)
    | inr (PUser nu) =>
        if negb (password_is_empty (u_password nu)) then (e, r500) else
        match file_lookup e g with
        | None => (e, r404)
        | Some d =>
            match update_user d u wild nu with
            | None => (e, r500)
            | Some d' => rewrite_file e g d'
                           (match find_user d u wild with None => r201 | Some _ => r204 end)
            end
        end
    | inr _ => (e, r500)
    end
  else if String.eqb m "DELETE" then
    match get_sanitised_user e g u wild with
    | None => (e, r404)
    | Some _ =>
        match file_lookup e g with
        | None => (e, r404)
        | Some d => match delete_user d u wild with
                    | None => (e, r404)
                    | Some d' => rewrite_file e g d' r204
                    end
        end
    end
  else (e, r405).

Definition do_set_password (e : env) (g u : string) (wild : bool) (pw : password)
  : env * response :=
  match file_lookup e g with
  | None => (e, r404)
  | Some d => match set_password d u wild pw with
              | None => (e, r404)
              | Some d' => rewrite_file e g d' r204
              end
  end.

Definition password_handler (e : env) (m : string) (c : creds) (b : body_in) (g u : string)
  (wild : bool) : env * response :=
  if api_cors m then (e, r_options) else
  if negb (if wild then is_admin e g c else is_admin_or_explicit e g u c) then (e, r401) else
  if String.eqb m "PUT" then
    match json_body b with
    | inl r => (e, r)
    | inr (PPassword pw) => do_set_password e g u wild pw
    | inr _ => (e, r500)
    end
  else if String.eqb m "POST" then
    match bi_ctype b with
    | CTText =>
        match bi_payload b with
        | PText s =>
            do_set_password e g u wild
              {| pw_type := "bcrypt"; pw_key := Some (H "bcrypt" s); pw_hash := "";
                 pw_salt := ""; pw_iter := 0%Z |}
        | _ => (e, r500)
        end
    | _ => (e, r415)
    end
  else if String.eqb m "DELETE" then do_set_password e g u wild empty_password
  else (e, r405).

Definition keys_handler (e : env) (m : string) (c : creds) (b : body_in) (g : string)
  : env * response :=
  if api_cors m then (e, r_options) else
  if negb (is_admin e g c) then (e, r401) else
  if String.eqb m "PUT" then
    match bi_ctype b with
    | CTJwk =>
        match bi_payload b with
        | PKeys ks valid =>
            if negb valid then (e, r500) else
            match file_lookup e g with
            | None => (e, r404)
            | Some d => rewrite_file e g (set_keys d (match ks with Some l => l | None => [] end)) r204
            end
        | _ => (e, r500)
        end
    | _ => (e, r415)
    end
  else if String.eqb m "DELETE" then
    match file_lookup e g with
    | None => (e, r404)
    | Some d => rewrite_file e g (set_keys d []) r204
    end
  else (e, r405).

Fixpoint del_token (l : list stoken) (n : string) : list stoken :=
  match l with
  | [] => []
  | t :: r => if String.eqb n (st_name t) then del_token r n else t :: del_token r n
  end.

Definition mk_token (name g : string) (tb : tok_body) : stoken :=
  {| st_name := name; st_group := g; st_sub := tb_sub tb; st_user := tb_user tb;
     st_perms := tb_perms tb; st_time_ok := tb_time_ok tb |}.

(* the name given to a token created by POST (random in the implementation) *)
Definition fresh_token_name : string := "?new".

Definition tokens_handler (e : env) (m : string) (c : creds) (b : body_in) (g : string)
  (t : option string) : env * response :=
  if api_cors m then (e, r_options) else
  if negb (is_admin e g c) then (e, r401) else
  if negb (String.eqb g "") && match get_description e g with None => true | Some _ => false end
  then (e, r404) else
  match t with
  | None =>
      if is_get m then
        (e, send_json m (BOTokNames
               (map st_name (filter (fun t => String.eqb (st_group t) g) (e_tokens e)))))
      else if String.eqb m "POST" then
        match json_body b with
        | inl r => (e, r)
        | inr (PToken tb) =>
            if tb_over tb then (e, r400)
            else (set_tokens e (e_tokens e ++ [mk_token fresh_token_name g tb]), r201)
        | inr _ => (e, r500)
        end
      else (e, r405)
  | Some t =>
      if is_get m then
        match find_token (e_tokens e) t with
        | None => (e, r404)
        | Some old => if negb (String.eqb (st_group old) g) then (e, r404)
                      else (e, send_json m (BOTok old))
        end
      else if String.eqb m "PUT" then
        let old := find_token (e_tokens e) t in
        if match old with Some o => negb (String.eqb (st_group o) g) | None => false end
        then (e, r409) else
        match json_body b with
        | inl r => (e, r)
        | inr (PToken tb) =>
            if tb_over tb then (e, r400)
            else (set_tokens e (del_token (e_tokens e) t ++ [mk_token t g tb]),
                  match old with None => r201 | Some _ => r204 end)
        | inr _ => (e, r500)
        end
      else if String.eqb m "DELETE" then
        match find_token (e_tokens e) t with
        | None => (e, r404)
        | Some old => if negb (String.eqb (st_group old) g) then (e, r404)
                      else (set_tokens e (del_token (e_tokens e) t), r204)
        end
      else (e, r405)
  end.

Definition auth_not_found_handler (e : env) (c : creds) (g : string) : env * response :=
  if negb (is_admin e g c) then (e, r401) else (e, r404).

Definition dispatch (e : env) (s : shape) (m : string) (c : creds) (b : body_in)
  : env * response :=
  match s with
  | SNotFound => (e, r404)
  | SStats => stats_handler e m c
  | SGroupList => group_list_handler e m c
  | SGroup g => group_handler e m c b g
  | SUserList g => user_list_handler e m c g
  | SUser g u w => user_handler e m c b g u w
  | SPassword g u w => password_handler e m c b g u w
  | SKeys g => keys_handler e m c b g
  | STokens g => tokens_handler e m c b g None
  | SToken g t => tokens_handler e m c b g (Some t)
  | SAuthNotFound g => auth_not_found_handler e c g
  end.

Record request := { r_method : string; r_path : string; r_creds : creds; r_body : body_in }.

Definition handle (e : env) (r : request) : env * response :=
  dispatch e (route_of_path (r_path r)) (r_method r) (r_creds r) (r_body r).

(* which check a route evaluates: what the property calls "authenticates as a
   server administrator, an administrator of the addressed group, or a bearer
   of an admin token in scope", and the password exception *)
Definition authorised (e : env) (s : shape) (c : creds) : bool :=
  match s with
  | SNotFound => false
  | SStats | SGroupList => is_admin e "" c
  | SGroup g | SUserList g | SUser g _ _ | SKeys g | STokens g | SToken g _
  | SAuthNotFound g => is_admin e g c
  | SPassword g u w => if w then is_admin e g c else is_admin_or_explicit e g u c
  end.

End WithHash.

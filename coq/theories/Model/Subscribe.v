(* Model of the subscription logic of rtpconn/webclient.go and rtpconn/rtpconn.go
   (property C07): who is offered / closed what.

   Layer 1: [requested_tracks] = requestedTracks, statement by statement.
   Layer 2: the bookkeeping of up streams, down streams, requests, the FIFO
   action queues and the delayed push, WITHOUT WebRTC.  What WebRTC decides is
   an oracle carried by the events:
     - the SDP of an `offer` is [SGood] (gotOffer succeeds), [SMin] (the
       description parses, newUpConn succeeds, SetRemoteDescription fails) or
       [SBad] (it does not parse: newUpConn fails);
     - the SDP of an `answer` is accepted or not ([ok]);
     - tracks appear on an up connection by [OpTrack] (pion's OnTrack);
     - the goroutine of pushConn (time.Sleep(200ms)) is a pending [timer]
       fired by [OpTimer] at a moment chosen by the schedule (it pushes to
       the clients that are in the group at that moment);
     - CreateOffer/SetLocalDescription of the server's own down connection
       and AddTransceiverFromTrack succeed (negotiate and replaceTracks
       return no error).
   Identifiers are natural numbers; 0 is the empty string (stream id "",
   label "", replace "").  Clients are handles [0 .. w_n); the client id IS the
   handle.  Up connections are heap objects (handle = creation index): queued
   actions, timers and down connections refer to the object, which survives its
   deletion from the owner's table, as the Go pointer does.

   Go code                                   model
   ------------------------------------------------------------------
   requestedTracks                           requested_tracks
   pushDownConn                              push_down_conn
   addDownConn / delDownConn / closeDownConn add_down_conn / del_down / close_down_conn
   replaceTracks / negotiate                 replace_tracks / negotiate
   addUpConn+newUpConn / delUpConn / gotOffer add_up_conn / del_up_conn / got_offer
   pushConn / pushConnNow                    new_timer / fire_timer
   handleAction                              handle_action
   handleClientMessage (join, request,
     requestStream, offer, answer, close,
     abort, useraction kick/present/unpresent) handle_msg
   leaveGroup, end of connection             leave_group, error_close
   clientLoop: one action of the batch       OpPump
   NO proofs here (Proofs/Subscribe*.v). *)
From Coq Require Import List Bool Arith PeanoNat ZArith.
Import ListNotations.

(* model version (also keeps BinNums in the extraction for the shared glue) *)
Definition version : Z := 1%Z.

(* ------------------------------------------------------------------ *)
(* Layer 1: requestedTracks                                            *)

Inductive kind := KOther | KAudio | KVideo.   (* webrtc.RTPCodecType 0, 1, 2 *)
Inductive rk := RAudio | RVideo | RVideoLow | RJunk.

Definition kind_eqb (a b : kind) : bool :=
  match a, b with
  | KOther, KOther | KAudio, KAudio | KVideo, KVideo => true
  | _, _ => false
  end.

Definition rk_eqb (a b : rk) : bool :=
  match a, b with
  | RAudio, RAudio | RVideo, RVideo | RVideoLow, RVideoLow | RJunk, RJunk => true
  | _, _ => false
  end.

(* find := func(kind, last) (track, count): for _, t := range tracks {
     if t.Kind() != kind { continue }; track = t; count++; if !last { break } } *)
Fixpoint find_from (k : kind) (last : bool) (ks : list kind) (i : nat)
         (track : option nat) (count : nat) : option nat * nat :=
  match ks with
  | [] => (track, count)
  | t :: rest =>
      if kind_eqb t k then
        if last then find_from k last rest (S i) (Some i) (S count)
        else (Some i, S count)
      else find_from k last rest (S i) track count
  end.

Definition find (k : kind) (last : bool) (ks : list kind) : option nat * nat :=
  find_from k last ks 0 None 0.

Definition opt_list (o : option nat) : list nat :=
  match o with Some t => [t] | None => [] end.

(* The result is the list of the INDICES of the chosen tracks and limitSid. *)
Definition requested_tracks (req : list rk) (ks : list kind) : list nat * bool :=
  match req with
  | [] => ([], false)
  | _ =>
      let audio := existsb (rk_eqb RAudio) req in
      let video := existsb (rk_eqb RVideo) req in
      let videolow := existsb (rk_eqb RVideoLow) req in
      let ts1 := if audio then opt_list (fst (find KAudio false ks)) else [] in
      if video then (ts1 ++ opt_list (fst (find KVideo false ks)), false)
      else if videolow then
             (ts1 ++ opt_list (fst (find KVideo true ks)),
              Nat.ltb (snd (find KVideo true ks)) 2)
           else (ts1, false)
  end.

(* ------------------------------------------------------------------ *)
(* Layer 2: state                                                      *)

Record upobj := mkUp {
  uo_owner : nat;            (* rtpUpConnection.client *)
  uo_id : nat;
  uo_label : nat;
  uo_closed : bool;
  uo_pushed : bool;
  uo_replace : nat;
  uo_tracks : list kind;
  uo_group : nat             (* GHOST: the group of the owner when the connection was
                                created (never read by the transitions) *)
}.

Record down := mkDown {
  d_id : nat;
  d_remote : nat;                  (* handle of the up object *)
  d_req : option (list rk);        (* rtpDownConnection.requested; None = nil *)
  d_tracks : list (nat * nat);     (* (up object, index of the track in it) *)
  d_limit : bool;                  (* limitSid of the tracks *)
  d_havelocal : bool;              (* signalling state have-local-offer *)
  d_neg : bool                     (* negotiationNeeded > negotiationUnneeded *)
}.

Definition down_set_tracks (ts : list (nat * nat)) (limit : bool) (d : down) : down :=
  mkDown (d_id d) (d_remote d) (d_req d) ts limit (d_havelocal d) (d_neg d).
Definition down_set_sig (havelocal neg : bool) (d : down) : down :=
  mkDown (d_id d) (d_remote d) (d_req d) (d_tracks d) (d_limit d) havelocal neg.
Definition down_set_req (r : option (list rk)) (d : down) : down :=
  mkDown (d_id d) (d_remote d) r (d_tracks d) (d_limit d) (d_havelocal d) (d_neg d).

Inductive action :=
| APush (g : nat) (id : nat) (up : option nat) (tracks : list kind) (replace : nat)
| AReqConns (g : nat) (target : nat) (id : nat)
| AChangePerm (g : nat) (give : bool)
| APermsChanged
| AKick.

Inductive outmsg :=
| OOffer (id label replace source username : nat)
| OClose (id : nat)
| OAbort (id : nat)
| OAnswer (id : nat)
| OError.                          (* usermessage kind=error to the client *)

Record client := mkClient {
  c_group : option nat;
  c_user : nat;
  c_present : bool;
  c_op : bool;
  c_req : list (nat * list rk);    (* webClient.requested *)
  c_up : list (nat * nat);         (* id -> up object *)
  c_down : list down;
  c_queue : list action;
  c_out : list outmsg;
  c_dead : bool
}.

(* a sleeping goroutine of pushConn: the connection and the group it captured;
   the clients are read from the group when it wakes up *)
Record timer := mkTimer { t_up : nat; t_group : nat }.

Record world := mkWorld {
  w_n : nat;
  w_cl : nat -> client;
  w_nup : nat;
  w_up : nat -> upobj;
  w_timers : list timer
}.

Definition fresh_client : client :=
  mkClient None 0 false false [] [] [] [] [] false.

Definition up_set_closed (o : upobj) : upobj :=
  mkUp (uo_owner o) (uo_id o) (uo_label o) true (uo_pushed o) (uo_replace o) (uo_tracks o) (uo_group o).
Definition up_set_pushed (b : bool) (o : upobj) : upobj :=
  mkUp (uo_owner o) (uo_id o) (uo_label o) (uo_closed o) b (uo_replace o) (uo_tracks o) (uo_group o).
Definition up_set_replace (r : nat) (o : upobj) : upobj :=
  mkUp (uo_owner o) (uo_id o) (uo_label o) (uo_closed o) (uo_pushed o) r (uo_tracks o) (uo_group o).
Definition up_add_track (k : kind) (o : upobj) : upobj :=
  mkUp (uo_owner o) (uo_id o) (uo_label o) (uo_closed o) (uo_pushed o) (uo_replace o)
       (uo_tracks o ++ [k]) (uo_group o).

Definition dummy_up : upobj := mkUp 0 0 0 true true 0 [] 0.

Definition init (n : nat) : world :=
  mkWorld n (fun _ => fresh_client) 0 (fun _ => dummy_up) [].

(* ---- updates *)

Definition upd_cl (h : nat) (f : client -> client) (w : world) : world :=
  mkWorld (w_n w) (fun x => if Nat.eqb x h then f (w_cl w x) else w_cl w x)
          (w_nup w) (w_up w) (w_timers w).

Definition upd_up (u : nat) (f : upobj -> upobj) (w : world) : world :=
  mkWorld (w_n w) (w_cl w) (w_nup w)
          (fun x => if Nat.eqb x u then f (w_up w x) else w_up w x) (w_timers w).

Definition set_timers (ts : list timer) (w : world) : world :=
  mkWorld (w_n w) (w_cl w) (w_nup w) (w_up w) ts.

Definition set_queue (q : list action) (c : client) : client :=
  mkClient (c_group c) (c_user c) (c_present c) (c_op c) (c_req c) (c_up c)
           (c_down c) q (c_out c) (c_dead c).
Definition set_out (o : list outmsg) (c : client) : client :=
  mkClient (c_group c) (c_user c) (c_present c) (c_op c) (c_req c) (c_up c)
           (c_down c) (c_queue c) o (c_dead c).
Definition set_down (d : list down) (c : client) : client :=
  mkClient (c_group c) (c_user c) (c_present c) (c_op c) (c_req c) (c_up c)
           d (c_queue c) (c_out c) (c_dead c).
Definition set_ups (u : list (nat * nat)) (c : client) : client :=
  mkClient (c_group c) (c_user c) (c_present c) (c_op c) (c_req c) u
           (c_down c) (c_queue c) (c_out c) (c_dead c).
Definition set_req (r : list (nat * list rk)) (c : client) : client :=
  mkClient (c_group c) (c_user c) (c_present c) (c_op c) r (c_up c)
           (c_down c) (c_queue c) (c_out c) (c_dead c).
Definition set_present (p : bool) (c : client) : client :=
  mkClient (c_group c) (c_user c) p (c_op c) (c_req c) (c_up c)
           (c_down c) (c_queue c) (c_out c) (c_dead c).
Definition set_dead (c : client) : client :=
  mkClient (c_group c) (c_user c) (c_present c) (c_op c) (c_req c) (c_up c)
           (c_down c) (c_queue c) (c_out c) true.
Definition set_joined (g user : nat) (pres op : bool) (c : client) : client :=
  mkClient (Some g) user pres op (c_req c) (c_up c)
           (c_down c) (c_queue c) (c_out c) (c_dead c).
(* leaveGroup: group.DelClient; permissions = nil; requested = empty map;
   group = nil.  The username is kept. *)
Definition set_left (c : client) : client :=
  mkClient None (c_user c) false false [] (c_up c)
           (c_down c) (c_queue c) (c_out c) (c_dead c).

Definition send (h : nat) (m : outmsg) (w : world) : world :=
  upd_cl h (fun c => set_out (c_out c ++ [m]) c) w.

(* c.action(a): unbounded.Channel.Put never blocks and never refuses, whatever
   the state of the client. *)
Definition enq (h : nat) (a : action) (w : world) : world :=
  upd_cl h (fun c => set_queue (c_queue c ++ [a]) c) w.

Definition enq_all (targets : list nat) (a : action) (w : world) : world :=
  fold_left (fun w t => enq t a w) targets w.

Definition in_group (g : nat) (c : client) : bool :=
  match c_group c with Some g' => Nat.eqb g' g | None => false end.

(* g.GetClients(nil): the members, here in handle order (Go: map order). *)
Definition members (w : world) (g : nat) : list nat :=
  filter (fun h => in_group g (w_cl w h)) (seq 0 (w_n w)).

(* g.GetClients(except) *)
Definition others (w : world) (g : nat) (except : nat) : list nat :=
  filter (fun h => negb (Nat.eqb h except)) (members w g).

(* ---- small maps *)

Fixpoint lookup {A} (k : nat) (l : list (nat * A)) : option A :=
  match l with
  | [] => None
  | (k', v) :: r => if Nat.eqb k k' then Some v else lookup k r
  end.

Fixpoint remove_key {A} (k : nat) (l : list (nat * A)) : list (nat * A) :=
  match l with
  | [] => []
  | (k', v) :: r => if Nat.eqb k k' then remove_key k r else (k', v) :: remove_key k r
  end.

Fixpoint get_down (id : nat) (l : list down) : option down :=
  match l with
  | [] => None
  | d :: r => if Nat.eqb (d_id d) id then Some d else get_down id r
  end.

Fixpoint remove_down (id : nat) (l : list down) : list down :=
  match l with
  | [] => []
  | d :: r => if Nat.eqb (d_id d) id then remove_down id r else d :: remove_down id r
  end.

Fixpoint replace_down (d' : down) (l : list down) : list down :=
  match l with
  | [] => []
  | d :: r => if Nat.eqb (d_id d) (d_id d') then d' :: r else d :: replace_down d' r
  end.

(* req, ok = c.requested[label]; if !ok { req = c.requested[""] } *)
Definition base_req (c : client) (label : nat) : list rk :=
  match lookup label (c_req c) with
  | Some r => r
  | None => match lookup 0 (c_req c) with Some r => r | None => [] end
  end.

(* ---- down connections *)

(* delDownConn (the error os.ErrNotExist is ignored by every caller) *)
Definition del_down (m id : nat) (w : world) : world :=
  upd_cl m (fun c => set_down (remove_down id (c_down c)) c) w.

(* closeDownConn: delDownConn, then write `close`, then the error message *)
Definition close_down_conn (m id : nat) (msg : bool) (w : world) : world :=
  let w1 := send m (OClose id) (del_down m id w) in
  if msg then send m OError w1 else w1.

Inductive add_res := AddDup | AddClosed | AddOk (w : world).

(* addDownConn(c, remote) *)
Definition add_down_conn (m u : nat) (w : world) : add_res :=
  let c := w_cl w m in
  let id := uo_id (w_up w u) in
  match lookup id (c_up c) with
  | Some _ => AddDup                                   (* "adding duplicate connection" *)
  | None =>
      match get_down id (c_down c) with
      | Some _ => AddOk w                              (* existing connection, whatever its remote *)
      | None =>
          if uo_closed (w_up w u) then AddClosed       (* remote.AddLocal: os.ErrClosed *)
          else AddOk (upd_cl m (fun c =>
                 set_down (c_down c ++ [mkDown id u None [] false false false]) c) w)
      end
  end.

Definition mem_pair (p : nat * nat) (l : list (nat * nat)) : bool :=
  existsb (fun q => Nat.eqb (fst p) (fst q) && Nat.eqb (snd p) (snd q)) l.

(* replaceTracks(conn, remote, limitSid): (changed, conn') *)
Definition replace_tracks (d : down) (remote : list (nat * nat)) (limit : bool) : bool * down :=
  let add := filter (fun p => negb (mem_pair p (d_tracks d))) remote in
  let keep := filter (fun p => mem_pair p remote) (d_tracks d) in
  let del := filter (fun p => negb (mem_pair p remote)) (d_tracks d) in
  match add, del with
  | [], [] => (false, down_set_tracks (d_tracks d) limit d)
  | _, _ => (true, down_set_tracks (keep ++ add) limit d)
  end.

Definition set_down_entry (m : nat) (d : down) (w : world) : world :=
  upd_cl m (fun c => set_down (replace_down d (c_down c)) c) w.

(* negotiate(c, down, restartIce, replace) *)
Definition negotiate (m : nat) (d : down) (replace : nat) (w : world) : world :=
  if d_havelocal d then
    set_down_entry m (down_set_sig true true d) w
  else
    let r := w_up w (d_remote d) in
    send m (OOffer (d_id d) (uo_label r) replace (uo_owner r) (c_user (w_cl w (uo_owner r))))
         (set_down_entry m (down_set_sig true false d) w).

(* pushDownConn(c, id, up, tracks, replace): (world, error) *)
Definition push_down_conn (m id : nat) (up : option nat) (tracks : list kind)
           (replace : nat) (w : world) : world * bool :=
  let c := w_cl w m in
  let sel :=
    match up with
    | None => ([], false)
    | Some u =>
        let old := get_down (if Nat.eqb replace 0 then uo_id (w_up w u) else replace) (c_down c) in
        let req := match old with
                   | Some d => match d_req d with
                               | Some r => r
                               | None => base_req c (uo_label (w_up w u))
                               end
                   | None => base_req c (uo_label (w_up w u))
                   end in
        requested_tracks req tracks
    end in
  let w1 := if Nat.eqb replace 0 then w else del_down m replace w in
  (* the deferred closeDownConn(c, replace, "") *)
  let deferred := fun w' => if Nat.eqb replace 0 then w' else close_down_conn m replace false w' in
  match fst sel, up with
  | [], _ => (deferred (close_down_conn m id false w1), false)
  | _ :: _, None => (deferred (close_down_conn m id false w1), false)   (* not reachable *)
  | _ :: _, Some u =>
      match add_down_conn m u w1 with
      | AddDup => (deferred w1, true)
      | AddClosed => (deferred w1, false)
      | AddOk w2 =>
          match get_down (uo_id (w_up w u)) (c_down (w_cl w2 m)) with
          | None => (deferred w2, false)                               (* not reachable *)
          | Some d =>
              let '(changed, d') := replace_tracks d (map (fun i => (u, i)) (fst sel)) (snd sel) in
              let w3 := set_down_entry m d' w2 in
              if changed then (negotiate m d' replace w3, false)
              else (deferred w3, false)
          end
      end
  end.

(* ---- up connections *)

Inductive del_res := DelNone | DelOk (w : world).

(* delUpConn(c, id, c.id, push) *)
Definition del_up_conn (c id : nat) (push : bool) (w : world) : del_res :=
  match lookup id (c_up (w_cl w c)) with
  | None => DelNone
  | Some u =>
      let replace := uo_replace (w_up w u) in
      let g := c_group (w_cl w c) in
      let w1 := upd_cl c (fun cl => set_ups (remove_key id (c_up cl)) cl) w in
      let w2 := upd_up u up_set_closed w1 in
      match push, g with
      | true, Some g => DelOk (enq_all (others w2 g c) (APush g id None [] replace) w2)
      | _, _ => DelOk w2
      end
  end.

Definition del_up_conn' (c id : nat) (push : bool) (w : world) : world :=
  match del_up_conn c id push w with DelNone => w | DelOk w' => w' end.

(* pushConn(up, g, cs): pushed = false; go func() { sleep; ... }() *)
Definition new_timer (u g : nat) (w : world) : world :=
  set_timers (w_timers w ++ [mkTimer u g])
    (upd_up u (up_set_pushed false) w).

(* the goroutine after the sleep: test-and-set pushed; pushConnNow *)
Definition fire_timer (t : timer) (w : world) : world :=
  let o := w_up w (t_up t) in
  if uo_pushed o then w
  else enq_all (others w (t_group t) (uo_owner o))   (* g.GetClients(c) when the goroutine wakes up *)
               (APush (t_group t) (uo_id o) (Some (t_up t)) (uo_tracks o) (uo_replace o))
               (upd_up (t_up t) (fun o => up_set_replace 0 (up_set_pushed true o)) w).

(* failUpConnection(c, id, message) with id != "" and message != "" *)
Definition fail_up (c id : nat) (w : world) : world :=
  send c OError (send c (OAbort id) w).

Inductive sdp := SGood | SMin | SBad.

(* addUpConn creating a new connection: newUpConn, c.up[id] = conn, and the
   pushConn at the end of newUpConn.  The new object is w_nup w. *)
Definition new_up_conn (c id label g : nat) (w : world) : world :=
  let u := w_nup w in
  let w0 := mkWorld (w_n w) (w_cl w) (S u)
              (fun x => if Nat.eqb x u then mkUp c id label false false 0 [] g else w_up w x)
              (w_timers w) in
  new_timer u g
    (upd_cl c (fun cl => set_ups (c_up cl ++ [(id, u)]) cl) w0).

(* gotOffer + the error handling of the `offer` case *)
(* the rest of gotOffer once the connection u is there: the `replace`
   handling, then SetRemoteDescription .. SetLocalDescription, which fail on a
   closed connection (replace = id) and on a description that is not an
   acceptable offer *)
Definition offer_tail (c id replace u : nat) (s : sdp) (w1 : world) : world :=
  let w2 :=
    if Nat.eqb replace 0 then w1
    else del_up_conn' c replace false (upd_up u (up_set_replace replace) w1) in
  match s with
  | SGood => if uo_closed (w_up w2 u) then fail_up c id w2 else send c (OAnswer id) w2
  | _ => fail_up c id w2
  end.

Definition got_offer (c id label replace : nat) (s : sdp) (w : world) : world :=
  let cl := w_cl w c in
  match get_down id (c_down cl) with
  | Some _ => fail_up c id w                    (* addUpConn: duplicate connection *)
  | None =>
      match lookup id (c_up cl) with
      | Some u => offer_tail c id replace u s w (* the existing connection *)
      | None =>
          match s, c_group cl with
          | SBad, _ => fail_up c id w           (* newUpConn: the offer does not parse *)
          | _, None => fail_up c id w           (* not reachable: present implies a group *)
          | _, Some g => offer_tail c id replace (w_nup w) s (new_up_conn c id label g w)
          end
      end
  end.

(* ---- leaving *)

Definition leave_group (c : nat) (w : world) : world :=
  match c_group (w_cl w c) with
  | None => w
  | Some _ =>
      let w1 := fold_left (fun w idu => del_up_conn' c (fst idu) true w) (c_up (w_cl w c)) w in
      upd_cl c (fun cl => set_left (set_down [] cl)) w1
  end.

(* clientLoop returns an error: deferred leaveGroup, the connection ends *)
Definition error_close (c : nat) (w : world) : world :=
  upd_cl c set_dead (leave_group c w).

(* ---- actions *)

(* handleAction: (world, error) *)
Definition handle_action (m : nat) (a : action) (w : world) : world * bool :=
  let c := w_cl w m in
  match a with
  | APush g id up tracks replace =>
      if in_group g c then push_down_conn m id up tracks replace w else (w, false)
  | AReqConns g target id =>
      if in_group g c then
        (fold_left (fun w idu =>
           if negb (Nat.eqb id 0) && negb (Nat.eqb id (fst idu)) then w
           else enq target (APush g (fst idu) (Some (snd idu))
                                  (uo_tracks (w_up w (snd idu)))
                                  (uo_replace (w_up w (snd idu)))) w)
           (c_up c) w, false)
      else (w, false)
  | AChangePerm g give =>
      if in_group g c then (enq m APermsChanged (upd_cl m (set_present give) w), false)
      else (w, false)
  | APermsChanged =>
      match c_group c with
      | None => (w, true)
      | Some _ =>
          if c_present c then (w, false)
          else (fold_left (fun w idu =>
                  match del_up_conn m (fst idu) true w with
                  | DelNone => w
                  | DelOk w' => fail_up m (fst idu) w'
                  end) (c_up c) w, false)
      end
  | AKick => (w, true)
  end.

(* ---- messages *)

Inductive msg :=
| MJoin (g user : nat) (pres op : bool)
| MLeave (g : nat)
| MRequest (req : list (nat * list rk))
| MRequestStream (id : nat) (req : option (list rk))
| MOffer (id label replace : nat) (s : sdp)
| MClose (id : nat)
| MAbort (id : nat)
| MAnswer (id : nat) (ok : bool)
| MKick (dest : nat)
| MPerm (dest : nat) (give : bool).

(* g.GetClient(dest) *)
Definition member_of (w : world) (g dest : nat) : bool :=
  Nat.ltb dest (w_n w) && in_group g (w_cl w dest).

(* handleClientMessage: (world, error) *)
Definition handle_msg (c : nat) (m : msg) (w : world) : world * bool :=
  let cl := w_cl w c in
  match m with
  | MJoin g user pres op =>
      match c_group cl with
      | Some _ => (w, true)                         (* cannot join multiple groups *)
      | None => (upd_cl c (set_joined g user pres op) w, false)
      end
  | MLeave g =>
      if in_group g cl then (leave_group c w, false) else (w, true)
  | MRequest req =>
      match c_group cl with
      | None => (w, true)
      | Some g =>
          let w1 := upd_cl c (set_req req) w in
          (enq_all (others w1 g c) (AReqConns g c 0) w1, false)
      end
  | MRequestStream id req =>
      match get_down id (c_down cl), c_group cl with
      | None, _ => (w, true)                        (* ErrUnknownId *)
      | Some d, None => (w, true)                   (* not reachable *)
      | Some d, Some g =>
          let w1 := set_down_entry c (down_set_req req d) w in
          (enq (uo_owner (w_up w (d_remote d)))
               (AReqConns g c (uo_id (w_up w (d_remote d)))) w1, false)
      end
  | MOffer id label replace s =>
      if Nat.eqb id 0 then (w, true)
      else if c_present cl then (got_offer c id label replace s w, false)
      else
        let w1 := if Nat.eqb replace 0 then w else del_up_conn' c replace true w in
        (send c OError (send c (OAbort id) w1), false)
  | MClose id =>
      if Nat.eqb id 0 then (w, true) else (del_up_conn' c id true w, false)
  | MAbort id =>
      if Nat.eqb id 0 then (w, true) else (close_down_conn c id false w, false)
  | MAnswer id ok =>
      if Nat.eqb id 0 then (w, true)
      else match get_down id (c_down cl) with
           | None => (close_down_conn c id false w, false)
           | Some d =>
               if ok && d_havelocal d then
                 let d1 := down_set_sig false (d_neg d) d in
                 let w1 := set_down_entry c d1 w in
                 if d_neg d then (negotiate c d1 0 w1, false) else (w1, false)
               else (close_down_conn c id true w, false)
           end
  | MKick dest =>
      match c_group cl with
      | None => (send c OError w, false)
      | Some g =>
          if c_op cl && member_of w g dest then (enq dest AKick w, false)
          else (send c OError w, false)
      end
  | MPerm dest give =>
      match c_group cl with
      | None => (send c OError w, false)
      | Some g =>
          if c_op cl && member_of w g dest then (enq dest (AChangePerm g give) w, false)
          else (send c OError w, false)
      end
  end.

(* ---- events *)

Inductive op :=
| OpMsg (c : nat) (m : msg)        (* the loop of c reads one message *)
| OpPump (c : nat)                 (* the loop of c handles the next queued action *)
| OpDisconnect (c : nat)           (* the peer closes the connection *)
| OpTimer (i : nat)                (* the i-th pending delayed push fires *)
| OpTrack (u : nat) (k : kind).    (* OnTrack on up object u *)

Definition finish (c : nat) (r : world * bool) : world :=
  if snd r then error_close c (fst r) else fst r.

Fixpoint remove_nth {A} (i : nat) (l : list A) : list A :=
  match l, i with
  | [], _ => []
  | _ :: r, O => r
  | x :: r, S j => x :: remove_nth j r
  end.

Definition step (w : world) (o : op) : world :=
  match o with
  | OpMsg c m =>
      if Nat.ltb c (w_n w) && negb (c_dead (w_cl w c)) then finish c (handle_msg c m w) else w
  | OpPump c =>
      if Nat.ltb c (w_n w) && negb (c_dead (w_cl w c)) then
        match c_queue (w_cl w c) with
        | [] => w
        | a :: q => finish c (handle_action c a (upd_cl c (set_queue q) w))
        end
      else w
  | OpDisconnect c =>
      if Nat.ltb c (w_n w) && negb (c_dead (w_cl w c)) then error_close c w else w
  | OpTimer i =>
      match nth_error (w_timers w) i with
      | None => w
      | Some t => fire_timer t (set_timers (remove_nth i (w_timers w)) w)
      end
  | OpTrack u k =>
      (* OnTrack never fires on a connection that was closed (assumption) *)
      if Nat.ltb u (w_nup w) && negb (uo_closed (w_up w u)) then
        let o := w_up w u in
        match c_group (w_cl w (uo_owner o)) with
        | None => upd_up u (up_add_track k) w       (* pushConn: g == nil, nothing is scheduled
                                                       (not reachable: a live stream's owner is in a group) *)
        | Some g =>
            new_timer u g
              (upd_up u (up_add_track k) w)
        end
      else w
  end.

Definition run (w : world) (ops : list op) : world := fold_left step ops w.

(* All live clients have served their queues and no delayed push is pending. *)
Definition quiescentb (w : world) : bool :=
  forallb (fun h => c_dead (w_cl w h) || match c_queue (w_cl w h) with [] => true | _ => false end)
          (seq 0 (w_n w))
  && match w_timers w with [] => true | _ => false end.

(* helpers for the glue *)
Definition queue_len (w : world) (c : nat) : nat := length (c_queue (w_cl w c)).
Definition clear_out (w : world) : world :=
  mkWorld (w_n w) (fun x => set_out [] (w_cl w x)) (w_nup w) (w_up w) (w_timers w).
Fixpoint timer_index (u : nat) (ts : list timer) (i : nat) : option nat :=
  match ts with
  | [] => None
  | t :: r => if Nat.eqb (t_up t) u then Some i else timer_index u r (S i)
  end.

(* Model of unbounded/unbounded.go: the unbounded action queue of a client
   (webClient.actions, rtpUpConnection/rtpUpTrack.actions) together with its
   users' protocol (`case <-c.actions.Ch: actions := c.actions.Get()`).

   Go code                                     atomic step of the model
   ------------------------------------------------------------------------
   Put:  ch.mu.Lock()
         empty := len(ch.queue) == 0
         ch.queue = append(ch.queue, v)
         ch.mu.Unlock()                         LPutLock p v  (under Channel.mu)
         if empty { select { case ch.Ch <- struct{}{}: default: } }
                                                LPutSend p    (channel op; a
                                                 no-op return when !empty)
   consumer loop:  <-ch.Ch                      LRecv  (blocks without a token)
         ch.Get() = lock; q := queue;
                    queue = nil; unlock         LGet          (under Channel.mu)
   Get "may be called at any time"              LGetDirect    (any goroutine)

   Any number of producers: a producer is identified by a number; it is idle
   unless it is listed in [prods] with the value of its local variable
   [empty].  Ch has capacity 1: [chan] says whether the token is in it.
   The two sections under Channel.mu are atomic with respect to each other
   (sync.Mutex; that queue is only touched under Channel.mu is a row of
   Generated/Locks.v); channel operations are atomic (Go runtime).

   [puts] and [gots] are ghost history: the values in the order in which
   their Puts took the lock, and the results of the Gets in order.
   NO proofs here (Proofs/UnboundedProofs.v). *)
From Coq Require Import ZArith List Bool.
Import ListNotations.
Open Scope Z_scope.

Inductive cpc := CWait | CGot.

Record state := mkState {
  queue : list Z;
  chan  : bool;
  prods : list (Z * bool);
  cons  : cpc;
  puts  : list Z;
  gots  : list (list Z)
}.

Definition init : state := mkState [] false [] CWait [] [].

Inductive label :=
| LPutLock (p v : Z)
| LPutSend (p : Z)
| LRecv
| LGet
| LGetDirect.

Fixpoint lookup (p : Z) (l : list (Z * bool)) : option bool :=
  match l with
  | [] => None
  | (q, e) :: r => if Z.eqb p q then Some e else lookup p r
  end.

Fixpoint remove (p : Z) (l : list (Z * bool)) : list (Z * bool) :=
  match l with
  | [] => []
  | (q, e) :: r => if Z.eqb p q then remove p r else (q, e) :: remove p r
  end.

Definition is_nil {A} (l : list A) : bool :=
  match l with [] => true | _ => false end.

(* One atomic step; [None] when the step is not enabled (the goroutine is not
   at that point of its code, or it blocks). *)
Definition step (s : state) (a : label) : option state :=
  match a with
  | LPutLock p v =>
      match lookup p (prods s) with
      | Some _ => None                       (* p is inside a Put already *)
      | None =>
          Some (mkState (queue s ++ [v]) (chan s)
                        ((p, is_nil (queue s)) :: prods s) (cons s)
                        (puts s ++ [v]) (gots s))
      end
  | LPutSend p =>
      match lookup p (prods s) with
      | None => None
      | Some e =>
          (* select { case Ch <- {}: default: } on a channel of capacity 1 *)
          Some (mkState (queue s) (if e then true else chan s)
                        (remove p (prods s)) (cons s) (puts s) (gots s))
      end
  | LRecv =>
      match cons s, chan s with
      | CWait, true => Some (mkState (queue s) false (prods s) CGot (puts s) (gots s))
      | _, _ => None
      end
  | LGet =>
      match cons s with
      | CGot => Some (mkState [] (chan s) (prods s) CWait (puts s) (gots s ++ [queue s]))
      | CWait => None
      end
  | LGetDirect =>
      Some (mkState [] (chan s) (prods s) (cons s) (puts s) (gots s ++ [queue s]))
  end.

Fixpoint exec (s : state) (l : list label) : option state :=
  match l with
  | [] => Some s
  | a :: r => match step s a with Some s' => exec s' r | None => None end
  end.

(* the values of the Puts of a schedule, in the order of their locked sections *)
Fixpoint put_order (l : list label) : list Z :=
  match l with
  | [] => []
  | LPutLock _ v :: r => v :: put_order r
  | _ :: r => put_order r
  end.

(* the steps that do not start a new Put and are not a stray Get: what
   remains to run when the producers stop producing *)
Definition loop_label (a : label) : Prop :=
  match a with LPutSend _ | LRecv | LGet => True | _ => False end.

(* an upper bound on the number of such steps that can still be taken *)
Definition measure (s : state) : nat :=
  3 * length (prods s) + (if chan s then 2 else 0) +
  (match cons s with CGot => 1 | CWait => 0 end).

(* ---- sequentialised operations, for the correspondence run: a whole Put, a
   non-blocking receive attempt and a Get, called from ONE goroutine on the
   real unbounded.Channel. *)
Definition seq_put (s : state) (p v : Z) : state * bool :=
  match step s (LPutLock p v) with
  | Some s1 => match step s1 (LPutSend p) with
               | Some s2 => (s2, chan s2)
               | None => (s1, chan s1)
               end
  | None => (s, chan s)
  end.

Definition seq_recv (s : state) : state * bool :=
  match step s LRecv with
  | Some s1 => (s1, true)
  | None => (s, false)
  end.

Definition seq_get (s : state) : state * list Z :=
  match step s LGet with
  | Some s1 => (s1, queue s)
  | None => match step s LGetDirect with
            | Some s1 => (s1, queue s)
            | None => (s, [])
            end
  end.
